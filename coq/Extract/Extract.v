(* Extraction of the executable models and spec oracles to OCaml.
   ExtrOcamlBasic only: bool/option/unit/list/prod/sumbool map to OCaml's; N, Z, positive,
   nat stay Coq datatypes (2^64 does not fit an OCaml int). No Extract Constant. *)
From Coq Require Import List NArith ZArith Bool.
From Coq Require Extraction ExtrOcamlBasic.
From GY Require Import Base.Outcome Model.Indent Spec.C20 Model.Number Model.Range Model.Enum.

Extraction Language OCaml.
Separate Extraction
  Z.add Z.mul Z.sub Z.opp Z.div_eucl Z.of_N Z.to_N Z.of_nat Z.to_nat N.of_nat N.to_nat
  N.add N.mul N.div_eucl Z.compare N.compare
  Indent.run Indent.NewWriter Indent.Bytes C20.spec_indent
  Number.Less Number.Equal Number.Int Number.String_ Number.ParseInt Number.ParseDecimal Number.asRangeInt
  Range.parseChildRanges Range.coalesce Enum.run_members.
