(* Outcomes of modelled Go functions.  Error text is never modelled. *)
From Coq Require Import List.
Inductive outcome (A : Type) : Type :=
| Ok (a : A)          (* normal return, nil error *)
| Err                 (* normal return, non-nil error *)
| Panic               (* the Go code would panic here *)
| Unmodelled.         (* input outside the alphabet the model of a library function covers *)
Arguments Ok {A} a.
Arguments Err {A}.
Arguments Panic {A}.
Arguments Unmodelled {A}.

Definition obind {A B} (x : outcome A) (f : A -> outcome B) : outcome B :=
  match x with
  | Ok a => f a
  | Err => Err
  | Panic => Panic
  | Unmodelled => Unmodelled
  end.
Notation "x <- e ;; f" := (obind e (fun x => f)) (at level 61, e at next level, right associativity).

Definition is_ok {A} (x : outcome A) : bool := match x with Ok _ => true | _ => false end.
Definition is_err {A} (x : outcome A) : bool := match x with Err => true | _ => false end.
