(* Model of goyang's identity resolution: pkg/yang/identity.go (identityDictionary with its owners table,
   identityKey, appendIfNotIn, addChildren, findIdentityBase, identityDictionary.find, resolveIdentities), with
   what it uses of node.go (getPrefix, FindModuleByPrefix, RootNode, module), modules.go (the two maps filled
   by Modules.add, FindModule, sortedModules), types.go (wholeModule; the identityref branch of Type.resolve)
   and yang.go (Module.Current / FullName / GetPrefix, Identity.modulePrefixedName).

   A schema is the list of modules and submodules that were loaded, in load order, reduced to what identity
   resolution reads: name, kind, most recent revision date ("" = none), prefix (the belongs-to prefix for a
   submodule), belongs-to name, import statements (prefix, module name, revision-date or "") and include
   statements (name, revision-date or "") in source order, and the top-level identity statements (name,
   base arguments) in source order.  Several revisions of one module may be loaded.

   Pointers.  A *Module is the record, compared by (kind, full name): Modules.add rejects a second node of
   the same kind, name and revision.  An *Identity is named by its declaration id "<full name of the
   (sub)module that declares it>:<identity name>" ([did_of]); this is exact when no (sub)module declares
   an identity name twice and no module shares its full name with a submodule.  The dictionary maps keys
   "<full name of the owning module revision>:<identity name>" to declarations; one declaration (of a
   submodule included by two revisions) can be filed under several keys.  Identity.Values is the side
   table [vals] from declaration ids to lists of declaration ids.

   Go maps.  ms.Modules / ms.SubModules are walked in the order of their keys (sortedModules), each module
   once; that is modelled exactly.  The two range loops over the identity dictionary each take an iteration
   oracle [list string -> list string]; the theorems quantify over all oracles that return a permutation.

   Recursion.  addChildren recurses on explicit fuel (depth); wholeModule's work list loop runs on fuel.
   [resolve_identities] returns None only when addChildren runs out of fuel, which Proofs/IdentityProofs.v
   shows impossible for the fuel it is given (number of dictionary entries + 1).

   Not modelled: module names containing '@' (a bare name that is also another module's full name), reading
   missing modules from disk (the check compares such runs with all-parsed ones), error text, the order of
   errors, earlier Process calls (resolveIdentities starts afresh).  Modules.include stops at the first
   missing import/include of a module and leaves the later include statements unresolved; the model
   resolves every include that can be resolved and reports the missing ones ([ErrLink]) -- the difference
   is only visible in runs that report an error anyway. *)
From Coq Require Import Ascii String List Bool Arith.
Import ListNotations.
Local Open Scope string_scope.
Local Open Scope list_scope.

Require Extraction.
Extraction Blacklist String.

(* ------------------------------------------------------------------ schema *)

Record ident := Ident {
  i_name : string;
  i_bases : list string          (* arguments of the base statements, source order *)
}.

Record module := Module {
  m_name : string;
  m_sub : bool;                                   (* Kind() == "submodule" *)
  m_rev : string;                                 (* Current(): the most recent revision date, "" if none *)
  m_prefix : string;                              (* GetPrefix(): prefix statement, or belongs-to's prefix *)
  m_belongs : string;                             (* BelongsTo.Name (submodules) *)
  m_imports : list (string * string * string);    (* (Prefix.Name, Name, RevisionDate.Name or "") *)
  m_includes : list (string * string);            (* (Name, RevisionDate.Name or "") *)
  m_idents : list ident
}.

Definition schema := list module.
Definition key := string.

Definition str_ltb (a b : string) : bool :=
  match String.compare a b with Lt => true | _ => false end.

Definition with_rev (n r : string) : string := (n ++ "@" ++ r)%string.

(* yang.go: Module.FullName *)
Definition full_name (m : module) : string :=
  if m_rev m =? "" then m_name m else with_rev (m_name m) (m_rev m).

(* pointer equality of *Module *)
Definition same_mod (a b : module) : bool :=
  Bool.eqb (m_sub a) (m_sub b) && (full_name a =? full_name b).

(* ------------------------------------------------------------------ ms.Modules / ms.SubModules *)

(* Modules.add files a module under its full name (when that differs from the name) and under the bare name
   "if o == nil || o.FullName() < fullName".  [latest]: the entry under the bare name n after all loads. *)
Definition latest (sc : schema) (sub : bool) (n : string) : option module :=
  fold_left (fun best m =>
               if Bool.eqb (m_sub m) sub && (m_name m =? n) then
                 match best with
                 | None => Some m
                 | Some o => if str_ltb (full_name o) (full_name m) then Some m else best
                 end
               else best) sc None.

(* ms.Modules[k] (sub = false) / ms.SubModules[k] (sub = true) *)
Definition reg_get (sc : schema) (sub : bool) (k : string) : option module :=
  match latest sc sub k with
  | Some m => Some m
  | None => find (fun m => Bool.eqb (m_sub m) sub && negb (m_rev m =? "") && (full_name m =? k)) sc
  end.

(* Modules.FindModule for an import (sub = false) or include (sub = true) of n with revision-date date *)
Definition find_module (sc : schema) (sub : bool) (n date : string) : option module :=
  match reg_get sc sub (if date =? "" then n else with_rev n date) with
  | Some m => Some m
  | None => reg_get sc sub n
  end.

(* the keys of the map *)
Definition reg_keys (sc : schema) (sub : bool) : list string :=
  flat_map (fun m => if Bool.eqb (m_sub m) sub
                     then m_name m :: (if m_rev m =? "" then [] else [full_name m])
                     else []) sc.

Fixpoint insert_sorted (less : string -> string -> bool) (x : string) (l : list string) : list string :=
  match l with
  | [] => [x]
  | y :: r => if less x y then x :: l else y :: insert_sorted less x r
  end.

(* sort.SliceStable / sort.Strings: a stable sort (insertion sort is the reference stable sort) *)
Definition stable_sort (less : string -> string -> bool) (l : list string) : list string :=
  fold_right (insert_sorted less) [] l.

Definition is_seen (x : module) (seen : list module) : bool := existsb (same_mod x) seen.

(* "if visited[mod] { continue }" *)
Fixpoint visit_once (seen l : list module) : list module :=
  match l with
  | [] => []
  | m :: r => if is_seen m seen then visit_once seen r else m :: visit_once (m :: seen) r
  end.

(* sortedModules(map) followed by the visited test: every module of the map once, in the order of the keys *)
Definition sorted_modules (sc : schema) (sub : bool) : list module :=
  visit_once []
    (flat_map (fun k => match reg_get sc sub k with Some m => [m] | None => [] end)
              (stable_sort str_ltb (reg_keys sc sub))).

(* node.go: module(n) for a node whose RootNode is m *)
Definition owner (sc : schema) (m : module) : option module :=
  if m_sub m then reg_get sc false (m_belongs m) else Some m.

(* the module name modulePrefixedName uses *)
Definition owner_name (sc : schema) (m : module) : string :=
  match owner sc m with Some o => m_name o | None => m_name m end.

(* ------------------------------------------------------------------ wholeModule *)

(* the in.Module of the include statements of m that Modules.include resolved *)
Definition included (sc : schema) (m : module) : list module :=
  flat_map (fun nd => match find_module sc true (fst nd) (snd nd) with Some s => [s] | None => [] end)
           (m_includes m).

(* the loop "for i := 0; i < len(mods); i++": an element already seen is deleted, otherwise it is kept,
   marked, and its not yet seen includes are appended *)
Fixpoint whole_loop (fuel : nat) (sc : schema) (seen queue : list module) : list module :=
  match fuel with
  | O => []
  | S f =>
    match queue with
    | [] => []
    | x :: q =>
      if is_seen x seen then whole_loop f sc seen q
      else x :: whole_loop f sc (x :: seen)
                  (q ++ filter (fun y => negb (is_seen y (x :: seen))) (included sc x))
    end
  end.

Definition total_includes (sc : schema) : nat :=
  fold_right (fun m n => length (m_includes m) + n) 0 sc.

Definition whole_fuel (sc : schema) (root : module) : nat :=
  3 + length (m_includes root) + total_includes sc + length sc.

Definition whole_module (sc : schema) (root : module) : list module :=
  let start := if m_sub root
               then match reg_get sc false (m_belongs root) with Some o => [root; o] | None => [root] end
               else [root] in
  whole_loop (whole_fuel sc root) sc [] start.

(* ------------------------------------------------------------------ the dictionary and the owners table *)

Definition entry := (module * ident)%type.           (* resolvedIdentity{Module, Identity} *)
Definition dict := list (key * entry).

Fixpoint dict_get {A} (d : list (key * A)) (k : key) : option A :=
  match d with
  | [] => None
  | (k', e) :: r => if k' =? k then Some e else dict_get r k
  end.

(* dict[k] = e *)
Fixpoint dict_set {A} (d : list (key * A)) (k : key) (e : A) : list (key * A) :=
  match d with
  | [] => [(k, e)]
  | (k', e') :: r => if k' =? k then (k, e) :: r else (k', e') :: dict_set r k e
  end.

Definition dict_keys {A} (d : list (key * A)) : list key := map fst d.

(* the owner field of the resolvedIdentity stored under each key, as a table of its own *)
Definition key_owners := list (key * module).

Definition mk_key (modname name : string) : key := (modname ++ ":" ++ name)%string.

(* identityKey(owner, name) *)
Definition identity_key (o : module) (name : string) : key := mk_key (full_name o) name.

(* the name the model gives the *Identity declared as i in (sub)module m *)
Definition did_of (e : entry) : key := mk_key (full_name (fst e)) (i_name (snd e)).

Definition owners_table := list (module * list module).          (* map[*Module][]*Module *)

Fixpoint owners_get (t : owners_table) (m : module) : list module :=
  match t with
  | [] => []
  | (m', l) :: r => if same_mod m' m then l else owners_get r m
  end.

Definition owners_has (t : owners_table) (m : module) : bool :=
  existsb (fun ml => same_mod (fst ml) m) t.

Fixpoint owners_set (t : owners_table) (m : module) (l : list module) : owners_table :=
  match t with
  | [] => [(m, l)]
  | (m', l') :: r => if same_mod m' m then (m, l) :: r else (m', l') :: owners_set r m l
  end.

Definition append_module_if_not_in (ms : list module) (chk : module) : list module :=
  if is_seen chk ms then ms else ms ++ [chk].

Definition pass1_state := (dict * owners_table)%type.

(* the module the identities of m are filed under while the whole module of mod is registered *)
Definition owner_for (sc : schema) (md m : module) : module :=
  if m_sub m && negb (m_belongs m =? m_name md)
  then match reg_get sc false (m_belongs m) with Some o => o | None => m end
  else md.

Definition register_part (sc : schema) (md : module) (st : pass1_state) (m : module) : pass1_state :=
  let o := owner_for sc md m in
  (fold_left (fun d i => dict_set d (identity_key o (i_name i)) (m, i)) (m_idents m) (fst st),
   owners_set (snd st) m (append_module_if_not_in (owners_get (snd st) m) o)).

Definition register_module (sc : schema) (st : pass1_state) (md : module) : pass1_state :=
  fold_left (register_part sc md) (whole_module sc md) st.

(* "A submodule that no module includes looks into the module it belongs to" *)
Definition lone_submodule (sc : schema) (t : owners_table) (m : module) : owners_table :=
  if owners_has t m then t
  else owners_set t m [match reg_get sc false (m_belongs m) with Some o => o | None => m end].

(* resolvedIdentity.owner: written by the same statements that write the dictionary *)
Definition register_part_owner (sc : schema) (md : module) (ko : key_owners) (m : module) : key_owners :=
  let o := owner_for sc md m in
  fold_left (fun t i => dict_set t (identity_key o (i_name i)) o) (m_idents m) ko.

Definition pass1_owner (sc : schema) : key_owners :=
  fold_left (fun t md => fold_left (register_part_owner sc md) (whole_module sc md) t)
            (sorted_modules sc false) [].

(* first part of resolveIdentities *)
Definition pass1 (sc : schema) : pass1_state :=
  let st := fold_left (register_module sc) (sorted_modules sc false) ([], []) in
  (fst st, fold_left (lone_submodule sc) (sorted_modules sc true) (snd st)).

(* ------------------------------------------------------------------ findIdentityBase *)

(* strings.SplitN(s, ":", 2) *)
Fixpoint split_colon (s : string) : option (string * string) :=
  match s with
  | EmptyString => None
  | String c r =>
    if Ascii.eqb c ":"%char then Some ("", r)
    else match split_colon r with
         | Some (a, b) => Some (String c a, b)
         | None => None
         end
  end.

Definition get_prefix (s : string) : string * string :=
  match split_colon s with Some p => p | None => ("", s) end.

(* FindModuleByPrefix's loop over mod.Import: the first import statement with that prefix *)
Fixpoint import_target (imps : list (string * string * string)) (pfx : string) : option (string * string) :=
  match imps with
  | [] => None
  | (p, n, date) :: r => if pfx =? p then Some (n, date) else import_target r pfx
  end.

(* identityDictionary.find over the owners list *)
Fixpoint dict_find (d : dict) (owners : list module) (name : string) : option entry :=
  match owners with
  | [] => None
  | o :: r => match dict_get d (identity_key o name) with
              | Some e => Some e
              | None => dict_find d r name
              end
  end.

(* mod.findIdentityBaseIn(owner, baseStr): the base identity, None = an error is returned.  A local name is
   looked up in owner (when given) first *)
Definition find_identity_base_in (sc : schema) (d : dict) (t : owners_table) (owner : option module)
           (md : module) (base_str : string) : option entry :=
  let (base_prefix, base_name) := get_prefix base_str in
  if (base_prefix =? "") || (base_prefix =? m_prefix md) then
    match match owner with Some o => dict_get d (identity_key o base_name) | None => None end with
    | Some e => Some e
    | None => dict_find d (owners_get t md) base_name
    end
  else
    match import_target (m_imports md) base_prefix with
    | None => None
    | Some (n, date) =>
      match find_module sc false n date with
      | None => None
      | Some ext => dict_find d (owners_get t ext) base_name
      end
    end.

(* mod.findIdentityBase(baseStr) *)
Definition find_identity_base (sc : schema) (d : dict) (t : owners_table) (md : module) (base_str : string)
  : option entry := find_identity_base_in sc d t None md base_str.

(* ------------------------------------------------------------------ Values, appendIfNotIn, addChildren *)

Definition vals := key -> list key.                   (* Identity.Values, by declaration id *)
Definition vempty : vals := fun _ => [].
Definition vset (V : vals) (k : key) (l : list key) : vals :=
  fun x => if x =? k then l else V x.

Fixpoint append_if_not_in (ids : list key) (chk : key) : list key :=
  match ids with
  | [] => [chk]
  | id :: r => if id =? chk then ids else id :: append_if_not_in r chk
  end.

Definition obind_list (f : list key -> option (list key)) (a : option (list key)) : option (list key) :=
  match a with Some l => f l | None => None end.

Fixpoint add_children (fuel : nat) (V : vals) (r : key) (ids : list key) : option (list key) :=
  match fuel with
  | O => None
  | S f =>
    let n := length ids in
    let ids1 := append_if_not_in ids r in
    if Nat.eqb (length ids1) n then Some ids1
    else fold_left (fun acc ch => obind_list (add_children f V ch) acc) (V r) (Some ids1)
  end.

(* "for _, j := range i.Identity.Values { newValues = addChildren(j, newValues) }" *)
Definition close (fuel : nat) (V : vals) (i : key) : option (list key) :=
  fold_left (fun acc j => obind_list (add_children fuel V j) acc) (V i) (Some []).

(* ------------------------------------------------------------------ the sort *)

(* the declaration with that id *)
Definition decl_get (d : dict) (x : key) : option entry :=
  find (fun e => did_of e =? x) (map snd d).

(* what the less function compares: Name, modulePrefixedName(), RootNode(..).FullName() *)
Definition sort_key (sc : schema) (d : dict) (x : key) : list string :=
  match decl_get d x with
  | Some (m, i) => [i_name i; mk_key (owner_name sc m) (i_name i); full_name m]
  | None => []
  end.

(* "if a != b { return a < b }" down the list *)
Fixpoint lex_ltb (a b : list string) : bool :=
  match a, b with
  | [], [] => false
  | [], _ :: _ => true
  | _ :: _, [] => false
  | x :: a', y :: b' => if negb (x =? y) then str_ltb x y else lex_ltb a' b'
  end.

Definition id_less (sc : schema) (d : dict) (j k : key) : bool := lex_ltb (sort_key sc d j) (sort_key sc d k).

Definition mem (x : key) (l : list key) : bool := existsb (String.eqb x) l.

(* ------------------------------------------------------------------ resolveIdentities *)

Inductive err :=
| ErrLink (m target : string)      (* Modules.include: no such module / submodule *)
| ErrBase (i : key) (b : string)   (* findIdentityBase failed for base b of the identity declared as i *)
| ErrCycle (i : key).              (* identity i is derived from itself *)

Definition state := (vals * list err)%type.

(* second loop: direct children.  ord2 (keys) is the iteration order of the dictionary *)
Definition pass2_base (sc : schema) (d : dict) (t : owners_table) (e : entry) (o : option module)
           (st : state) (b : string) : state :=
  match find_identity_base_in sc d t o (fst e) b with
  | None => (fst st, snd st ++ [ErrBase (did_of e) b])
  | Some be => (vset (fst st) (did_of be) (fst st (did_of be) ++ [did_of e]), snd st)
  end.

Definition pass2_step (sc : schema) (d : dict) (t : owners_table) (ko : key_owners) (st : state) (k : key)
  : state :=
  match dict_get d k with
  | None => st
  | Some e => fold_left (pass2_base sc d t e (dict_get ko k)) (i_bases (snd e)) st     (* i.owner *)
  end.

Definition pass2 (sc : schema) (d : dict) (t : owners_table) (ko : key_owners) (order : list key) : state :=
  fold_left (pass2_step sc d t ko) order (vempty, []).

(* third loop: closure, sort, self-derivation test *)
Definition pass3_step (fuel : nat) (sc : schema) (d : dict) (ost : option state) (k : key) : option state :=
  match ost with
  | None => None
  | Some (V, errs) =>
    match dict_get d k with
    | None => Some (V, errs)
    | Some e =>
      let i := did_of e in
      match close fuel V i with
      | None => None
      | Some nv =>
        let nv' := stable_sort (id_less sc d) nv in
        Some (vset V i nv', if mem i nv' then errs ++ [ErrCycle i] else errs)
      end
    end
  end.

Definition pass3 (fuel : nat) (sc : schema) (d : dict) (order : list key) (st : state) : option state :=
  fold_left (pass3_step fuel sc d) order (Some st).

(* Modules.process: include/import statements of every loaded module and of the submodules they
   include that name nothing loaded *)
Definition link_errors_of (sc : schema) (m : module) : list err :=
  flat_map (fun nd => match find_module sc true (fst nd) (snd nd) with
                      | Some _ => [] | None => [ErrLink (m_name m) (fst nd)] end)
           (m_includes m) ++
  flat_map (fun pnd => match find_module sc false (snd (fst pnd)) (snd pnd) with
                       | Some _ => [] | None => [ErrLink (m_name m) (snd (fst pnd))] end)
           (m_imports m).

Definition link_errors (sc : schema) : list err :=
  flat_map (fun md => flat_map (link_errors_of sc) (whole_module sc md)) (sorted_modules sc false).

Record result := Result {
  r_dict : dict;
  r_owners : owners_table;
  r_key_owners : key_owners;
  r_values : vals;
  r_errors : list err
}.

Definition resolve_identities (ord2 ord3 : list string -> list string) (sc : schema) : option result :=
  let (d, t) := pass1 sc in
  let ko := pass1_owner sc in
  let ks := dict_keys d in
  let st2 := pass2 sc d t ko (ord2 ks) in
  match pass3 (length ks + 1) sc d (ord3 ks) st2 with
  | None => None                                       (* out of fuel: excluded by resolve_total *)
  | Some (V, errs) => Some (Result d t ko V (link_errors sc ++ errs))
  end.

(* what a caller reads: per dictionary key the declaration filed there and its Values *)
Definition values_list (r : result) : list (key * key * list key) :=
  map (fun ke => (fst ke, did_of (snd ke), r_values r (did_of (snd ke)))) (r_dict r).

(* types.go, Type.resolve, case Yidentityref: root.findIdentityBase(t.IdentityBase.Name) for a type
   statement inside the (sub)module with that kind and full name; the YangType keeps the identity, so
   reads its Values *)
Definition identityref_base (sc : schema) (r : result) (sub : bool) (fulln : string) (base_str : string)
  : option key :=
  match find (fun m => Bool.eqb (m_sub m) sub && (full_name m =? fulln)) sc with
  | None => None
  | Some md => match find_identity_base sc (r_dict r) (r_owners r) md base_str with
               | Some e => Some (did_of e)
               | None => None
               end
  end.

(* ------------------------------------------------------------------ some iteration oracles (execution) *)

Definition ord_id (l : list string) : list string := l.
Definition ord_rev (l : list string) : list string := rev l.
Fixpoint ord_rot (n : nat) (l : list string) : list string :=
  match n with
  | O => l
  | S n' => match l with [] => [] | x :: r => ord_rot n' (r ++ [x]) end
  end.
(* interleave from both ends *)
Fixpoint ord_zip (fuel : nat) (l : list string) : list string :=
  match fuel with
  | O => l
  | S f =>
    match l with
    | [] => []
    | x :: r => match rev r with [] => [x] | y :: r' => y :: x :: ord_zip f (rev r') end
    end
  end.
Definition oracle (n : nat) (l : list string) : list string :=
  match n with
  | 0 => ord_id l
  | 1 => ord_rev l
  | 2 => ord_zip (length l) l
  | S (S (S k)) => ord_rot (S k) l
  end.
