(* Model of goyang's identity resolution: pkg/yang/identity.go (identityDictionary, appendIfNotIn,
   addChildren, findIdentityBase, resolveIdentities), with what it uses of node.go (getPrefix,
   FindModuleByPrefix, RootNode, module), types.go (wholeModule; the identityref branch of
   Type.resolve) and yang.go (Module.GetPrefix, Identity.modulePrefixedName).

   A schema is what Modules.Parse left in ms.Modules / ms.SubModules, reduced to what identity resolution
   reads: per module its name, kind, prefix (the belongs-to prefix for a submodule), belongs-to name,
   import statements (prefix, module name) in source order, include statements in source order, and its
   top-level identity statements (name, base arguments) in source order.

   Pointers.  A *Module is the record itself, compared by (kind, name) -- the two maps of Modules hold one
   module per name.  An *Identity is identified by its dictionary key "modulename:identityname": every
   pointer that resolveIdentities ever stores in a Values slice is the Identity field of a dictionary entry
   (base.Identity and i.Identity both come out of the dictionary), and the dictionary holds one entry per
   key, so pointer equality in appendIfNotIn is key equality.  The Values field is the side table [vals].

   Go maps.  The three range loops over maps (ms.Modules; the identity dictionary, twice) each take an
   iteration oracle [list string -> list string]; the theorems quantify over all oracles that return a
   permutation of their argument.  Execution may use any (the driver offers several).

   Recursion.  addChildren recurses on explicit fuel (depth); wholeModule's work list loop runs on fuel
   too.  [resolve_identities] returns None only when addChildren runs out of fuel, which
   Proofs/IdentityProofs.v shows impossible for the fuel it is given (number of identities + 1).

   Not modelled: revisions (FindModule's name@revision keys: one module per name is assumed), reading
   missing modules from disk (the harness runs in an empty directory), error text, the order of errors.
   Modules.include stops at the first missing import/include of a module and leaves the later include
   statements unresolved; the model resolves every include that can be resolved and reports the missing
   ones ([ErrLink]) -- the difference is only visible in runs that report an error anyway. *)
From Coq Require Import Ascii String List Bool Arith.
Import ListNotations.
Local Open Scope string_scope.
Local Open Scope list_scope.

Require Extraction.
Extraction Blacklist String.

(* ------------------------------------------------------------------ schema *)

Record ident := Ident {
  i_name : string;
  i_bases : list string          (* arguments of the base statements, source order *)
}.

Record module := Module {
  m_name : string;
  m_sub : bool;                          (* Kind() == "submodule" *)
  m_prefix : string;                     (* GetPrefix(): prefix statement, or belongs-to's prefix *)
  m_belongs : string;                    (* BelongsTo.Name (submodules) *)
  m_imports : list (string * string);    (* (Prefix.Name, Name) *)
  m_includes : list string;
  m_idents : list ident
}.

Definition schema := list module.
Definition key := string.

(* ms.Modules[n] (sub = false) / ms.SubModules[n] (sub = true) *)
Definition find_mod (sc : schema) (sub : bool) (n : string) : option module :=
  find (fun m => Bool.eqb (m_sub m) sub && (m_name m =? n)) sc.

(* node.go: module(n) for a node whose RootNode is m *)
Definition owner (sc : schema) (m : module) : option module :=
  if m_sub m then find_mod sc false (m_belongs m) else Some m.

(* the module name modulePrefixedName / findIdentityBase's local branch use: the owner's, or the
   submodule's own when its module is not loaded *)
Definition owner_name (sc : schema) (m : module) : string :=
  match owner sc m with Some o => m_name o | None => m_name m end.

Definition mk_key (modname name : string) : key := (modname ++ ":" ++ name)%string.

(* yang.go: Identity.modulePrefixedName for an identity declared in m *)
Definition key_of (sc : schema) (m : module) (i : ident) : key := mk_key (owner_name sc m) (i_name i).

(* ------------------------------------------------------------------ wholeModule *)

Definition same_mod (a b : module) : bool := Bool.eqb (m_sub a) (m_sub b) && (m_name a =? m_name b).
Definition is_seen (x : module) (seen : list module) : bool := existsb (same_mod x) seen.

(* the in.Module of the include statements of m that Modules.include resolved *)
Definition included (sc : schema) (m : module) : list module :=
  flat_map (fun n => match find_mod sc true n with Some s => [s] | None => [] end) (m_includes m).

(* the loop "for i := 0; i < len(mods); i++": an element already seen is deleted, otherwise it is kept,
   marked, and its not yet seen includes are appended *)
Fixpoint whole_loop (fuel : nat) (sc : schema) (seen queue : list module) : list module :=
  match fuel with
  | O => []
  | S f =>
    match queue with
    | [] => []
    | x :: q =>
      if is_seen x seen then whole_loop f sc seen q
      else x :: whole_loop f sc (x :: seen)
                  (q ++ filter (fun y => negb (is_seen y (x :: seen))) (included sc x))
    end
  end.

Definition total_includes (sc : schema) : nat :=
  fold_right (fun m n => length (m_includes m) + n) 0 sc.

Definition whole_fuel (sc : schema) (root : module) : nat :=
  3 + length (m_includes root) + total_includes sc + length sc.

Definition whole_module (sc : schema) (root : module) : list module :=
  let start := if m_sub root
               then match find_mod sc false (m_belongs root) with Some o => [root; o] | None => [root] end
               else [root] in
  whole_loop (whole_fuel sc root) sc [] start.

(* ------------------------------------------------------------------ the dictionary (a Go map) *)

Definition entry := (module * ident)%type.           (* resolvedIdentity{Module, Identity} *)
Definition dict := list (key * entry).

Fixpoint dict_get (d : dict) (k : key) : option entry :=
  match d with
  | [] => None
  | (k', e) :: r => if k' =? k then Some e else dict_get r k
  end.

(* dict[k] = e *)
Fixpoint dict_set (d : dict) (k : key) (e : entry) : dict :=
  match d with
  | [] => [(k, e)]
  | (k', e') :: r => if k' =? k then (k, e) :: r else (k', e') :: dict_set r k e
  end.

Definition dict_keys (d : dict) : list key := map fst d.

Definition module_names (sc : schema) : list string :=
  map m_name (filter (fun m => negb (m_sub m)) sc).

Definition add_module_idents (sc : schema) (d : dict) (m : module) : dict :=
  fold_left (fun d i => dict_set d (key_of sc m i) (m, i)) (m_idents m) d.

(* first loop of resolveIdentities; ordm is the iteration order of ms.Modules *)
Definition build_dict (ordm : list string -> list string) (sc : schema) : dict :=
  fold_left (fun d n =>
               match find_mod sc false n with
               | None => d
               | Some md => fold_left (add_module_idents sc) (whole_module sc md) d
               end)
            (ordm (module_names sc)) [].

(* ------------------------------------------------------------------ findIdentityBase *)

(* strings.SplitN(s, ":", 2) *)
Fixpoint split_colon (s : string) : option (string * string) :=
  match s with
  | EmptyString => None
  | String c r =>
    if Ascii.eqb c ":"%char then Some ("", r)
    else match split_colon r with
         | Some (a, b) => Some (String c a, b)
         | None => None
         end
  end.

Definition get_prefix (s : string) : string * string :=
  match split_colon s with Some p => p | None => ("", s) end.

(* FindModuleByPrefix's loop over mod.Import followed by Modules.FindModule *)
Fixpoint import_target (imps : list (string * string)) (pfx : string) : option string :=
  match imps with
  | [] => None
  | (p, n) :: r => if pfx =? p then Some n else import_target r pfx
  end.

Definition has_key (d : dict) (k : key) : bool :=
  match dict_get d k with Some _ => true | None => false end.

(* mod.findIdentityBase(baseStr): the key of the base identity, None = an error is returned *)
Definition find_identity_base (sc : schema) (d : dict) (md : module) (base_str : string) : option key :=
  let (base_prefix, base_name) := get_prefix base_str in
  if (base_prefix =? "") || (base_prefix =? m_prefix md) then
    let k := mk_key (owner_name sc md) base_name in
    if has_key d k then Some k else None
  else
    match import_target (m_imports md) base_prefix with
    | None => None
    | Some n =>
      match find_mod sc false n with
      | None => None
      | Some ext =>                       (* module(extmod) = extmod: ms.Modules holds modules only *)
        let k := mk_key (m_name ext) base_name in
        if has_key d k then Some k else None
      end
    end.

(* ------------------------------------------------------------------ Values, appendIfNotIn, addChildren *)

Definition vals := key -> list key.                   (* Identity.Values of the identity with that key *)
Definition vempty : vals := fun _ => [].
Definition vset (V : vals) (k : key) (l : list key) : vals :=
  fun x => if x =? k then l else V x.

Fixpoint append_if_not_in (ids : list key) (chk : key) : list key :=
  match ids with
  | [] => [chk]
  | id :: r => if id =? chk then ids else id :: append_if_not_in r chk
  end.

Definition obind_list (f : list key -> option (list key)) (a : option (list key)) : option (list key) :=
  match a with Some l => f l | None => None end.

Fixpoint add_children (fuel : nat) (V : vals) (r : key) (ids : list key) : option (list key) :=
  match fuel with
  | O => None
  | S f =>
    let n := length ids in
    let ids1 := append_if_not_in ids r in
    if Nat.eqb (length ids1) n then Some ids1
    else fold_left (fun acc ch => obind_list (add_children f V ch) acc) (V r) (Some ids1)
  end.

(* "for _, j := range i.Identity.Values { newValues = addChildren(j, newValues) }" *)
Definition close (fuel : nat) (V : vals) (i : key) : option (list key) :=
  fold_left (fun acc j => obind_list (add_children fuel V j) acc) (V i) (Some []).

(* ------------------------------------------------------------------ the sort *)

Definition str_ltb (a b : string) : bool :=
  match String.compare a b with Lt => true | _ => false end.

Definition ident_name (d : dict) (k : key) : string :=
  match dict_get d k with Some (_, i) => i_name i | None => "" end.

(* the less function handed to sort.SliceStable; modulePrefixedName of a dictionary identity is its key *)
Definition id_less (d : dict) (j k : key) : bool :=
  if negb (ident_name d j =? ident_name d k) then str_ltb (ident_name d j) (ident_name d k)
  else str_ltb j k.

(* sort.SliceStable: a stable sort (insertion sort is the reference stable sort) *)
Fixpoint insert_sorted (less : key -> key -> bool) (x : key) (l : list key) : list key :=
  match l with
  | [] => [x]
  | y :: r => if less x y then x :: l else y :: insert_sorted less x r
  end.

Definition stable_sort (less : key -> key -> bool) (l : list key) : list key :=
  fold_right (insert_sorted less) [] l.

Definition mem (x : key) (l : list key) : bool := existsb (String.eqb x) l.

(* ------------------------------------------------------------------ resolveIdentities *)

Inductive err :=
| ErrLink (m target : string)      (* Modules.include: no such module / submodule *)
| ErrBase (i : key) (b : string)   (* findIdentityBase failed for base b of identity i *)
| ErrCycle (i : key).              (* identity i is derived from itself *)

Definition state := (vals * list err)%type.

(* second loop: direct children.  ord2 (keys) is the iteration order of the dictionary *)
Definition pass2_base (sc : schema) (d : dict) (md : module) (k : key) (st : state) (b : string) : state :=
  match find_identity_base sc d md b with
  | None => (fst st, snd st ++ [ErrBase k b])
  | Some bk => (vset (fst st) bk (fst st bk ++ [k]), snd st)
  end.

Definition pass2_step (sc : schema) (d : dict) (st : state) (k : key) : state :=
  match dict_get d k with
  | None => st
  | Some (md, i) => fold_left (pass2_base sc d md k) (i_bases i) st
  end.

Definition pass2 (sc : schema) (d : dict) (order : list key) : state :=
  fold_left (pass2_step sc d) order (vempty, []).

(* third loop: closure, sort, self-derivation test *)
Definition pass3_step (fuel : nat) (d : dict) (ost : option state) (i : key) : option state :=
  match ost with
  | None => None
  | Some (V, errs) =>
    match dict_get d i with
    | None => Some (V, errs)
    | Some _ =>
      match close fuel V i with
      | None => None
      | Some nv =>
        let nv' := stable_sort (id_less d) nv in
        Some (vset V i nv', if mem i nv' then errs ++ [ErrCycle i] else errs)
      end
    end
  end.

Definition pass3 (fuel : nat) (d : dict) (order : list key) (st : state) : option state :=
  fold_left (pass3_step fuel d) order (Some st).

(* Modules.process: include/import statements of every loaded module and of the submodules they
   include that name nothing loaded *)
Definition link_errors_of (sc : schema) (m : module) : list err :=
  flat_map (fun n => match find_mod sc true n with Some _ => [] | None => [ErrLink (m_name m) n] end)
           (m_includes m) ++
  flat_map (fun pn => match find_mod sc false (snd pn) with Some _ => [] | None => [ErrLink (m_name m) (snd pn)] end)
           (m_imports m).

Definition link_errors (sc : schema) : list err :=
  flat_map (fun n => match find_mod sc false n with
                     | None => []
                     | Some md => flat_map (link_errors_of sc) (whole_module sc md)
                     end) (module_names sc).

Record result := Result {
  r_dict : dict;
  r_values : vals;
  r_errors : list err
}.

Definition resolve_identities (ordm ord2 ord3 : list string -> list string) (sc : schema) : option result :=
  let d := build_dict ordm sc in
  let ks := dict_keys d in
  let st2 := pass2 sc d (ord2 ks) in
  match pass3 (length ks + 1) d (ord3 ks) st2 with
  | None => None                                       (* out of fuel: excluded by resolve_total *)
  | Some (V, errs) => Some (Result d V (link_errors sc ++ errs))
  end.

(* what a caller reads: the Values of every dictionary identity *)
Definition values_list (r : result) : list (key * list key) :=
  map (fun k => (k, r_values r k)) (dict_keys (r_dict r)).

(* types.go, Type.resolve, case Yidentityref: root.findIdentityBase(t.IdentityBase.Name) for a type
   statement inside the (sub)module named n; the YangType keeps the identity, so reads its Values *)
Definition identityref_base (sc : schema) (d : dict) (sub : bool) (n : string) (base_str : string) : option key :=
  match find_mod sc sub n with
  | None => None
  | Some md => find_identity_base sc d md base_str
  end.

(* ------------------------------------------------------------------ some iteration oracles (execution) *)

Definition ord_id (l : list string) : list string := l.
Definition ord_rev (l : list string) : list string := rev l.
Fixpoint ord_rot (n : nat) (l : list string) : list string :=
  match n with
  | O => l
  | S n' => match l with [] => [] | x :: r => ord_rot n' (r ++ [x]) end
  end.
(* interleave from both ends *)
Fixpoint ord_zip (fuel : nat) (l : list string) : list string :=
  match fuel with
  | O => l
  | S f =>
    match l with
    | [] => []
    | x :: r => match rev r with [] => [x] | y :: r' => y :: x :: ord_zip f (rev r') end
    end
  end.
Definition oracle (n : nat) (l : list string) : list string :=
  match n with
  | 0 => ord_id l
  | 1 => ord_rev l
  | 2 => ord_zip (length l) l
  | S (S (S k)) => ord_rot (S k) l
  end.
