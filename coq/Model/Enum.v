(* Model of EnumType (Set, SetNext) in types_builtin.go and of the member loop in
   Type.resolve (types.go)  (no proofs in this file).  Go maps are association lists
   (ToInt: insert only when absent; ToString: overwrite). *)
From Coq Require Import List NArith ZArith Bool.
Import ListNotations.
From GY Require Import Base.Outcome Model.Number.
Local Open Scope Z_scope.

Definition MaxEnum : Z := 2 ^ 31 - 1.
Definition MinEnum : Z := - 2 ^ 31.
Definition MaxBitfieldSize : Z := 2 ^ 32.

Record EnumType := { e_last : Z; e_min : Z; e_max : Z; e_unique : bool;
                     ToString : list (Z * str); ToInt : list (str * Z) }.

Definition NewEnumType : EnumType :=
  {| e_last := -1; e_min := MinEnum; e_max := MaxEnum; e_unique := true; ToString := []; ToInt := [] |}.
Definition NewBitfield : EnumType :=
  {| e_last := -1; e_min := 0; e_max := MaxBitfieldSize - 1; e_unique := false; ToString := []; ToInt := [] |}.

Fixpoint lookup_s (k : str) (m : list (str * Z)) : option Z :=
  match m with [] => None | (k', v) :: r => if str_eqb k k' then Some v else lookup_s k r end.
Fixpoint lookup_z (k : Z) (m : list (Z * str)) : option str :=
  match m with [] => None | (k', v) :: r => if k =? k' then Some v else lookup_z k r end.
Fixpoint update_z (k : Z) (v : str) (m : list (Z * str)) : list (Z * str) :=
  match m with
  | [] => [(k, v)]
  | (k', v') :: r => if k =? k' then (k, v) :: r else (k', v') :: update_z k v r
  end.

Definition isSome {A} (o : option A) : bool := match o with Some _ => true | None => false end.

(* Set: Err leaves e unchanged *)
Definition Set_ (e : EnumType) (name : str) (value : Z) : outcome EnumType :=
  if isSome (lookup_s name (ToInt e)) then Err
  else if e_unique e && isSome (lookup_z value (ToString e)) then Err
  else if value <? e_min e then Err
  else if value >? e_max e then Err
  else
    let ts := update_z value name (ToString e) in
    let ti := ToInt e ++ [(name, value)] in
    let last := if (Nat.eqb (length ti) 1) || (value >=? e_last e) then value else e_last e in
    Ok {| e_last := last; e_min := e_min e; e_max := e_max e; e_unique := e_unique e;
          ToString := ts; ToInt := ti |}.

Definition SetNext (e : EnumType) (name : str) : outcome EnumType :=
  if e_last e >=? e_max e then Err else Set_ e name (wrap64 (e_last e + 1)).

(* the closure [set] in Type.resolve *)
Definition set_member (e : EnumType) (name : str) (value : option str) : outcome EnumType :=
  match value with
  | None => SetNext e name
  | Some s => n <- ParseInt s ;; i <- Int n ;; Set_ e name i
  end.

(* the loop: an error is recorded (index of the member) and the loop goes on *)
Fixpoint members_loop (e : EnumType) (idx : nat) (ms : list (str * option str))
  : outcome (EnumType * list nat) :=
  match ms with
  | [] => Ok (e, [])
  | (name, v) :: rest =>
      match set_member e name v with
      | Ok e' => members_loop e' (S idx) rest
      | Err => r <- members_loop e (S idx) rest ;; Ok (fst r, idx :: snd r)
      | Panic => Panic
      | Unmodelled => Unmodelled
      end
  end.

Definition run_members (bits : bool) (ms : list (str * option str)) : outcome (EnumType * list nat) :=
  members_loop (if bits then NewBitfield else NewEnumType) O ms.

(* the versions at the pinned commit (D34, D35), for the _refuted theorems *)
Definition Set_old (e : EnumType) (name : str) (value : Z) : outcome EnumType :=
  if isSome (lookup_s name (ToInt e)) then Err
  else if e_unique e && isSome (lookup_z value (ToString e)) then Err
  else if value <? e_min e then Err
  else if value >? e_max e then Err
  else
    Ok {| e_last := if value >=? e_last e then value else e_last e; e_min := e_min e; e_max := e_max e;
          e_unique := e_unique e; ToString := update_z value name (ToString e);
          ToInt := ToInt e ++ [(name, value)] |}.
Definition SetNext_old (e : EnumType) (name : str) : outcome EnumType :=
  if e_last e =? MaxEnum then Err else Set_old e name (wrap64 (e_last e + 1)).
