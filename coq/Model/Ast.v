(* Model of the generic AST builder of goyang: pkg/yang/ast.go (build, and the closures initTypes
   creates), Modules.Parse / Modules.add's module-or-submodule test (modules.go).

   reflect is replaced by a table ([schema], generated from yang.go/ast.go by the translator
   harness/go/gen_schema.go into Gen/YangSchema.v): build below interprets that table the way
   ast.go interprets the struct tags.

   Pointers: a *Statement is the pre-order index [id] of the statement in the parsed text; an AST
   node is identified by the id of the statement it was built from (so the Parent link of a node
   is the id of the enclosing statement).  Error text is not modelled.  Every reflect call that
   can panic is a [Panic] branch.

   Not modelled here: the typedef dictionary side effect (types.addTypedefs in build's defer; it
   cannot fail and is the subject of C18), and Modules.add's duplicate-name test (C13) -- the
   correspondence check gives all top-level statements of one text distinct names.

   Faithfulness is claimed for tables accepted by [schema_wf] (Spec/C03.v), in particular tables
   whose structs have no two fields with the same key (on other tables Go's funcs map keeps the
   LAST field of a key, the lookups below the first). *)
From Coq Require Import Ascii String List Bool Arith.
From GY Require Import Base.Outcome.
Import ListNotations.
Local Open Scope string_scope.

(* Extraction only: Coq's String module would become String.ml and shadow OCaml's Stdlib.String in
   the driver (s.[i] is String.get); the blacklist makes the extracted file String0.ml.  It renames
   a file, nothing else. *)
Require Extraction.
Extraction Blacklist String.

(* ------------------------------------------------------------------ the table *)

Inductive fkind :=
| FName                  (* string field            (tag key must be "Name")      *)
| FStatement             (* *Statement field        (tag key must be "Statement") *)
| FParent                (* Node interface field    (tag key must be "Parent")    *)
| FExt                   (* []*Statement, key "Ext" *)
| FSingle (ty : string)  (* *T  : at most one substatement *)
| FMulti (ty : string)   (* []*T : any number, appended in source order *)
| FBad.                  (* initTypes (or a closure it builds) would panic on this field *)

Record field := Field {
  f_key : string;            (* first part of the tag, after alias mapping (initTypes: name) *)
  f_kind : fkind;
  f_required : bool;         (* "required" *)
  f_reqkinds : list string   (* every "required=KIND" of the tag *)
}.

Record sdef := SDef {
  s_name : string;           (* Go struct type name *)
  s_isnode : bool;           (* *T has all methods of interface Node *)
  s_kinds : list string;     (* string literals T's Kind() returns ("?" = a computed value) *)
  s_fields : list field      (* tagged fields in declaration order *)
}.

Record schema := Schema {
  sc_structs : list sdef;            (* typeMap *)
  sc_aliases : list (string * string);
  sc_names : list (string * string)  (* nameMap: keyword -> struct name *)
}.

(* ------------------------------------------------------------------ statements and nodes *)

Inductive stmt := Stmt (kw : string) (has_arg : bool) (arg : string) (id : nat) (subs : list stmt).

Inductive node :=
  Node (ty : string)                       (* struct type *)
       (name : string)                     (* Name field ("" when the struct has none) *)
       (src : option nat)                  (* Statement field: id of the statement *)
       (parent : option nat)               (* Parent field: id of the enclosing node's statement *)
       (fields : list (string * list node))(* one entry per FSingle/FMulti field, declaration order *)
       (exts : list nat).                  (* Ext field: ids of the captured statements *)

Definition kw_of (s : stmt) : string := let 'Stmt k _ _ _ _ := s in k.
Definition id_of (s : stmt) : nat := let 'Stmt _ _ _ i _ := s in i.
Definition subs_of (s : stmt) : list stmt := let 'Stmt _ _ _ _ l := s in l.
Definition arg_of (s : stmt) : string := let 'Stmt _ _ a _ _ := s in a.

Definition n_ty (n : node) : string := let 'Node t _ _ _ _ _ := n in t.
Definition n_name (n : node) : string := let 'Node _ x _ _ _ _ := n in x.
Definition n_src (n : node) : option nat := let 'Node _ _ x _ _ _ := n in x.
Definition n_parent (n : node) : option nat := let 'Node _ _ _ x _ _ := n in x.
Definition n_fields (n : node) : list (string * list node) := let 'Node _ _ _ _ x _ := n in x.
Definition n_exts (n : node) : list nat := let 'Node _ _ _ _ _ x := n in x.

(* ------------------------------------------------------------------ table lookups *)

Definition lookup {A} (k : string) (l : list (string * A)) : option A :=
  match find (fun p => String.eqb (fst p) k) l with Some p => Some (snd p) | None => None end.

Definition mem (k : string) (l : list string) : bool := existsb (String.eqb k) l.

(* keyword := aliases[stmt.Keyword] if present *)
Definition alias (S : schema) (k : string) : string :=
  match lookup k (sc_aliases S) with Some a => a | None => k end.

Definition find_struct (S : schema) (ty : string) : option sdef :=
  find (fun sd => String.eqb (s_name sd) ty) (sc_structs S).

(* t := nameMap[keyword]; y := typeMap[t] *)
Definition struct_of (S : schema) (k : string) : option (string * option sdef) :=
  match lookup (alias S k) (sc_names S) with
  | None => None
  | Some ty => Some (ty, find_struct S ty)
  end.

Definition field_of (sd : sdef) (k : string) : option field :=
  find (fun f => String.eqb (f_key f) k) (s_fields sd).

(* y.funcs[k]: every tagged field except Ext gets a closure under its key *)
Definition func_of (sd : sdef) (k : string) : option field :=
  if String.eqb k "Ext" then None else field_of sd k.

(* len(strings.Split(k, ":")) == 2 *)
Fixpoint count_colon (s : string) : nat :=
  match s with
  | EmptyString => 0
  | String c r => (if Ascii.eqb c ":"%char then 1 else 0) + count_colon r
  end.
Definition prefixed (k : string) : bool := Nat.eqb (count_colon k) 1.

Definition special_kw (k : string) : bool :=
  String.eqb k "Name" || String.eqb k "Statement" || String.eqb k "Parent".

(* how the substatement loop of build treats keyword k inside struct sd *)
Inductive kwclass := KField (f : field) | KExt | KUnknown.
Definition classify (sd : sdef) (k : string) : kwclass :=
  match (if special_kw k then None else func_of sd k) with
  | Some f => KField f
  | None => if prefixed k then KExt else KUnknown
  end.

(* ------------------------------------------------------------------ the node under construction *)

Definition is_child_kind (k : fkind) : bool :=
  match k with FSingle _ | FMulti _ => true | _ => false end.

Definition child_keys (sd : sdef) : list string :=
  map f_key (filter (fun f => is_child_kind (f_kind f)) (s_fields sd)).

Definition init_fields (sd : sdef) : list (string * list node) :=
  map (fun k => (k, @nil node)) (child_keys sd).

Fixpoint get (k : string) (fs : list (string * list node)) : list node :=
  match fs with
  | [] => []
  | (k', v) :: r => if String.eqb k' k then v else get k r
  end.

Fixpoint upd (k : string) (g : list node -> list node) (fs : list (string * list node)) :=
  match fs with
  | [] => []
  | (k', v) :: r => if String.eqb k' k then (k', g v) :: r else (k', v) :: upd k g r
  end.

(* loop state: fields, extension list, the [found] map *)
Definition bstate := (list (string * list node) * list nat * list string)%type.

(* One iteration of `for _, ss := range stmt.statements`.
   [bld tt] is build(ss, v, types), evaluated only where the Go code calls it. *)
Definition step (sd : sdef) (bld : unit -> outcome node) (ss : stmt) (st : bstate) : outcome bstate :=
  let '(fs, ex, fd) := st in
  let k := kw_of ss in
  let fd := k :: fd in                                  (* found[ss.Keyword] = true *)
  match classify sd k with
  | KField f =>
      match f_kind f with
      | FSingle fty =>
          match get k fs with
          | _ :: _ => Err                               (* !fv.IsNil(): "already set" *)
          | [] =>
              n <- bld tt ;;
              if String.eqb (n_ty n) fty                (* Field(i).Set(sv) panics on another type *)
              then Ok (upd k (fun _ => [n]) fs, ex, fd)
              else Panic
          end
      | FMulti fty =>
          n <- bld tt ;;
          if String.eqb (n_ty n) fty                    (* reflect.Append panics on another type *)
          then Ok (upd k (fun l => (l ++ [n])%list) fs, ex, fd)
          else Panic
      | _ => Panic   (* a Name/Statement/Parent closure under another key: excluded by initTypes' own panics *)
      end
  | KExt =>
      match field_of sd "Ext" with
      | None => Err                                     (* y.addext == nil: "no extension function" *)
      | Some f => match f_kind f with
                  | FExt => Ok (fs, (ex ++ [id_of ss])%list, fd)
                  | _ => Panic
                  end
      end
  | KUnknown => Err                                     (* "unknown %s field" *)
  end.

(* the three loops after the substatements: required, sRequired[stmt.Keyword], sRequired[other] *)
Definition check_required (sd : sdef) (kw : string) (found : list string) : bool :=
  forallb (fun f => implb (f_required f) (mem (f_key f) found)) (s_fields sd)
  && forallb (fun f => implb (mem kw (f_reqkinds f)) (mem (f_key f) found)) (s_fields sd)
  && forallb (fun f => forallb (fun n => String.eqb n kw || negb (mem (f_key f) found)) (f_reqkinds f))
             (s_fields sd).

(* parent: struct type and statement id of the enclosing node (reflect.Value parent), None = nilValue *)
Definition pref := (string * nat)%type.

Definition special_name (sd : sdef) (a : string) : outcome string :=
  match field_of sd "Name" with
  | None => Ok ""
  | Some f => match f_kind f with FName => Ok a | _ => Panic end
  end.

Definition special_src (sd : sdef) (i : nat) : outcome (option nat) :=
  match field_of sd "Statement" with
  | None => Ok None
  | Some f => match f_kind f with FStatement => Ok (Some i) | _ => Panic end
  end.

Definition special_parent (S : schema) (sd : sdef) (p : option pref) : outcome (option nat) :=
  match field_of sd "Parent" with
  | None => Ok None
  | Some f =>
      match f_kind f with
      | FParent =>
          match p with
          | None => Ok None                              (* !parent.IsValid() *)
          | Some (pty, pid) =>
              match find_struct S pty with
              | Some psd => if s_isnode psd then Ok (Some pid) else Panic  (* !p.Type().Implements(nodeType) *)
              | None => Panic
              end
          end
      | _ => Panic
      end
  end.

Definition finish (sd : sdef) (ty kw nm : string) (sr pa : option nat) (st : bstate) : outcome node :=
  let '(fs, ex, fd) := st in
  if check_required sd kw fd then Ok (Node ty nm sr pa fs ex) else Err.

(* `for _, ss := range stmt.statements { ... }`: stops at the first error *)
Section Loop.
  Variable stepf : stmt -> bstate -> outcome bstate.
  Fixpoint loop_with (l : list stmt) (st : bstate) : outcome bstate :=
    match l with
    | [] => Ok st
    | ss :: r => st' <- stepf ss st ;; loop_with r st'
    end.
End Loop.

(* ast.go: build.  Structural recursion on the statement tree (the recursive call sits in the
   closure handed to the substatement loop, as in the Go code). *)
Fixpoint build (S : schema) (s : stmt) (p : option pref) {struct s} : outcome node :=
  match s with
  | Stmt kw ha a i subs =>
      match struct_of S kw with
      | None => Err                                      (* "unknown statement" *)
      | Some (ty, None) => Panic                         (* typeMap[t] == nil: nil dereference *)
      | Some (ty, Some sd) =>
          nm <- special_name sd a ;;
          sr <- special_src sd i ;;
          pa <- special_parent S sd p ;;
          st <- loop_with (fun ss st => step sd (fun _ => build S ss (Some (ty, i))) ss st)
                          subs (init_fields sd, [], []) ;;
          finish sd ty kw nm sr pa st
      end
  end.

(* the substatement loop of a node of struct sd whose identity is me *)
Definition build_list (S : schema) (sd : sdef) (me : pref) (l : list stmt) (st : bstate) : outcome bstate :=
  loop_with (fun ss st => step sd (fun _ => build S ss (Some me)) ss st) l st.

(* ------------------------------------------------------------------ modules.go *)

Definition is_top_kind (k : string) : bool := String.eqb k "module" || String.eqb k "submodule".

(* Modules.add: switch n.Kind() { case "module", "submodule": ... default: error }; then a type assertion to Module *)
Definition add (S : schema) (n : node) : outcome node :=
  match find_struct S (n_ty n) with
  | None => Panic
  | Some sd =>
      match s_kinds sd with
      | [] => Panic                                      (* no Kind method: not a Node at all *)
      | ks =>
          if forallb is_top_kind ks then
            (if String.eqb (n_ty n) "Module" then Ok n else Panic)   (* the type assertion *)
          else if existsb is_top_kind ks then Unmodelled             (* Kind() depends on the contents *)
          else Err                                                   (* "not a module or submodule" *)
      end
  end.

(* Modules.Parse after yang.Parse: build and add every top-level statement, stop at the first error *)
Fixpoint parse_all (S : schema) (l : list stmt) : outcome (list node) :=
  match l with
  | [] => Ok []
  | s :: r =>
      n <- build S s None ;;
      m <- add S n ;;
      ms <- parse_all S r ;;
      Ok (m :: ms)
  end.

Definition parse_one (S : schema) (s : stmt) : outcome node := n <- build S s None ;; add S n.

(* ------------------------------------------------------------------ errors with kind and position
   The same builder, returning for an error its kind and the statement whose Location() the Go code
   puts in front of the message (None = the message carries no position).  Error sites of ast.go
   build, in evaluation order:
     nameMap[keyword] == nil           "%s: unknown statement"         stmt.Location()
     per substatement ss, in source order:
       pointer field already set       keyword + ": already set"       (errors.New: no position)
       the nested build fails          its error, unchanged
       prefixed, no Ext field          "%s: no extension function"     ss.Location()
       otherwise unknown               "%s: unknown %s field"          ss.Location()
     required field absent             "%s: missing required ..."      stmt.Location()
     sRequired[stmt.Keyword] absent    "%s: missing required ..."      stmt.Location()
     field of another kind present     "%s: unknown %s field"          stmt.Location()  (the PARENT:
                                       KNOWN_FINDINGS builder.kind-field-reported-at-parent)
   and Modules.checkAdd's "not a module or submodule" (no position). *)

Inductive ekind :=
| EUnknownStmt | EUnknownField | ENoExt | EAlreadySet | EMissing | EMissingKind | EOtherKind | ENotModule.

Inductive result (A : Type) : Type :=
| ROk (a : A)
| RErr (k : ekind) (pos : option nat)
| RPanic
| RUnmodelled.
Arguments ROk {A} a.
Arguments RErr {A} k pos.
Arguments RPanic {A}.
Arguments RUnmodelled {A}.

Definition forget {A} (r : result A) : outcome A :=
  match r with ROk a => Ok a | RErr _ _ => Err | RPanic => Panic | RUnmodelled => Unmodelled end.

Definition lift {A} (o : outcome A) : result A :=   (* for the parts of build that never return an error *)
  match o with Ok a => ROk a | Err => RPanic | Panic => RPanic | Unmodelled => RUnmodelled end.

Definition rbind {A B} (x : result A) (f : A -> result B) : result B :=
  match x with
  | ROk a => f a
  | RErr k p => RErr k p
  | RPanic => RPanic
  | RUnmodelled => RUnmodelled
  end.

Definition step_e (sd : sdef) (bld : unit -> result node) (ss : stmt) (st : bstate) : result bstate :=
  let '(fs, ex, fd) := st in
  let k := kw_of ss in
  let fd := k :: fd in
  match classify sd k with
  | KField f =>
      match f_kind f with
      | FSingle fty =>
          match get k fs with
          | _ :: _ => RErr EAlreadySet None
          | [] =>
              rbind (bld tt) (fun n =>
              if String.eqb (n_ty n) fty then ROk (upd k (fun _ => [n]) fs, ex, fd) else RPanic)
          end
      | FMulti fty =>
          rbind (bld tt) (fun n =>
          if String.eqb (n_ty n) fty then ROk (upd k (fun l => (l ++ [n])%list) fs, ex, fd) else RPanic)
      | _ => RPanic
      end
  | KExt =>
      match field_of sd "Ext" with
      | None => RErr ENoExt (Some (id_of ss))
      | Some f => match f_kind f with
                  | FExt => ROk (fs, (ex ++ [id_of ss])%list, fd)
                  | _ => RPanic
                  end
      end
  | KUnknown => RErr EUnknownField (Some (id_of ss))
  end.

Definition check_req1 (sd : sdef) (found : list string) : bool :=
  forallb (fun f => implb (f_required f) (mem (f_key f) found)) (s_fields sd).
Definition check_req2 (sd : sdef) (kw : string) (found : list string) : bool :=
  forallb (fun f => implb (mem kw (f_reqkinds f)) (mem (f_key f) found)) (s_fields sd).
Definition check_req3 (sd : sdef) (kw : string) (found : list string) : bool :=
  forallb (fun f => forallb (fun n => String.eqb n kw || negb (mem (f_key f) found)) (f_reqkinds f))
          (s_fields sd).

Definition finish_e (sd : sdef) (ty kw nm : string) (i : nat) (sr pa : option nat) (st : bstate) : result node :=
  let '(fs, ex, fd) := st in
  if negb (check_req1 sd fd) then RErr EMissing (Some i)
  else if negb (check_req2 sd kw fd) then RErr EMissingKind (Some i)
  else if negb (check_req3 sd kw fd) then RErr EOtherKind (Some i)
  else ROk (Node ty nm sr pa fs ex).

Section LoopE.
  Variable stepf : stmt -> bstate -> result bstate.
  Fixpoint loop_with_e (l : list stmt) (st : bstate) : result bstate :=
    match l with
    | [] => ROk st
    | ss :: r => rbind (stepf ss st) (fun st' => loop_with_e r st')
    end.
End LoopE.

Fixpoint build_e (S : schema) (s : stmt) (p : option pref) {struct s} : result node :=
  match s with
  | Stmt kw ha a i subs =>
      match struct_of S kw with
      | None => RErr EUnknownStmt (Some i)
      | Some (ty, None) => RPanic
      | Some (ty, Some sd) =>
          rbind (lift (special_name sd a)) (fun nm =>
          rbind (lift (special_src sd i)) (fun sr =>
          rbind (lift (special_parent S sd p)) (fun pa =>
          rbind (loop_with_e (fun ss st => step_e sd (fun _ => build_e S ss (Some (ty, i))) ss st)
                             subs (init_fields sd, [], [])) (fun st =>
          finish_e sd ty kw nm i sr pa st))))
      end
  end.

Definition build_list_e (S : schema) (sd : sdef) (me : pref) (l : list stmt) (st : bstate) : result bstate :=
  loop_with_e (fun ss st => step_e sd (fun _ => build_e S ss (Some me)) ss st) l st.

Definition add_e (S : schema) (n : node) : result node :=
  match add S n with
  | Ok m => ROk m
  | Err => RErr ENotModule None
  | Panic => RPanic
  | Unmodelled => RUnmodelled
  end.

Fixpoint parse_all_e (S : schema) (l : list stmt) : result (list node) :=
  match l with
  | [] => ROk []
  | s :: r =>
      rbind (build_e S s None) (fun n =>
      rbind (add_e S n) (fun m =>
      rbind (parse_all_e S r) (fun ms => ROk (m :: ms))))
  end.
