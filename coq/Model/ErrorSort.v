(* errorSort (/repo/pkg/yang/entry.go): the order in which every error list leaves the library
   (Modules.Process, Modules.GetModule, Entry.GetErrors) and the removal of duplicates.
   No proofs in this file.

     func nless(a, b string) int                 strconv.Atoi on both; both numeric => numeric; a number before a
                                                 non-number; two non-numbers => a < b on strings
     func (s sortedErrors) Less(i, j int) bool   strings.SplitN(s, ":", 4); field 0 as a string; fields 1..3 by nless,
                                                 a missing field sorts first; all equal => the whole texts as strings
     func errorSort(errors []error) []error      sort.Sort, then drop an error that is reflect.DeepEqual to the last kept

   Error values are modelled by their text (a Go string = a list of bytes).  errorSort drops an error when it is
   reflect.DeepEqual to the previous one that was kept; for two errors of the same dynamic type built by errors.New /
   fmt.Errorf without %w that is equality of the text, which is what the model compares (assumption named in the
   manifest; the harness builds its errors with errors.New).
   sort.Sort is modelled in Spec/C05.v as ANY permutation that is sorted w.r.t. Less; [isort] below is the
   executable instance (for fewer than 12 elements sort.Sort is an insertion sort as well).
   strconv.Atoi is modelled for the platform of the harness (64-bit int): [+-]?[0-9]+ whose value lies in
   [-2^63, 2^63-1]; everything else (empty, sign only, other bytes, '_', out of range) is an error. *)
From Coq Require Import List NArith ZArith Bool.
Import ListNotations.
Local Open Scope N_scope.

Definition bstr := list N.          (* a Go string: bytes *)

Definition ch_colon : N := 58.
Definition ch_plus : N := 43.
Definition ch_minus : N := 45.

(* a < b, a == b, a > b on Go strings: bytewise lexicographic, a proper prefix is smaller *)
Fixpoint str_cmp (a b : bstr) : comparison :=
  match a, b with
  | [], [] => Eq
  | [], _ :: _ => Lt
  | _ :: _, [] => Gt
  | x :: a', y :: b' => match N.compare x y with Eq => str_cmp a' b' | c => c end
  end.

Definition bstr_eqb (a b : bstr) : bool := match str_cmp a b with Eq => true | _ => false end.

(* strings.Index(s, ":") and the two halves around it *)
Fixpoint cut (s : bstr) : option (bstr * bstr) :=
  match s with
  | [] => None
  | c :: r => if c =? ch_colon then Some ([], r)
              else match cut r with Some (a, b) => Some (c :: a, b) | None => None end
  end.

(* strings.SplitN(s, ":", n) for n >= 0: at most n fields, the last one is the unsplit rest *)
Fixpoint splitN (n : nat) (s : bstr) : list bstr :=
  match n with
  | O => []
  | S O => [s]
  | S n' => match cut s with
            | Some (f, r) => f :: splitN n' r
            | None => [s]
            end
  end.

(* ------------------------------------------------------------------ strconv.Atoi *)
Definition is_digit (c : N) : bool := (48 <=? c) && (c <=? 57).

Fixpoint digits_val (acc : Z) (s : bstr) : option Z :=
  match s with
  | [] => Some acc
  | c :: r => if is_digit c then digits_val (acc * 10 + Z.of_N (c - 48))%Z r else None
  end.

Definition minInt : Z := (- 9223372036854775808)%Z.
Definition maxInt : Z := 9223372036854775807%Z.

Definition atoi (s : bstr) : option Z :=
  let '(neg, body) := match s with
                      | c :: r => if c =? ch_plus then (false, r) else if c =? ch_minus then (true, r) else (false, s)
                      | [] => (false, s)
                      end in
  match body with
  | [] => None
  | _ => match digits_val 0 body with
         | Some v => let v' := if neg then (- v)%Z else v in
                     if (minInt <=? v')%Z && (v' <=? maxInt)%Z then Some v' else None
         | None => None
         end
  end.

(* nless: Lt / Eq / Gt for -1 / 0 / 1.  Both numeric: as numbers; a number sorts before anything that is not a
   number; two non-numbers: as strings *)
Definition nless (a b : bstr) : comparison :=
  match atoi a, atoi b with
  | Some x, Some y => Z.compare x y
  | Some _, None => Lt
  | None, Some _ => Gt
  | None, None => str_cmp a b
  end.

(* the loop `for i := 1; i < errorSplitCount; i++` of Less over the fields after the first one:
   both missing => si < sj; len(fj) == i => false; len(fi) == i => true; nless decides unless it says equal;
   after the loop (both had all fields, all equal under nless) => si < sj.  [tie] is si < sj *)
Fixpoint less_fields (tie : bool) (fi fj : list bstr) : bool :=
  match fi, fj with
  | [], [] => tie
  | _ :: _, [] => false
  | [], _ :: _ => true
  | x :: fi', y :: fj' => match nless x y with Lt => true | Gt => false | Eq => less_fields tie fi' fj' end
  end.

Definition errorSplitCount : nat := 4.

Definition str_ltb (a b : bstr) : bool := match str_cmp a b with Lt => true | _ => false end.

(* sortedErrors.Less on the texts of the two errors *)
Definition Less (s t : bstr) : bool :=
  match splitN errorSplitCount s, splitN errorSplitCount t with
  | f0 :: fi, g0 :: fj =>
    match str_cmp f0 g0 with
    | Lt => true
    | Gt => false
    | Eq => less_fields (str_ltb s t) fi fj
    end
  | _, _ => false          (* unreachable: SplitN with n > 0 returns at least one field *)
  end.

(* ------------------------------------------------------------------ before the repair (commit 11569ed)
   kept for the _refuted theorems of Properties/C05.v: a number and a non-number were compared as strings, a field
   missing on both sides and the end of the loop gave `false` *)
Definition nless_old (a b : bstr) : comparison :=
  match atoi a, atoi b with
  | Some x, Some y => Z.compare x y
  | _, _ => str_cmp a b
  end.

Fixpoint less_fields_old (fi fj : list bstr) : bool :=
  match fj with
  | [] => false
  | y :: fj' =>
    match fi with
    | [] => true
    | x :: fi' => match nless_old x y with Lt => true | Gt => false | Eq => less_fields_old fi' fj' end
    end
  end.

Definition Less_old (s t : bstr) : bool :=
  match splitN errorSplitCount s, splitN errorSplitCount t with
  | f0 :: fi, g0 :: fj =>
    match str_cmp f0 g0 with
    | Lt => true
    | Gt => false
    | Eq => less_fields_old fi fj
    end
  | _, _ => false
  end.

(* ------------------------------------------------------------------ sort + de-duplication *)
Section Sort.
Context {A : Type} (lt : A -> A -> bool).
Fixpoint insert (x : A) (l : list A) : list A :=
  match l with
  | [] => [x]
  | y :: r => if lt x y then x :: y :: r else y :: insert x r
  end.
Fixpoint isort (l : list A) : list A :=
  match l with [] => [] | x :: r => insert x (isort r) end.
End Sort.

(* the second loop of errorSort: an error equal to the last one kept is skipped *)
Fixpoint dedup_from (last : option bstr) (l : list bstr) : list bstr :=
  match l with
  | [] => []
  | x :: r =>
    match last with
    | Some y => if bstr_eqb x y then dedup_from last r else x :: dedup_from (Some x) r
    | None => x :: dedup_from (Some x) r
    end
  end.
Definition dedup (l : list bstr) : list bstr := dedup_from None l.

(* errorSort with insertion sort for sort.Sort *)
Definition errorSort (errors : list bstr) : list bstr :=
  match errors with
  | [] => []
  | [e] => [e]
  | _ => dedup (isort Less errors)
  end.

Definition errorSort_old (errors : list bstr) : list bstr :=
  match errors with
  | [] => []
  | [e] => [e]
  | _ => dedup (isort Less_old errors)
  end.
