(* A printer from statement forests (Spec/C02.v: [node]) to text, in the one layout the reference reader of
   Spec/C02.v reads back without any of its special cases applying (no proofs here; Proofs/PrinterProofs.v):

     keyword                                        written as it is (an unquoted token)
     [SP DQ argument DQ]   when has_arg             ALWAYS a double-quoted string on ONE source line:
                                                    backslash -> backslash backslash, double quote -> backslash
                                                    double quote, line break -> backslash n, tab -> backslash t,
                                                    every other rune (CR, blanks, single quotes, semicolon, braces,
                                                    non-ASCII) literally
     semicolon LF                                   when there are no substatements
     SP open-brace LF  substatements  close-brace LF   otherwise
   No indentation, no comments, no concatenation with +.

   Because a raw line break never stands between the quotes, the body of the string is a single source line, so
   none of: trailing-blank trimming before a line break, continuation-line indentation stripping (and the tab that
   straddles the quote column), CR LF, escaped-blank-before-break applies; and because the only escapes written
   are the four that mean the same in and outside a pattern argument, the lexer's pattern mode (which keeps the
   backslash of an otherwise undefined escape) never shows: statements with keyword pattern are printed like all
   others and read back correctly -- the keyword is NOT excluded by [kw_ok].

   Representable: every keyword that is one unquoted token ([kw_ok]: non-empty; no blank, quote, semicolon or
   brace; no comment opener (slash slash, slash star) anywhere, which also excludes one at the start; no
   end-of-file sentinel) and EVERY argument that does not contain the lexer's end-of-file sentinel 0x7fffffff
   ([arg_ok]; no decoded text contains it).  A node without argument must carry the empty string in its argument
   field ([node_ok]): that is what a reader returns. *)
From Coq Require Import List NArith Bool.
Import ListNotations.
From GY Require Import Model.Lex Model.Parse Spec.C02.

(* ------------------------------------------------------------------ what can be printed *)
Definition kw_char_ok (c : rune) : bool := negb (ends_unquoted c) && negb (c =? EOFR)%N.
Definition kw_ok (kw : str) : bool :=
  match kw with [] => false | _ => forallb kw_char_ok kw && negb (opener_in kw) end.
Definition arg_ok (a : str) : bool := forallb (fun c => negb (c =? EOFR)%N) a.

Fixpoint node_ok (n : node) : bool :=
  match n with
  | Node kw has arg subs =>
      kw_ok kw && arg_ok arg && (has || match arg with [] => true | _ => false end) && forallb node_ok subs
  end.
Definition forest_ok (f : list node) : bool := forallb node_ok f.

(* ------------------------------------------------------------------ the printer *)
Definition escape_rune (c : rune) : str :=
  if (c =? cLF)%N then [cBSL; c_n]
  else if (c =? cTAB)%N then [cBSL; c_t]
  else if (c =? cDQ)%N then [cBSL; cDQ]
  else if (c =? cBSL)%N then [cBSL; cBSL]
  else [c].
Definition escape (a : str) : str := flat_map escape_rune a.

Definition print_arg (has : bool) (arg : str) : str :=
  if has then cSP :: cDQ :: escape arg ++ [cDQ] else [].

Fixpoint print_node (n : node) : str :=
  match n with
  | Node kw has arg subs =>
      kw ++ print_arg has arg ++
      match subs with
      | [] => [cSEMI; cLF]
      | _ => cSP :: cLB :: cLF :: flat_map print_node subs ++ [cRB; cLF]
      end
  end.
Definition print_forest (f : list node) : str := flat_map print_node f.
