(* Model of the UTF-8 decoding the lexer performs: lexer.next (lex.go) calls
     rune, l.width = utf8.DecodeRuneInString(l.input[l.pos:])
   once per rune and moves l.pos by the width.  [decode] below is that loop over the whole
   input: the list of runes lexer.next returns before eof, in order.  [decode_rune] is
   utf8.DecodeRuneInString itself (Go's unicode/utf8: the `first` table and `acceptRanges`,
   written with comparisons; masks and shifts as mod and multiplication).  An ill-formed
   sequence yields U+FFFD and width ONE, so decoding resumes at the very next byte.
   [encode_rune] is utf8.EncodeRune / string(rune).  No proofs in this file.

   A byte is an N; nothing below needs it to be < 256 (a value above 244 is an invalid
   first byte like 0xF5..0xFF, a value above 191 is never a continuation byte). *)
From Coq Require Import List NArith Bool.
Import ListNotations.
From GY Require Import Model.Lex.
From GY Require Model.Parse.
Local Open Scope N_scope.

Definition byte := N.

(* the `first` table: 0 = ASCII (as), 1 = invalid (xx), else the sequence length *)
Definition seq_len (s0 : byte) : N :=
  if s0 <? 128 then 0
  else if s0 <? 194 then 1            (* 0x80-0xBF continuation bytes, 0xC0 0xC1 overlong *)
  else if s0 <? 224 then 2            (* 0xC2-0xDF *)
  else if s0 <? 240 then 3            (* 0xE0-0xEF *)
  else if s0 <? 245 then 4            (* 0xF0-0xF4 *)
  else 1.                             (* 0xF5-0xFF *)

(* acceptRanges: the range the SECOND byte must lie in *)
Definition accept_lo (s0 : byte) : N :=
  if s0 =? 224 then 160               (* 0xE0: 0xA0, excludes overlong 3-byte forms *)
  else if s0 =? 240 then 144          (* 0xF0: 0x90, excludes overlong 4-byte forms *)
  else 128.
Definition accept_hi (s0 : byte) : N :=
  if s0 =? 237 then 159               (* 0xED: 0x9F, excludes the surrogates *)
  else if s0 =? 244 then 143          (* 0xF4: 0x8F, excludes values above U+10FFFF *)
  else 191.

Definition is_cont (b : byte) : bool := (128 <=? b) && (b <=? 191).
Definition second_ok (s0 s1 : byte) : bool := (accept_lo s0 <=? s1) && (s1 <=? accept_hi s0).

(* utf8.DecodeRuneInString: the rune and the width; (RuneError, 0) on the empty string *)
Definition decode_rune (s : list byte) : rune * nat :=
  match s with
  | [] => (RuneError, 0%nat)
  | s0 :: r0 =>
    match seq_len s0 with
    | 0 => (s0, 1%nat)
    | 1 => (RuneError, 1%nat)
    | sz =>
      match r0 with
      | [] => (RuneError, 1%nat)
      | s1 :: r1 =>
        if negb (second_ok s0 s1) then (RuneError, 1%nat)
        else if sz =? 2 then ((s0 mod 32) * 64 + s1 mod 64, 2%nat)
        else match r1 with
          | [] => (RuneError, 1%nat)
          | s2 :: r2 =>
            if negb (is_cont s2) then (RuneError, 1%nat)
            else if sz =? 3 then ((s0 mod 16) * 4096 + (s1 mod 64) * 64 + s2 mod 64, 3%nat)
            else match r2 with
              | [] => (RuneError, 1%nat)
              | s3 :: _ =>
                if negb (is_cont s3) then (RuneError, 1%nat)
                else ((s0 mod 8) * 262144 + (s1 mod 64) * 4096 + (s2 mod 64) * 64 + s3 mod 64, 4%nat)
              end
          end
      end
    end
  end.

(* the runes lexer.next returns on this input, one DecodeRuneInString per call, pos += width.
   Written by structural recursion on the byte list (the tails r0..r3 are what remains after
   a width of 1..4), so no fuel is needed; the ill-formed case is written out in every branch rather than
   bound by a let, which a strict evaluator would compute at every byte on top of the branch taken). *)
Fixpoint decode (s : list byte) : list rune :=
  match s with
  | [] => []
  | s0 :: r0 =>
    match seq_len s0 with
    | 0 => s0 :: decode r0
    | 1 => (RuneError :: decode r0)
    | sz =>
      match r0 with
      | [] => (RuneError :: decode r0)
      | s1 :: r1 =>
        if negb (second_ok s0 s1) then (RuneError :: decode r0)
        else if sz =? 2 then ((s0 mod 32) * 64 + s1 mod 64) :: decode r1
        else match r1 with
          | [] => (RuneError :: decode r0)
          | s2 :: r2 =>
            if negb (is_cont s2) then (RuneError :: decode r0)
            else if sz =? 3 then ((s0 mod 16) * 4096 + (s1 mod 64) * 64 + s2 mod 64) :: decode r2
            else match r2 with
              | [] => (RuneError :: decode r0)
              | s3 :: r3 =>
                if negb (is_cont s3) then (RuneError :: decode r0)
                else ((s0 mod 8) * 262144 + (s1 mod 64) * 4096 + (s2 mod 64) * 64 + s3 mod 64) :: decode r3
              end
          end
      end
    end
  end.

(* the same loop written the way the lexer runs it: decode one rune, skip its width (fuel = bytes left) *)
Fixpoint decode_loop (fuel : nat) (s : list byte) : list rune :=
  match fuel with
  | O => []
  | S f =>
    match s with
    | [] => []
    | _ => let '(r, w) := decode_rune s in r :: decode_loop f (skipn w s)
    end
  end.

(* utf8.EncodeRune: surrogates and values above U+10FFFF are written as U+FFFD *)
Definition encode_rune (r : rune) : list byte :=
  if r <? 128 then [r]
  else if r <? 2048 then [192 + r / 64; 128 + r mod 64]
  else if (55296 <=? r) && (r <? 57344) then [239; 191; 189]
  else if r <? 65536 then [224 + r / 4096; 128 + (r / 64) mod 64; 128 + r mod 64]
  else if r <? 1114112 then [240 + r / 262144; 128 + (r / 4096) mod 64; 128 + (r / 64) mod 64; 128 + r mod 64]
  else [239; 191; 189].

Definition encode (rs : list rune) : list byte := flat_map encode_rune rs.

(* a Unicode scalar value: what a Go rune holds after decoding *)
Definition scalar (r : rune) : bool := (r <? 55296) || ((57344 <=? r) && (r <? 1114112)).

(* yang.Parse on the BYTES of a file *)
Definition Parse_bytes (s : list byte) := Parse.Parse (decode s).

(* newLexer forces the BYTES to end in a line break *)
Definition terminated_bytes (s : list byte) : list byte :=
  match rev s with
  | [] => s
  | b :: _ => if b =? 10 then s else s ++ [10]
  end.

(* what a loop `for r := l.next(); r != eof; r = l.next()` on a fresh lexer observes: the rune, the width in
   bytes, and line / col / tcol after the move *)
Fixpoint widths (fuel : nat) (s : list byte) : list nat :=
  match fuel with
  | O => []
  | S f => match s with [] => [] | _ => let w := snd (decode_rune s) in w :: widths f (skipn w s) end
  end.

Fixpoint next_trace (fuel : nat) (k : cur) : list (rune * (BinNums.Z * BinNums.Z * BinNums.Z)) :=
  match fuel with
  | O => []
  | S f => let (c, k') := next k in
           if c =? EOFR then [] else (c, (line k', col k', tcol k')) :: next_trace f k'
  end.

Definition lexer_trace (s : list byte) : list (rune * (BinNums.Z * BinNums.Z * BinNums.Z)) * list nat :=
  (next_trace (S (length s)) (cu (newLexer (decode s))), widths (S (length s)) (terminated_bytes s)).
