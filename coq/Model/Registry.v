(* Model of the module registry of /repo/pkg/yang  (no proofs in this file):
     yang.go:152-169     Module.Current, Module.FullName
     modules.go          Modules.checkAdd + Modules.add (duplicate test against ms.loaded, then filing; as
                         repaired by the fix for D30 -- the pinned version is add_old).  One header = one text
                         with one (sub)module statement: Parse's all-or-nothing handling of a text with several
                         statements and its duplicate test among them are not modelled here
     modules.go:190-215  the lookup half of Modules.FindModule (before it goes to disk)

   Strings are lists of bytes (N, 0..255) and are compared as Go compares strings:
   [str_eqb] is ==, [str_ltb] is < (bytewise lexicographic, a proper prefix is smaller).
   A module is represented by its header: an identifier (which text it came from), its
   kind ("module" unless a belongs-to statement is present), its name and the arguments
   of its revision statements in written order.
   The two Go maps ms.Modules / ms.SubModules are association lists key -> header. *)
From Coq Require Import List NArith Bool.
Import ListNotations.

Definition str := list N.
Definition AT : N := 64%N.      (* '@' *)

Fixpoint str_eqb (a b : str) : bool :=
  match a, b with
  | [], [] => true
  | x :: a', y :: b' => N.eqb x y && str_eqb a' b'
  | _, _ => false
  end.

Fixpoint str_ltb (a b : str) : bool :=
  match a, b with
  | _, [] => false
  | [], _ :: _ => true
  | x :: a', y :: b' =>
      if N.ltb x y then true else if N.eqb x y then str_ltb a' b' else false
  end.

Definition is_empty (s : str) : bool := match s with [] => true | _ => false end.

Inductive kind := KMod | KSub.
Definition kind_eqb (a b : kind) : bool :=
  match a, b with KMod, KMod => true | KSub, KSub => true | _, _ => false end.

Record header := { h_id : N; h_kind : kind; h_name : str; h_revs : list str }.

(* func (s * Module) Current() string:
     var rev string; for _, r := range s.Revision { if r.Name > rev { rev = r.Name } }; return rev *)
Definition Current (revs : list str) : str :=
  fold_left (fun rev r => if str_ltb rev r then r else rev) revs [].

(* Module.FullName *)
Definition FullName (h : header) : str :=
  let rev := Current (h_revs h) in
  if is_empty rev then h_name h else h_name h ++ AT :: rev.

(* Go map from string to Module pointer *)
Definition smap := list (str * header).

Fixpoint mget (m : smap) (k : str) : option header :=
  match m with
  | [] => None
  | (k', v) :: m' => if str_eqb k' k then Some v else mget m' k
  end.

Fixpoint mdel (m : smap) (k : str) : smap :=
  match m with
  | [] => []
  | (k', v) :: m' => if str_eqb k' k then mdel m' k else (k', v) :: mdel m' k
  end.

Definition mset (m : smap) (k : str) (v : header) : smap := (k, v) :: mdel m k.

(* ms.Modules, ms.SubModules and ms.loaded (every accepted node under kind + " " + full name;
   added by the fix for D30) *)
Record mstate := { Modules : smap; SubModules : smap; Loaded : smap }.
Definition NewModules : mstate := {| Modules := []; SubModules := []; Loaded := [] |}.

Definition sel (st : mstate) (k : kind) : smap :=
  match k with KMod => Modules st | KSub => SubModules st end.
Definition upd (st : mstate) (k : kind) (m : smap) : mstate :=
  match k with
  | KMod => {| Modules := m; SubModules := SubModules st; Loaded := Loaded st |}
  | KSub => {| Modules := Modules st; SubModules := m; Loaded := Loaded st |}
  end.

(* n.Kind(): "module" / "submodule" *)
Definition kind_str (k : kind) : str :=
  match k with
  | KMod => [109; 111; 100; 117; 108; 101]%N
  | KSub => [115; 117; 98; 109; 111; 100; 117; 108; 101]%N
  end.
Definition SPACE : N := 32%N.
(* kind + " " + fullName *)
Definition lkey (k : kind) (fullName : str) : str := kind_str k ++ SPACE :: fullName.

(* the filing of an accepted node into the map m of its kind:
     if fullName != name { m[fullName] = mod }
     if o := m[name]; o == nil || o.FullName() < fullName { m[name] = mod } *)
Definition file_map (m : smap) (h : header) : smap :=
  let name := h_name h in
  let fullName := FullName h in
  let m1 := if str_eqb fullName name then m else mset m fullName h in
  match mget m1 name with
  | None => mset m1 name h
  | Some o => if str_ltb (FullName o) fullName then mset m1 name h else m1
  end.

(* Modules.add(n Node) error, for n a Module node; false = the duplicate error *)
Definition add (st : mstate) (h : header) : mstate * bool :=
  let k := h_kind h in
  let key := lkey k (FullName h) in
  match mget (Loaded st) key with
  | Some _ => (st, false)                     (* duplicate %s %s at %s and %s *)
  | None =>
      let st1 := upd st k (file_map (sel st k) h) in
      ({| Modules := Modules st1; SubModules := SubModules st1; Loaded := mset (Loaded st) key h |}, true)
  end.

(* ---- add as it stood at the pinned commit, before the fix for D30 (kept for the _refuted
   theorems): the duplicate test looked into the map of the kind itself ---- *)
Definition add_map_old (m : smap) (h : header) : smap * bool :=
  let name := h_name h in
  let fullName := FullName h in
  match mget m fullName with
  | Some _ => (m, false)
  | None =>
      let m1 := mset m fullName h in
      if str_eqb fullName name then (m1, true)
      else
        match mget m1 name with
        | None => (mset m1 name h, true)
        | Some o => if str_ltb (FullName o) fullName then (mset m1 name h, true) else (m1, true)
        end
  end.
Definition add_old (st : mstate) (h : header) : mstate * bool :=
  let '(m', ok) := add_map_old (sel st (h_kind h)) h in
  (upd st (h_kind h) m', ok).

(* FindModule for an Import (k = KMod) or Include (k = KSub) named [name] with optional
   revision-date [rev], up to the point where the code turns to the file system. *)
Definition find (st : mstate) (k : kind) (name : str) (rev : option str) : option header :=
  let m := sel st k in
  let key := match rev with Some r => name ++ AT :: r | None => name end in
  match mget m key with
  | Some h => Some h
  | None => mget m name
  end.

(* successive Parse calls on a fresh Modules: final state and the verdict of each add *)
Section Run.
  Variable step : mstate -> header -> mstate * bool.
  Fixpoint run_with (st : mstate) (hs : list header) : mstate * list bool :=
    match hs with
    | [] => (st, [])
    | h :: t =>
        let '(st1, ok) := step st h in
        let '(st2, oks) := run_with st1 t in
        (st2, ok :: oks)
    end.
End Run.

Definition run_from := run_with add.
Definition run (hs : list header) : mstate * list bool := run_from NewModules hs.
Definition final (hs : list header) : mstate := fst (run hs).
Definition verdicts (hs : list header) : list bool := snd (run hs).
Definition verdicts_old (hs : list header) : list bool := snd (run_with add_old NewModules hs).

(* ---- Modules.Parse of one text holding several top-level statements (headers), all or nothing:
   every statement is first checked against ms.loaded as it was before the text (checkAdd) and
   against the statements before it in the same text (the local map `seen`); only when all pass
   are they added, in written order.  true = nil error. ---- *)
Fixpoint check_text (st : mstate) (seen : list str) (hs : list header) : bool :=
  match hs with
  | [] => true
  | h :: t =>
      let key := lkey (h_kind h) (FullName h) in
      match mget (Loaded st) key with
      | Some _ => false                                 (* checkAdd: duplicate of a loaded one *)
      | None =>
          if existsb (str_eqb key) seen then false      (* duplicate inside the text *)
          else check_text st (key :: seen) t
      end
  end.

Fixpoint add_all (st : mstate) (hs : list header) : mstate * bool :=
  match hs with
  | [] => (st, true)
  | h :: t =>
      let '(st1, ok) := add st h in
      if ok then add_all st1 t else (st1, false)        (* "return err" in the second loop *)
  end.

Definition parse_text (st : mstate) (hs : list header) : mstate * bool :=
  if check_text st [] hs then add_all st hs else (st, false).

(* a load history: successive Parse calls, each with the headers of one text *)
Fixpoint parse_texts (st : mstate) (texts : list (list header)) : mstate * list bool :=
  match texts with
  | [] => (st, [])
  | hs :: rest =>
      let '(st1, ok) := parse_text st hs in
      let '(st2, oks) := parse_texts st1 rest in
      (st2, ok :: oks)
  end.
