(* Model of the file chooser of /repo/pkg/yang/file.go  (no proofs in this file):
     file.go:30   revisionDateSuffixRegex  ^@\d{4}-\d{2}-\d{2}\.yang$
     file.go:140  findInDir
     file.go:91   Modules.findFile      (names without '/')

   The file system is an abstract tree: a directory is a list of entries, an entry is a
   regular file (only its name matters here) or a directory with its entries.
   ioutil.ReadDir returns the entries sorted by file name (Go string order): [readDirAll]
   sorts every directory of the tree once, which is the same thing as sorting each
   directory when it is read.  Every regular file is readable (readFile succeeds on it and
   fails on directories and missing names).  Paths returned by the Go code are
   filepath.Join(dir, ...); the model returns the list of components below [dir].

   regexp: RE2 `\d` is [0-9], `$` without (?m) is end of text, so the pattern is the test
   [date_suffix_match]: '@', 4 digits, '-', 2 digits, '-', 2 digits, ".yang", nothing else. *)
From Coq Require Import List NArith Bool.
Import ListNotations.
From GY Require Import Base.Outcome Model.Registry.

Inductive entry :=
| File (name : str)
| Dir (name : str) (children : list entry).

Definition e_name (e : entry) : str := match e with File n => n | Dir n _ => n end.

(* ---- ioutil.ReadDir order: insertion sort by name ---- *)
Fixpoint insert_e (e : entry) (l : list entry) : list entry :=
  match l with
  | [] => [e]
  | x :: l' => if str_ltb (e_name e) (e_name x) then e :: l else x :: insert_e e l'
  end.
Fixpoint isort (l : list entry) : list entry :=
  match l with [] => [] | e :: l' => insert_e e (isort l') end.
Fixpoint readDirAll (e : entry) : entry :=
  match e with
  | File n => File n
  | Dir n cs => Dir n (isort (map readDirAll cs))
  end.

(* ---- package strings ---- *)
Fixpoint has_prefix (s p : str) {struct p} : bool :=
  match p, s with
  | [], _ => true
  | c :: p', d :: s' => N.eqb c d && has_prefix s' p'
  | _ :: _, [] => false
  end.
Definition trim_prefix (s p : str) : str := if has_prefix s p then skipn (length p) s else s.
Definition has_suffix (s suf : str) : bool := has_prefix (rev s) (rev suf).
Definition trim_suffix (s suf : str) : str :=
  if has_suffix s suf then firstn (length s - length suf) s else s.

Definition DOT_YANG : str := [46; 121; 97; 110; 103]%N.      (* ".yang" *)
Definition SLASH : N := 47%N.
Definition DASH : N := 45%N.

Definition is_digit (c : N) : bool := N.leb 48 c && N.leb c 57.

(* YYYY-MM-DD *)
Definition date_shaped (d : str) : bool :=
  match d with
  | [y1; y2; y3; y4; h1; m1; m2; h2; d1; d2] =>
      is_digit y1 && is_digit y2 && is_digit y3 && is_digit y4 && N.eqb h1 DASH &&
      is_digit m1 && is_digit m2 && N.eqb h2 DASH && is_digit d1 && is_digit d2
  | _ => false
  end.

(* revisionDateSuffixRegex.MatchString *)
Definition date_suffix_match (s : str) : bool :=
  match s with
  | c :: rest => N.eqb c AT && date_shaped (firstn 10 rest) && str_eqb (skipn 10 rest) DOT_YANG
  | [] => false
  end.

(* strings.HasPrefix(fn, mname) && revisionDateSuffixRegex.MatchString(strings.TrimPrefix(fn, mname)) *)
Definition is_revision_of (mname fn : str) : bool :=
  has_prefix fn mname && date_suffix_match (trim_prefix fn mname).

(* sort.Strings(revisions); revisions[len(revisions)-1] : the greatest element *)
Definition max_str (r : str) (rs : list str) : str :=
  fold_left (fun a b => if str_ltb a b then b else a) rs r.

Section Scan.
  (* findInDir applied to a subdirectory *)
  Variable rec : entry -> option (list str).
  Variables (name mname : str) (recurse : bool).

  (* the loop "for _, fi := range fis" with the accumulator [revisions], then the tail *)
  Fixpoint scan (fis : list entry) (revisions : list str) : option (list str) :=
    match fis with
    | [] =>
        match revisions with
        | [] => None
        | r :: rs => Some [max_str r rs]
        end
    | File fn :: rest =>
        if str_eqb fn name then Some [name]
        else if is_revision_of mname fn then scan rest (revisions ++ [fn])
        else scan rest revisions
    | (Dir dn _ as d) :: rest =>
        if recurse then
          match rec d with
          | Some p => Some (dn :: p)
          | None => scan rest revisions
          end
        else scan rest revisions
    end.
End Scan.

(* func findInDir(dir, name string, recurse bool) string; [d] is what [dir] names
   (a regular file: ReadDir fails); None is the empty string *)
Fixpoint findInDir (name : str) (recurse : bool) (d : entry) : option (list str) :=
  match d with
  | File _ => None
  | Dir _ fis =>
      scan (findInDir name recurse) name (trim_suffix name DOT_YANG) recurse fis []
  end.

Definition scanDir (d : option entry) (name : str) (recurse : bool) : option (list str) :=
  match d with
  | Some e => findInDir name recurse e
  | None => None                       (* the directory does not exist *)
  end.

(* result of findFile: where the file that is opened lies.  Location 0 is the current
   directory, location i+1 the i-th element of ms.Path; [rel] the components below it. *)
Record found := Found { f_loc : nat; f_rel : list str }.

(* an element of ms.Path: the directory it names (for "dir/..." : dir), None when there is
   no such directory, and whether filepath.Base(element) == "..." *)
Definition pathent := (option entry * bool)%type.

Fixpoint search_path (name : str) (i : nat) (path : list pathent) : option found :=
  match path with
  | [] => None
  | (d, dots) :: rest =>
      match scanDir d name dots with
      | Some p => Some (Found i p)             (* readFile(n) succeeds *)
      | None => search_path name (S i) rest
      end
  end.

Definition has_slash (name : str) : bool := existsb (N.eqb SLASH) name.

Definition has_file (d : entry) (fn : str) : bool :=
  match d with
  | Dir _ es => existsb (fun e => match e with File n => str_eqb n fn | Dir _ _ => false end) es
  | File _ => false
  end.

(* Modules.findFile(name string); Err = "no such file".  Names containing '/'
   are read relative to the current directory without any search: not modelled. *)
Definition findFile (cwd : entry) (path : list pathent) (name : str) : outcome found :=
  if has_slash name then Unmodelled
  else
    let of_search n :=
      match search_path n 1 path with Some f => Ok f | None => Err end in
    if has_suffix name DOT_YANG then
      if has_file cwd name then Ok (Found 0 [name]) else of_search name
    else
      let name := name ++ DOT_YANG in
      match findInDir name false cwd with
      | Some best => Ok (Found 0 best)         (* name = best; readFile(name) succeeds *)
      | None => of_search name                 (* readFile(name) fails: no such regular file in "." *)
      end.

(* ---- the same over one tree holding everything (what the harness builds) ---- *)
Fixpoint lookup_child (es : list entry) (n : str) : option entry :=
  match es with
  | [] => None
  | e :: es' => if str_eqb (e_name e) n then Some e else lookup_child es' n
  end.
Fixpoint resolve (d : entry) (comps : list str) : option entry :=
  match comps with
  | [] => Some d
  | c :: cs =>
      match d with
      | Dir _ es => match lookup_child es c with Some e => resolve e cs | None => None end
      | File _ => None
      end
  end.

Definition findFile_fs (root : entry) (cwd : list str) (path : list (list str * bool)) (name : str)
  : outcome found :=
  let root := readDirAll root in
  match resolve root cwd with
  | Some c => findFile c (map (fun '(p, dots) => (resolve root p, dots)) path) name
  | None => Unmodelled
  end.

(* ---- a history of Modules.Read calls on one Modules (modules.go Read + file.go findFile/addDir) ----
   State: ms.Path as (root-relative components of the directory the element names, "dir/..." flag); whether
   pathMap["."] is set (an element spelled exactly "." is on the path); the files opened so far.
   findFile adds filepath.Dir(name) to the path when the file is read directly, i.e. found at location 0: for
   the slash-free names modelled here that is ".", the current directory, appended unless already there under that
   spelling.  Every file of the layout holds one module with a (name, revision) of its own, so Parse rejects a
   text exactly when the same file is opened a second time; Read then puts the path back. *)
Record mstate := MState { m_path : list (list str * bool); m_dot : bool; m_opened : list (list str) }.

Definition abs_of (cwd : list str) (path : list (list str * bool)) (f : found) : list str :=
  match f_loc f with
  | O => cwd
  | S i => fst (nth i path ([], false))
  end ++ f_rel f.

Fixpoint comps_eqb (a b : list str) : bool :=
  match a, b with
  | [], [] => true
  | x :: a', y :: b' => str_eqb x y && comps_eqb a' b'
  | _, _ => false
  end.

Definition Read (root : entry) (cwd : list str) (st : mstate) (name : str) : outcome (list str) * mstate :=
  match findFile_fs root cwd (m_path st) name with
  | Ok f =>
      let p := abs_of cwd (m_path st) f in
      if existsb (comps_eqb p) (m_opened st) then (Err, st)            (* duplicate module: path restored *)
      else
        let here := match f_loc f with O => true | S _ => false end in
        (Ok p, MState (if here && negb (m_dot st) then m_path st ++ [(cwd, false)] else m_path st)
                      (m_dot st || here) (p :: m_opened st))
  | Err => (Err, st)
  | Panic => (Panic, st)
  | Unmodelled => (Unmodelled, st)
  end.

Fixpoint Read_all (root : entry) (cwd : list str) (st : mstate) (names : list str) : list (outcome (list str)) :=
  match names with
  | [] => []
  | n :: rest => let '(o, st') := Read root cwd st n in o :: Read_all root cwd st' rest
  end.
