(* Model of type-name binding and typedef resolution: pkg/yang/types.go (typeDictionary.find / findExternal,
   wholeModule, resolveTypedefs, Typedef.resolve, Type.resolve), yangtype.go (YangType, Equal, BaseTypedefs),
   node.go (getPrefix, FindModuleByPrefix), ast.go:119-129 (typedefs are registered per defining node).
   No proofs in this file.

   INPUT ABSTRACTION.  A schema is the list of loaded modules and submodules.  Each carries its name, whether
   it is a submodule, the prefix GetPrefix() reports (own prefix, resp. the belongs-to prefix), the belongs-to
   name, its import statements (prefix, module name), its include statements (names) and its tree of SCOPES.
   A scope is a node that can declare typedefs (module, container, list, grouping, rpc, input, output,
   notification, action: the Typedefers); nodes that cannot (choice, case, leaf, ...) are transparent for
   name binding and are left out.  A scope lists its typedefs in source order, its child scopes and the leaves
   whose type statement sits (lexically) in it.  Go node pointers are positions: a scope is named by
   (index of its module in the schema, path of child indices from the module's top scope); a typedef by
   (that, its name) -- typeDictionary.add files typedefs under exactly this pair (d.dict[n][name] = td, a later
   typedef of the same name in the same node overwrites the earlier one).  The type statement of a typedef and
   the member types of a union sit in the scope that contains the typedef / the union.

   A type reference keeps what matters for inheritance: the name as written ("pfx:name" possible),
   fraction-digits, patterns, enum and bit member names, path, the identityref base, union member types, and
   the range / length argument as OPAQUE TEXT: the resolved type carries "the text of the nearest range
   (length) restriction on the chain" (Equal compares the texts, which is exact when equal sets are written
   equally); what the range texts of a chain denote for the integer kinds is computed by range_of at the end of
   this file, which composes C10's parseChildRanges along the chain.  Enum values / bit
   positions are the positions in the member list (C14 covers explicit values); an identityref base is an
   opaque name assumed to resolve (C11).  require-instance and posix-pattern extensions are not modelled.

   OUTCOMES.  Ok y = resolve returned no error and left YangType = y;  Err = a non-empty error list (error
   lists are collapsed: after the first error the Go code only ever appends more errors, it cannot panic);
   Unmodelled = the fuel ran out (excluded by TypesProofs.resolve_total: number of typedefs + 1
   suffices).  No reachable Go panic remains in this code after the fixes of D05/D06/D09, so no Panic branch.

   MEMOISATION.  Typedef.YangType / Type.YangType+resolveErrs memoise results; a memoised success is what a
   fresh evaluation returns (it does not depend on the `resolving` marks: TypesProofs.resolve_marks_irrelevant)
   and a memoised failure stays a failure, so the model evaluates afresh.  The `resolving` flag set on a typedef
   while it is being resolved is the list [marks] of typedef positions. *)
From Coq Require Import Ascii String List Bool Arith NArith.
From Coq Require Import ZArith.
From GY Require Import Base.Outcome Model.Number Model.Range.
Import ListNotations.
Local Open Scope string_scope.
Local Open Scope list_scope.

(* Extraction only: Coq's String module would become String.ml and shadow OCaml's Stdlib.String in the driver;
   the blacklist makes the extracted file String0.ml.  It renames a file, nothing else. *)
Require Extraction.
Extraction Blacklist String.

(* ------------------------------------------------------------------ TypeKind, BaseTypedefs *)

Inductive kind :=
| Yint8 | Yint16 | Yint32 | Yint64 | Yuint8 | Yuint16 | Yuint32 | Yuint64
| Ybinary | Ybits | Ybool | Ydecimal64 | Yempty | Yenum | Yidentityref
| YinstanceIdentifier | Yleafref | Ystring | Yunion.

Definition kind_name (k : kind) : string :=
  match k with
  | Yint8 => "int8" | Yint16 => "int16" | Yint32 => "int32" | Yint64 => "int64"
  | Yuint8 => "uint8" | Yuint16 => "uint16" | Yuint32 => "uint32" | Yuint64 => "uint64"
  | Ybinary => "binary" | Ybits => "bits" | Ybool => "boolean" | Ydecimal64 => "decimal64"
  | Yempty => "empty" | Yenum => "enumeration" | Yidentityref => "identityref"
  | YinstanceIdentifier => "instance-identifier" | Yleafref => "leafref" | Ystring => "string"
  | Yunion => "union"
  end.

Definition all_kinds : list kind :=
  [Yint8; Yint16; Yint32; Yint64; Yuint8; Yuint16; Yuint32; Yuint64; Ybinary; Ybits; Ybool; Ydecimal64;
   Yempty; Yenum; Yidentityref; YinstanceIdentifier; Yleafref; Ystring; Yunion].

Definition kind_eqb (a b : kind) : bool := String.eqb (kind_name a) (kind_name b).

(* BaseTypedefs[name]: the keys of baseTypes *)
Definition base_kind (name : string) : option kind :=
  find (fun k => String.eqb (kind_name k) name) all_kinds.

(* ------------------------------------------------------------------ the abstract AST *)

Inductive tref := TRef {
  t_name : string;               (* Type.Name as written *)
  t_fd : option N;               (* fraction-digits (a plain decimal literal) *)
  t_range : option string;       (* range argument, opaque *)
  t_length : option string;      (* length argument, opaque *)
  t_patterns : list string;
  t_enums : list string;         (* enum names, source order *)
  t_bits : list string;          (* bit names, source order *)
  t_path : option string;
  t_idbase : option string;      (* base of an identityref *)
  t_members : list tref }.       (* Type.Type: union member types *)

Record typedef := { td_name : string; td_type : tref; td_units : option string; td_default : option string }.

Record leaf := { lf_name : string; lf_type : tref }.

Inductive scope := Scope {
  sc_typedefs : list typedef;
  sc_kids : list scope;
  sc_leaves : list leaf }.

(* the argument of an import / include statement with its optional revision-date *)
Definition modref := (string * option string)%type.

Record module := {
  m_name : string;
  m_sub : bool;                        (* Kind() == "submodule" *)
  m_rev : string;                      (* Current(): the greatest revision statement, "" when there is none *)
  m_prefix : string;                   (* GetPrefix(): prefix, or belongs-to's prefix for a submodule *)
  m_belongs : string;                  (* BelongsTo.Name (submodules) *)
  m_imports : list (string * modref);  (* (Import.Prefix.Name, (Import.Name, revision-date)) in source order *)
  m_includes : list modref;            (* (Include.Name, revision-date) in source order *)
  m_top : scope }.

Definition schema := list module.

Definition path := list nat.
Definition site := (nat * path)%type.            (* module index, scope path *)
Definition tdkey := (nat * path * string)%type.  (* the dictionary slot d.dict[node][name] *)

Definition site_of (k : tdkey) : site := fst k.

Definition path_eqb (a b : path) : bool :=
  (fix go (a b : list nat) : bool :=
     match a, b with
     | [], [] => true
     | x :: a', y :: b' => Nat.eqb x y && go a' b'
     | _, _ => false
     end) a b.

Definition key_eqb (a b : tdkey) : bool :=
  Nat.eqb (fst (fst a)) (fst (fst b)) && path_eqb (snd (fst a)) (snd (fst b)) && String.eqb (snd a) (snd b).

Definition key_mem (k : tdkey) (l : list tdkey) : bool := existsb (key_eqb k) l.

(* ------------------------------------------------------------------ YangType *)

Inductive yangtype := YT {
  y_name : string;
  y_kind : kind;
  y_units : string;
  y_default : string;
  y_hasdef : bool;
  y_fd : N;
  y_range : option string;       (* None: the built-in range of the kind *)
  y_length : option string;
  y_patterns : list string;
  y_enum : option (list string);
  y_bit : option (list string);
  y_path : string;
  y_idbase : option string;
  y_union : list yangtype }.

(* baseTypes[name] *)
Definition base_type (k : kind) : yangtype :=
  YT (kind_name k) k "" "" false 0%N None None [] None None "" None [].

Definition set_name (y : yangtype) (v : string) : yangtype :=
  YT v (y_kind y) (y_units y) (y_default y) (y_hasdef y) (y_fd y) (y_range y) (y_length y) (y_patterns y)
     (y_enum y) (y_bit y) (y_path y) (y_idbase y) (y_union y).
Definition set_units (y : yangtype) (v : string) : yangtype :=
  YT (y_name y) (y_kind y) v (y_default y) (y_hasdef y) (y_fd y) (y_range y) (y_length y) (y_patterns y)
     (y_enum y) (y_bit y) (y_path y) (y_idbase y) (y_union y).
Definition set_default (y : yangtype) (v : string) : yangtype :=
  YT (y_name y) (y_kind y) (y_units y) v true (y_fd y) (y_range y) (y_length y) (y_patterns y)
     (y_enum y) (y_bit y) (y_path y) (y_idbase y) (y_union y).
Definition set_fd (y : yangtype) (v : N) : yangtype :=
  YT (y_name y) (y_kind y) (y_units y) (y_default y) (y_hasdef y) v (y_range y) (y_length y) (y_patterns y)
     (y_enum y) (y_bit y) (y_path y) (y_idbase y) (y_union y).
Definition set_range (y : yangtype) (v : option string) : yangtype :=
  YT (y_name y) (y_kind y) (y_units y) (y_default y) (y_hasdef y) (y_fd y) v (y_length y) (y_patterns y)
     (y_enum y) (y_bit y) (y_path y) (y_idbase y) (y_union y).
Definition set_length (y : yangtype) (v : option string) : yangtype :=
  YT (y_name y) (y_kind y) (y_units y) (y_default y) (y_hasdef y) (y_fd y) (y_range y) v (y_patterns y)
     (y_enum y) (y_bit y) (y_path y) (y_idbase y) (y_union y).
Definition set_patterns (y : yangtype) (v : list string) : yangtype :=
  YT (y_name y) (y_kind y) (y_units y) (y_default y) (y_hasdef y) (y_fd y) (y_range y) (y_length y) v
     (y_enum y) (y_bit y) (y_path y) (y_idbase y) (y_union y).
Definition set_enum (y : yangtype) (v : option (list string)) : yangtype :=
  YT (y_name y) (y_kind y) (y_units y) (y_default y) (y_hasdef y) (y_fd y) (y_range y) (y_length y) (y_patterns y)
     v (y_bit y) (y_path y) (y_idbase y) (y_union y).
Definition set_bit (y : yangtype) (v : option (list string)) : yangtype :=
  YT (y_name y) (y_kind y) (y_units y) (y_default y) (y_hasdef y) (y_fd y) (y_range y) (y_length y) (y_patterns y)
     (y_enum y) v (y_path y) (y_idbase y) (y_union y).
Definition set_path (y : yangtype) (v : string) : yangtype :=
  YT (y_name y) (y_kind y) (y_units y) (y_default y) (y_hasdef y) (y_fd y) (y_range y) (y_length y) (y_patterns y)
     (y_enum y) (y_bit y) v (y_idbase y) (y_union y).
Definition set_idbase (y : yangtype) (v : option string) : yangtype :=
  YT (y_name y) (y_kind y) (y_units y) (y_default y) (y_hasdef y) (y_fd y) (y_range y) (y_length y) (y_patterns y)
     (y_enum y) (y_bit y) (y_path y) v (y_union y).
Definition set_union (y : yangtype) (v : list yangtype) : yangtype :=
  YT (y_name y) (y_kind y) (y_units y) (y_default y) (y_hasdef y) (y_fd y) (y_range y) (y_length y) (y_patterns y)
     (y_enum y) (y_bit y) (y_path y) (y_idbase y) v.

Definition ostr_eqb (a b : option string) : bool :=
  match a, b with
  | None, None => true
  | Some x, Some y => String.eqb x y
  | _, _ => false
  end.

Fixpoint ss_eqb (a b : list string) : bool :=      (* ssEqual *)
  match a, b with
  | [], [] => true
  | x :: a', y :: b' => String.eqb x y && ss_eqb a' b'
  | _, _ => false
  end.

Definition oss_eqb (a b : option (list string)) : bool :=
  match a, b with
  | None, None => true
  | Some x, Some y => ss_eqb x y
  | _, _ => false
  end.

(* YangType.Equal: Name (and Base) are not compared; Enum and Bit are compared (enumEqual) as the
   name -> value map, which for position-numbered members is the member list; tsEqual is element-wise Equal *)
Fixpoint yt_equal (a b : yangtype) {struct a} : bool :=
  kind_eqb (y_kind a) (y_kind b)
  && String.eqb (y_units a) (y_units b)
  && String.eqb (y_default a) (y_default b)
  && Bool.eqb (y_hasdef a) (y_hasdef b)
  && N.eqb (y_fd a) (y_fd b)
  && ostr_eqb (y_idbase a) (y_idbase b)
  && ostr_eqb (y_length a) (y_length b)
  && String.eqb (y_path a) (y_path b)
  && ss_eqb (y_patterns a) (y_patterns b)
  && ostr_eqb (y_range a) (y_range b)
  && (fix ts (l1 l2 : list yangtype) {struct l1} : bool :=
        match l1, l2 with
        | [], [] => true
        | x :: r1, y :: r2 => yt_equal x y && ts r1 r2
        | _, _ => false
        end) (y_union a) (y_union b)
  && oss_eqb (y_enum a) (y_enum b)
  && oss_eqb (y_bit a) (y_bit b).

(* ------------------------------------------------------------------ typeDictionary *)

Fixpoint scope_at (sc : scope) (p : path) : option scope :=
  match p with
  | [] => Some sc
  | i :: r => match nth_error (sc_kids sc) i with Some c => scope_at c r | None => None end
  end.

(* the map d.dict[n] after addTypedefs: the last typedef of a name wins *)
Fixpoint find_td (l : list typedef) (name : string) : option typedef :=
  match l with
  | [] => None
  | td :: r =>
      match find_td r name with
      | Some x => Some x
      | None => if String.eqb (td_name td) name then Some td else None
      end
  end.

(* d.find(n, name) for the node at path p below the top scope *)
Definition dict_find (top : scope) (p : path) (name : string) : option typedef :=
  match scope_at top p with
  | Some sc => find_td (sc_typedefs sc) name
  | None => None
  end.

(* for n := Node(t); n != nil; n = n.ParentNode() { if td = d.find(n, name) ... }
   rp is the scope path innermost index first; dropping its head is ParentNode() *)
Fixpoint find_up (top : scope) (rp : list nat) (name : string) : option (path * typedef) :=
  match dict_find top (rev rp) name with
  | Some td => Some (rev rp, td)
  | None => match rp with [] => None | _ :: r => find_up top r name end
  end.

(* The maps ms.Modules / ms.SubModules after every text has been added (Modules.add): the key "name@rev" holds the
   module of that name whose latest revision statement is rev, the bare key "name" the one with the greatest
   FullName (= the greatest revision; a module without revision statement is the smallest).  Two loaded modules
   never share a FullName (checkAdd rejects the second). *)
Fixpoint find_rev_from (S : schema) (i : nat) (sub : bool) (name rev : string) : option nat :=
  match S with
  | [] => None
  | M :: r => if Bool.eqb (m_sub M) sub && String.eqb (m_name M) name && String.eqb (m_rev M) rev then Some i
              else find_rev_from r (Datatypes.S i) sub name rev
  end.
(* m[name + "@" + rev] *)
Definition find_rev (S : schema) (sub : bool) (name rev : string) : option nat := find_rev_from S 0 sub name rev.

Fixpoint find_mod_from (S : schema) (i : nat) (sub : bool) (name : string) (best : option (nat * string))
  : option nat :=
  match S with
  | [] => match best with Some (j, _) => Some j | None => None end
  | M :: r =>
      if Bool.eqb (m_sub M) sub && String.eqb (m_name M) name then
        match best with
        | None => find_mod_from r (Datatypes.S i) sub name (Some (i, m_rev M))
        | Some (j, rj) =>
            if String.ltb rj (m_rev M) then find_mod_from r (Datatypes.S i) sub name (Some (i, m_rev M))
            else find_mod_from r (Datatypes.S i) sub name best
        end
      else find_mod_from r (Datatypes.S i) sub name best
  end.
(* m[name]: the latest revision loaded *)
Definition find_mod (S : schema) (sub : bool) (name : string) : option nat := find_mod_from S 0 sub name None.

(* Modules.FindModule for an import (sub = false) or include (sub = true) statement: the pinned revision when it
   is loaded, else the latest (everything is loaded up front, nothing is read from disk) *)
Definition FindModule (S : schema) (sub : bool) (r : modref) : option nat :=
  match snd r with
  | Some rev => match find_rev S sub (fst r) rev with Some i => Some i | None => find_mod S sub (fst r) end
  | None => find_mod S sub (fst r)
  end.

Fixpoint filter_some {A} (l : list (option A)) : list A :=
  match l with [] => [] | Some x :: r => x :: filter_some r | None :: r => filter_some r end.

(* the resolved Include[i].Module pointers of module m *)
Definition includes (S : schema) (m : nat) : list nat :=
  match nth_error S m with
  | Some M => filter_some (map (FindModule S true) (m_includes M))
  | None => []
  end.

(* root.Modules.Modules[root.BelongsTo.Name] *)
Definition owner (S : schema) (m : nat) : list nat :=
  match nth_error S m with
  | Some M => if m_sub M then match find_mod S false (m_belongs M) with Some o => [o] | None => [] end else []
  | None => []
  end.

Definition nat_mem (x : nat) (l : list nat) : bool := existsb (Nat.eqb x) l.

(* the loop of wholeModule: done = mods[:i] (= the seen set), queue = mods[i:] *)
Fixpoint whole_loop (S : schema) (fuel : nat) (done queue : list nat) : list nat :=
  match fuel with
  | O => done
  | Datatypes.S f =>
      match queue with
      | [] => done
      | m :: q =>
          if nat_mem m done then whole_loop S f done q
          else whole_loop S f (done ++ [m])
                 (q ++ filter (fun x => negb (nat_mem x (done ++ [m]))) (includes S m))
      end
  end.

(* the include statements (resolved) of the modules not yet in [done]; each turn of the loop either drops a queue
   element or moves a module into [done], so  length queue + pending_includes done  decreases *)
Definition pending_includes (S : schema) (done : list nat) : nat :=
  list_sum (map (fun m => if nat_mem m done then 0 else length (includes S m)) (seq 0 (length S))).

(* enough for the loop to run to completion: TypesProofs.whole_loop_complete, wholeModule_spec *)
Definition whole_fuel (S : schema) : nat := 3 + pending_includes S [].

Definition wholeModule (S : schema) (root : nat) : list nat :=
  whole_loop S (whole_fuel S) [] (root :: owner S root).

Definition top_find (S : schema) (m : nat) (name : string) : option typedef :=
  match nth_error S m with
  | Some M => find_td (sc_typedefs (m_top M)) name
  | None => None
  end.

(* for _, m := range wholeModule(root) { if td := d.find(m, name); td != nil { return td } } *)
Fixpoint find_whole (S : schema) (mods : list nat) (name : string) : option (tdkey * typedef) :=
  match mods with
  | [] => None
  | m :: r =>
      match top_find S m name with
      | Some td => Some ((m, [], name), td)
      | None => find_whole S r name
      end
  end.

(* the "local" branch of Type.resolve *)
Definition find_local (S : schema) (st : site) (name : string) : option (tdkey * typedef) :=
  match nth_error S (fst st) with
  | None => None
  | Some M =>
      match find_up (m_top M) (rev (snd st)) name with
      | Some (q, td) => Some ((fst st, q, name), td)
      | None => find_whole S (wholeModule S (fst st)) name
      end
  end.

Fixpoint assoc_first {A} (k : string) (l : list (string * A)) : option A :=
  match l with
  | [] => None
  | (k', v) :: r => if String.eqb k k' then Some v else assoc_first k r
  end.

Definition prefix_of (S : schema) (m : nat) : string :=
  match nth_error S m with Some M => m_prefix M | None => "" end.

(* FindModuleByPrefix(n, prefix) for a node of module m *)
Definition FindModuleByPrefix (S : schema) (m : nat) (prefix : string) : option nat :=
  match nth_error S m with
  | None => None
  | Some M =>
      if String.eqb prefix "" || String.eqb prefix (m_prefix M) then Some m
      else match assoc_first prefix (m_imports M) with
           | Some imp => FindModule S false imp
           | None => None
           end
  end.

(* typeDictionary.findExternal *)
Definition findExternal (S : schema) (m : nat) (prefix name : string) : option (tdkey * typedef) :=
  match FindModuleByPrefix S m prefix with
  | None => None                                           (* unknown prefix *)
  | Some root => find_whole S (wholeModule S root) name    (* None: unknown type *)
  end.

(* getPrefix: strings.SplitN(s, ":", 2) *)
Fixpoint getPrefix_go (s : string) (acc : string) : option (string * string) :=
  match s with
  | EmptyString => None
  | String c r => if Ascii.eqb c ":"%char then Some (acc, r) else getPrefix_go r (acc ++ String c EmptyString)%string
  end.
Definition getPrefix (s : string) : string * string :=
  match getPrefix_go s "" with Some pr => pr | None => ("", s) end.

Inductive lookup :=
| LBuiltin (k : kind)
| LFound (key : tdkey) (td : typedef)
| LNone.

(* the switch at the head of Type.resolve: BaseTypedefs is consulted first, with the name as written *)
Definition lookup_type (S : schema) (st : site) (tname : string) : lookup :=
  match base_kind tname with
  | Some k => LBuiltin k
  | None =>
      let (prefix, name) := getPrefix tname in
      let rootPrefix := prefix_of S (fst st) in
      let r := if String.eqb prefix "" || String.eqb rootPrefix prefix
               then find_local S st name
               else findExternal S (fst st) prefix name in
      match r with Some (key, td) => LFound key td | None => LNone end
  end.

(* ------------------------------------------------------------------ Type.resolve, Typedef.resolve *)

Definition str_mem (x : string) (l : list string) : bool := existsb (String.eqb x) l.

(* for _, pv := range t.Pattern { if !seenPatterns[pv.Name] { seen..; y.Pattern = append(y.Pattern, pv.Name) } } *)
Fixpoint add_patterns (have : list string) (new : list string) : list string :=
  match new with
  | [] => have
  | p :: r => if str_mem p have then add_patterns have r else add_patterns (have ++ [p]) r
  end.

(* looking: for each resolved member, skip it when some y.Type element is Equal, else append *)
Fixpoint add_members (have : list yangtype) (new : list yangtype) : list yangtype :=
  match new with
  | [] => have
  | u :: r => if existsb (yt_equal u) have then add_members have r else add_members (have ++ [u]) r
  end.

Fixpoint nodup_names (l : list string) : bool :=
  match l with [] => true | x :: r => negb (str_mem x r) && nodup_names r end.

(* the part of Type.resolve between "y := *td.YangType" and the union loop; [builtin]: source == "builtin" *)
Definition use_local (t : tref) (builtin : bool) (b : yangtype) : outcome yangtype :=
  let y := match t_path t with Some p => set_path b p | None => b end in
  let isDecimal64 := kind_eqb (y_kind y) Ydecimal64 && (String.eqb (t_name t) "decimal64" || negb (N.eqb (y_fd y) 0)) in
  y <- (if isDecimal64 && negb (N.eqb (y_fd y) 0) then
          match t_fd t with Some _ => Err | None => Ok y end
        else if isDecimal64 then
          match t_fd t with
          | Some i => if N.leb 1 i && N.leb i 18 then Ok (set_fd y i) else Err
          | None => Err
          end
        else match t_fd t with
             | Some _ => Err
             | None =>
                 if kind_eqb (y_kind y) Yidentityref && builtin then
                   match t_idbase t with Some i => Ok (set_idbase y (Some i)) | None => Err end
                 else Ok y
             end) ;;
  let y := match t_range t with Some r => set_range y (Some r) | None => y end in
  let y := match t_length t with Some r => set_length y (Some r) | None => y end in
  y <- (match t_enums t with
        | [] => Ok y
        | l => if nodup_names l then Ok (set_enum y (Some l)) else Err
        end) ;;
  y <- (match t_bits t with
        | [] => Ok y
        | l => if nodup_names l then Ok (set_bit y (Some l)) else Err
        end) ;;
  Ok (set_patterns y (add_patterns (y_patterns y) (t_patterns t))).

(* the tail of Typedef.resolve: y := *t.Type.YangType; y.Name = t.Name; units; default *)
Definition overlay (td : typedef) (y : yangtype) : yangtype :=
  let y := set_name y (td_name td) in
  let y := match td_units td with Some u => set_units y u | None => y end in
  match td_default td with Some d => set_default y d | None => y end.

Section Resolve.
Variable S : schema.

Section Ty.
(* Typedef.resolve, one level of fuel down *)
Variable rec_td : list tdkey -> tdkey -> typedef -> outcome yangtype.

Fixpoint resolve_ty (marks : list tdkey) (st : site) (t : tref) {struct t} : outcome yangtype :=
  match t with
  | TRef tname _ _ _ _ _ _ _ _ members =>
      match lookup_type S st tname with
      | LNone => Err
      | LBuiltin k =>
          y <- use_local t true (base_type k) ;;
          ms <- (fix go (l : list tref) : outcome (list yangtype) :=
                   match l with
                   | [] => Ok []
                   | u :: r => yu <- resolve_ty marks st u ;; ys <- go r ;; Ok (yu :: ys)
                   end) members ;;
          Ok (set_union y (add_members (y_union y) ms))
      | LFound key td =>
          b <- rec_td marks key td ;;
          y <- use_local t false b ;;
          ms <- (fix go (l : list tref) : outcome (list yangtype) :=
                   match l with
                   | [] => Ok []
                   | u :: r => yu <- resolve_ty marks st u ;; ys <- go r ;; Ok (yu :: ys)
                   end) members ;;
          Ok (set_union y (add_members (y_union y) ms))
      end
  end.
End Ty.

Fixpoint resolve_td (fuel : nat) (marks : list tdkey) (key : tdkey) (td : typedef) : outcome yangtype :=
  match fuel with
  | O => Unmodelled
  | Datatypes.S f =>
      if key_mem key marks then Err                       (* "typedef X is based on itself" *)
      else
        y <- resolve_ty (resolve_td f) (key :: marks) (site_of key) (td_type td) ;;
        Ok (overlay td y)
  end.

(* Type.resolve of a type statement sitting in scope st, nothing being resolved *)
Definition resolve_type (fuel : nat) (st : site) (t : tref) : outcome yangtype :=
  resolve_ty (resolve_td fuel) [] st t.

End Resolve.

(* ------------------------------------------------------------------ Process: all typedefs, all leaves *)

(* every scope of a tree with its path *)
Fixpoint all_scopes (p : path) (sc : scope) {struct sc} : list (path * scope) :=
  match sc with
  | Scope _ kids _ =>
      (p, sc) :: (fix go (i : nat) (l : list scope) : list (path * scope) :=
                    match l with
                    | [] => []
                    | c :: r => all_scopes (p ++ [i]) c ++ go (Datatypes.S i) r
                    end) 0 kids
  end.

Fixpoint index_from {A} (i : nat) (l : list A) : list (nat * A) :=
  match l with [] => [] | x :: r => (i, x) :: index_from (Datatypes.S i) r end.

Definition schema_scopes (S : schema) : list (site * scope) :=
  flat_map (fun iM => map (fun ps => ((fst iM, fst ps), snd ps)) (all_scopes [] (m_top (snd iM)))) (index_from 0 S).

Definition all_keys (S : schema) : list tdkey :=
  flat_map (fun ss => map (fun td => (fst ss, td_name td)) (sc_typedefs (snd ss))) (schema_scopes S).

Definition count_typedefs (S : schema) : nat := length (all_keys S).

Definition resolve_fuel (S : schema) : nat := Datatypes.S (count_typedefs S).

(* resolveTypedefs: every dictionary slot *)
Definition typedef_results (S : schema) : list (tdkey * outcome yangtype) :=
  flat_map (fun ss =>
    map (fun td =>
           let key := (fst ss, td_name td) in
           (key, match find_td (sc_typedefs (snd ss)) (td_name td) with
                 | Some d => resolve_td S (resolve_fuel S) [] key d
                 | None => Err
                 end)) (sc_typedefs (snd ss))) (schema_scopes S).

Definition leaf_results (S : schema) : list (string * outcome yangtype) :=
  flat_map (fun ss =>
    map (fun lf => (lf_name lf, resolve_type S (resolve_fuel S) (fst ss) (lf_type lf))) (sc_leaves (snd ss)))
    (schema_scopes S).

Definition any_typedef_error (S : schema) : bool :=
  existsb (fun r => negb (is_ok (snd r))) (typedef_results S).

(* (some typedef failed to resolve, per leaf: its resolved type or an error) *)
Definition process (S : schema) : bool * list (string * outcome yangtype) :=
  (any_typedef_error S, leaf_results S).

(* ------------------------------------------------------------------ driver interface
   strings cross the OCaml boundary as lists of byte values (the extracted name of Coq's String module
   depends on what else is extracted, so the driver never names its constructors) *)
Fixpoint str_of_codes (l : list N) : string :=
  match l with [] => EmptyString | c :: r => String (ascii_of_N c) (str_of_codes r) end.
Fixpoint codes_of_str (s : string) : list N :=
  match s with EmptyString => [] | String c r => N_of_ascii c :: codes_of_str r end.

(* ------------------------------------------------------------------ resolved ranges of integer types (tie to C10)
   In the resolver above the range argument is an opaque text and the resolved type carries the nearest one.
   What Type.resolve really computes for the integer kinds is the composition of Model/Range.v's parseChildRanges
   (C10) along the chain: starting from the built-in range of the base kind, every type statement of the chain that
   has a range statement -- from the base outward -- replaces the range by
   parseChildRanges(parent range, text, isDecimal64 = false, fraction digits = 0), keeping the parent's value when
   the result is Equal to it; a text that does not parse or is not within the parent's range is an error.
   (decimal64 ranges and length restrictions stay opaque.) *)

(* the chain the lookups follow from a reference, down to the built-in kind (None: there is none within n steps) *)
Fixpoint chain_of (S : schema) (n : nat) (st : site) (t : tref) : option (list (tdkey * typedef) * kind) :=
  match n with
  | O => None
  | Datatypes.S n' =>
      match lookup_type S st (t_name t) with
      | LBuiltin k => Some ([], k)
      | LFound key td =>
          match chain_of S n' (site_of key) (td_type td) with
          | Some (tds, k) => Some ((key, td) :: tds, k)
          | None => None
          end
      | LNone => None
      end
  end.

(* Int8Range ... Uint64Range *)
Definition int_bounds (k : kind) : option (Z * Z) :=
  match k with
  | Yint8 => Some (-128, 127)%Z | Yint16 => Some (-32768, 32767)%Z
  | Yint32 => Some (-2147483648, 2147483647)%Z
  | Yint64 => Some (-9223372036854775808, 9223372036854775807)%Z
  | Yuint8 => Some (0, 255)%Z | Yuint16 => Some (0, 65535)%Z | Yuint32 => Some (0, 4294967295)%Z
  | Yuint64 => Some (0, 18446744073709551615)%Z
  | _ => None
  end.

Definition base_range (k : kind) : YangRange :=
  match int_bounds k with
  | Some (a, b) => [(FromInt a, FromInt b)]
  | None => []
  end.

(* "if t.Range != nil { yr, err := y.Range.parseChildRanges(...); case err != nil: error; case yr.Equal(y.Range): ;
    default: y.Range = yr }" for the range texts of a chain, base first *)
Fixpoint apply_ranges (y : YangRange) (texts : list string) : outcome YangRange :=
  match texts with
  | [] => Ok y
  | s :: r =>
      yr <- parseChildRanges y (codes_of_str s) false 0%Z ;;
      apply_ranges (if YangRange_Equal yr y then y else yr) r
  end.

(* the range statements of a chain, base first *)
Definition chain_range_texts (t : tref) (tds : list typedef) : list string :=
  filter_some (rev (map t_range (t :: map td_type tds))).

(* the resolved Range of a reference: Ok None when the base kind is not an integer kind or there is no chain *)
Definition range_of (S : schema) (st : site) (t : tref) : outcome (option YangRange) :=
  match chain_of S (resolve_fuel S) st t with
  | Some (tds, k) =>
      match int_bounds k with
      | Some _ => r <- apply_ranges (base_range k) (chain_range_texts t (map snd tds)) ;; Ok (Some r)
      | None => Ok None
      end
  | None => Ok None
  end.

(* every type statement Process resolves: leaf types, the types of the typedefs in the dictionary, their union
   members, each with the scope it sits in *)
Fixpoint tref_closure (t : tref) {struct t} : list tref :=
  match t with
  | TRef _ _ _ _ _ _ _ _ _ members =>
      t :: (fix go (l : list tref) : list tref :=
              match l with [] => [] | u :: r => tref_closure u ++ go r end) members
  end.

Definition all_trefs (S : schema) : list (site * tref) :=
  flat_map (fun ss =>
    flat_map (fun td => match find_td (sc_typedefs (snd ss)) (td_name td) with
                        | Some d => map (fun u => (fst ss, u)) (tref_closure (td_type d))
                        | None => []
                        end) (sc_typedefs (snd ss))
    ++ flat_map (fun lf => map (fun u => (fst ss, u)) (tref_closure (lf_type lf))) (sc_leaves (snd ss)))
    (schema_scopes S).

(* some range statement of an integer type is rejected *)
Definition any_range_error (S : schema) : bool :=
  existsb (fun p => negb (is_ok (range_of S (fst p) (snd p)))) (all_trefs S).

Definition leaf_ranges (S : schema) : list (string * outcome (option YangRange)) :=
  flat_map (fun ss => map (fun lf => (lf_name lf, range_of S (fst ss) (lf_type lf))) (sc_leaves (snd ss)))
    (schema_scopes S).

