(* The text front end glued to the AST builder: Modules.Parse (modules.go) from the TEXT on,
       ss, err := Parse(data, name); for each s in ss: buildASTWithTypeDict(s); checkAdd
   = Parse.Parse (Model/Lex.v, Model/Parse.v) followed by Ast.parse_all_e (Model/Ast.v) on the converted
   statement forest, a builder error's statement id turned back into the (line, column) that statement
   carries.  No proofs in this file (Proofs/FrontEndProofs.v).

   Conversion of texts.  The parser model works on runes (N), the builder model on Coq strings (bytes),
   as Go's Statement.Keyword / Argument are byte strings: a rune list becomes its UTF-8 encoding, the way
   Go's string(rune) / utf8.EncodeRune produce it (surrogates and values above U+10FFFF become U+FFFD =
   EF BF BD).  For a text that is valid UTF-8 this is exactly the byte string Go holds (a substring of the
   input, or the unescaped argument); an invalid byte, which the harness decodes to U+FFFD as Go's lexer
   does, comes back as EF BF BD instead of the original byte -- no keyword of the table contains such a
   byte, and the colon count [Ast.prefixed] is not affected, so the builder's verdict does not depend on it.

   Numbering.  A statement's id is its index in the pre-order enumeration of ALL statements of the text
   ([all_stmts]), the count continuing across top-level statements: exactly the numbering Model/Ast.v
   assumes and the C03 harness uses (harness/go/c03.go `number`, harness/ml/cmd_c03.ml `read_stmt`).

   Not modelled (as in Model/Ast.v): Modules.Parse's "duplicate module" test between the top-level
   statements of one text (C13), the typedef dictionary side effect (C18), error wording, the file name. *)
From Coq Require Import Ascii String List NArith ZArith Bool.
Import ListNotations.
From GY Require Import Model.Lex Model.Parse.
From GY Require Model.Ast.
Local Open Scope Z_scope.

(* ------------------------------------------------------------------ runes -> bytes *)

Definition byte (n : N) : ascii := ascii_of_N n.          (* the low 8 bits *)

Definition utf8_error : list ascii := [byte 239; byte 191; byte 189].     (* U+FFFD *)

(* utf8.EncodeRune *)
Definition utf8 (r : rune) : list ascii :=
  (if r <? 128 then [byte r]
   else if r <? 2048 then [byte (192 + r / 64); byte (128 + r mod 64)]
   else if (55296 <=? r) && (r <? 57344) then utf8_error
   else if r <? 65536 then [byte (224 + r / 4096); byte (128 + (r / 64) mod 64); byte (128 + r mod 64)]
   else if r <? 1114112 then
     [byte (240 + r / 262144); byte (128 + (r / 4096) mod 64); byte (128 + (r / 64) mod 64); byte (128 + r mod 64)]
   else utf8_error)%N.

Fixpoint bytes_to_string (l : list ascii) (k : string) : string :=
  match l with [] => k | c :: r => String c (bytes_to_string r k) end.

Fixpoint enc (s : str) : string :=
  match s with [] => EmptyString | r :: s' => bytes_to_string (utf8 r) (enc s') end.

(* ------------------------------------------------------------------ statements of a text *)

Definition p_kw (s : stmt) : str := let 'Stmt k _ _ _ _ _ _ := s in k.
Definition p_subs (s : stmt) : list stmt := let 'Stmt _ _ _ _ _ _ l := s in l.
Definition p_line (s : stmt) : Z := let 'Stmt _ _ _ l _ _ _ := s in l.
Definition p_col (s : stmt) : Z := let 'Stmt _ _ _ _ c _ _ := s in c.
Definition p_off (s : stmt) : nat := let 'Stmt _ _ _ _ _ o _ := s in o.

(* a statement and everything below it, pre-order *)
Fixpoint flat (s : stmt) : list stmt :=
  match s with Stmt _ _ _ _ _ _ subs => s :: flat_map flat subs end.

(* every statement of a text, at every depth, pre-order *)
Definition all_stmts (ss : list stmt) : list stmt := flat_map flat ss.

(* number of statements in a tree *)
Fixpoint size (s : stmt) : nat :=
  match s with
  | Stmt _ _ _ _ _ _ subs => S ((fix go (l : list stmt) : nat := match l with [] => O | x :: r => (size x + go r)%nat end) subs)
  end.

Fixpoint sizes (l : list stmt) : nat := match l with [] => O | x :: r => (size x + sizes r)%nat end.

(* ------------------------------------------------------------------ conversion *)

(* the statement tree s whose first statement has pre-order index n *)
Fixpoint conv (s : stmt) (n : nat) : Ast.stmt :=
  match s with
  | Stmt kw ha arg _ _ _ subs =>
      Ast.Stmt (enc kw) ha (enc arg) n
        ((fix go (l : list stmt) (m : nat) : list Ast.stmt :=
            match l with [] => [] | x :: r => conv x m :: go r (m + size x)%nat end) subs (S n))
  end.

Fixpoint conv_list (l : list stmt) (m : nat) : list Ast.stmt :=
  match l with [] => [] | x :: r => conv x m :: conv_list r (m + size x)%nat end.

Definition to_ast (ss : list stmt) : list Ast.stmt := conv_list ss 0.

(* id |-> the (line, column) the statement with that id carries (what Statement.Location() prints) *)
Definition pos_of (ss : list stmt) (id : nat) : option (Z * Z) :=
  match nth_error (all_stmts ss) id with
  | Some s => Some (p_line s, p_col s)
  | None => None
  end.

(* ------------------------------------------------------------------ Modules.Parse from the text on *)

Inductive fpos :=
| NoPos                    (* the message carries no file:line:col (errors.New / checkAdd) *)
| At (line col : Z)        (* "file:line:col: ..." *)
| BadId.                   (* the builder named an id that is not a statement of the text: never (proved) *)

Inductive fres :=
| FSyntax (es : list perr)         (* yang.Parse rejected the text: its messages, as today *)
| FOutOfFuel                       (* the parser model ran out of fuel: never (C16_model_fuel_sufficient) *)
| FOk (ns : list Ast.node)         (* every top-level statement built and is a module / submodule *)
| FErr (k : Ast.ekind) (p : fpos)  (* the builder's (or checkAdd's) error *)
| FPanic
| FUnmodelled.

Definition locate (ss : list stmt) (pos : option nat) : fpos :=
  match pos with
  | None => NoPos
  | Some id => match pos_of ss id with Some (l, c) => At l c | None => BadId end
  end.

Definition front_end (S : Ast.schema) (text : str) : fres :=
  match Parse text with
  | (_, _, true) => FOutOfFuel
  | (ss, [], false) =>
      match Ast.parse_all_e S (to_ast ss) with
      | Ast.ROk ns => FOk ns
      | Ast.RErr k pos => FErr k (locate ss pos)
      | Ast.RPanic => FPanic
      | Ast.RUnmodelled => FUnmodelled
      end
  | (_, es, false) => FSyntax es
  end.

(* for examples only: an ASCII text written as a Coq string, as the rune list the lexer works on *)
Fixpoint text_of (s : string) : str :=
  match s with EmptyString => [] | String c r => N_of_ascii c :: text_of r end.
