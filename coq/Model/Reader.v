(* Reader: from the generic statement tree of Model/Parse.v to the abstract module sources of Model/Schema.v, and the
   renderer back (statement-tree level).  No proofs in this file (Proofs/ReaderProofs.v).

   What is read is EXACTLY the YANG subset that Schema.dnode / deviate / module can express:
     module / submodule NAME { namespace; prefix; belongs-to O { prefix P; }  import M { prefix P; }  include S;
                               data definitions; augment PATH { data definitions }  deviation PATH { deviate K {...} } }
     leaf, leaf-list, container, list, choice, case, anydata, anyxml, uses, grouping, rpc, action (input, output),
     notification with the substatements type, config, mandatory, default, units, key, min-elements, max-elements.
   RULE FOR EVERYTHING ELSE: REJECTED.  Every substatement of every statement must be in the list of keywords that
   the construct can express ([only]); a statement with any other keyword (yang-version, revision, description,
   reference, typedef, must, when, presence, refine, if-feature, extensions, type with restrictions, import with
   revision-date, ...) makes the whole module read as None -- never a silently truncated module.  (The renderer of
   check/props/schema_gen.py emits none of those.)  A field that may occur at most once and occurs twice: None.
   Numbers must be canonical decimals <= MaxUint64 (no sign, no leading zero); `max-elements unbounded` = MaxUint64.
   The order of substatements is free (goyang files them by keyword); their relative order within one kind is kept.
   The ghost ids of DGrouping (not in the text) are assigned afterwards by [number_*]: 1, 2, ... in the order
   body (pre-order, the grouping before the groupings inside it), then augments, module after module.
   read_text additionally requires the text to be ASCII: Parse works on runes, Schema.str holds the bytes of Go
   strings; the two coincide exactly on ASCII. *)
From Coq Require Import List NArith ZArith Bool.
Import ListNotations.
From GY Require Import Model.Schema.
From GY Require Model.Lex Model.Parse.
Local Open Scope N_scope.

Definition k_module : str := [109;111;100;117;108;101].  (* module *)
Definition k_submodule : str := [115;117;98;109;111;100;117;108;101].  (* submodule *)
Definition k_namespace : str := [110;97;109;101;115;112;97;99;101].  (* namespace *)
Definition k_prefix : str := [112;114;101;102;105;120].  (* prefix *)
Definition k_belongs : str := [98;101;108;111;110;103;115;45;116;111].  (* belongs-to *)
Definition k_import : str := [105;109;112;111;114;116].  (* import *)
Definition k_include : str := [105;110;99;108;117;100;101].  (* include *)
Definition k_leaf : str := [108;101;97;102].  (* leaf *)
Definition k_leaflist : str := [108;101;97;102;45;108;105;115;116].  (* leaf-list *)
Definition k_container : str := [99;111;110;116;97;105;110;101;114].  (* container *)
Definition k_list : str := [108;105;115;116].  (* list *)
Definition k_choice : str := [99;104;111;105;99;101].  (* choice *)
Definition k_case : str := [99;97;115;101].  (* case *)
Definition k_anydata : str := [97;110;121;100;97;116;97].  (* anydata *)
Definition k_anyxml : str := [97;110;121;120;109;108].  (* anyxml *)
Definition k_uses : str := [117;115;101;115].  (* uses *)
Definition k_grouping : str := [103;114;111;117;112;105;110;103].  (* grouping *)
Definition k_rpc : str := [114;112;99].  (* rpc *)
Definition k_action : str := [97;99;116;105;111;110].  (* action *)
Definition k_input : str := [105;110;112;117;116].  (* input *)
Definition k_output : str := [111;117;116;112;117;116].  (* output *)
Definition k_notification : str := [110;111;116;105;102;105;99;97;116;105;111;110].  (* notification *)
Definition k_augment : str := [97;117;103;109;101;110;116].  (* augment *)
Definition k_deviation : str := [100;101;118;105;97;116;105;111;110].  (* deviation *)
Definition k_deviate : str := [100;101;118;105;97;116;101].  (* deviate *)
Definition k_type : str := [116;121;112;101].  (* type *)
Definition k_config : str := [99;111;110;102;105;103].  (* config *)
Definition k_mandatory : str := [109;97;110;100;97;116;111;114;121].  (* mandatory *)
Definition k_default : str := [100;101;102;97;117;108;116].  (* default *)
Definition k_units : str := [117;110;105;116;115].  (* units *)
Definition k_key : str := [107;101;121].  (* key *)
Definition k_min : str := [109;105;110;45;101;108;101;109;101;110;116;115].  (* min-elements *)
Definition k_max : str := [109;97;120;45;101;108;101;109;101;110;116;115].  (* max-elements *)
Definition s_true : str := [116;114;117;101].  (* true *)
Definition s_false : str := [102;97;108;115;101].  (* false *)
Definition s_unbounded : str := [117;110;98;111;117;110;100;101;100].  (* unbounded *)

Definition node_kws : list str :=
  [k_leaf; k_leaflist; k_container; k_list; k_choice; k_case; k_anydata; k_anyxml; k_uses; k_grouping; k_rpc; k_action;
   k_notification].

Definition skw (s : Parse.stmt) : str := match s with Parse.Stmt k _ _ _ _ _ _ => k end.
Definition is_kw (k : str) (s : Parse.stmt) : bool := str_eqb (skw s) k.
Definition kw_in (l : list str) (s : Parse.stmt) : bool := existsb (str_eqb (skw s)) l.
Definition is_node (s : Parse.stmt) : bool := kw_in node_kws s.
Definition is_item (s : Parse.stmt) : bool := kw_in (k_input :: k_output :: node_kws) s.
(* every substatement has one of the allowed keywords *)
Definition only (allowed : list str) (ss : list Parse.stmt) : bool := forallb (kw_in allowed) ss.

Definition obind {A B} (o : option A) (f : A -> option B) : option B :=
  match o with Some a => f a | None => None end.
Notation "'do' x <- e ;; k" := (obind e (fun x => k)) (at level 200, x name, e at level 100, k at level 200).

(* ------------------------------------------------------------------ decimal numbers *)
Fixpoint uint_runes (u : Decimal.uint) : str :=
  match u with
  | Decimal.Nil => []
  | Decimal.D0 u => 48 :: uint_runes u | Decimal.D1 u => 49 :: uint_runes u | Decimal.D2 u => 50 :: uint_runes u
  | Decimal.D3 u => 51 :: uint_runes u | Decimal.D4 u => 52 :: uint_runes u | Decimal.D5 u => 53 :: uint_runes u
  | Decimal.D6 u => 54 :: uint_runes u | Decimal.D7 u => 55 :: uint_runes u | Decimal.D8 u => 56 :: uint_runes u
  | Decimal.D9 u => 57 :: uint_runes u
  end.
Fixpoint runes_uint (s : str) : option Decimal.uint :=
  match s with
  | [] => Some Decimal.Nil
  | c :: r =>
    match runes_uint r with
    | None => None
    | Some u =>
      if c =? 48 then Some (Decimal.D0 u) else if c =? 49 then Some (Decimal.D1 u) else
      if c =? 50 then Some (Decimal.D2 u) else if c =? 51 then Some (Decimal.D3 u) else
      if c =? 52 then Some (Decimal.D4 u) else if c =? 53 then Some (Decimal.D5 u) else
      if c =? 54 then Some (Decimal.D6 u) else if c =? 55 then Some (Decimal.D7 u) else
      if c =? 56 then Some (Decimal.D8 u) else if c =? 57 then Some (Decimal.D9 u) else None
    end
  end.
Definition dec (n : N) : str := uint_runes (N.to_uint n).
(* canonical decimals only: the text must be the one [dec] prints; at most MaxUint64 *)
Definition parse_num (s : str) : option N :=
  match runes_uint s with
  | Some u => let n := N.of_uint u in if str_eqb (dec n) s && (n <=? MaxUint64) then Some n else None
  | None => None
  end.
Definition parse_max (s : str) : option N := if str_eqb s s_unbounded then Some MaxUint64 else parse_num s.

(* ------------------------------------------------------------------ fields *)
(* the argument of a statement that has an argument and no substatements *)
Definition simple_arg (s : Parse.stmt) : option str :=
  match s with Parse.Stmt _ true a _ _ _ [] => Some a | _ => None end.
Fixpoint omap {A B} (f : A -> option B) (l : list A) : option (list B) :=
  match l with
  | [] => Some []
  | x :: r => match f x, omap f r with Some y, Some ys => Some (y :: ys) | _, _ => None end
  end.
(* at most one simple statement with keyword k: None = malformed, Some None = absent *)
Definition opt_field (k : str) (ss : list Parse.stmt) : option (option str) :=
  match filter (is_kw k) ss with
  | [] => Some None
  | [s] => match simple_arg s with Some a => Some (Some a) | None => None end
  | _ => None
  end.
Definition req_field (k : str) (ss : list Parse.stmt) : option str :=
  match opt_field k ss with Some (Some a) => Some a | _ => None end.
Definition list_field (k : str) (ss : list Parse.stmt) : option (list str) := omap simple_arg (filter (is_kw k) ss).
Definition parse_tri (a : str) : option tri :=
  if str_eqb a s_true then Some TSTrue else if str_eqb a s_false then Some TSFalse else None.
Definition tri_field (k : str) (ss : list Parse.stmt) : option tri :=
  match opt_field k ss with
  | Some None => Some TSUnset
  | Some (Some a) => parse_tri a
  | None => None
  end.
Definition conv_field (conv : str -> option N) (k : str) (ss : list Parse.stmt) : option (option N) :=
  match opt_field k ss with
  | Some None => Some None
  | Some (Some a) => match conv a with Some n => Some (Some n) | None => None end
  | None => None
  end.
Definition num_field := conv_field parse_num.
Definition max_field := conv_field parse_max.

(* ------------------------------------------------------------------ data definitions *)
Inductive item := INode (d : dnode) | IIn (b : list dnode) | IOut (b : list dnode).

(* the items among the substatements (everything else is a field of the parent), all of them readable *)
Definition read_items (f : Parse.stmt -> option item) : list Parse.stmt -> option (list item) :=
  fix go (l : list Parse.stmt) : option (list item) :=
    match l with
    | [] => Some []
    | x :: r => if is_item x
                then match f x, go r with Some y, Some ys => Some (y :: ys) | _, _ => None end
                else go r
    end.
Definition as_node (i : item) : option dnode := match i with INode d => Some d | _ => None end.
Definition nodes_of (l : list item) : option (list dnode) := omap as_node l.
(* input / output of an rpc: each at most once, nothing else *)
Fixpoint io_of (l : list item) : option (option (list dnode) * option (list dnode)) :=
  match l with
  | [] => Some (None, None)
  | INode _ :: _ => None
  | IIn b :: r => match io_of r with Some (None, o) => Some (Some b, o) | _ => None end
  | IOut b :: r => match io_of r with Some (i, None) => Some (i, Some b) | _ => None end
  end.

(* one statement, given the reading [its] of the items among its substatements.  Groupings get the ghost id 0. *)
Definition read_stmt (kw : str) (has : bool) (arg : str) (subs : list Parse.stmt) (its : option (list item))
  : option item :=
  let body := obind its nodes_of in
  if str_eqb kw k_input then
    if negb has && only node_kws subs then do b <- body;; Some (IIn b) else None
  else if str_eqb kw k_output then
    if negb has && only node_kws subs then do b <- body;; Some (IOut b) else None
  else if negb has then None
  else if str_eqb kw k_leaf then
    if only [k_type; k_config; k_mandatory; k_default; k_units] subs then
      do ty <- req_field k_type subs;; do c <- tri_field k_config subs;; do m <- tri_field k_mandatory subs;;
      do d <- opt_field k_default subs;; do u <- opt_field k_units subs;; Some (INode (DLeaf arg ty c m d u))
    else None
  else if str_eqb kw k_leaflist then
    if only [k_type; k_config; k_default; k_min; k_max] subs then
      do ty <- req_field k_type subs;; do c <- tri_field k_config subs;; do ds <- list_field k_default subs;;
      do mn <- num_field k_min subs;; do mx <- max_field k_max subs;; Some (INode (DLeafList arg ty c ds mn mx))
    else None
  else if str_eqb kw k_container then
    if only (k_config :: node_kws) subs then
      do c <- tri_field k_config subs;; do b <- body;; Some (INode (DContainer arg c b))
    else None
  else if str_eqb kw k_list then
    if only (k_key :: k_config :: k_min :: k_max :: node_kws) subs then
      do k <- opt_field k_key subs;; do c <- tri_field k_config subs;; do mn <- num_field k_min subs;;
      do mx <- max_field k_max subs;; do b <- body;; Some (INode (DList arg k c mn mx b))
    else None
  else if str_eqb kw k_choice then
    if only (k_config :: k_mandatory :: k_default :: node_kws) subs then
      do c <- tri_field k_config subs;; do m <- tri_field k_mandatory subs;; do d <- opt_field k_default subs;;
      do b <- body;; Some (INode (DChoice arg c m d b))
    else None
  else if str_eqb kw k_case then
    if only node_kws subs then do b <- body;; Some (INode (DCase arg b)) else None
  else if str_eqb kw k_anydata || str_eqb kw k_anyxml then
    if only [k_config; k_mandatory] subs then
      do c <- tri_field k_config subs;; do m <- tri_field k_mandatory subs;;
      Some (INode (DAny (str_eqb kw k_anyxml) arg c m))
    else None
  else if str_eqb kw k_uses then
    match subs with [] => Some (INode (DUses arg)) | _ => None end
  else if str_eqb kw k_grouping then
    if only node_kws subs then do b <- body;; Some (INode (DGrouping O arg b)) else None
  else if str_eqb kw k_rpc || str_eqb kw k_action then
    if only [k_input; k_output] subs then
      do l <- its;; do io <- io_of l;; Some (INode (DRpc (str_eqb kw k_action) arg (fst io) (snd io)))
    else None
  else if str_eqb kw k_notification then
    if only node_kws subs then do b <- body;; Some (INode (DNotification arg b)) else None
  else None.

Fixpoint read_item (s : Parse.stmt) : option item :=
  match s with
  | Parse.Stmt kw has arg _ _ _ subs => read_stmt kw has arg subs (read_items read_item subs)
  end.

Definition read_dnode (s : Parse.stmt) : option dnode := obind (read_item s) as_node.
(* the data definitions among [subs] (fields of the parent are skipped: the caller checks them with [only]) *)
Definition read_body (subs : list Parse.stmt) : option (list dnode) := obind (read_items read_item subs) nodes_of.

(* ------------------------------------------------------------------ deviations, imports, module *)
Definition read_deviate (s : Parse.stmt) : option deviate :=
  match s with
  | Parse.Stmt kw has arg _ _ _ subs =>
    if str_eqb kw k_deviate && has && only [k_config; k_mandatory; k_default; k_min; k_max; k_units; k_type] subs then
      do c <- tri_field k_config subs;; do m <- tri_field k_mandatory subs;; do d <- opt_field k_default subs;;
      do mn <- num_field k_min subs;; do mx <- max_field k_max subs;; do u <- opt_field k_units subs;;
      do t <- opt_field k_type subs;;
      Some {| dv_kind := arg; dv_cfg := c; dv_mand := m; dv_default := d; dv_min := mn; dv_max := mx;
              dv_units := u; dv_type := t |}
    else None
  end.

Definition read_deviation (s : Parse.stmt) : option (str * list deviate) :=
  match s with
  | Parse.Stmt _ has arg _ _ _ subs =>
    if has && only [k_deviate] subs then do ds <- omap read_deviate subs;; Some (arg, ds) else None
  end.

Definition read_augment (s : Parse.stmt) : option (str * list dnode) :=
  match s with
  | Parse.Stmt _ has arg _ _ _ subs =>
    if has && only node_kws subs then do b <- read_body subs;; Some (arg, b) else None
  end.

(* import M { prefix P; }  ->  (P, M) *)
Definition read_import (s : Parse.stmt) : option (str * str) :=
  match s with
  | Parse.Stmt _ has arg _ _ _ subs =>
    if has && only [k_prefix] subs then do p <- req_field k_prefix subs;; Some (p, arg) else None
  end.

(* belongs-to O { prefix P; }  ->  (O, P) *)
Definition read_belongs (s : Parse.stmt) : option (str * str) :=
  match s with
  | Parse.Stmt _ has arg _ _ _ subs =>
    if has && only [k_prefix] subs then do p <- req_field k_prefix subs;; Some (arg, p) else None
  end.

(* module with ghost ids 0 *)
Definition read_module0 (s : Parse.stmt) : option module :=
  match s with
  | Parse.Stmt kw has arg _ _ _ subs =>
    if negb has then None else
    do imports <- omap read_import (filter (is_kw k_import) subs);;
    do includes <- list_field k_include subs;;
    do body <- read_body subs;;
    do augs <- omap read_augment (filter (is_kw k_augment) subs);;
    do devs <- omap read_deviation (filter (is_kw k_deviation) subs);;
    if str_eqb kw k_module then
      if only (k_namespace :: k_prefix :: k_import :: k_include :: k_augment :: k_deviation :: node_kws) subs then
        do ns <- req_field k_namespace subs;; do p <- req_field k_prefix subs;;
        Some {| m_name := arg; m_prefix := p; m_ns := ns; m_belongs := None; m_imports := imports;
                m_includes := includes; m_body := body; m_augments := augs; m_deviations := devs |}
      else None
    else if str_eqb kw k_submodule then
      if only (k_belongs :: k_import :: k_include :: k_augment :: k_deviation :: node_kws) subs then
        match filter (is_kw k_belongs) subs with
        | [b] => do op <- read_belongs b;;
                 Some {| m_name := arg; m_prefix := snd op; m_ns := []; m_belongs := Some (fst op);
                         m_imports := imports; m_includes := includes; m_body := body; m_augments := augs;
                         m_deviations := devs |}
        | _ => None
        end
      else None
    else None
  end.

(* ------------------------------------------------------------------ ghost ids *)
Definition thread {A} (f : A -> nat -> A * nat) : list A -> nat -> list A * nat :=
  fix go (l : list A) (g : nat) : list A * nat :=
    match l with
    | [] => ([], g)
    | x :: r => let (x', g1) := f x g in let (r', g2) := go r g1 in (x' :: r', g2)
    end.
Definition thread_opt {A} (f : A -> nat -> A * nat) (o : option (list A)) (g : nat) : option (list A) * nat :=
  match o with None => (None, g) | Some b => let (b', g') := thread f b g in (Some b', g') end.

Fixpoint number_node (d : dnode) (g : nat) : dnode * nat :=
  match d with
  | DContainer n c b => let (b', g') := thread number_node b g in (DContainer n c b', g')
  | DList n k c mn mx b => let (b', g') := thread number_node b g in (DList n k c mn mx b', g')
  | DChoice n c m df b => let (b', g') := thread number_node b g in (DChoice n c m df b', g')
  | DCase n b => let (b', g') := thread number_node b g in (DCase n b', g')
  | DGrouping _ n b => let (b', g') := thread number_node b (S g) in (DGrouping g n b', g')
  | DRpc a n i o =>
    let (i', g1) := thread_opt number_node i g in
    let (o', g2) := thread_opt number_node o g1 in (DRpc a n i' o', g2)
  | DNotification n b => let (b', g') := thread number_node b g in (DNotification n b', g')
  | _ => (d, g)
  end.
Definition number_nodes := thread number_node.
Definition number_aug (a : str * list dnode) (g : nat) : (str * list dnode) * nat :=
  let (b', g') := number_nodes (snd a) g in ((fst a, b'), g').
Definition number_module (m : module) (g : nat) : module * nat :=
  let (b, g1) := number_nodes (m_body m) g in
  let (a, g2) := thread number_aug (m_augments m) g1 in
  ({| m_name := m_name m; m_prefix := m_prefix m; m_ns := m_ns m; m_belongs := m_belongs m; m_imports := m_imports m;
      m_includes := m_includes m; m_body := b; m_augments := a; m_deviations := m_deviations m |}, g2).
Definition number_schema := thread number_module.

(* a module / submodule statement; ghost ids 1, 2, ... *)
Definition read_module (s : Parse.stmt) : option module :=
  do m <- read_module0 s;; Some (fst (number_module m 1)).

(* ------------------------------------------------------------------ from the text *)
Definition is_ascii (t : list N) : bool := forallb (fun c => c <? 128) t.

Definition read_text0 (t : list N) : option module :=
  if is_ascii t then
    match Parse.Parse t with
    | ([s], [], false) => read_module0 s
    | _ => None
    end
  else None.
Definition read_text (t : list N) : option module :=
  do m <- read_text0 t;; Some (fst (number_module m 1)).

(* every text read, ghost ids numbered through the whole set *)
Definition read_schema (ts : list (list N)) : option schema :=
  do ms <- omap read_text0 ts;; Some (fst (number_schema ms 1)).

(* END TO END: texts -> Process.  The schema that was read is returned too (the queries Namespace, ReadOnly,
   InstantiatingModule on the result need it) *)
Definition process_text (ts : list (list N)) (ignoreCirc ignoreNotSupported : bool) (order : list str)
  : option (schema * result) :=
  do sc <- read_schema ts;; Some (sc, Process sc ignoreCirc ignoreNotSupported order).

(* ------------------------------------------------------------------ rendering (statement-tree level) *)
Definition mk (kw arg : str) (subs : list Parse.stmt) : Parse.stmt := Parse.Stmt kw true arg 0%Z 0%Z O subs.
Definition mk0 (kw : str) (subs : list Parse.stmt) : Parse.stmt := Parse.Stmt kw false [] 0%Z 0%Z O subs.
Definition r_tri (k : str) (t : tri) : list Parse.stmt :=
  match t with TSUnset => [] | TSTrue => [mk k s_true []] | TSFalse => [mk k s_false []] end.
Definition r_opt (k : str) (o : option str) : list Parse.stmt :=
  match o with None => [] | Some a => [mk k a []] end.
Definition r_num (k : str) (o : option N) : list Parse.stmt :=
  match o with None => [] | Some n => [mk k (dec n) []] end.
Definition r_max (k : str) (o : option N) : list Parse.stmt :=
  match o with None => [] | Some n => [mk k (if n =? MaxUint64 then s_unbounded else dec n) []] end.

Fixpoint render_dnode (d : dnode) : Parse.stmt :=
  match d with
  | DLeaf n ty c m df u =>
    mk k_leaf n (mk k_type ty [] :: r_tri k_config c ++ r_tri k_mandatory m ++ r_opt k_default df ++ r_opt k_units u)
  | DLeafList n ty c ds mn mx =>
    mk k_leaflist n (mk k_type ty [] :: r_tri k_config c ++ map (fun x => mk k_default x []) ds
                     ++ r_num k_min mn ++ r_max k_max mx)
  | DContainer n c b => mk k_container n (r_tri k_config c ++ map render_dnode b)
  | DList n k c mn mx b =>
    mk k_list n ((r_opt k_key k ++ r_tri k_config c ++ r_num k_min mn ++ r_max k_max mx) ++ map render_dnode b)
  | DChoice n c m df b =>
    mk k_choice n ((r_tri k_config c ++ r_tri k_mandatory m ++ r_opt k_default df) ++ map render_dnode b)
  | DCase n b => mk k_case n (map render_dnode b)
  | DAny x n c m => mk (if x then k_anyxml else k_anydata) n (r_tri k_config c ++ r_tri k_mandatory m)
  | DUses g => mk k_uses g []
  | DGrouping _ n b => mk k_grouping n (map render_dnode b)
  | DRpc a n i o =>
    mk (if a then k_action else k_rpc) n
       (match i with None => [] | Some b => [mk0 k_input (map render_dnode b)] end
        ++ match o with None => [] | Some b => [mk0 k_output (map render_dnode b)] end)
  | DNotification n b => mk k_notification n (map render_dnode b)
  end.

Definition render_deviate (d : deviate) : Parse.stmt :=
  mk k_deviate (dv_kind d)
     (r_tri k_config (dv_cfg d) ++ r_tri k_mandatory (dv_mand d) ++ r_opt k_default (dv_default d)
      ++ r_num k_min (dv_min d) ++ r_max k_max (dv_max d) ++ r_opt k_units (dv_units d) ++ r_opt k_type (dv_type d)).

Definition render_module (m : module) : Parse.stmt :=
  mk (match m_belongs m with None => k_module | Some _ => k_submodule end) (m_name m)
     ((match m_belongs m with
       | None => [mk k_namespace (m_ns m) []; mk k_prefix (m_prefix m) []]
       | Some o => [mk k_belongs o [mk k_prefix (m_prefix m) []]]
       end
       ++ map (fun i => mk k_import (snd i) [mk k_prefix (fst i) []]) (m_imports m)
       ++ map (fun s => mk k_include s []) (m_includes m))
      ++ map render_dnode (m_body m)
      ++ map (fun a => mk k_augment (fst a) (map render_dnode (snd a))) (m_augments m)
      ++ map (fun d => mk k_deviation (fst d) (map render_deviate (snd d))) (m_deviations m)).

(* ------------------------------------------------------------------ what the reader needs of a module *)
Definition on_ok (o : option N) : bool := match o with Some n => n <=? MaxUint64 | None => true end.
Definition cthread {A} (f : A -> nat -> option nat) : list A -> nat -> option nat :=
  fix go (l : list A) (g : nat) : option nat :=
    match l with [] => Some g | x :: r => match f x g with Some g1 => go r g1 | None => None end end.
Definition cthread_opt {A} (f : A -> nat -> option nat) (o : option (list A)) (g : nat) : option nat :=
  match o with None => Some g | Some b => cthread f b g end.
(* ghost ids are the canonical ones (counting from g); result: the next free id *)
Fixpoint check_node (d : dnode) (g : nat) : option nat :=
  match d with
  | DContainer _ _ b => cthread check_node b g
  | DList _ _ _ _ _ b => cthread check_node b g
  | DChoice _ _ _ _ b => cthread check_node b g
  | DCase _ b => cthread check_node b g
  | DGrouping gid _ b => if Nat.eqb gid g then cthread check_node b (S g) else None
  | DRpc _ _ i o => match cthread_opt check_node i g with Some g1 => cthread_opt check_node o g1 | None => None end
  | DNotification _ b => cthread check_node b g
  | _ => Some g
  end.
Definition check_nodes := cthread check_node.
Definition node_ok (d : dnode) : bool :=
  match d with
  | DLeafList _ _ _ _ mn mx => on_ok mn && on_ok mx
  | DList _ _ _ mn mx _ => on_ok mn && on_ok mx
  | _ => true
  end.
(* numbers in range (they have a text), everywhere below *)
Fixpoint nums_ok (d : dnode) : bool :=
  node_ok d &&
  match d with
  | DContainer _ _ b | DList _ _ _ _ _ b | DChoice _ _ _ _ b | DCase _ b | DGrouping _ _ b | DNotification _ b =>
    forallb nums_ok b
  | DRpc _ _ i o => match i with Some b => forallb nums_ok b | None => true end
                    && match o with Some b => forallb nums_ok b | None => true end
  | _ => true
  end.
Definition deviate_ok (d : deviate) : bool := on_ok (dv_min d) && on_ok (dv_max d).
(* everything in m has a textual form: a submodule has no namespace, numbers are in range *)
Definition text_ok (m : module) : bool :=
  (match m_belongs m with Some _ => match m_ns m with [] => true | _ => false end | None => true end)
  && forallb nums_ok (m_body m)
  && forallb (fun a => forallb nums_ok (snd a)) (m_augments m)
  && forallb (fun d => forallb deviate_ok (snd d)) (m_deviations m).
(* the ghost ids of m are g .. g'-1 in canonical order *)
Definition gids_from (m : module) (g : nat) : option nat :=
  match check_nodes (m_body m) g with
  | Some g1 => cthread (fun a => check_nodes (snd a)) (m_augments m) g1
  | None => None
  end.
Definition reader_wf_from (m : module) (g : nat) : option nat := if text_ok m then gids_from m g else None.
Definition reader_wf (m : module) : bool := match reader_wf_from m 1 with Some _ => true | None => false end.
