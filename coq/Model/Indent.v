(* Model of /repo/pkg/indent/indent.go  (no proofs in this file).

   Bytes are N (0..255).  Go's bytes.SplitAfter(b, "\n") followed by the removal of a
   trailing empty piece is [split_after]; bytes.Join(lines, sep) is [join].
   The underlying io.Writer is an explicit argument of [Write]: [None] = it accepts
   everything and returns no error, [Some n] = it reports n bytes written and an error
   (n is whatever integer the writer returns; errorWriter in the tests returns numbers
   larger than the rendered chunk, so n is not assumed bounded). *)
From Coq Require Import List NArith ZArith Bool.
Import ListNotations.

Definition byte := N.
Definition LF : byte := 10%N.

Fixpoint split_after (b : list byte) : list (list byte) :=
  match b with
  | [] => []
  | c :: b' =>
      if N.eqb c LF then [c] :: split_after b'
      else match split_after b' with
           | [] => [[c]]
           | l :: ls => (c :: l) :: ls
           end
  end.

(* bytes.Join(lines, sep) = l0 sep l1 sep l2 ... *)
Definition join (lines : list (list byte)) (sep : list byte) : list byte :=
  match lines with
  | [] => []
  | l :: ls => l ++ flat_map (fun x => sep ++ x) ls
  end.

(* indent.Bytes / indent.String (same code on string and []byte) *)
Definition Bytes (prefix b : list byte) : list byte :=
  match prefix, b with
  | [], _ => b
  | _, [] => b
  | _, _ => join ([] :: split_after b) prefix
  end.

(* joined[len(joined)-1] == '\n' (read from the front: the extracted model must stay linear on long chunks) *)
Fixpoint last_is_lf (b : list byte) : bool :=
  match b with
  | [] => false
  | c :: b' => match b' with [] => N.eqb c LF | _ => last_is_lf b' end
  end.

(* actualWrittenSize(underlay, prefix int, lines [][]byte) int, on Go ints (Z).
   This is the function as repaired by the "fix:" commit for D44: the first element of
   [lines] is never preceded by the prefix in bytes.Join, every later one is. *)
Fixpoint aws_loop (first : bool) (actual remain prefix : Z) (lines : list (list byte)) : Z :=
  match lines with
  | [] => actual
  | line :: rest =>
      let remain := if first then remain else (remain - prefix)%Z in
      if (remain <=? 0)%Z then actual
      else
        let len := Z.of_nat (length line) in
        if (remain <=? len)%Z then (actual + remain)%Z
        else aws_loop false (actual + len)%Z (remain - len)%Z prefix rest
  end.

Definition actualWrittenSize (underlay prefix : Z) (lines : list (list byte)) : Z :=
  aws_loop true 0%Z underlay prefix lines.

(* The function as it stood before the repair (kept for the _refuted theorem and for the
   replay of D44): skips empty lines and charges one prefix to every non-empty one. *)
Fixpoint aws_old_loop (actual remain prefix : Z) (lines : list (list byte)) : Z :=
  match lines with
  | [] => actual
  | line :: rest =>
      match line with
      | [] => aws_old_loop actual remain prefix rest
      | _ =>
        let addition := (remain - prefix)%Z in
        if (addition <=? 0)%Z then actual
        else
          let len := Z.of_nat (length line) in
          if (addition <=? len)%Z then (actual + addition)%Z
          else aws_old_loop (actual + len)%Z (remain - (prefix + len))%Z prefix rest
      end
  end.
Definition actualWrittenSize_old (underlay prefix : Z) (lines : list (list byte)) : Z :=
  aws_old_loop 0%Z underlay prefix lines.

(* The writer returned by NewWriter: the underlying writer itself when the prefix is
   empty, else an *iw with its partial flag. *)
Inductive writer := Pass | Ind (partial : bool).

Definition NewWriter (prefix : list byte) : writer :=
  match prefix with [] => Pass | _ => Ind false end.

Record wres := { w_n : Z; w_err : bool; w_out : list byte; w_state : writer }.

(* what the underlying writer receives when it is handed [joined] and accepts
   [acc] : None = all, no error; Some n = min n |joined| bytes, error *)
Definition underlying (joined : list byte) (acc : option Z) : list byte :=
  match acc with
  | None => joined
  | Some n => firstn (Z.to_nat n) joined
  end.

Definition render (prefix : list byte) (partial : bool) (buf : list byte)
  : list (list byte) * list byte :=
  let lines := split_after buf in
  let lines := if partial then lines else [] :: lines in
  (lines, join lines prefix).

Definition Write (prefix : list byte) (w : writer) (buf : list byte) (acc : option Z) : wres :=
  match w with
  | Pass =>
      match acc with
      | None => {| w_n := Z.of_nat (length buf); w_err := false; w_out := buf; w_state := Pass |}
      | Some n => {| w_n := n; w_err := true; w_out := underlying buf acc; w_state := Pass |}
      end
  | Ind partial =>
      match buf with
      | [] => {| w_n := 0; w_err := false; w_out := []; w_state := w |}
      | _ =>
        let '(lines, joined) := render prefix partial buf in
        let partial' := negb (last_is_lf joined) in
        match acc with
        | None => {| w_n := Z.of_nat (length buf); w_err := false; w_out := joined;
                     w_state := Ind partial' |}
        | Some n => {| w_n := actualWrittenSize n (Z.of_nat (length prefix)) lines;
                       w_err := true; w_out := underlying joined acc;
                       w_state := Ind partial' |}
        end
      end
  end.

(* A history: successive Write calls, each with what the underlying writer does. *)
Fixpoint run (prefix : list byte) (w : writer) (calls : list (list byte * option Z))
  : list (Z * bool) * list byte :=
  match calls with
  | [] => ([], [])
  | (buf, acc) :: rest =>
      let r := Write prefix w buf acc in
      let '(rs, out) := run prefix (w_state r) rest in
      ((w_n r, w_err r) :: rs, w_out r ++ out)
  end.

(* ---- two indenting writers stacked: upper = NewWriter(lower, p2), lower = NewWriter(s, p1).
   The bottom writer s is scripted as above.  An *iw holds no reference to the state of the
   writer beneath it, so (re)creating the upper writer only resets its own flag. *)
Inductive op2 :=
| OLower (buf : list byte) (acc : option Z)
| OUpper (buf : list byte) (acc : option Z)
| ONew.

Definition WriteUpper (p1 p2 : list byte) (w1 w2 : writer) (buf : list byte) (acc : option Z)
  : (Z * bool) * list byte * (writer * writer) :=
  match w2, buf with
  | Ind _, [] => ((0%Z, false), [], (w1, w2))            (* returns before touching the lower writer *)
  | _, _ =>
      let joined := w_out (Write p2 w2 buf None) in
      let r1 := Write p1 w1 joined acc in
      let r2 := Write p2 w2 buf (if w_err r1 then Some (w_n r1) else None) in
      ((w_n r2, w_err r2), w_out r1, (w_state r1, w_state r2))
  end.

Fixpoint run2 (p1 p2 : list byte) (w1 w2 : writer) (ops : list op2)
  : list (Z * bool) * list byte :=
  match ops with
  | [] => ([], [])
  | OLower buf acc :: rest =>
      let r := Write p1 w1 buf acc in
      let '(rs, out) := run2 p1 p2 (w_state r) w2 rest in
      ((w_n r, w_err r) :: rs, w_out r ++ out)
  | OUpper buf acc :: rest =>
      let '(res, o, (w1', w2')) := WriteUpper p1 p2 w1 w2 buf acc in
      let '(rs, out) := run2 p1 p2 w1' w2' rest in
      (res :: rs, o ++ out)
  | ONew :: rest => run2 p1 p2 w1 (NewWriter p2) rest
  end.
