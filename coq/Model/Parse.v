(* Model of the generic statement parser in /repo/pkg/yang/parse.go  (no proofs in this file).
   errout is shared with the lexer: parser messages are appended to the lexer's [errs]. *)
From Coq Require Import List NArith ZArith Bool.
Import ListNotations.
From GY Require Import Model.Lex.
Local Open Scope Z_scope.

Inductive stmt := Stmt (kw : str) (has_arg : bool) (arg : str) (sline scol : Z)
                       (soff : nat) (* ghost: offset of the keyword's first rune *)
                       (subs : list stmt).

Record parser := { lx : lexer; toks : list token (* push-back stack, top first *);
                   depth : Z; hb_line : Z; hb_col : Z; hb_off : nat; oof : bool (* fuel ran out: never *) }.

Definition with_lx (p : parser) (l : lexer) : parser :=
  {| lx := l; toks := toks p; depth := depth p; hb_line := hb_line p; hb_col := hb_col p; hb_off := hb_off p;
     oof := oof p |}.
Definition with_toks (p : parser) (ts : list token) : parser :=
  {| lx := lx p; toks := ts; depth := depth p; hb_line := hb_line p; hb_col := hb_col p; hb_off := hb_off p;
     oof := oof p |}.
Definition set_oof (p : parser) : parser :=
  {| lx := lx p; toks := toks p; depth := depth p; hb_line := hb_line p; hb_col := hb_col p; hb_off := hb_off p;
     oof := true |}.

Definition add_err (p : parser) (pos : option (Z * Z)) (k : ekind) (subject : option nat) : parser :=
  let l := lx p in
  with_lx p {| cu := cu l; Lex.sline := Lex.sline l; Lex.scol := Lex.scol l; Lex.soff := Lex.soff l;
               inPattern := inPattern l; items := items l; errcnt := errcnt l;
               errs := {| e_pos := pos; e_kind := k; e_subject := subject |} :: errs l; state := state l |}.

Definition is_TError (t : token) : bool := match t_code t with TError => true | _ => false end.
Definition is_TString (t : token) : bool := match t_code t with TString => true | _ => false end.
Definition is_TUnquoted (t : token) : bool := match t_code t with TUnquoted => true | _ => false end.
Definition is_TChar (c : rune) (t : token) : bool :=
  match t_code t with TChar d => (c =? d)%N | _ => false end.

Fixpoint str_eqb (a b : str) : bool :=
  match a, b with
  | [], [] => true
  | x :: a', y :: b' => (x =? y)%N && str_eqb a' b'
  | _, _ => false
  end.
Definition s_plus : str := [cPLUS].
Definition s_pattern : str := [112; 97; 116; 116; 101; 114; 110]%N.

(* the closure [next] inside parser.next: the next token that is not tError *)
Fixpoint raw_next (fuel : nat) (p : parser) : option token * parser :=
  match fuel with
  | O => (None, set_oof p)
  | S f =>
    match NextToken (lex_fuel (lx p)) (lx p) with
    | (None, l) => (None, set_oof (with_lx p l))
    | (Some None, l) => (None, with_lx p l)
    | (Some (Some t), l) => if is_TError t then raw_next f (with_lx p l) else (Some t, with_lx p l)
    end
  end.
Definition raw_fuel (p : parser) : nat := length (after (cu (lx p))) + 12.
Definition raw (p : parser) : option token * parser := raw_next (raw_fuel p) p.

Definition set_text (t : token) (s : str) : token :=
  {| t_code := t_code t; t_text := s; t_line := t_line t; t_col := t_col t; t_off := t_off t |}.

(* the concatenation loop of parser.next *)
Fixpoint concat_loop (fuel : nat) (t : token) (p : parser) : option token * parser :=
  match fuel with
  | O => (Some t, set_oof p)
  | S f =>
    let (nt, p) := raw p in
    match nt with
    | None => (Some t, p)
    | Some nt' =>
      if is_TUnquoted nt' && str_eqb (t_text nt') s_plus then
        let (nnt, p) := raw p in
        match nnt with
        | None => (Some t, with_toks p (nt' :: toks p))
        | Some nnt' =>
          if is_TString nnt' then concat_loop f (set_text t (t_text t ++ t_text nnt')) p
          else (Some t, with_toks p (nt' :: nnt' :: toks p))
        end
      else (Some t, with_toks p (nt' :: toks p))
    end
  end.

Definition pnext (p : parser) : option token * parser :=
  match toks p with
  | t :: r => (Some t, with_toks p r)
  | [] =>
    let (t, p) := raw p in
    match t with
    | Some t' => if is_TString t' then concat_loop (S (length (after (cu (lx p))))) t' p else (t, p)
    | None => (None, p)
    end
  end.

Inductive sres := RNil | RBrace | RIgnore | RStmt (s : stmt).

Definition tok_pos (t : token) : option (Z * Z) := Some (t_line t, t_col t).

Fixpoint nextStatement (fuel : nat) (p : parser) {struct fuel} : sres * parser :=
  match fuel with
  | O => (RNil, set_oof p)
  | S f =>
    let (t, p) := pnext p in
    match t with
    | None => (RNil, p)
    | Some t =>
      if is_TChar cRB t then
        (RBrace, {| lx := lx p; toks := toks p; depth := depth p - 1; hb_line := t_line t; hb_col := t_col t;
                    hb_off := t_off t; oof := oof p |})
      else if negb (is_TUnquoted t) then
        (RIgnore, add_err p (tok_pos t) EKeywordNotUnquoted (Some (t_off t)))
      else
        let kw := t_text t in
        let p := with_lx p (with_inPattern (lx p) (str_eqb kw s_pattern)) in
        let (t2, p) := pnext p in
        let p := with_lx p (with_inPattern (lx p) false) in
        let '(has, arg, t3, p) :=
          match t2 with
          | Some a => if is_TString a || is_TUnquoted a
                      then let (t3, p) := pnext p in (true, t_text a, t3, p)
                      else (false, [], t2, p)
          | None => (false, [], t2, p)
          end in
        match t3 with
        | None => (RNil, add_err p None EUnexpectedEOF None)
        | Some t3 =>
          if is_TChar cSEMI t3 then (RStmt (Stmt kw has arg (t_line t) (t_col t) (t_off t) []), p)
          else if is_TChar cLB t3 then
            let p := {| lx := lx p; toks := toks p; depth := depth p + 1; hb_line := hb_line p;
                        hb_col := hb_col p; hb_off := hb_off p; oof := oof p |} in
            (fix subs (n : nat) (p : parser) (acc : list stmt) {struct n} : sres * parser :=
               match n with
               | O => (RNil, set_oof p)
               | S n' =>
                 match nextStatement f p with
                 | (RNil, p) => (RNil, p)
                 | (RBrace, p) => (RStmt (Stmt kw has arg (t_line t) (t_col t) (t_off t) (rev acc)), p)
                 | (RIgnore, p) => subs n' p (Stmt [] false [] 0 0 0 [] :: acc)
                 | (RStmt s, p) => subs n' p (s :: acc)
                 end
               end) f p []
          else (RIgnore, add_err p (tok_pos t3) ESyntax (Some (t_off t3)))
        end
    end
  end.

Definition newParser (input : str) : parser :=
  {| lx := newLexer input; toks := []; depth := 0; hb_line := 0; hb_col := 0; hb_off := 0; oof := false |}.

Fixpoint parse_loop (fuel n : nat) (p : parser) (acc : list stmt) : list stmt * parser :=
  match n with
  | O => (rev acc, set_oof p)
  | S n' =>
    match nextStatement fuel p with
    | (RNil, p) => (rev acc, p)
    | (RBrace, p) =>
      parse_loop fuel n' (add_err p (Some (hb_line p, hb_col p)) EUnexpectedBrace (Some (hb_off p))) acc
    | (RIgnore, p) => parse_loop fuel n' p (Stmt [] false [] 0 0 0 [] :: acc)
    | (RStmt s, p) => parse_loop fuel n' p (s :: acc)
    end
  end.

Definition parse_fuel (input : str) : nat := 2 * length input + 8.

(* Parse: (statements, errors in the order written, out-of-fuel flag).  statements = [] when
   there is any error (Go returns nil). *)
Definition Parse (input : str) : list stmt * list perr * bool :=
  let f := parse_fuel input in
  let (ss, p) := parse_loop f f (newParser input) [] in
  (* checkStatementDepthIsZero *)
  let p := match errs (lx p) with
           | [] => if depth p =? 0 then p
                   else add_err p (Some (line (cu (lx p)), col (cu (lx p)))) EMissingBraces None
           | _ => p
           end in
  match errs (lx p) with
  | [] => (ss, [], oof p)
  | es => ([], rev es, oof p)
  end.
