(* Model of YRange / YangRange and parseChildRanges, coalesce, Contains, Validate in
   /repo/pkg/yang/types_builtin.go  (no proofs in this file).
   sort.Sort is modelled as a stable insertion sort (DESIGN.md section 3: any sorted
   permutation; elements that compare equal have equal bounds by value). *)
From Coq Require Import List NArith ZArith Bool.
Import ListNotations.
From GY Require Import Base.Outcome Model.Number.
Local Open Scope Z_scope.

Definition YRange := (Number * Number)%type.      (* (Min, Max) *)
Definition YangRange := list YRange.

Definition rMin (r : YRange) := fst r.
Definition rMax (r : YRange) := snd r.

Definition rValid (r : YRange) : bool := negb (Less (rMax r) (rMin r)).

(* YangRange.Less(i, j) *)
Definition rLess (a b : YRange) : bool :=
  if Less (rMin a) (rMin b) then true
  else if Less (rMin b) (rMin a) then false
  else Less (rMax a) (rMax b).

Fixpoint insert (x : YRange) (l : YangRange) : YangRange :=
  match l with
  | [] => [x]
  | y :: r => if rLess x y then x :: l else y :: insert x r
  end.
Definition Sort (l : YangRange) : YangRange := fold_right insert [] l.

(* coalesce, as repaired by the fix for D31 (no new part when max+1 wrapped) *)
Fixpoint coalesce_loop (cur : YRange) (rest : YangRange) : YangRange :=
  match rest with
  | [] => [cur]
  | r1 :: rest' =>
      let next := addQuantum (rMax cur) 1 in
      if Less (rMax cur) next && Less next (rMin r1) then cur :: coalesce_loop r1 rest'
      else if Less (rMax cur) (rMax r1) then coalesce_loop (rMin cur, rMax r1) rest'
      else coalesce_loop cur rest'
  end.
Definition coalesce (r : YangRange) : YangRange :=
  match r with
  | [] => []
  | x :: rest => coalesce_loop x rest
  end.

(* the loop as it stood at the pinned commit (D31), for the _refuted theorem *)
Fixpoint coalesce_loop_old (cur : YRange) (rest : YangRange) : YangRange :=
  match rest with
  | [] => [cur]
  | r1 :: rest' =>
      if Less (addQuantum (rMax cur) 1) (rMin r1) then cur :: coalesce_loop_old r1 rest'
      else if Less (rMax cur) (rMax r1) then coalesce_loop_old (rMin cur, rMax r1) rest'
      else coalesce_loop_old cur rest'
  end.
Definition coalesce_old (r : YangRange) : YangRange :=
  match r with [] => [] | x :: rest => coalesce_loop_old x rest end.

Fixpoint skip_r (r : YangRange) (ss : YRange) : YangRange :=
  match r with
  | [] => []
  | x :: r' => if Less (rMax x) (rMin ss) then skip_r r' ss else r
  end.
Fixpoint contains_loop (r s : YangRange) : bool :=
  match s with
  | [] => true
  | ss :: s' =>
      match skip_r r ss with
      | [] => false
      | x :: r' => if Less (rMin ss) (rMin x) || Less (rMax x) (rMax ss) then false
                   else contains_loop (x :: r') s'
      end
  end.
Definition Contains (r s : YangRange) : bool :=
  match r, s with
  | [], _ => true
  | _, [] => true
  | _, _ => contains_loop r s
  end.

Fixpoint is_sorted (r : YangRange) : bool :=
  match r with
  | a :: (b :: _) as t => negb (rLess b a) && is_sorted t
  | _ => true
  end.
(* true = nil error *)
Definition Validate (r : YangRange) : bool :=
  is_sorted r &&
  match r with
  | [] => true
  | p :: rest => rValid p && forallb (fun n => negb (Less (rMin n) (rMax p))) rest
  end.

Definition rEqual (a b : YRange) : bool := Equal (rMin a) (rMin b) && Equal (rMax a) (rMax b).
Fixpoint YangRange_Equal (r q : YangRange) : bool :=
  match r, q with
  | [], [] => true
  | a :: r', b :: q' => rEqual a b && YangRange_Equal r' q'
  | _, _ => false
  end.

(* ---------- text ---------- *)
Definition cbar : N := 124%N.

Fixpoint split_on (sep : N) (cur : str) (s : str) : list str :=
  match s with
  | [] => [rev cur]
  | c :: r => if (c =? sep)%N then rev cur :: split_on sep [] r else split_on sep (c :: cur) r
  end.

(* strings.Split(s, "..") *)
Fixpoint split_dotdot (cur : str) (s : str) : list str :=
  match s with
  | [] => [rev cur]
  | c :: r =>
      match r with
      | d :: r' => if ((c =? cdot) && (d =? cdot))%N then rev cur :: split_dotdot [] r'
                   else split_dotdot (c :: cur) r
      | [] => [rev (c :: cur)]
      end
  end.

Definition s_max : str := [109; 97; 120]%N.
Definition s_min : str := [109; 105; 110]%N.

Definition setfd (n : Number) (fd : Z) : Number :=
  {| Value := Value n; FractionDigits := fd; Negative := Negative n |}.

Definition parseNumber (y : YangRange) (dec : bool) (fd : Z) (s : str) : outcome Number :=
  if str_eqb s s_max then
    match rev y with [] => Err | l :: _ => Ok (setfd (rMax l) fd) end
  else if str_eqb s s_min then
    match y with [] => Err | f :: _ => Ok (setfd (rMin f) fd) end
  else if dec then ParseDecimal s fd
  else ParseInt s.

Definition parsePart (y : YangRange) (dec : bool) (fd : Z) (s : str) : outcome YRange :=
  match split_dotdot [] s with
  | [a] => mn <- parseNumber y dec fd (TrimSpace a) ;; Ok (mn, mn)
  | [a; b] => mn <- parseNumber y dec fd (TrimSpace a) ;;
              mx <- parseNumber y dec fd (TrimSpace b) ;;
              if Less mx mn then Err else Ok (mn, mx)
  | a :: _ => _ <- parseNumber y dec fd (TrimSpace a) ;; Err
  | [] => Err
  end.

Fixpoint parseParts (y : YangRange) (dec : bool) (fd : Z) (ps : list str) : outcome YangRange :=
  match ps with
  | [] => Ok []
  | p :: rest => r <- parsePart y dec fd p ;; rs <- parseParts y dec fd rest ;; Ok (r :: rs)
  end.

(* everything after the text has been read: sort, coalesce, subset check, validate *)
Definition finish (y r : YangRange) : outcome YangRange :=
  let r := coalesce (Sort r) in
  if negb (Contains y r) then Err
  else if negb (Validate r) then Err
  else Ok r.

Definition parseChildRanges (y : YangRange) (s : str) (dec : bool) (fd : Z) : outcome YangRange :=
  r <- parseParts y dec fd (split_on cbar [] s) ;;
  finish y r.
