(* Model of Number and its functions in /repo/pkg/yang/types_builtin.go, and of
   Value.asRangeInt in yang.go  (no proofs in this file).

   uint64 / int64 / uint8 arithmetic is written with its wrap-around ([u64], [wrap64], [u8]).
   Strings are lists of bytes (N).  strconv.ParseUint(s, 0, 64), strconv.ParseInt(s, 10, 64),
   strconv.FormatUint(v, 10) and strings.TrimSpace are modelled (see DESIGN.md section 3):
   ParseUint with base 0 is modelled on digit strings (leading 0 => octal); a string that
   contains an ASCII letter or '_' is [Unmodelled] (hex/octal/binary prefixes, digit
   separators); any other non-digit byte is a syntax error as in strconv. *)
From Coq Require Import List NArith ZArith Bool.
Import ListNotations.
From GY Require Import Base.Outcome.
Local Open Scope Z_scope.

Definition str := list N.

Definition two64 : Z := 2 ^ 64.
Definition two63 : Z := 2 ^ 63.
Definition MaxInt64 : Z := two63 - 1.
Definition MinInt64 : Z := - two63.
Definition AbsMinInt64 : Z := two63.
Definition MaxUint64 : Z := two64 - 1.
Definition MaxFractionDigits : Z := 18.

Definition u64 (z : Z) : Z := z mod two64.
Definition u8 (z : Z) : Z := z mod 256.
Definition wrap64 (z : Z) : Z := (z + two63) mod two64 - two63.

Record Number := { Value : Z; FractionDigits : Z; Negative : bool }.

Definition IsDecimal (n : Number) : bool := negb (FractionDigits n =? 0).

(* pow10: e multiplications by 10 in uint64 = 10^e mod 2^64 *)
Definition pow10 (e : Z) : Z := u64 (10 ^ e).

(* uint64 division; Go panics on a zero divisor (pow10 e = 0 for e >= 64) *)
Definition Trunc (n : Number) : Z := Value n / pow10 (FractionDigits n).

Definition frac (n : Number) : Z :=
  let fr := FractionDigits n in
  let i := u64 (Trunc n * pow10 fr) in
  u64 (u64 (Value n - i) * pow10 (u8 (18 - fr))).

Definition Less (n m : Number) : bool :=
  if Negative n && negb (Negative m) then negb (Value n =? 0) || negb (Value m =? 0)
  else if negb (Negative n) && Negative m then false
  else
    let nt := Trunc n in let mt := Trunc m in
    if nt =? mt then
      let nf := frac n in let mf := frac m in
      if nf =? mf then false
      else let lt := nf <? mf in if Negative n then negb lt else lt
    else let lt := nt <? mt in if Negative n then negb lt else lt.

Definition Equal (n m : Number) : bool := negb (Less n m) && negb (Less m n).

Definition Int (n : Number) : outcome Z :=
  if IsDecimal n then Err
  else if Negative n then
    if Value n >? AbsMinInt64 then Err else Ok (wrap64 (- wrap64 (Value n)))
  else if Value n <=? MaxInt64 then Ok (wrap64 (Value n))
  else Err.

Definition addQuantum (n : Number) (i : Z) : Number :=
  if Negative n then
    if Value n <=? i then {| Value := u64 (i - Value n); FractionDigits := FractionDigits n; Negative := false |}
    else {| Value := u64 (Value n - i); FractionDigits := FractionDigits n; Negative := true |}
  else {| Value := u64 (Value n + i); FractionDigits := FractionDigits n; Negative := false |}.

Definition FromInt (i : Z) : Number :=
  if i <? 0 then {| Value := u64 (- i); FractionDigits := 0; Negative := true |}
  else {| Value := u64 i; FractionDigits := 0; Negative := false |}.
Definition FromUint (i : Z) : Number := {| Value := i; FractionDigits := 0; Negative := false |}.

(* ---------- decimal text ---------- *)
Definition c0 : N := 48%N.   (* '0' *)
Definition cdot : N := 46%N.
Definition cminus : N := 45%N.
Definition cplus : N := 43%N.

Definition digit_char (d : Z) : N := (c0 + Z.to_N d)%N.

(* strconv.FormatUint(v, 10) for v < 10^fuel *)
Fixpoint fmt_fuel (fuel : nat) (v : Z) : str :=
  match fuel with
  | O => []
  | S f => if v <? 10 then [digit_char v] else fmt_fuel f (v / 10) ++ [digit_char (v mod 10)]
  end.
Definition FormatUint (v : Z) : str := fmt_fuel 20 v.

Definition zeros (k : Z) : str := repeat c0 (Z.to_nat k).

Definition String_ (n : Number) : outcome str :=
  let out := FormatUint (Value n) in
  r <- (if IsDecimal n then
          let fd := FractionDigits n in
          let ofd := Z.of_nat (length out) - fd in
          if ofd <=? 0 then
            if (- ofd + 1) >? 18 then Panic   (* space18[:-ofd+1] out of range *)
            else let out := zeros (- ofd + 1) ++ out in
                 Ok (firstn 1 out ++ [cdot] ++ skipn 1 out)
          else Ok (firstn (Z.to_nat ofd) out ++ [cdot] ++ skipn (Z.to_nat ofd) out)
        else Ok out) ;;
  Ok (if Negative n then cminus :: r else r).

Definition is_digit (c : N) : bool := ((48 <=? c) && (c <=? 57))%N.
Definition digit_val (c : N) : Z := Z.of_N (c - 48).
Definition is_alpha_us (c : N) : bool :=
  (((65 <=? c) && (c <=? 90)) || ((97 <=? c) && (c <=? 122)) || (c =? 95))%N.
Definition is_space (c : N) : bool :=
  ((c =? 32) || ((9 <=? c) && (c <=? 13)))%N.

Fixpoint trim_left (s : str) : str :=
  match s with c :: r => if is_space c then trim_left r else s | [] => [] end.
Definition TrimSpace (s : str) : str := rev (trim_left (rev (trim_left s))).

(* digits in a base, accumulating; Err on a digit >= base or any non-digit; Err on overflow
   beyond [maxv] (strconv returns a range error at once; the callers only see err != nil) *)
Fixpoint acc_digits (base maxv : Z) (acc : Z) (s : str) : outcome Z :=
  match s with
  | [] => Ok acc
  | c :: r =>
      if is_digit c then
        let d := digit_val c in
        if d >=? base then Err
        else let acc' := acc * base + d in
             if acc' >? maxv then Err   (* range error *)
             else acc_digits base maxv acc' r
      else Err
  end.

(* strconv.ParseUint(s, 0, 64) *)
Definition ParseUint0 (s : str) : outcome Z :=
  if existsb is_alpha_us s then Unmodelled
  else match s with
       | [] => Err
       | c :: r => if (c =? 48)%N then acc_digits 8 MaxUint64 0 r
                   else acc_digits 10 MaxUint64 0 s
       end.

Definition str_eqb (a b : str) : bool :=
  (length a =? length b)%nat && forallb (fun p => N.eqb (fst p) (snd p)) (combine a b).

(* strings.TrimSpace also trims the Unicode blanks U+0085, U+00A0, ...: texts with
   non-ASCII bytes are outside the model *)
Definition non_ascii (s : str) : bool := existsb (fun c => (128 <=? c)%N) s.

Definition ParseInt (s : str) : outcome Number :=
  if non_ascii s then Unmodelled else
  let s := TrimSpace s in
  match s with
  | [] => Err
  | c :: r =>
      if (str_eqb s [cplus] || str_eqb s [cminus]) then Err
      else
        let '(neg, ns) := if (c =? cplus)%N then (false, r)
                          else if (c =? cminus)%N then (true, r) else (false, s) in
        v <- ParseUint0 ns ;;
        Ok {| Value := v; FractionDigits := 0; Negative := neg |}
  end.

(* strconv.ParseInt(s, 10, 64): returns the signed value *)
Definition ParseInt10 (s : str) : outcome Z :=
  match s with
  | [] => Err
  | c :: r =>
      let '(neg, ds) := if (c =? cplus)%N then (false, r)
                        else if (c =? cminus)%N then (true, r) else (false, s) in
      match ds with
      | [] => Err
      | _ => v <- acc_digits 10 (if neg then two63 else two63 - 1) 0 ds ;;
             Ok (if neg then - v else v)
      end
  end.

Fixpoint index_dot (s : str) : option nat :=
  match s with
  | [] => None
  | c :: r => if (c =? cdot)%N then Some O else option_map S (index_dot r)
  end.

Definition decimalValueFromString (numStr : str) (fdReq : Z) : outcome Number :=
  if (fdReq >? MaxFractionDigits) || (fdReq <? 1) then Err
  else
    let '(fracDig, s, toomany) :=
      match index_dot numStr with
      | Some dx =>
          let k := Z.of_nat (length numStr) - 1 - Z.of_nat dx in
          (u8 k, firstn dx numStr ++ skipn (S dx) numStr, k >? MaxFractionDigits)
      | None => (0, numStr, false)
      end in
    if toomany then Err
    else if fracDig >? fdReq then Err
    else
      let s := s ++ zeros (fdReq - fracDig) in
      v <- ParseInt10 s ;;
      let neg := v <? 0 in
      let v := if neg then wrap64 (- v) else v in
      Ok {| Value := u64 v; FractionDigits := fdReq; Negative := neg |}.

Definition ParseDecimal (s : str) (fdReq : Z) : outcome Number :=
  if non_ascii s then Unmodelled else
  let s := TrimSpace s in
  match s with
  | [] => Err
  | _ => if (str_eqb s [cplus] || str_eqb s [cminus]) then Err
         else decimalValueFromString s fdReq
  end.

(* Value.asRangeInt(min, max) on a non-nil receiver whose text is s *)
Definition asRangeInt (s : str) (lo hi : Z) : outcome Z :=
  n <- ParseInt s ;;
  i <- Int n ;;
  if (i <? lo) || (i >? hi) then Err else Ok i.
