(* Pointer-level model of the operations of /repo/pkg/yang/entry.go that create and move *Entry nodes:
     Entry.dup, Entry.add, Entry.merge, and the case insertion of Entry.FixChoice (pointer receivers).
   Model/Schema.v has immutable trees; here an Entry is a CELL in a heap, addressed by an id (its "pointer"), and the
   functions below follow the Go statements: which cells are allocated, which fields are copied by value, which hold
   the same reference as the source, which Parent pointers are written.

   heap        list of cells, id = index; allocation appends, nothing is ever freed (Go: garbage collected)
   c_parent    Entry.Parent                       c_children  Entry.Dir (association list; Go: map, keys unique)
   c_input/c_output  Entry.RPC.Input / .Output    (the RPCEntry record itself is allocated afresh by dup: by value here)
   c_la        Entry.ListAttr (min,max): dup allocates a copy -> by value here
   c_ty        Entry.Type: a REFERENCE (token naming the shared *YangType object); dup copies the pointer
   c_ns        Entry.namespace (token naming a *Value; merge stamps it)
   c_errs      len(Entry.Errors)
   No proofs in this file. *)
From Coq Require Import List NArith Bool Arith.
Import ListNotations.

Definition str := list N.
Definition id := nat.

Record cell := mkCell {
  c_parent : option id;
  c_name : str;
  c_kind : N;
  c_children : list (str * id);
  c_input : option id;
  c_output : option id;
  c_la : option (N * N);
  c_ty : option N;
  c_ns : option N;
  c_errs : nat }.

Definition heap := list cell.

Definition get (h : heap) (i : id) : option cell := nth_error h i.

Fixpoint set (h : heap) (i : id) (c : cell) : heap :=
  match h, i with
  | [], _ => []
  | _ :: t, O => c :: t
  | x :: t, S j => x :: set t j c
  end.

(* allocation: the fresh id is the current size *)
Definition alloc (h : heap) (c : cell) : heap * id := (h ++ [c], length h).

Definition with_parent (c : cell) (p : option id) : cell :=
  mkCell p (c_name c) (c_kind c) (c_children c) (c_input c) (c_output c) (c_la c) (c_ty c) (c_ns c) (c_errs c).
Definition with_links (c : cell) (dir : list (str * id)) (i o : option id) : cell :=
  mkCell (c_parent c) (c_name c) (c_kind c) dir i o (c_la c) (c_ty c) (c_ns c) (c_errs c).
Definition with_children (c : cell) (dir : list (str * id)) : cell :=
  mkCell (c_parent c) (c_name c) (c_kind c) dir (c_input c) (c_output c) (c_la c) (c_ty c) (c_ns c) (c_errs c).
Definition with_ns (c : cell) (ns : option N) : cell :=
  mkCell (c_parent c) (c_name c) (c_kind c) (c_children c) (c_input c) (c_output c) (c_la c) (c_ty c) ns (c_errs c).
Definition with_err (c : cell) : cell :=
  mkCell (c_parent c) (c_name c) (c_kind c) (c_children c) (c_input c) (c_output c) (c_la c) (c_ty c) (c_ns c) (S (c_errs c)).

(* x.Parent = p *)
Definition set_parent (h : heap) (x : id) (p : option id) : heap :=
  match get h x with Some c => set h x (with_parent c p) | None => h end.

(* rpc input / output seen as a list of at most one link, so that one loop serves Dir, Input and Output *)
Definition opt_list (o : option id) : list (str * id) := match o with Some v => [([], v)] | None => [] end.
Definition list_opt (l : list (str * id)) : option id := match l with (_, v) :: _ => Some v | [] => None end.

(* for k, v := range links { de := v.dup(); de.Parent = &ne; new[k] = de } *)
Fixpoint dup_list (D : heap -> id -> option (heap * id)) (ne : id) (l : list (str * id)) (h : heap)
  : option (heap * list (str * id)) :=
  match l with
  | [] => Some (h, [])
  | (k, v) :: l' =>
    match D h v with
    | None => None
    | Some (h1, de) =>
      let h2 := set_parent h1 de (Some ne) in
      match dup_list D ne l' h2 with
      | None => None
      | Some (h3, r) => Some (h3, (k, de) :: r)
      end
    end
  end.

(* func Entry.dup() *Entry.  None = out of fuel or nil dereference (excluded by the theorems). *)
Fixpoint dup (fuel : nat) (h : heap) (e : id) : option (heap * id) :=
  match fuel with
  | O => None
  | S f =>
    match get h e with
    | None => None
    | Some c =>
      (* ne := *e  -- a new cell holding every field of e, Parent and the links to e's children included *)
      let (h0, ne) := alloc h c in
      (* ne.Dir = make(map); for k, v := range e.Dir { de := v.dup(); de.Parent = &ne; ne.Dir[k] = de } *)
      match dup_list (dup f) ne (c_children c) h0 with
      | None => None
      | Some (h1, dir) =>
        (* ne.RPC = &RPCEntry{}; ne.RPC.Input = e.RPC.Input.dup(); ne.RPC.Input.Parent = &ne *)
        match dup_list (dup f) ne (opt_list (c_input c)) h1 with
        | None => None
        | Some (h2, i) =>
          (* ne.RPC.Output = e.RPC.Output.dup(); ne.RPC.Output.Parent = &ne *)
          match dup_list (dup f) ne (opt_list (c_output c)) h2 with
          | None => None
          | Some (h3, o) =>
            (* ListAttr, Extra, Default: fresh copies (by value here); Type, Node, Exts, Prefix, namespace: same
               reference as e (the token is copied) *)
            Some (set h3 ne (with_links c dir (list_opt i) (list_opt o)), ne)
          end
        end
      end
    end
  end.

Fixpoint str_eqb (a b : str) : bool :=
  match a, b with
  | [], [] => true
  | x :: a', y :: b' => N.eqb x y && str_eqb a' b'
  | _, _ => false
  end.

Fixpoint lookup (k : str) (l : list (str * id)) : option id :=
  match l with
  | [] => None
  | (k', v) :: l' => if str_eqb k k' then Some v else lookup k l'
  end.

(* func Entry.add(key string, value *Entry) *Entry *)
Definition add (h : heap) (e : id) (key : str) (value : id) : heap :=
  let h1 := set_parent h value (Some e) in                      (* value.Parent = e *)
  match get h1 e with
  | None => h1
  | Some c =>
    match lookup key (c_children c) with
    | Some _ => set h1 e (with_err c)                           (* e.errorf("duplicate key ...") ; return *)
    | None => set h1 e (with_children c (c_children c ++ [(key, value)]))   (* e.Dir[key] = value *)
    end
  end.

(* func Entry.merge(prefix, namespace *Value, oe *Entry): the loop over oe.Dir.  for k, v := range oe.Dir { v := v.dup(); stamp; if e.Dir[k] != nil { addError }
   else { v.Parent = e; e.Dir[k] = v } } *)
Fixpoint merge_list (fuel : nat) (h : heap) (e : id) (ns : option N) (l : list (str * id)) : option heap :=
  match l with
  | [] => Some h
  | (k, v) :: l' =>
    match dup fuel h v with
    | None => None
    | Some (h1, v') =>
      let h2 := match ns, get h1 v' with
                | Some n, Some c => set h1 v' (with_ns c (Some n))          (* v.namespace = namespace *)
                | _, _ => h1 end in
      match get h2 e with
      | None => None
      | Some ce =>
        let h3 := match lookup k (c_children ce) with
                  | Some _ => set h2 e (with_err ce)                        (* e.addError(Duplicate node ...) *)
                  | None => set (set_parent h2 v' (Some e)) e (with_children ce (c_children ce ++ [(k, v')]))
                  end in
        merge_list fuel h3 e ns l'
      end
    end
  end.

(* func Entry.importErrors: the number of errors on c and below (Dir, RPC.Input, RPC.Output) *)
Fixpoint sum_errs (fuel : nat) (h : heap) (r : id) : nat :=
  match fuel with
  | O => 0
  | S f =>
    match get h r with
    | None => 0
    | Some c =>
      c_errs c + fold_right (fun kv a => sum_errs f h (snd kv) + a) 0
                            (c_children c ++ opt_list (c_input c) ++ opt_list (c_output c))
    end
  end.
Definition with_errs (c : cell) (n : nat) : cell :=
  mkCell (c_parent c) (c_name c) (c_kind c) (c_children c) (c_input c) (c_output c) (c_la c) (c_ty c) (c_ns c) n.

Definition merge (fuel : nat) (h : heap) (e : id) (ns : option N) (oe : id) : option heap :=
  match get h oe, get h e with
  | Some co, Some ce =>
    (* e.importErrors(oe) *)
    let h0 := set h e (with_errs ce (c_errs ce + sum_errs fuel h oe)) in
    merge_list fuel h0 e ns (c_children co)
  | _, _ => None
  end.

(* func Entry.FixChoice: a non-case child ce of an error-free choice e is wrapped into a NEW case entry
     ne := &Entry{Parent: e, Name: ce.Name, Kind: CaseEntry, namespace: ce.namespace, Dir: {ce.Name: ce}}; ce.Parent = ne; e.Dir[k] = ne
   then the children (the new cases included), input and output are visited.  (No theorem about this one: model and
   correspondence only.) *)
Definition K_CASE : N := 4%N.
Definition K_CHOICE : N := 5%N.
Fixpoint wrap_cases (h : heap) (e : id) (l : list (str * id)) : heap * list (str * id) :=
  match l with
  | [] => (h, [])
  | (k, ce) :: l' =>
    match get h ce with
    | None => let (h', r) := wrap_cases h e l' in (h', (k, ce) :: r)
    | Some cc =>
      if N.eqb (c_kind cc) K_CASE then let (h', r) := wrap_cases h e l' in (h', (k, ce) :: r)
      else
        let (h1, ne) := alloc h (mkCell (Some e) (c_name cc) K_CASE [(c_name cc, ce)] None None None None (c_ns cc) 0) in
        let h2 := set_parent h1 ce (Some ne) in
        let (h', r) := wrap_cases h2 e l' in (h', (k, ne) :: r)
    end
  end.

Fixpoint fix_choice (fuel : nat) (h : heap) (e : id) : option heap :=
  match fuel with
  | O => None
  | S f =>
    match get h e with
    | None => None
    | Some c =>
      let h1 := if N.eqb (c_kind c) K_CHOICE && Nat.eqb (c_errs c) 0
                then let (h', dir) := wrap_cases h e (c_children c) in
                     match get h' e with Some c' => set h' e (with_children c' dir) | None => h' end
                else h in
      match get h1 e with
      | None => None
      | Some c1 =>
        fold_left (fun acc kv => match acc with None => None | Some hh => fix_choice f hh (snd kv) end)
                  (c_children c1 ++ opt_list (c_input c1) ++ opt_list (c_output c1)) (Some h1)
      end
    end
  end.
Definition fix_top (h : heap) (e : id) : option heap := fix_choice (S (2 * length h)) h e.

(* ---- plain trees: what a well-formed part of the heap denotes, ids forgotten *)
Inductive tree :=
  TNode (name : str) (kind : N) (la : option (N * N)) (ty ns : option N) (errs : nat)
        (kids inp outp : list (str * tree)).

Fixpoint walk_list (W : id -> option (tree * list id)) (l : list (str * id)) : option (list (str * tree) * list id) :=
  match l with
  | [] => Some ([], [])
  | (k, v) :: l' =>
    match W v with
    | None => None
    | Some (t, ids) =>
      match walk_list W l' with
      | None => None
      | Some (ts, ids') => Some ((k, t) :: ts, ids ++ ids')
      end
    end
  end.

Definition oid_eqb (a b : option id) : bool :=
  match a, b with
  | None, None => true
  | Some x, Some y => Nat.eqb x y
  | _, _ => false
  end.

(* the checked walk from r, expecting Parent = p: the erased tree and the ids visited, in visiting order (Dir in
   list order, then input, then output); None when a link dangles, a Parent pointer is wrong or fuel runs out *)
Fixpoint walk (fuel : nat) (h : heap) (p : option id) (r : id) : option (tree * list id) :=
  match fuel with
  | O => None
  | S f =>
    match get h r with
    | None => None
    | Some c =>
      if oid_eqb (c_parent c) p then
        match walk_list (walk f h (Some r)) (c_children c) with
        | None => None
        | Some (ks, i1) =>
          match walk_list (walk f h (Some r)) (opt_list (c_input c)) with
          | None => None
          | Some (ti, i2) =>
            match walk_list (walk f h (Some r)) (opt_list (c_output c)) with
            | None => None
            | Some (to, i3) =>
              Some (TNode (c_name c) (c_kind c) (c_la c) (c_ty c) (c_ns c) (c_errs c) ks ti to, r :: i1 ++ i2 ++ i3)
            end
          end
        end
      else None
    end
  end.

(* erase: the tree below r, whatever r's own Parent is *)
Definition erase (fuel : nat) (h : heap) (r : id) : option tree :=
  match get h r with
  | None => None
  | Some c => match walk fuel h (c_parent c) r with Some (t, _) => Some t | None => None end
  end.
Definition reach (fuel : nat) (h : heap) (r : id) : option (list id) :=
  match get h r with
  | None => None
  | Some c => match walk fuel h (c_parent c) r with Some (_, ids) => Some ids | None => None end
  end.

(* entry points of the harness: fuel = size of the heap (a path without repetition is no longer than that) *)
Definition dup_top (h : heap) (e : id) : option (heap * id) := dup (length h) h e.
Definition merge_top (h : heap) (e : id) (ns : option N) (oe : id) : option heap := merge (length h) h e ns oe.
