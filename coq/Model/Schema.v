(* Core resolver model: from abstract module sources to resolved entry forests.
   Models, for the data-definition subset of YANG below, what /repo/pkg/yang does in
     entry.go   ToEntry (per node kind), add, merge, dup, Augment, FixChoice, ApplyDeviate,
                Find, Namespace, ReadOnly, InstantiatingModule
     find.go    FindGrouping (lexical scope, imports, includes)
     modules.go Process (include resolution, error sweeps, augment retry loop with swap-remove,
                choice fix-up, deviations once per module name), FindModuleByNamespace
   (no proofs in this file).

   Entries are immutable trees: Go's in-place mutation (merge, augment, deviation) is functional
   update at a path; the cached grouping entry that every `uses` duplicates is recomputation.
   Sharing and parent pointers therefore do not exist in the model; the harness checks them on
   the implementation (tree walker of harness/go/resolve.go).  Go map iteration order is an
   explicit parameter (the order in which modules are visited).  Errors are modelled by
   presence only: any error anywhere makes Process return errors.
   Types are opaque names (resolution of typedef chains is Model/Types.v, C09); identities are
   Model/Identity.v (C11); revisions are Model/Registry.v (C13). *)
From Coq Require Import List NArith ZArith Bool.
Import ListNotations.
Local Open Scope N_scope.

Definition str := list N.

Fixpoint str_eqb (a b : str) : bool :=
  match a, b with
  | [], [] => true
  | x :: a', y :: b' => (x =? y) && str_eqb a' b'
  | _, _ => false
  end.

Inductive tri := TSUnset | TSTrue | TSFalse.
Definition MaxUint64 : N := 18446744073709551615.

(* ------------------------------------------------------------------ sources *)
Inductive dnode :=
| DLeaf (name ty : str) (cfg mand : tri) (dflt : option str) (units : option str)
| DLeafList (name ty : str) (cfg : tri) (dflts : list str) (minE maxE : option N)
| DContainer (name : str) (cfg : tri) (body : list dnode)
| DList (name : str) (key : option str) (cfg : tri) (minE maxE : option N) (body : list dnode)
| DChoice (name : str) (cfg mand : tri) (dflt : option str) (body : list dnode)
| DCase (name : str) (body : list dnode)
| DAny (xml : bool) (name : str) (cfg mand : tri)
| DUses (gname : str)
| DGrouping (gid : nat) (name : str) (body : list dnode)
| DRpc (action : bool) (name : str) (input output : option (list dnode))
| DNotification (name : str) (body : list dnode).

Record deviate := { dv_kind : str;              (* the argument: not-supported | add | replace | delete | ... *)
                    dv_cfg : tri; dv_mand : tri; dv_default : option str;
                    dv_min : option N; dv_max : option N;   (* max-elements unbounded = MaxUint64 *)
                    dv_units : option str; dv_type : option str }.

Record module := { m_name : str;
                   m_prefix : str;               (* prefix, or belongs-to's prefix for a submodule *)
                   m_ns : str;                   (* namespace ("" for a submodule) *)
                   m_belongs : option str;       (* Some owner = this is a submodule *)
                   m_imports : list (str * str); (* prefix, module name *)
                   m_includes : list str;
                   m_body : list dnode;
                   m_augments : list (str * list dnode);      (* path, body *)
                   m_deviations : list (str * list deviate) }.

Definition schema := list module.

(* ------------------------------------------------------------------ entries *)
Inductive ekind := KLeaf | KDir | KAnyData | KAnyXML | KCase | KChoice | KInput | KNotification | KOutput.

Inductive entry :=
| Entry (name : str) (kind : ekind) (cfg mand : tri) (dflt : list str) (units : str)
        (ty : option str) (key : str)
        (la : option (N * N * (bool * bool)))        (* ListAttr: min, max, (min-elements statement present, max-elements statement present) *)
        (ns : option str)                            (* namespace stamped by an augment *)
        (dir : option (list (str * entry)))          (* Dir; None = nil map *)
        (rpc : option (option entry * option entry)) (* RPC: input, output *).

Definition e_name (e : entry) := match e with Entry n _ _ _ _ _ _ _ _ _ _ _ => n end.
Definition e_kind (e : entry) := match e with Entry _ k _ _ _ _ _ _ _ _ _ _ => k end.
Definition e_cfg (e : entry) := match e with Entry _ _ c _ _ _ _ _ _ _ _ _ => c end.
Definition e_mand (e : entry) := match e with Entry _ _ _ m _ _ _ _ _ _ _ _ => m end.
Definition e_dflt (e : entry) := match e with Entry _ _ _ _ d _ _ _ _ _ _ _ => d end.
Definition e_units (e : entry) := match e with Entry _ _ _ _ _ u _ _ _ _ _ _ => u end.
Definition e_ty (e : entry) := match e with Entry _ _ _ _ _ _ t _ _ _ _ _ => t end.
Definition e_key (e : entry) := match e with Entry _ _ _ _ _ _ _ k _ _ _ _ => k end.
Definition e_la (e : entry) := match e with Entry _ _ _ _ _ _ _ _ l _ _ _ => l end.
Definition e_ns (e : entry) := match e with Entry _ _ _ _ _ _ _ _ _ n _ _ => n end.
Definition e_dir (e : entry) := match e with Entry _ _ _ _ _ _ _ _ _ _ d _ => d end.
Definition e_rpc (e : entry) := match e with Entry _ _ _ _ _ _ _ _ _ _ _ r => r end.

Definition set_dir (e : entry) (d : option (list (str * entry))) : entry :=
  match e with Entry n k c m df u t ky la ns _ r => Entry n k c m df u t ky la ns d r end.
Definition set_rpc (e : entry) (r : option (option entry * option entry)) : entry :=
  match e with Entry n k c m df u t ky la ns d _ => Entry n k c m df u t ky la ns d r end.
Definition set_ns (e : entry) (ns : option str) : entry :=
  match e with Entry n k c m df u t ky la _ d r => Entry n k c m df u t ky la ns d r end.
Definition set_name_kind (e : entry) (n : str) (k : ekind) : entry :=
  match e with Entry _ _ c m df u t ky la ns d r => Entry n k c m df u t ky la ns d r end.

Definition newDirectory (name : str) : entry :=
  Entry name KDir TSUnset TSUnset [] [] None [] None None (Some []) None.

Fixpoint lookup {A} (k : str) (l : list (str * A)) : option A :=
  match l with [] => None | (k', v) :: r => if str_eqb k k' then Some v else lookup k r end.
Fixpoint update {A} (k : str) (v : A) (l : list (str * A)) : list (str * A) :=
  match l with
  | [] => []
  | (k', v') :: r => if str_eqb k k' then (k', v) :: r else (k', v') :: update k v r
  end.
Fixpoint remove {A} (k : str) (l : list (str * A)) : list (str * A) :=
  match l with
  | [] => []
  | (k', v') :: r => if str_eqb k k' then r else (k', v') :: remove k r
  end.

(* result of building: the entry and whether any error was recorded on it or below *)
Definition built := (entry * bool)%type.

(* Entry.add: first one wins, a second one under the same key records an error *)
Definition add_child (acc : list (str * entry) * bool) (key : str) (v : built) : list (str * entry) * bool :=
  let '(d, err) := acc in
  match lookup key d with
  | Some _ => (d, true)
  | None => (d ++ [(key, fst v)], err || snd v)
  end.

(* Entry.merge(prefix, namespace, oe): every child of oe is copied into e; a name already present
   records an error; the namespace, if given, is stamped on each copied child *)
Definition merge_dir (acc : list (str * entry) * bool) (ns : option str) (oe : list (str * entry))
  : list (str * entry) * bool :=
  fold_left (fun a kv =>
               let '(d, err) := a in
               match lookup (fst kv) d with
               | Some _ => (d, true)
               | None => (d ++ [(fst kv, match ns with Some _ => set_ns (snd kv) ns | None => snd kv end)], err)
               end) oe acc.

(* ------------------------------------------------------------------ strings *)
Definition cSLASH : N := 47. Definition cCOLON : N := 58. Definition cDOT : N := 46.

Fixpoint split_on (sep : N) (cur : str) (s : str) : list str :=
  match s with
  | [] => [rev cur]
  | c :: r => if c =? sep then rev cur :: split_on sep [] r else split_on sep (c :: cur) r
  end.

(* getPrefix: strings.SplitN(s, ":", 2) *)
Fixpoint getPrefix_go (cur : str) (s : str) : str * str :=
  match s with
  | [] => ([], rev cur)                      (* no colon: prefix "" *)
  | c :: r => if c =? cCOLON then (rev cur, r) else getPrefix_go (c :: cur) r
  end.
Definition getPrefix (s : str) : str * str := getPrefix_go [] s.

Fixpoint has_prefix (p s : str) : bool :=
  match p, s with
  | [], _ => true
  | x :: p', y :: s' => (x =? y) && has_prefix p' s'
  | _, [] => false
  end.
(* strings.TrimPrefix *)
Definition trim_prefix (p s : str) : str := if has_prefix p s then skipn (length p) s else s.

Definition s_input : str := [105;110;112;117;116].
Definition s_output : str := [111;117;116;112;117;116].
Definition s_dot : str := [cDOT].
Definition s_dotdot : str := [cDOT; cDOT].
Definition s_add : str := [97;100;100].
Definition s_replace : str := [114;101;112;108;97;99;101].
Definition s_delete : str := [100;101;108;101;116;101].
Definition s_notsupported : str := [110;111;116;45;115;117;112;112;111;114;116;101;100].

Definition builtin_types : list str :=
  [ [105;110;116;56]; [105;110;116;49;54]; [105;110;116;51;50]; [105;110;116;54;52];
    [117;105;110;116;56]; [117;105;110;116;49;54]; [117;105;110;116;51;50]; [117;105;110;116;54;52];
    [115;116;114;105;110;103]; [98;111;111;108;101;97;110]; [98;105;110;97;114;121]; [101;109;112;116;121] ].
Definition is_builtin (t : str) : bool := existsb (str_eqb t) builtin_types.

(* ------------------------------------------------------------------ module set *)
Fixpoint find_module (SC : schema) (name : str) : option module :=
  match SC with [] => None | m :: r => if str_eqb (m_name m) name then Some m else find_module r name end.

Definition is_sub (m : module) : bool := match m_belongs m with Some _ => true | None => false end.

(* module(n): the module a (sub)module belongs to *)
Definition owner (SC : schema) (m : module) : option module :=
  match m_belongs m with
  | None => Some m
  | Some o => match find_module SC o with
              | Some om => if is_sub om then None else Some om
              | None => None
              end
  end.

(* the groupings a list of statements declares *)
Fixpoint groupings_of (body : list dnode) : list (nat * str * list dnode) :=
  match body with
  | [] => []
  | DGrouping gid n b :: r => (gid, n, b) :: groupings_of r
  | _ :: r => groupings_of r
  end.
Definition rpc_groupings (body : list dnode) : list (nat * str * list dnode) := groupings_of body.

(* a grouping together with the context it is defined in: its module and the enclosing scopes
   (innermost first; each scope is the list of statements of one enclosing node) *)
Record gctx := { g_mod : module; g_scopes : list (list dnode) }.
Definition found_grouping := (nat * list dnode * gctx)%type.   (* gid, body, defining context *)

Fixpoint find_in (name : str) (gs : list (nat * str * list dnode)) : option (nat * list dnode) :=
  match gs with
  | [] => None
  | (gid, n, b) :: r => if str_eqb n name then Some (gid, b) else find_in name r
  end.

(* FindGrouping started at a module node (the tail of the walk, and the entry point for imports and
   includes).  [seen] is the set of submodule names already visited; fuel bounds the include /
   import recursion (number of modules + 1 suffices). *)
Fixpoint find_grouping_mod (fuel : nat) (SC : schema) (m : module) (trim : bool) (name : str) (seen : list str)
  : option found_grouping * list str :=
  match fuel with
  | O => (None, seen)
  | S f =>
    (* a fresh FindGrouping call trims the local prefix of the module it starts in *)
    let name := if trim then trim_prefix (m_prefix m ++ [cCOLON]) name else name in
    match find_in name (groupings_of (m_body m)) with
    | Some (gid, b) => (Some (gid, b, {| g_mod := m; g_scopes := [m_body m] |}), seen)
    | None =>
      (* imports: the name must carry that import's prefix *)
      let imp :=
        (fix go (is : list (str * str)) (seen : list str) : option found_grouping * list str :=
           match is with
           | [] => (None, seen)
           | (p, mn) :: r =>
             if has_prefix (p ++ [cCOLON]) name then
               match find_module SC mn with
               | Some im =>
                 match find_grouping_mod f SC im true (trim_prefix (p ++ [cCOLON]) name) seen with
                 | (Some g, seen') => (Some g, seen')
                 | (None, seen') => go r seen'
                 end
               | None => go r seen
               end
             else go r seen
           end) (m_imports m) seen in
      match imp with
      | (Some g, seen') => (Some g, seen')
      | (None, seen') =>
        (fix go (is : list str) (seen : list str) : option found_grouping * list str :=
           match is with
           | [] => (None, seen)
           | sn :: r =>
             if existsb (str_eqb sn) seen then go r seen
             else match find_module SC sn with
                  | Some sm =>
                    match find_grouping_mod f SC sm true name (sn :: seen) with
                    | (Some g, seen') => (Some g, seen')
                    | (None, seen') => go r seen'
                    end
                  | None => go r (sn :: seen)
                  end
           end) (m_includes m) seen'
      end
    end
  end.

(* FindGrouping from a uses statement: enclosing scopes innermost first, then the module *)
Fixpoint find_grouping_scopes (SC : schema) (m : module) (scopes : list (list dnode)) (name : str)
  : option found_grouping :=
  match scopes with
  | [] => None
  | [top] => fst (find_grouping_mod (S (length SC)) SC m false name [])   (* the module's own statement list *)
  | sc :: outer =>
    match find_in name (groupings_of sc) with
    | Some (gid, b) => Some (gid, b, {| g_mod := m; g_scopes := sc :: outer |})
    | None => find_grouping_scopes SC m outer name
    end
  end.
Definition FindGrouping (SC : schema) (c : gctx) (name : str) : option found_grouping :=
  find_grouping_scopes SC (g_mod c) (g_scopes c) (trim_prefix (m_prefix (g_mod c) ++ [cCOLON]) name).

(* ------------------------------------------------------------------ ToEntry *)
Definition tri_err (t : tri) : bool := false.   (* config/mandatory values are well-formed in the sources *)

Definition semCheckMax (v : option N) : N * bool :=
  match v with None => (MaxUint64, false) | Some x => if x =? 0 then (0, true) else (x, false) end.
Definition semCheckMin (v : option N) : N := match v with None => 0 | Some x => x end.
Definition is_some {A} (v : option A) : bool := match v with Some _ => true | None => false end.

Definition leaf_entry (name ty : str) (cfg mand : tri) (dflt : list str) (units : option str) : built :=
  (Entry name KLeaf cfg mand dflt [] (Some ty) [] None None None None, negb (is_builtin ty)).
  (* Units of the entry come from the type (opaque here): a units statement on a leaf is not copied *)

Section ToEntry.
Variable SC : schema.

(* body of a directory node: children added with add (duplicates are errors), uses merged,
   nested groupings converted for their errors only.  [busy]: groupings being converted. *)
Fixpoint to_entry (fuel : nat) (c : gctx) (busy : list nat) (n : dnode) {struct fuel} : built :=
  match fuel with
  | O => (newDirectory [], true)
  | S f =>
    let body_dir (name : str) (body : list dnode) : list (str * entry) * bool :=
      let c' := {| g_mod := g_mod c; g_scopes := body :: g_scopes c |} in
      fold_left (fun acc ch =>
        match ch with
        | DGrouping gid _ gb =>
            (* parsed only to collect its errors *)
            let '(_, e) := to_entry f c' busy ch in (fst acc, snd acc || e)
        | DUses g =>
            match FindGrouping SC c' g with
            | None => (fst acc, true)
            | Some (gid, gb, gc) =>
              if existsb (Nat.eqb gid) busy then (fst acc, true)
              else
                let '(ge, gerr) := to_entry f gc (gid :: busy) (DGrouping gid [] gb) in
                let '(d, e) := merge_dir acc None (match e_dir ge with Some d => d | None => [] end) in
                (d, e || gerr)
            end
        | _ => let b := to_entry f c' busy ch in add_child acc (e_name (fst b)) b
        end) body ([], false) in
    match n with
    | DLeaf name ty cfg mand dflt units =>
        leaf_entry name ty cfg mand (match dflt with Some d => [d] | None => [] end) units
    | DLeafList name ty cfg dflts minE maxE =>
        let '(mx, bad) := semCheckMax maxE in
        (Entry name KLeaf cfg TSUnset dflts [] (Some ty) [] (Some (semCheckMin minE, mx, (is_some minE, is_some maxE))) None None None,
         negb (is_builtin ty) || bad)
    | DContainer name cfg body =>
        let '(d, e) := body_dir name body in
        (Entry name KDir cfg TSUnset [] [] None [] None None (Some d) None, e)
    | DList name key cfg minE maxE body =>
        let '(d, e) := body_dir name body in
        let '(mx, bad) := semCheckMax maxE in
        (Entry name KDir cfg TSUnset [] [] None (match key with Some k => k | None => [] end)
               (Some (semCheckMin minE, mx, (is_some minE, is_some maxE))) None (Some d) None, e || bad)
    | DChoice name cfg mand dflt body =>
        let '(d, e) := body_dir name body in
        (Entry name KChoice cfg mand (match dflt with Some x => [x] | None => [] end) [] None [] None None (Some d) None, e)
    | DCase name body =>
        let '(d, e) := body_dir name body in
        (Entry name KCase TSUnset TSUnset [] [] None [] None None (Some d) None, e)
    | DAny xml name cfg mand =>
        (Entry name (if xml then KAnyXML else KAnyData) cfg mand [] [] None [] None None (Some []) None, false)
    | DUses g => (newDirectory g, true)            (* not converted on its own *)
    | DGrouping gid name body =>
        let '(d, e) := body_dir name body in
        (Entry name KDir TSUnset TSUnset [] [] None [] None None (Some d) None, e)
    | DRpc action name input output =>
        let io (k : ekind) (nm : str) (b : option (list dnode)) : option entry * bool :=
          match b with
          | None => (None, false)
          | Some body => let '(d, e) := body_dir nm body in
                         (Some (Entry nm k TSUnset TSUnset [] [] None [] None None (Some d) None), e)
          end in
        let '(i, ei) := io KInput s_input input in
        let '(o, eo) := io KOutput s_output output in
        let r := match i, o with
                 | None, None => Some (None, None)
                 | _, _ => Some (i, o)
                 end in
        (Entry name KDir TSUnset TSUnset [] [] None [] None None (Some []) r, ei || eo)
    | DNotification name body =>
        let '(d, e) := body_dir name body in
        (Entry name KNotification TSUnset TSUnset [] [] None [] None None (Some d) None, e)
    end
  end.

End ToEntry.

(* ------------------------------------------------------------------ module trees *)
Definition key2 (a b : str) : str := a ++ [cCOLON] ++ b.
Definition mem (k : str) (l : list str) : bool := existsb (str_eqb k) l.

Fixpoint size_node (n : dnode) : nat :=
  let fix sl (l : list dnode) : nat := match l with [] => O | x :: r => (size_node x + sl r)%nat end in
  S (match n with
     | DContainer _ _ b | DList _ _ _ _ _ b | DChoice _ _ _ _ b | DCase _ b | DGrouping _ _ b
     | DNotification _ b => sl b
     | DRpc _ _ i o => ((match i with Some b => S (sl b) | None => O end) +
                        (match o with Some b => S (sl b) | None => O end))%nat
     | _ => O
     end).
Definition size_nodes (l : list dnode) : nat := fold_right (fun n a => (size_node n + a)%nat) O l.
Definition module_size (m : module) : nat :=
  size_nodes (m_body m) + fold_right (fun a n => S (size_nodes (snd a)) + n)%nat O (m_augments m).
Definition schema_size (SC : schema) : nat := fold_right (fun m n => S (module_size m) + n)%nat O SC.
(* enough for every nesting of statements through every chain of distinct groupings *)
Definition entry_fuel (SC : schema) : nat := S (schema_size SC) * S (schema_size SC).

Section Resolve.
Variable SC : schema.
Variable ignoreCirc : bool.          (* Options.IgnoreSubmoduleCircularDependencies *)
Variable ignoreNotSupported : bool.  (* DeviateOptions.IgnoreDeviateNotSupported *)

Definition body_entry (m : module) (scopes : list (list dnode)) (body : list dnode) : built :=
  to_entry SC (entry_fuel SC) {| g_mod := m; g_scopes := scopes |} [] (DGrouping O [] body).

(* the Dir a (sub)module contributes: its own statements plus its includes, under the
   mergedSubmodule bookkeeping of ToEntry's "include" case *)
Fixpoint module_dir (fuel : nat) (merged : list str) (m : module)
  : (list (str * entry) * bool) * list str :=
  match fuel with
  | O => (([], true), merged)
  | S f =>
    let '(me, err) := body_entry m [] (m_body m) in
    let own := (match e_dir me with Some d => d | None => [] end, err) in
    fold_left (fun st sn =>
      let '(acc, merged) := st in
      match find_module SC sn with
      | None => ((fst acc, true), merged)
      | Some sm =>
        let srcToIncluded := key2 (m_name sm) (m_name m) in
        let includedToSrc := key2 (m_name m) (m_name sm) in
        if mem srcToIncluded merged then (acc, merged)
        else if negb (mem includedToSrc merged) && negb (str_eqb (m_name sm) (m_name m)) then
          let includedToParent := key2 (m_name sm) (match m_belongs sm with Some o => o | None => [] end) in
          if mem includedToParent merged then (acc, merged)
          else
            let '((sd, serr), merged') := module_dir f (srcToIncluded :: includedToParent :: merged) sm in
            let '(d, e) := merge_dir acc None sd in
            ((d, e || serr), merged')
        else if ignoreCirc then (acc, merged)
        else ((fst acc, true), merged)
      end) (m_includes m) (own, merged)
  end.

(* ToEntry(Deviate): what a deviate statement specifies, and whether it is erroneous *)
Definition deviate_err (d : deviate) : bool :=
  negb (str_eqb (dv_kind d) s_add || str_eqb (dv_kind d) s_replace || str_eqb (dv_kind d) s_delete
        || str_eqb (dv_kind d) s_notsupported)
  || (match dv_max d with Some x => x =? 0 | None => false end)
  || (match dv_type d with Some t => negb (is_builtin t) | None => false end).

Definition module_entry (m : module) : built :=
  let '((d, err), _) := module_dir (S (length SC)) [] m in
  let derr := existsb (fun dv => existsb deviate_err (snd dv)) (m_deviations m) in
  (Entry (m_name m) KDir TSUnset TSUnset [] [] None [] None None (Some d) None, err || derr).

(* ------------------------------------------------------------------ positions and Find *)
Inductive step := SChild (n : str) | SIn | SOut.
Definition pos := (str * list step)%type.     (* module name, steps from the module's root entry *)
Definition forest := list (str * entry).

Fixpoint locate (e : entry) (steps : list step) : option entry :=
  match steps with
  | [] => Some e
  | SChild n :: r =>
    match e_dir e with
    | Some d => match lookup n d with Some c => locate c r | None => None end
    | None => None
    end
  | SIn :: r => match e_rpc e with Some (Some i, _) => locate i r | _ => None end
  | SOut :: r => match e_rpc e with Some (_, Some o) => locate o r | _ => None end
  end.

Fixpoint update_at (e : entry) (steps : list step) (f : entry -> entry) : entry :=
  match steps with
  | [] => f e
  | SChild n :: r =>
    match e_dir e with
    | Some d => match lookup n d with
                | Some c => set_dir e (Some (update n (update_at c r f) d))
                | None => e
                end
    | None => e
    end
  | SIn :: r => match e_rpc e with
                | Some (Some i, o) => set_rpc e (Some (Some (update_at i r f), o))
                | _ => e
                end
  | SOut :: r => match e_rpc e with
                 | Some (i, Some o) => set_rpc e (Some (i, Some (update_at o r f)))
                 | _ => e
                 end
  end.

Definition locate_pos (F : forest) (p : pos) : option entry :=
  match lookup (fst p) F with Some root => locate root (snd p) | None => None end.
Definition update_pos (F : forest) (p : pos) (f : entry -> entry) : forest :=
  match lookup (fst p) F with Some root => update (fst p) (update_at root (snd p) f) F | None => F end.

Definition empty_io (input : bool) : entry :=
  Entry (if input then s_input else s_output) (if input then KInput else KOutput)
        TSUnset TSUnset [] [] None [] None None (Some []) None.

(* FindModuleByPrefix from a context module *)
Definition FindModuleByPrefix (ctx : module) (prefix : str) : option module :=
  if match prefix with [] => true | _ => false end || str_eqb prefix (m_prefix ctx) then Some ctx
  else (fix go (is : list (str * str)) :=
          match is with
          | [] => None
          | (p, mn) :: r => if str_eqb prefix p then find_module SC mn else go r
          end) (m_imports ctx).

(* the per-step part of Entry.Find; creates rpc input/output on demand as Find does *)
Fixpoint find_steps (F : forest) (p : option pos) (parts : list str) : option pos * forest :=
  match parts with
  | [] => (p, F)
  | part :: rest =>
    match p with
    | None => (None, F)
    | Some (mn, steps) =>
      if str_eqb part s_dot then find_steps F p rest
      else if str_eqb part s_dotdot then
        match rev steps with
        | [] => find_steps F None rest
        | _ :: up => find_steps F (Some (mn, rev up)) rest
        end
      else
        match locate_pos F (mn, steps) with
        | None => (None, F)
        | Some e =>
          let name := snd (getPrefix part) in
          match e_rpc e with
          | Some (i, o) =>
            if str_eqb name s_input then
              let F := match i with
                       | None => update_pos F (mn, steps) (fun x => set_rpc x (Some (Some (empty_io true), o)))
                       | Some _ => F
                       end in
              find_steps F (Some (mn, steps ++ [SIn])) rest
            else if str_eqb name s_output then
              let F := match o with
                       | None => update_pos F (mn, steps) (fun x => set_rpc x (Some (i, Some (empty_io false))))
                       | Some _ => F
                       end in
              find_steps F (Some (mn, steps ++ [SOut])) rest
            else (None, F)
          | None =>
            if str_eqb name s_dot then find_steps F p rest
            else if match name with [] => true | _ => false end || str_eqb name s_dotdot then (None, F)
            else
              match e_dir e with
              | Some d => match lookup name d with
                          | Some _ => find_steps F (Some (mn, steps ++ [SChild name])) rest
                          | None => find_steps F None rest
                          end
              | None => find_steps F None rest
              end
          end
        end
    end
  end.

(* Entry.Find(name) from position [start], prefixes resolved in the context of module [ctx] *)
Definition Find (F : forest) (ctx : module) (start : pos) (name : str) : option pos * forest :=
  match name with
  | [] => (None, F)
  | _ =>
    match split_on cSLASH [] name with
    | [] :: first :: rest =>
      (* absolute: go to the root of the start's tree, then to the module the first prefix names *)
      let prefix := fst (getPrefix first) in
      match prefix with
      | [] =>
        (* a name without prefix is a name of the current module: for a submodule, its owner *)
        let root := match find_module SC (fst start) with
                    | Some sm => match owner SC sm with Some o => m_name o | None => fst start end
                    | None => fst start
                    end in
        find_steps F (Some (root, [])) (first :: rest)
      | _ =>
        match FindModuleByPrefix ctx prefix with
        | None => (None, F)
        | Some md =>
          match owner SC md with
          | None => (None, F)
          | Some m => find_steps F (Some (m_name m, [])) (first :: rest)
          end
        end
      end
    | [] :: [] => (Some (fst start, []), F)
    | parts => find_steps F (Some start) parts
    end
  end.

(* ------------------------------------------------------------------ augments *)
Record aug := { a_mod : module; a_path : str; a_dir : list (str * entry); a_err : bool }.

Definition module_augs (m : module) : list aug :=
  map (fun a => let '(e, err) := body_entry m [m_body m] (snd a) in
                {| a_mod := m; a_path := fst a;
                   a_dir := match e_dir e with Some d => d | None => [] end; a_err := err |})
      (m_augments m).

Definition owner_ns (m : module) : str := match owner SC m with Some o => m_ns o | None => [] end.

(* Entry.Augment(addErrors) on the pending augments of one module:
   (forest, error flag, processed, unapplied) *)
Fixpoint augment_module (F : forest) (err : bool) (pending : list aug) (addErrors : bool)
  : forest * bool * nat * list aug :=
  match pending with
  | [] => (F, err, O, [])
  | a :: rest =>
    let '(target, F1) := Find F (a_mod a) (m_name (a_mod a), []) (a_path a) in
    let applicable :=
      match target with
      | Some p => match locate_pos F1 p with
                  | Some te => match e_dir te with Some _ => true | None => false end
                  | None => false
                  end
      | None => false
      end in
    if applicable then
      match target with
      | Some p =>
        let conflict :=
          match locate_pos F1 p with
          | Some te => match e_dir te with
                       | Some d => snd (merge_dir (d, false) None (a_dir a))
                       | None => false
                       end
          | None => false
          end in
        let F2 := update_pos F1 p (fun te =>
                    match e_dir te with
                    | Some d => set_dir te (Some (fst (merge_dir (d, false) (Some (owner_ns (a_mod a))) (a_dir a))))
                    | None => te
                    end) in
        let '(F3, err3, n, un) := augment_module F2 (err || conflict || a_err a) rest addErrors in
        (F3, err3, S n, un)
      | None => (F1, err, O, pending)
      end
    else
      let '(F3, err3, n, un) := augment_module F1 (err || addErrors) rest addErrors in
      (F3, err3, n, a :: un)
  end.

Definition pendings := list (str * list aug).

(* one pass of the inner loop over mods (with swap-remove): fuel = length of mods *)
Fixpoint augment_pass (fuel : nat) (F : forest) (err : bool) (P : pendings) (mods : list str) (i : nat)
         (processed : nat) : forest * bool * pendings * list str * nat :=
  match fuel with
  | O => (F, err, P, mods, processed)
  | S f =>
    match nth_error mods i with
    | None => (F, err, P, mods, processed)
    | Some mn =>
      let pend := match lookup mn P with Some l => l | None => [] end in
      let '(F1, err1, p, un) := augment_module F err pend false in
      let P1 := update mn un P in
      match un with
      | [] =>
        let last := match rev mods with x :: _ => x | [] => mn end in
        let mods1 := removelast (firstn i mods ++ last :: skipn (S i) mods) in
        augment_pass f F1 err1 P1 mods1 i (processed + p)
      | _ => augment_pass f F1 err1 P1 mods (S i) (processed + p)
      end
    end
  end.

Fixpoint augment_loop (fuel : nat) (F : forest) (err : bool) (P : pendings) (mods : list str) (applied : nat)
  : forest * bool * pendings * list str * nat :=
  match fuel with
  | O => (F, err, P, mods, applied)
  | S f =>
    match mods with
    | [] => (F, err, P, mods, applied)
    | _ =>
      let '(F1, err1, P1, mods1, processed) := augment_pass (2 * length mods) F err P mods O O in
      match processed with
      | O => (F1, err1, P1, mods1, applied)
      | _ => augment_loop f F1 err1 P1 mods1 (applied + processed)
      end
    end
  end.

(* ------------------------------------------------------------------ FixChoice *)
Fixpoint fix_choice (fuel : nat) (e : entry) : entry :=
  match fuel with
  | O => e
  | S f =>
    let e1 :=
      match e_kind e, e_dir e with
      | KChoice, Some d =>
        set_dir e (Some (map (fun kv =>
                     match e_kind (snd kv) with
                     | KCase => kv
                     | _ => (fst kv, Entry (e_name (snd kv)) KCase TSUnset TSUnset [] [] None [] None
                                           (e_ns (snd kv))      (* the member's namespace stamp *)
                                           (Some [(e_name (snd kv), snd kv)]) None)
                     end) d))
      | _, _ => e
      end in
    let e2 := match e_dir e1 with
              | Some d => set_dir e1 (Some (map (fun kv => (fst kv, fix_choice f (snd kv))) d))
              | None => e1
              end in
    match e_rpc e2 with
    | Some (i, o) => set_rpc e2 (Some (option_map (fix_choice f) i, option_map (fix_choice f) o))
    | None => e2
    end
  end.

(* the height of a tree (a leaf has height 1); FixChoice in the Go code is plain structural recursion over
   e.Dir and the rpc's input/output, so the fuel of [fix_choice] is derived from this structural measure *)
Fixpoint height (e : entry) : nat :=
  match e with
  | Entry _ _ _ _ _ _ _ _ _ _ dir rpc =>
    S (Nat.max
         (match dir with
          | Some d => (fix hl (l : list (str * entry)) : nat :=
                         match l with [] => O | (_, c) :: r => Nat.max (height c) (hl r) end) d
          | None => O
          end)
         (match rpc with
          | Some (i, o) => Nat.max (match i with Some x => height x | None => O end)
                                   (match o with Some x => height x | None => O end)
          | None => O
          end))
  end.

(* ------------------------------------------------------------------ deviations *)
Definition isList (e : entry) : bool :=
  match e_dir e, e_la e with Some _, Some _ => true | _, _ => false end.
Definition isLeafList (e : entry) : bool :=
  match e_dir e, e_kind e, e_la e with None, KLeaf, Some _ => true | _, _, _ => false end.

Definition set_cfg (e : entry) (c : tri) :=
  match e with Entry n k _ m df u t ky la ns d r => Entry n k c m df u t ky la ns d r end.
Definition set_mand (e : entry) (m : tri) :=
  match e with Entry n k c _ df u t ky la ns d r => Entry n k c m df u t ky la ns d r end.
Definition set_dflt (e : entry) (df : list str) :=
  match e with Entry n k c m _ u t ky la ns d r => Entry n k c m df u t ky la ns d r end.
Definition set_units (e : entry) (u : str) :=
  match e with Entry n k c m df _ t ky la ns d r => Entry n k c m df u t ky la ns d r end.
Definition set_ty (e : entry) (t : option str) :=
  match e with Entry n k c m df u _ ky la ns d r => Entry n k c m df u t ky la ns d r end.
Definition set_la (e : entry) (la : option (N * N * (bool * bool))) :=
  match e with Entry n k c m df u t ky _ ns d r => Entry n k c m df u t ky la ns d r end.
Definition is_set (t : tri) : bool := match t with TSUnset => false | _ => true end.

(* one deviate of kind add / replace / delete applied to the target node: (node, error) *)
Definition apply_add_replace (replace : bool) (dv : deviate) (t : entry) : entry * bool :=
  let t := if is_set (dv_cfg dv) then set_cfg t (dv_cfg dv) else t in
  let '(t, e1) :=
    match dv_default dv with
    | None => (t, false)
    | Some d =>
      if replace then (set_dflt t [d], false)
      else if isLeafList t then (set_dflt t (e_dflt t ++ [d]), false)
      else match e_dflt t with [] => (set_dflt t [d], false) | _ => (t, true) end
    end in
  let t := if is_set (dv_mand dv) then set_mand t (dv_mand dv) else t in
  let listy := isList t || isLeafList t in
  match dv_min dv with
  | Some _ => if negb listy then (t, true) else
    let t := match e_la t with Some (_, mx, (_, hx)) => set_la t (Some (semCheckMin (dv_min dv), mx, (true, hx))) | None => t end in
    match dv_max dv with
    | Some mx => let t := match e_la t with Some (mn, _, (hm, _)) => set_la t (Some (mn, mx, (hm, true))) | None => t end in
      let t := match dv_units dv with Some u => set_units t u | None => t end in
      let t := match dv_type dv with Some ty => set_ty t (Some ty) | None => t end in (t, e1)
    | None =>
      let t := match dv_units dv with Some u => set_units t u | None => t end in
      let t := match dv_type dv with Some ty => set_ty t (Some ty) | None => t end in (t, e1)
    end
  | None =>
    match dv_max dv with
    | Some mx => if negb listy then (t, true) else
      let t := match e_la t with Some (mn, _, (hm, _)) => set_la t (Some (mn, mx, (hm, true))) | None => t end in
      let t := match dv_units dv with Some u => set_units t u | None => t end in
      let t := match dv_type dv with Some ty => set_ty t (Some ty) | None => t end in (t, e1)
    | None =>
      let t := match dv_units dv with Some u => set_units t u | None => t end in
      let t := match dv_type dv with Some ty => set_ty t (Some ty) | None => t end in (t, e1)
    end
  end.

Definition apply_delete (dv : deviate) (t : entry) : entry * bool :=
  let t := if is_set (dv_cfg dv) then set_cfg t TSUnset else t in
  let '(t, e1) :=
    match dv_default dv with
    | None => (t, false)
    | Some d =>
      if isLeafList t then (t, true)
      else match e_dflt t with
           | [] => (t, true)
           | x :: _ => if str_eqb d x then (set_dflt t [], false) else (t, true)
           end
    end in
  let t := if is_set (dv_mand dv) then set_mand t TSUnset else t in
  let listy := isList t || isLeafList t in
  match dv_min dv with
  | Some _ => if negb listy then (t, true) else
    let bad := match e_la t with Some (mn, _, (hm, _)) => negb (mn =? semCheckMin (dv_min dv)) || negb hm | None => false end in
    let t := match e_la t with Some (_, mx, (_, hx)) => set_la t (Some (0, mx, (false, hx))) | None => t end in
    match dv_max dv with
    | Some mx =>
      let bad2 := match e_la t with Some (_, cur, (_, hx)) => negb (cur =? mx) || negb hx | None => false end in
      let t := match e_la t with Some (mn, _, (hm, _)) => set_la t (Some (mn, MaxUint64, (hm, false))) | None => t end in
      (t, e1 || bad || bad2)
    | None => (t, e1 || bad)
    end
  | None =>
    match dv_max dv with
    | Some mx => if negb listy then (t, true) else
      let bad2 := match e_la t with Some (_, cur, (_, hx)) => negb (cur =? mx) || negb hx | None => false end in
      let t := match e_la t with Some (mn, _, (hm, _)) => set_la t (Some (mn, MaxUint64, (hm, false))) | None => t end in
      (t, e1 || bad2)
    | None => (t, e1)
    end
  end.

(* the deviates of one deviation, in written order, applied to the target found at [p].
   [cur] is the target node; it stays a valid (detached) object after not-supported removed it *)
Fixpoint apply_deviates (F : forest) (p : pos) (cur : entry) (attached : bool) (err : bool) (dvs : list deviate)
  : forest * entry * bool * bool :=
  match dvs with
  | [] => (F, cur, attached, err)
  | dv :: rest =>
    if str_eqb (dv_kind dv) s_notsupported then
      match rev (snd p) with
      | [] => apply_deviates F p cur attached true rest          (* no parent *)
      | last :: up =>
        if ignoreNotSupported then apply_deviates F p cur attached err rest
        else
          match last with
          | SChild n =>
            let parent := (fst p, rev up) in
            let present := match locate_pos F parent with
                           | Some pe => match e_dir pe with
                                        | Some d => match lookup n d with Some _ => true | None => false end
                                        | None => false
                                        end
                           | None => false
                           end in
            let F' := update_pos F parent (fun pe => match e_dir pe with
                                                      | Some d => set_dir pe (Some (remove n d))
                                                      | None => pe
                                                      end) in
            apply_deviates F' p cur false (err || negb present) rest
          | _ => apply_deviates F p cur attached true rest       (* delete("input") on the rpc's Dir *)
          end
      end
    else if str_eqb (dv_kind dv) s_add || str_eqb (dv_kind dv) s_replace then
      let '(cur', e) := apply_add_replace (str_eqb (dv_kind dv) s_replace) dv cur in
      apply_deviates F p cur' attached (err || e) rest
    else if str_eqb (dv_kind dv) s_delete then
      let '(cur', e) := apply_delete dv cur in
      apply_deviates F p cur' attached (err || e) rest
    else apply_deviates F p cur attached true rest
  end.

Definition keep_children (old new : entry) : entry :=
  (* the deviates change attributes of the node itself; its subtree is whatever the forest holds *)
  set_rpc (set_dir new (e_dir old)) (e_rpc old).

Fixpoint apply_deviations (F : forest) (err : bool) (m : module) (devs : list (str * list deviate))
  : forest * bool :=
  match devs with
  | [] => (F, err)
  | (path, dvs) :: rest =>
    let '(target, F1) := Find F m (m_name m, []) path in
    match target with
    | None => apply_deviations F1 true m rest
    | Some p =>
      match locate_pos F1 p with
      | None => apply_deviations F1 true m rest
      | Some cur =>
        let '(F2, cur', attached, err') := apply_deviates F1 p cur true err dvs in
        let F3 := if attached then update_pos F2 p (fun old => keep_children old cur') else F2 in
        apply_deviations F3 err' m rest
      end
    end
  end.

(* ------------------------------------------------------------------ Process *)
Definition modules_only : list module := filter (fun m => negb (is_sub m)) SC.

(* include(): every import and include reachable from a module resolves *)
Fixpoint includes_ok (fuel : nat) (seen : list str) (m : module) : bool * list str :=
  match fuel with
  | O => (true, seen)
  | S f =>
    if mem (m_name m) seen then (true, seen)
    else
      let seen := m_name m :: seen in
      let step (st : bool * list str) (name : str) (want_sub : bool) : bool * list str :=
        if fst st then
          match find_module SC name with
          | Some x => if Bool.eqb (is_sub x) want_sub then includes_ok f (snd st) x else (false, snd st)
          | None => (false, snd st)
          end
        else st in
      let st := fold_left (fun st sn => step st sn true) (m_includes m) (true, seen) in
      fold_left (fun st i => step st (snd i) false) (m_imports m) st
  end.

Inductive result := RErr | ROk (F : forest).

(* [order]: the order in which Go's map iteration visits modules and submodules in the augment
   loop and in the deviation pass *)
Definition Process (order : list str) : result :=
  if negb (forallb (fun m => fst (includes_ok (S (length SC)) [] m)) modules_only) then RErr
  else
    let built_mods := map (fun m => (m, module_entry m)) SC in
    if existsb (fun x => snd (snd x)) built_mods then RErr
    else
      let F0 : forest := map (fun x => (m_name (fst x), fst (snd x)))
                             (filter (fun x => negb (is_sub (fst x))) built_mods) in
      let P0 : pendings := map (fun m => (m_name m, module_augs m)) SC in
      let n_aug := fold_right (fun m n => length (m_augments m) + n)%nat O SC in
      (* apply augments until no progress, fix up the choices, and start over as long as that made
         progress (an augment path may lead through a case that FixChoice inserts) *)
      let fix_all (F : forest) : forest :=
        let fuelF := S (fold_right Nat.max O (map (fun kv => height (snd kv)) F)) in
        (* every level costs at most two units of fuel: the case that is inserted and its member *)
        map (fun kv => (fst kv, fix_choice (2 * S fuelF) (snd kv))) F in
      let '(F2, err1, P1, mods1) :=
        (fix rounds (fuel : nat) (round : nat) (F : forest) (err : bool) (P : pendings) (mods : list str)
           : forest * bool * pendings * list str :=
           match fuel with
           | O => (F, err, P, mods)
           | S f =>
             let '(Fa, erra, Pa, modsa, applied) := augment_loop (S n_aug) F err P mods O in
             let Fb := fix_all Fa in
             match modsa with
             | [] => (Fb, erra, Pa, modsa)
             | _ => match round, applied with
                    | S _, O => (Fb, erra, Pa, modsa)
                    | _, _ => rounds f (S round) Fb erra Pa modsa
                    end
             end
           end) (S (S n_aug)) O F0 false P0 order in
      (* what is left has no target: report it *)
      let '(F3, err3, _) :=
        fold_left (fun st mn =>
                     let '(F, err, P) := st in
                     let pend := match lookup mn P with Some l => l | None => [] end in
                     let '(F', err', _, un) := augment_module F err pend true in
                     (F', err', update mn un P)) mods1 (F2, err1, P1) in
      let '(F4, err4) :=
        fold_left (fun st mn =>
                     match find_module SC mn with
                     | Some m => apply_deviations (fst st) (snd st) m (m_deviations m)
                     | None => st
                     end) order (F3, err3) in
      if err4 then RErr else ROk F4.

(* ------------------------------------------------------------------ read API on the result *)
(* Namespace(): the nearest stamped namespace on the way up (the root excluded), else the
   namespace of the module whose tree this is *)
Fixpoint ns_walk (e : entry) (steps : list step) (best : option str) (is_root : bool) : option str :=
  let best := if is_root then best else match e_ns e with Some n => Some n | None => best end in
  match steps with
  | [] => best
  | SChild n :: r =>
    match e_dir e with
    | Some d => match lookup n d with Some c => ns_walk c r best false | None => best end
    | None => best
    end
  | SIn :: r => match e_rpc e with Some (Some i, _) => ns_walk i r best false | _ => best end
  | SOut :: r => match e_rpc e with Some (_, Some o) => ns_walk o r best false | _ => best end
  end.

Definition Namespace (F : forest) (p : pos) : str :=
  match lookup (fst p) F with
  | Some root =>
    match ns_walk root (snd p) None true with
    | Some n => n
    | None => match find_module SC (fst p) with Some m => owner_ns m | None => [] end
    end
  | None => []
  end.

(* ReadOnly(): everything in an rpc/action output is read-only; otherwise the nearest explicit
   config on the way up decides; nothing on the path: read-write *)
Fixpoint ro_walk (e : entry) (steps : list step) (inherited : bool) (in_out : bool) : bool :=
  let in_out := in_out || match e_kind e with KOutput => true | _ => false end in
  let here := match e_cfg e with TSUnset => inherited | TSTrue => false | TSFalse => true end in
  match steps with
  | [] => in_out || here
  | SChild n :: r =>
    match e_dir e with
    | Some d => match lookup n d with Some c => ro_walk c r here in_out | None => in_out || here end
    | None => in_out || here
    end
  | SIn :: r => match e_rpc e with Some (Some i, _) => ro_walk i r here in_out | _ => in_out || here end
  | SOut :: r => match e_rpc e with Some (_, Some o) => ro_walk o r here in_out | _ => in_out || here end
  end.

Definition ReadOnly (F : forest) (p : pos) : bool :=
  match lookup (fst p) F with Some root => ro_walk root (snd p) false false | None => false end.

(* InstantiatingModule(): the module whose namespace it is; None if none or more than one *)
Definition InstantiatingModule (F : forest) (p : pos) : option str :=
  let ns := Namespace F p in
  match filter (fun m => str_eqb (m_ns m) ns) modules_only with
  | [m] => Some (m_name m)
  | _ => None
  end.

End Resolve.
