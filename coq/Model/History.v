(* Model of what SURVIVES in a yang.Modules value from one call to the next (no proofs in this file):
     modules.go   Parse (per-text typedef dictionary, merged on acceptance), add, FindModuleByNamespace (byNS cache),
                  process, Process (resets at the top), include (Import.Module / Include.Module memo)
     types.go     typeDictionary add/merge, wholeModule, resolveTypedefs (Typedef.YangType / Type.YangType memo)
     identity.go  resolveIdentities (identity dictionary, never cleared)
     ast.go       build -> addTypedefs (into the dictionary handed to build)

   A text is abstracted to the list of its top-level items.  A good item is a module or submodule the builder accepts,
   represented by its header (Model/Registry.v: identifier, kind, name, revisions) and by what the later phases read
   from it: namespace, belongs-to, the typedefs it registers, its import and include statements (name, revision-date)
   and the names of its identities.  A bad item is a statement the builder or Modules.add rejects (unknown statement,
   second single-valued substatement, top-level container/typedef/grouping ...) together with the typedefs that were
   registered while it was built.  A text that does not lex/parse is [SyntaxErr].

   The resolver proper (ToEntry, uses, augment, deviation, type restriction arithmetic ...) is NOT modelled here: the
   result of a Process run is an abstract function [sem] of the [view], the collection of everything those phases
   read from the Modules value.  Nothing in it depends on Go map iteration order any more: process() and
   resolveIdentities visit the modules in the order of their keys (sortedModules, since c66538f / 769c856), typedefs
   are resolved in an order fixed by the sources (38e0b90); FindModuleByNamespace still ranges over the map but its
   three-way answer does not depend on the order.

   [fixes] switches between the code as pinned and the code after the repairs made for the findings of C18 (D43,
   D55, D56, D57, D62); the constant [now] says which of them the checked tree contains (the correspondence check
   runs the model with [now]); the old variants are kept for the _refuted witnesses only. *)
From Coq Require Import List NArith Bool Arith.
Import ListNotations.
From GY Require Import Model.Registry.

(* ------------------------------------------------------------------ abstract texts *)
Record ghdr := {
  g_hdr : header;                            (* h_id identifies the AST object *)
  g_ns : str;                                (* namespace argument ("" for submodules) *)
  g_belongs : option str;                    (* belongs-to argument of a submodule *)
  g_tds : list N;                            (* identifiers of the typedefs addTypedefs registers while building it *)
  g_imports : list (str * option str);       (* import name { revision-date } in written order *)
  g_includes : list (str * option str);      (* include name { revision-date } in written order *)
  g_idents : list str                        (* names of its identity statements *)
}.
Definition gid (g : ghdr) : N := h_id (g_hdr g).
Definition gkind (g : ghdr) : kind := h_kind (g_hdr g).
Definition gname (g : ghdr) : str := h_name (g_hdr g).

Inductive item := Good (g : ghdr) | Bad (tds : list N).
Inductive text := SyntaxErr | Items (l : list item).

(* which repairs the modelled code contains *)
Record fixes := {
  fx_atomic : bool;     (* Parse builds and checks every statement of a text before adding any *)
  fx_byns : bool;       (* add forgets the namespace cache *)
  fx_types : bool;      (* Process forgets the resolved types *)
  fx_idents : bool;     (* resolveIdentities starts from an empty dictionary *)
  fx_binds : bool       (* Process clears Import.Module / Include.Module *)
}.
Definition pinned : fixes :=
  {| fx_atomic := false; fx_byns := false; fx_types := false; fx_idents := false; fx_binds := false |}.
Definition repaired : fixes :=
  {| fx_atomic := true; fx_byns := true; fx_types := true; fx_idents := true; fx_binds := true |}.
(* the tree under /repo as checked: 07ff912 (atomic Parse), 9f6d850 (byNS), 2ea7be8 (types), b3c50c0 (identities) and
   45df602 (Import.Module / Include.Module cleared at the top of Process) *)
Definition now : fixes := repaired.

(* ------------------------------------------------------------------ small finite maps (association lists) *)
Section Assoc.
  Context {K V : Type}.
  Variable keqb : K -> K -> bool.
  Fixpoint aget (m : list (K * V)) (k : K) : option V :=
    match m with
    | [] => None
    | (k', v) :: m' => if keqb k' k then Some v else aget m' k
    end.
  Fixpoint adel (m : list (K * V)) (k : K) : list (K * V) :=
    match m with
    | [] => []
    | (k', v) :: m' => if keqb k' k then adel m' k else (k', v) :: adel m' k
    end.
  Definition aset (m : list (K * V)) (k : K) (v : V) : list (K * V) := (k, v) :: adel m k.
End Assoc.

Definition memN (x : N) (l : list N) : bool := existsb (N.eqb x) l.

(* sort.Strings on the keys of a map, then the values in that order *)
Fixpoint ins_key (k : str) (l : list str) : list str :=
  match l with
  | [] => [k]
  | x :: r => if str_ltb x k then x :: ins_key k r else k :: l
  end.
Definition sort_keys (l : list str) : list str := fold_right ins_key [] l.
Definition sortedModules (m : smap) : list header :=
  flat_map (fun k => match mget m k with Some h => [h] | None => [] end) (sort_keys (map fst m)).

(* key of an import or include statement: (module object, include?, index in written order) *)
Definition bkey := (N * bool * nat)%type.
Definition bkey_eqb (a b : bkey) : bool :=
  let '(i, c, k) := a in let '(j, d, l) := b in N.eqb i j && Bool.eqb c d && Nat.eqb k l.
(* key of the identity dictionary: module name ":" identity name *)
Definition ikey := (str * str)%type.
Definition ikey_eqb (a b : ikey) : bool := str_eqb (fst a) (fst b) && str_eqb (snd a) (snd b).

Definition bmap := list (bkey * N).
Definition imap := list (ikey * N).

(* ------------------------------------------------------------------ what the phases after process() read *)
Record view := {
  v_modules : smap;          (* ms.Modules *)
  v_submodules : smap;       (* ms.SubModules *)
  v_items : list ghdr;       (* the module objects *)
  v_tdict : list N;          (* ms.typeDict.dict *)
  v_binds : bmap;            (* Import.Module / Include.Module *)
  v_tmemo : bmap;            (* what the memoised types were resolved against *)
  v_idict : imap;            (* ms.typeDict.identities.dict *)
  v_ok : bool                (* process() returned no error *)
}.

(* ------------------------------------------------------------------ the Modules value *)
Section Machine.
  Variable obs : Type.
  Variable sem : view -> obs.                       (* the rest of Process and the dump: batch semantics *)

  Record state := {
    reg : mstate;                  (* Modules, SubModules, loaded *)
    mods : list ghdr;              (* accepted module objects in order of acceptance *)
    tdict : list N;                (* typeDict.dict *)
    includes : list N;             (* ms.includes *)
    merged : list (N * N);         (* ms.mergedSubmodule *)
    ecache : option obs;           (* ms.entryCache: what ToEntry answers without recomputing *)
    idict : imap;                  (* typeDict.identities.dict *)
    binds : bmap;                  (* Import.Module / Include.Module *)
    tmemo : bmap;                  (* Type.YangType / Typedef.YangType, abstracted per import/include statement *)
    byns : list (str * N)          (* ms.byNS *)
  }.

  Definition NewState : state :=
    {| reg := NewModules; mods := []; tdict := []; includes := []; merged := []; ecache := None;
       idict := []; binds := []; tmemo := []; byns := [] |}.

  (* ---------------- Parse *)
  (* a node has been accepted by add: file it, merge the typedefs of its per-text dictionary *)
  Definition accept (fx : fixes) (st : state) (r : mstate) (g : ghdr) : state :=
    {| reg := r; mods := mods st ++ [g]; tdict := tdict st ++ g_tds g;
       includes := includes st; merged := merged st; ecache := ecache st;
       idict := idict st; binds := binds st; tmemo := tmemo st;
       byns := if fx_byns fx then [] else byns st |}.

  (* for _, s := range ss { types := newTypeDictionary(); n, err := build(s, types); if err return;
                            if err := ms.add(n); err != nil return; ms.typeDict.merge(types) } *)
  Fixpoint load_items (fx : fixes) (st : state) (l : list item) : state * bool :=
    match l with
    | [] => (st, true)
    | Bad _ :: _ => (st, false)               (* the typedefs went into [types], which is dropped *)
    | Good g :: r =>
        let '(rg, ok) := add (reg st) (g_hdr g) in
        if ok then load_items fx (accept fx st rg g) r else (st, false)
    end.

  Definition key_of (g : ghdr) : str := lkey (gkind g) (FullName (g_hdr g)).
  Definition mem_str (k : str) (l : list str) : bool := existsb (str_eqb k) l.

  (* the repaired Parse: checkAdd on every statement, duplicates inside the text included, before the first add *)
  Fixpoint precheck (loaded : smap) (seen : list str) (l : list item) : bool :=
    match l with
    | [] => true
    | Bad _ :: _ => false
    | Good g :: r =>
        match mget loaded (key_of g) with
        | Some _ => false
        | None => if mem_str (key_of g) seen then false else precheck loaded (key_of g :: seen) r
        end
    end.

  Definition load (fx : fixes) (st : state) (t : text) : state * bool :=
    match t with
    | SyntaxErr => (st, false)
    | Items l =>
        if fx_atomic fx then
          if precheck (Loaded (reg st)) [] l then load_items fx st l else (st, false)
        else load_items fx st l
    end.

  (* the code before 44c33d9 (D40): build registered the typedefs directly in ms.typeDict *)
  Fixpoint load_items_d40 (st : state) (l : list item) : state * bool :=
    let leak st tds := {| reg := reg st; mods := mods st; tdict := tdict st ++ tds; includes := includes st;
                          merged := merged st; ecache := ecache st; idict := idict st; binds := binds st;
                          tmemo := tmemo st; byns := byns st |} in
    match l with
    | [] => (st, true)
    | Bad tds :: _ => (leak st tds, false)
    | Good g :: r =>
        let '(rg, ok) := add (reg st) (g_hdr g) in
        if ok then load_items_d40 (accept pinned st rg g) r else (leak st (g_tds g), false)
    end.

  (* ---------------- process(): include *)
  Record pst := { p_includes : list N; p_binds : bmap; p_idict : imap; p_tmemo : bmap }.
  Definition with_includes (p : pst) (l : list N) : pst :=
    {| p_includes := l; p_binds := p_binds p; p_idict := p_idict p; p_tmemo := p_tmemo p |}.
  Definition with_bind (p : pst) (k : bkey) (v : N) : pst :=
    {| p_includes := p_includes p; p_binds := aset bkey_eqb (p_binds p) k v; p_idict := p_idict p; p_tmemo := p_tmemo p |}.
  Definition with_ident (p : pst) (k : ikey) (v : N) : pst :=
    {| p_includes := p_includes p; p_binds := p_binds p; p_idict := aset ikey_eqb (p_idict p) k v; p_tmemo := p_tmemo p |}.
  Definition with_tmemo (p : pst) (k : bkey) (v : N) : pst :=
    {| p_includes := p_includes p; p_binds := p_binds p; p_idict := p_idict p; p_tmemo := aset bkey_eqb (p_tmemo p) k v |}.

  Definition lookup_mod (ms : list ghdr) (id : N) : option ghdr := List.find (fun g => N.eqb (gid g) id) ms.

  (* for _, m := range ms.Modules: the module object of every key (a module that has a revision is met twice; a
     module without revision that has lost the bare name to a later revision is not met at all) *)
  Definition filed_values (r : mstate) (ms : list ghdr) : list ghdr :=
    flat_map (fun kv => match lookup_mod ms (h_id (snd kv)) with Some g => [g] | None => [] end) (Modules r).

  Section Process.
    Variable c_reg : mstate.
    Variable c_mods : list ghdr.

    (* FindModule up to the point where it turns to the file system (the check runs in an empty directory) *)
    Definition find_mod (isinc : bool) (name : str) (rev : option str) : option ghdr :=
      match find c_reg (if isinc then KSub else KMod) name rev with
      | None => None
      | Some h => lookup_mod c_mods (h_id h)
      end.

    (* func (ms *Modules) include(m *Module) error; false = the error.  The statement is bound only after the
       recursive call has succeeded; a failure leaves the statements that follow untouched. *)
    Fixpoint include (fuel : nat) (p : pst) (m : ghdr) : pst * bool :=
      match fuel with
      | O => (p, false)
      | S f =>
          if memN (gid m) (p_includes p) then (p, true) else
          let bl := fix bl (isinc : bool) (l : list (str * option str)) (k : nat) (p : pst) : pst * bool :=
            match l with
            | [] => (p, true)
            | (name, rev) :: r =>
                match find_mod isinc name rev with
                | None => (p, false)                                  (* no such (sub)module *)
                | Some im =>
                    let '(p1, ok) := include f p im in
                    if ok then bl isinc r (S k) (with_bind p1 (gid m, isinc, k) (gid im)) else (p1, false)
                end
            end in
          let '(p1, ok) := bl true (g_includes m) 0%nat (with_includes p (gid m :: p_includes p)) in
          if ok then bl false (g_imports m) 0%nat p1 else (p1, false)
      end.

    (* for _, m := range mods { if err := ms.include(m); err != nil { errs = append(errs, err) } } *)
    Fixpoint include_all (fuel : nat) (ms : list ghdr) (p : pst) : pst * bool :=
      match ms with
      | [] => (p, true)
      | m :: r =>
          let '(p1, ok1) := include fuel p m in
          let '(p2, ok2) := include_all fuel r p1 in
          (p2, ok1 && ok2)
      end.

    (* ---------------- wholeModule: root, the module it belongs to, everything reachable through BOUND includes *)
    Definition bound_includes (p : pst) (m : ghdr) : list ghdr :=
      flat_map (fun k => match aget bkey_eqb (p_binds p) (gid m, true, k) with
                         | Some id => match lookup_mod c_mods id with Some x => [x] | None => [] end
                         | None => []
                         end) (seq 0 (length (g_includes m))).

    Definition owner (m : ghdr) : list ghdr :=
      match g_belongs m with
      | Some b => match mget (Modules c_reg) b with
                  | Some h => match lookup_mod c_mods (h_id h) with Some x => [x] | None => [] end
                  | None => []
                  end
      | None => []
      end.

    Fixpoint closure (fuel : nat) (p : pst) (work seen : list ghdr) : list ghdr :=
      match fuel with
      | O => seen
      | S f =>
          match work with
          | [] => seen
          | x :: w => if memN (gid x) (map gid seen) then closure f p w seen
                      else closure f p (w ++ bound_includes p x) (seen ++ [x])
          end
      end.

    Definition total_includes : nat := fold_right (fun g n => (length (g_includes g) + n)%nat) 0%nat c_mods.
    Definition wholeModule (p : pst) (root : ghdr) : list ghdr :=
      closure (3 + length c_mods + total_includes) p (root :: owner root) [].

    (* resolveIdentities, first loop (as of 769c856): every module of sortedModules(ms.Modules) with the submodules
       it reaches through bound includes; the key is owner.FullName() ":" identity name, where the owner is the
       module being visited unless the submodule says it belongs to another one (then that module if it is loaded,
       else the submodule itself).  Entries are overwritten per key; the dictionary starts empty (b3c50c0). *)
    Definition ident_owner (top x : ghdr) : ghdr :=
      match g_belongs x with
      | Some b => if str_eqb b (gname top) then top
                  else match owner x with o :: _ => o | [] => x end
      | None => top
      end.

    Definition resolve_identities (tops : list ghdr) (p : pst) : pst :=
      fold_left (fun p m =>
        fold_left (fun p x =>
          fold_left (fun p i => with_ident p (FullName (g_hdr (ident_owner m x)), i) (gid x)) (g_idents x) p)
          (wholeModule p m) p) tops p.

    (* resolveTypedefs and the Type.resolve calls of ToEntry: a type that has been resolved keeps its YangType.
       Abstraction: one memo per import statement (findExternal -> FindModuleByPrefix -> FindModule) and per include
       statement (wholeModule -> Include.Module) of every module object instead of one per Type node. *)
    Definition memo_one (m : ghdr) (isinc : bool) (p : pst) (kr : nat * (str * option str)) : pst :=
      let '(k, (name, rev)) := kr in
      match aget bkey_eqb (p_tmemo p) (gid m, isinc, k) with
      | Some _ => p
      | None =>
          let target := if isinc then aget bkey_eqb (p_binds p) (gid m, true, k)
                        else option_map gid (find_mod false name rev) in
          match target with
          | Some id => with_tmemo p (gid m, isinc, k) id
          | None => p
          end
      end.
    Definition enum {A} (l : list A) : list (nat * A) := combine (seq 0 (length l)) l.
    Definition resolve_types (p : pst) : pst :=
      fold_left (fun p m =>
        fold_left (memo_one m false) (enum (g_imports m))
          (fold_left (memo_one m true) (enum (g_includes m)) p)) c_mods p.

    (* sortedModules(ms.Modules): the module of every key, keys in string order (a module with a revision comes
       twice, the second visit of include finds it in ms.includes) *)
    Definition sorted_tops : list ghdr :=
      flat_map (fun h => match lookup_mod c_mods (h_id h) with Some g => [g] | None => [] end)
               (sortedModules (Modules c_reg)).

    Definition process_core (p0 : pst) : pst * bool :=
      let '(p1, ok) := include_all (S (length c_mods)) sorted_tops p0 in
      (resolve_types (resolve_identities sorted_tops p1), ok).
  End Process.

  (* ---------------- Process *)
  (* ms.mergedSubmodule = {}; ms.includes = {}; ms.ClearEntryCache() -- and, when repaired, the memos *)
  Definition p_init (fx : fixes) (st : state) : pst :=
    {| p_includes := [];
       p_binds := if fx_binds fx then [] else binds st;
       p_idict := if fx_idents fx then [] else idict st;
       p_tmemo := if fx_types fx then [] else tmemo st |}.

  Definition view_of (st : state) (p : pst) (ok : bool) : view :=
    {| v_modules := Modules (reg st); v_submodules := SubModules (reg st); v_items := mods st; v_tdict := tdict st;
       v_binds := p_binds p; v_tmemo := p_tmemo p; v_idict := p_idict p; v_ok := ok |}.

  (* the keys entry.go writes into mergedSubmodule: (including module, included submodule) per bound include *)
  Definition merged_of (p : pst) : list (N * N) :=
    flat_map (fun kv => let '((i, isinc, _), j) := kv in if (isinc : bool) then [(i, j)] else []) (p_binds p).

  Definition Process (fx : fixes) (st : state) : state * obs :=
    let '(p, ok) := process_core (reg st) (mods st) (p_init fx st) in
    let o := sem (view_of st p ok) in
    ({| reg := reg st; mods := mods st; tdict := tdict st;
        includes := p_includes p; merged := merged_of p; ecache := Some o;
        idict := p_idict p; binds := p_binds p; tmemo := p_tmemo p; byns := byns st |}, o).

  (* ---------------- FindModuleByNamespace *)
  Inductive nsres := NsFound (id : N) | NsNone | NsAmbiguous.

  (* ms.Modules[name]: the module object filed under the bare name, i.e. the most recent loaded revision *)
  Definition holder_of (r : mstate) (ms : list ghdr) (name : str) : option ghdr :=
    match mget (Modules r) name with
    | Some h => lookup_mod ms (h_id h)
    | None => None
    end.

  (* the loop over ms.Modules (every module object is met, once or twice).
       case m == found:                             the same object again
       case found != nil && found.Name == m.Name:   another revision of the same module: found = ms.Modules[m.Name]
       case found != nil:                           a different module: "matches two or more modules"
       default:                                     found = m *)
  Fixpoint ns_scan (holder : str -> option ghdr) (ns : str) (found : option ghdr) (ms : list ghdr) : nsres :=
    match ms with
    | [] => match found with Some f => NsFound (gid f) | None => NsNone end
    | g :: r =>
        match gkind g with
        | KSub => ns_scan holder ns found r
        | KMod =>
            if str_eqb (g_ns g) ns then
              match found with
              | Some f =>
                  if N.eqb (gid f) (gid g) then ns_scan holder ns found r
                  else if str_eqb (gname f) (gname g) then ns_scan holder ns (holder (gname g)) r
                  else NsAmbiguous
              | None => ns_scan holder ns (Some g) r
              end
            else ns_scan holder ns found r
        end
    end.

  Definition QueryNS (st : state) (ns : str) : state * nsres :=
    match aget str_eqb (byns st) ns with
    | Some id => (st, NsFound id)
    | None =>
        let r := ns_scan (holder_of (reg st) (mods st)) ns None (filed_values (reg st) (mods st)) in
        match r with
        | NsFound id =>
            ({| reg := reg st; mods := mods st; tdict := tdict st; includes := includes st; merged := merged st;
                ecache := ecache st; idict := idict st; binds := binds st; tmemo := tmemo st;
                byns := aset str_eqb (byns st) ns id |}, r)
        | _ => (st, r)                 (* negative results are not cached *)
        end
    end.

  (* ---------------- ToEntry as a read operation between the runs *)
  (* A node that has been converted answers from the entry cache.  One that has not (module loaded after the last
     Process, ClearEntryCache, or a Process that stopped in process()) is converted on the spot, against the bindings
     of the moment: the types it meets are resolved and memoised (noteResolved), the submodules it merges are
     recorded in mergedSubmodule.  What the read ANSWERS is the cached result (abstraction); what it LEAVES BEHIND is
     modelled: the next Process must not see it. *)
  Definition pst_of (st : state) : pst :=
    {| p_includes := includes st; p_binds := binds st; p_idict := idict st; p_tmemo := tmemo st |}.
  Definition read_entries (st : state) : state :=
    {| reg := reg st; mods := mods st; tdict := tdict st; includes := includes st;
       merged := merged st ++ merged_of (pst_of st); ecache := ecache st;
       idict := idict st; binds := binds st;
       tmemo := p_tmemo (resolve_types (reg st) (mods st) (pst_of st)); byns := byns st |}.

  (* ---------------- histories *)
  Inductive op := Load (t : text) | Proc | QNs (ns : str) | QTree.
  Inductive observation := OLoad (ok : bool) | OProc (o : obs) | ONs (r : nsres) | OTree (o : option obs).

  Definition step (fx : fixes) (st : state) (o : op) : state * observation :=
    match o with
    | Load t => let '(st', ok) := load fx st t in (st', OLoad ok)
    | Proc => let '(st', r) := Process fx st in (st', OProc r)
    | QNs ns => let '(st', r) := QueryNS st ns in (st', ONs r)
    | QTree => (read_entries st, OTree (ecache st))
    end.

  Fixpoint run (fx : fixes) (st : state) (ops : list op) : state * list observation :=
    match ops with
    | [] => (st, [])
    | o :: r =>
        let '(st1, x) := step fx st o in
        let '(st2, xs) := run fx st1 r in
        (st2, x :: xs)
    end.
End Machine.

Arguments NewState {obs}.
Arguments reg {obs}. Arguments mods {obs}. Arguments tdict {obs}. Arguments includes {obs}. Arguments merged {obs}.
Arguments ecache {obs}. Arguments idict {obs}. Arguments binds {obs}. Arguments tmemo {obs}. Arguments byns {obs}.
Arguments filed_values : clear implicits.
Arguments holder_of : clear implicits.
Arguments accept {obs}. Arguments load_items {obs}. Arguments load_items_d40 {obs}. Arguments load {obs}.
Arguments p_init {obs}. Arguments view_of {obs}. Arguments Process {obs}. Arguments QueryNS {obs}.
Arguments step {obs}. Arguments run {obs}. Arguments read_entries {obs}.
Arguments OLoad {obs}. Arguments OProc {obs}. Arguments ONs {obs}. Arguments OTree {obs}.

(* the instance the driver runs: the observation is the view itself, map order = order of acceptance *)
Definition run_view (fx : fixes) (ops : list op) : state view * list (observation view) :=
  run (fun v => v) fx NewState ops.
