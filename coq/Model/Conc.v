(* C19 — model of lock-based concurrency (definitions only; proofs in Proofs/ConcProofs.v).

   Threads are lists of events; a trace is an interleaving of the threads' programs in which every step
   respects the semantics of sync.Mutex / sync.RWMutex.  The lock state is the one the Go runtime keeps:
   per mutex a writer flag and a reader count — NO owner is recorded (in Go any goroutine may call Unlock),
   so the discipline "a thread releases only what it holds" is part of [lockset_ok], not of the semantics.
   Writer preference of sync.RWMutex only removes traces; the theorems quantify over the larger set.
   Outside the model: the Go memory model itself (we use "conflicting accesses separated by a release and an
   acquire of one mutex" as race-freedom), the scheduler, the race detector. *)
From Coq Require Import String List Bool Arith.
Import ListNotations.

Definition mutex := string.
Definition loc := string.

Inductive ev :=
| Acq (m : mutex)      (* m.Lock()    *)
| RAcq (m : mutex)     (* m.RLock()   *)
| Rel (m : mutex)      (* m.Unlock()  *)
| RRel (m : mutex)     (* m.RUnlock() *)
| Rd (x : loc)
| Wr (x : loc).

Definition prog := list ev.
Definition tid := nat.
Definition trace := list (tid * ev).

(* ------------------------------------------------------------------ what a thread holds *)
Inductive lmode := MX | MR.            (* exclusively / as a reader *)
Definition lmode_eqb (a b : lmode) : bool :=
  match a, b with MX, MX | MR, MR => true | _, _ => false end.
Definition hold := (mutex * lmode)%type.
Definition hold_eqb (a b : hold) : bool := String.eqb (fst a) (fst b) && lmode_eqb (snd a) (snd b).
Definition held := list hold.

Fixpoint remove1 (k : hold) (h : held) : held :=
  match h with
  | [] => []
  | a :: r => if hold_eqb k a then r else a :: remove1 k r
  end.
Fixpoint count (k : hold) (h : held) : nat :=
  match h with
  | [] => 0
  | a :: r => (if hold_eqb k a then 1 else 0) + count k r
  end.
Definition holds (k : hold) (h : held) : bool := negb (count k h =? 0).

(* effect of one event on the set of locks the executing thread holds (scan of a program) *)
Definition scan_ev (h : held) (e : ev) : held :=
  match e with
  | Acq m => (m, MX) :: h
  | RAcq m => (m, MR) :: h
  | Rel m => remove1 (m, MX) h
  | RRel m => remove1 (m, MR) h
  | Rd _ | Wr _ => h
  end.

(* ------------------------------------------------------------------ semantics *)
Record lstate := { xh : mutex -> bool;      (* locked for writing *)
                   rc : mutex -> nat }.     (* number of read locks outstanding *)
Definition init_state : lstate := {| xh := fun _ => false; rc := fun _ => 0 |}.

Definition can_step (s : lstate) (e : ev) : Prop :=
  match e with
  | Acq m => xh s m = false /\ rc s m = 0
  | RAcq m => xh s m = false
  | Rel m => xh s m = true              (* unlock of an unlocked mutex is a fatal error: no step *)
  | RRel m => rc s m <> 0
  | Rd _ | Wr _ => True
  end.

Definition setb (f : mutex -> bool) (m : mutex) (v : bool) : mutex -> bool :=
  fun m' => if String.eqb m' m then v else f m'.
Definition setn (f : mutex -> nat) (m : mutex) (v : nat) : mutex -> nat :=
  fun m' => if String.eqb m' m then v else f m'.

Definition do_step (s : lstate) (e : ev) : lstate :=
  match e with
  | Acq m => {| xh := setb (xh s) m true; rc := rc s |}
  | RAcq m => {| xh := xh s; rc := setn (rc s) m (S (rc s m)) |}
  | Rel m => {| xh := setb (xh s) m false; rc := rc s |}
  | RRel m => {| xh := xh s; rc := setn (rc s) m (pred (rc s m)) |}
  | Rd _ | Wr _ => s
  end.

Fixpoint upd {A} (l : list A) (n : nat) (x : A) : list A :=
  match l, n with
  | [], _ => []
  | _ :: r, 0 => x :: r
  | a :: r, S n' => a :: upd r n' x
  end.

(* [valid ps s tr]: from remaining programs ps and lock state s the trace tr can be executed.
   Every prefix of a complete interleaving is a valid trace (blocked / unfinished runs included). *)
Inductive valid : list prog -> lstate -> trace -> Prop :=
| valid_nil : forall ps s, valid ps s []
| valid_cons : forall ps s t e rest tr,
    nth_error ps t = Some (e :: rest) ->
    can_step s e ->
    valid (upd ps t rest) (do_step s e) tr ->
    valid ps s ((t, e) :: tr).

Definition valid_trace (ps : list prog) (tr : trace) : Prop := valid ps init_state tr.

(* ------------------------------------------------------------------ races *)
Definition ev_loc (e : ev) : option loc :=
  match e with Rd x | Wr x => Some x | _ => None end.
Definition is_write (e : ev) : bool := match e with Wr _ => true | _ => false end.

Definition conflicting (e1 e2 : ev) : Prop :=
  exists x, ev_loc e1 = Some x /\ ev_loc e2 = Some x /\ (is_write e1 = true \/ is_write e2 = true).

(* two conflicting accesses of different threads next to each other: nothing orders them *)
Definition race_at (tr : trace) (i : nat) : Prop :=
  exists t1 e1 t2 e2, nth_error tr i = Some (t1, e1) /\ nth_error tr (S i) = Some (t2, e2) /\
                      t1 <> t2 /\ conflicting e1 e2.
Definition race_free (tr : trace) : Prop := ~ exists i, race_at tr i.

Definition releases (e : ev) (m : mutex) : Prop := e = Rel m \/ e = RRel m.
Definition acquires (e : ev) (m : mutex) : Prop := e = Acq m \/ e = RAcq m.

(* happens-before through one mutex: after position i thread t1 releases m, later t2 acquires m, before j *)
Definition lock_ordered (tr : trace) (i j : nat) (t1 t2 : tid) : Prop :=
  exists m k l e e', i < k /\ k < l /\ l < j /\
    nth_error tr k = Some (t1, e) /\ releases e m /\
    nth_error tr l = Some (t2, e') /\ acquires e' m.

Definition hb_race_free (tr : trace) : Prop :=
  forall i j t1 e1 t2 e2, i < j -> nth_error tr i = Some (t1, e1) -> nth_error tr j = Some (t2, e2) ->
    t1 <> t2 -> conflicting e1 e2 -> lock_ordered tr i j t1 t2.

(* ------------------------------------------------------------------ the lockset discipline (executable) *)
(* accesses of a program with the locks held at each, by a scan *)
Definition access := (loc * bool * held)%type.     (* location, is-write, held *)
Fixpoint accs (h : held) (p : prog) : list access :=
  match p with
  | [] => []
  | Rd x :: p' => (x, false, h) :: accs h p'
  | Wr x :: p' => (x, true, h) :: accs h p'
  | e :: p' => accs (scan_ev h e) p'
  end.

(* a thread only releases what its own scan says it holds *)
Fixpoint wf_prog (h : held) (p : prog) : bool :=
  match p with
  | [] => true
  | Rel m :: p' => holds (m, MX) h && wf_prog (remove1 (m, MX) h) p'
  | RRel m :: p' => holds (m, MR) h && wf_prog (remove1 (m, MR) h) p'
  | e :: p' => wf_prog (scan_ev h e) p'
  end.

Definition is_mx (d : lmode) : bool := match d with MX => true | MR => false end.

(* a common mutex, not both in read mode *)
Definition protects (h1 h2 : held) : bool :=
  existsb (fun a => existsb (fun b => String.eqb (fst a) (fst b) && (is_mx (snd a) || is_mx (snd b))) h2) h1.

Definition pair_ok (a b : access) : bool :=
  let '(x, w, h) := a in
  let '(y, v, k) := b in
  if String.eqb x y && (w || v) then protects h k else true.

Definition cross_ok (p q : prog) : bool :=
  forallb (fun a => forallb (pair_ok a) (accs [] q)) (accs [] p).

Fixpoint pairs_ok (ps : list prog) : bool :=
  match ps with
  | [] => true
  | p :: r => forallb (cross_ok p) r && pairs_ok r
  end.

Definition lockset_ok (ps : list prog) : bool :=
  forallb (wf_prog []) ps && pairs_ok ps.

(* ------------------------------------------------------------------ memoising cache (T3) *)
(* A cache guarded by a mutex: one operation = lookup, else compute and store, atomically.  Whatever the
   order in which the callers' operations are serialised, everyone gets f k. *)
Section Memo.
  Variables (K V : Type) (keq : K -> K -> bool) (f : K -> V).
  Fixpoint assoc (k : K) (c : list (K * V)) : option V :=
    match c with [] => None | (k', v) :: r => if keq k k' then Some v else assoc k r end.
  Definition memo_op (c : list (K * V)) (k : K) : V * list (K * V) :=
    match assoc k c with Some v => (v, c) | None => (f k, (k, f k) :: c) end.
  Fixpoint memo_run (c : list (K * V)) (ks : list K) : list V :=
    match ks with [] => [] | k :: r => let '(v, c') := memo_op c k in v :: memo_run c' r end.
  Definition cache_sound (c : list (K * V)) : Prop := forall k v, assoc k c = Some v -> v = f k.
End Memo.

(* ------------------------------------------------------------------ the generated table (Gen/Locks.v) *)
Inductive rw := R | W.
Inductive item :=
| IAcc (l : loc) (k : rw) (h : held)        (* access to a shared location, locks syntactically held *)
| ICall (callee : string) (h : held).       (* call of / reference to a function of the package *)
(* f_init_only: not reachable from any exported function, stored closure or package-level initialiser *)
Record func := { f_name : string; f_init_only : bool; f_body : list item }.
