(* Model of the lexer in /repo/pkg/yang/lex.go  (no proofs in this file).

   Text is a list of runes (Unicode code points, N); the lexer compares runes only with
   ASCII characters and counts columns in runes, so this is exact for valid UTF-8 input
   (UTF-8 decoding is modelled, not verified: the harness decodes).  The cursor is a zipper
   [before]/[after]; [tokrev] is input[start:pos] reversed.  Every function is named after
   the Go function it models.  The token channel (capacity maxErrors = 8, non-blocking
   send that drops) is the list [items].  Errors written to errout are records
   (line, column as printed, kind), in the order written; text is never modelled. *)
From Coq Require Import List NArith ZArith Bool.
Import ListNotations.
Local Open Scope Z_scope.

Definition rune := N.
Definition str := list rune.

Definition EOFR : rune := 2147483647%N.       (* eof = 0x7fffffff *)
Definition maxErrors : nat := 8.
Definition RuneError : rune := 65533%N.       (* string(eof) = "�" *)

Definition cLF : rune := 10%N.   Definition cTAB : rune := 9%N.   Definition cCR : rune := 13%N.
Definition cSP : rune := 32%N.   Definition cDQ : rune := 34%N.   Definition cSQ : rune := 39%N.
Definition cSEMI : rune := 59%N. Definition cLB : rune := 123%N.  Definition cRB : rune := 125%N.
Definition cSLASH : rune := 47%N. Definition cSTAR : rune := 42%N. Definition cPLUS : rune := 43%N.
Definition cBSL : rune := 92%N.  Definition c_n : rune := 110%N.  Definition c_t : rune := 116%N.

Inductive tcode := TError | TString | TUnquoted | TChar (c : rune).   (* tEOF is the nil token *)

Record token := { t_code : tcode; t_text : str; t_line : Z; t_col : Z;
                  t_off : nat (* ghost: index in the text of the token's first rune *) }.

Inductive ekind :=
| EMissingSQuote | EMissingDQuote | EMissingComment | EInternalNL | EInvalidEscape | ETooMany
| EUnexpectedBrace | EKeywordNotUnquoted | EUnexpectedEOF | ESyntax | EMissingBraces.

(* one message on errout: position as printed (None: the message carries no line:col) *)
Record perr := { e_pos : option (Z * Z); e_kind : ekind;
                 e_subject : option nat (* ghost: offset of the token / opener / backslash meant *) }.

Inductive lstate := SGround | SQString | SUnquoted | SDone.

(* ---------------------------------------------------------------- cursor *)
Record cur := { before : str;      (* consumed runes, last consumed first *)
                after : str;       (* input[pos:] *)
                tokrev : str;      (* input[start:pos], reversed *)
                line : Z; col : Z; tcol : Z;
                width : nat }.     (* runes the last move went forward (Go: bytes) *)

Definition tab_stop (t : Z) : Z := ((t + 8) / 8) * 8.       (* (t + 8) & ^7 *)

(* the effect of moving over one rune on line / col / tcol *)
Definition advance (c : rune) (k : cur) (w : nat) : cur :=
  let b := c :: before k in
  let tr := c :: tokrev k in
  match after k with
  | [] => k
  | _ :: r =>
    if (c =? cLF)%N then
      {| before := b; after := r; tokrev := tr; line := line k + 1; col := 0; tcol := 0; width := w |}
    else if (c =? cTAB)%N then
      {| before := b; after := r; tokrev := tr; line := line k; col := col k + 1;
         tcol := tab_stop (tcol k); width := w |}
    else
      {| before := b; after := r; tokrev := tr; line := line k; col := col k + 1;
         tcol := tcol k + 1; width := w |}
  end.

Definition set_width (k : cur) (w : nat) : cur :=
  {| before := before k; after := after k; tokrev := tokrev k; line := line k; col := col k;
     tcol := tcol k; width := w |}.

Definition next (k : cur) : rune * cur :=
  match after k with
  | [] => (EOFR, set_width k 0)
  | c :: _ => (c, advance c k 1)
  end.

(* pos -= width *)
Fixpoint unread (n : nat) (b a tr : str) : str * str * str :=
  match n, b with
  | S n', c :: b' => unread n' b' (c :: a) (tl tr)
  | _, _ => (b, a, tr)
  end.

Definition backup (k : cur) : cur :=
  match width k with
  | O => k
  | _ =>
    let '(b, a, tr) := unread (width k) (before k) (after k) (tokrev k) in
    if col k - 1 <? 0 then
      {| before := b; after := a; tokrev := tr; line := line k - 1; col := 0; tcol := 0; width := width k |}
    else
      {| before := b; after := a; tokrev := tr; line := line k; col := col k - 1; tcol := tcol k - 1;
         width := width k |}
  end.

Definition peek (k : cur) : rune * cur := let (r, k') := next k in (r, backup k').

Definition consume (k : cur) : cur :=
  {| before := before k; after := after k; tokrev := []; line := line k; col := col k; tcol := tcol k;
     width := width k |}.

Definition is_blank (c : rune) : bool := ((c =? cSP) || (c =? cTAB) || (c =? cCR) || (c =? cLF))%N.

(* acceptRun(" \t\r\n"); fuel = S (length after) *)
Fixpoint acceptRun (fuel : nat) (k : cur) : cur :=
  match fuel with
  | O => k
  | S f => let (c, k') := next k in
           if is_blank c then acceptRun f k' else backup k'
  end.

(* strings.Index(input[pos:], s) for the three needles used *)
Fixpoint index1 (c : rune) (s : str) : option nat :=
  match s with
  | [] => None
  | x :: r => if (x =? c)%N then Some O else option_map S (index1 c r)
  end.
Fixpoint index2 (c d : rune) (s : str) : option nat :=
  match s with
  | x :: ((y :: _) as r) => if ((x =? c) && (y =? d))%N then Some O else option_map S (index2 c d r)
  | _ => None
  end.

(* updateCursor(n): as repaired (tcol kept in step), its effect on line/col/tcol is that of
   n single steps; width = n *)
Fixpoint updateCursor_go (n : nat) (k : cur) : cur :=
  match n with
  | O => k
  | S n' => match after k with
            | [] => k
            | c :: _ => updateCursor_go n' (advance c k 0)
            end
  end.
Definition updateCursor (n : nat) (k : cur) : cur := set_width (updateCursor_go n k) n.

Definition skipTo1 (c : rune) (k : cur) : bool * cur :=
  match index1 c (after k) with Some x => (true, updateCursor x k) | None => (false, k) end.
Definition skipTo2 (c d : rune) (k : cur) : bool * cur :=
  match index2 c d (after k) with Some x => (true, updateCursor x k) | None => (false, k) end.

(* ---------------------------------------------------------------- lexer *)
Record lexer := { cu : cur; sline : Z; scol : Z; soff : nat; inPattern : bool;
                  items : list token; errcnt : nat; errs : list perr (* newest first *);
                  state : lstate }.

Definition with_cu (l : lexer) (k : cur) : lexer :=
  {| cu := k; sline := sline l; scol := scol l; soff := soff l; inPattern := inPattern l;
     items := items l; errcnt := errcnt l; errs := errs l; state := state l |}.
Definition with_state (l : lexer) (s : lstate) : lexer :=
  {| cu := cu l; sline := sline l; scol := scol l; soff := soff l; inPattern := inPattern l;
     items := items l; errcnt := errcnt l; errs := errs l; state := s |}.
Definition with_inPattern (l : lexer) (b : bool) : lexer :=
  {| cu := cu l; sline := sline l; scol := scol l; soff := soff l; inPattern := b;
     items := items l; errcnt := errcnt l; errs := errs l; state := state l |}.

Definition newLexer (input : str) : lexer :=
  let input := match rev input with
               | [] => input
               | c :: _ => if (c =? cLF)%N then input else input ++ [cLF]
               end in
  {| cu := {| before := []; after := input; tokrev := []; line := 1; col := 0; tcol := 0; width := 0 |};
     sline := 0; scol := 0; soff := 0; inPattern := false; items := []; errcnt := 0; errs := [];
     state := SGround |}.

(* emitText: non-blocking send on a channel of capacity maxErrors, then consume *)
Definition emitText (l : lexer) (c : tcode) (text : str) : lexer :=
  let t := {| t_code := c; t_text := text; t_line := sline l; t_col := scol l + 1; t_off := soff l |} in
  {| cu := consume (cu l); sline := sline l; scol := scol l; soff := soff l; inPattern := inPattern l;
     items := if (length (items l) <? maxErrors)%nat then items l ++ [t] else items l;
     errcnt := errcnt l; errs := errs l; state := state l |}.
Definition emit (l : lexer) (c : tcode) : lexer := emitText l c (rev (tokrev (cu l))).

Definition clear_input (k : cur) : cur :=
  {| before := []; after := []; tokrev := []; line := line k; col := col k; tcol := tcol k; width := width k |}.

(* Errorf with l.line, l.col temporarily set to (ln, cl): the message shows ln:cl+1 *)
Definition ErrorfAt (l : lexer) (ln cl : Z) (kind : ekind) (subject : option nat) : lexer :=
  let l := emit l TError in
  if Nat.eqb (errcnt l) maxErrors then
    {| cu := clear_input (cu l); sline := sline l; scol := scol l; soff := soff l; inPattern := inPattern l;
       items := items l; errcnt := S (errcnt l);
       errs := {| e_pos := None; e_kind := ETooMany; e_subject := None |} :: errs l; state := state l |}
  else if Nat.eqb (errcnt l) (S maxErrors) then l
  else
    {| cu := cu l; sline := sline l; scol := scol l; soff := soff l; inPattern := inPattern l;
       items := items l; errcnt := S (errcnt l);
       errs := {| e_pos := Some (ln, cl + 1); e_kind := kind; e_subject := subject |} :: errs l;
       state := state l |}.

Definition is_delim (c : rune) : bool :=
  ((c =? cSP) || (c =? cCR) || (c =? cLF) || (c =? cTAB) || (c =? cSEMI) || (c =? cDQ) || (c =? cSQ)
   || (c =? cLB) || (c =? cRB) || (c =? EOFR))%N.

(* ---- lexGround ---- *)
Definition lexGround (l : lexer) : lexer :=
  let k := consume (acceptRun (S (length (after (cu l)))) (cu l)) in
  let l := {| cu := k; sline := line k; scol := col k; soff := length (before k);
              inPattern := inPattern l; items := items l; errcnt := errcnt l; errs := errs l;
              state := state l |} in
  let (c, k1) := peek k in
  let l := with_cu l k1 in
  if (c =? EOFR)%N then with_state l SDone
  else if ((c =? cSEMI) || (c =? cLB) || (c =? cRB))%N then
    let (_, k2) := next k1 in with_state (emit (with_cu l k2) (TChar c)) SGround
  else if (c =? cSQ)%N then
    let (_, k2) := next k1 in
    let k2 := consume k2 in
    let '(found, k3) := skipTo1 cSQ k2 in
    if found then
      let l := emit (with_cu l k3) TString in
      let (_, k4) := next (cu l) in
      with_state (with_cu l k4) SGround
    else
      with_state (ErrorfAt (with_cu l k3) (line k3) (col k3 - 1) EMissingSQuote (Some (soff l))) SDone
  else if (c =? cDQ)%N then
    let (_, k2) := next k1 in with_state (with_cu l k2) SQString
  else if (c =? cSLASH)%N then
    let (_, k2) := next k1 in
    let (c2, k3) := peek k2 in
    if (c2 =? cSLASH)%N then
      let '(found, k4) := skipTo1 cLF k3 in
      if found then with_state (with_cu l k4) SGround
      else with_state (ErrorfAt (with_cu l k4) (line k4) (col k4 - 1) EInternalNL (Some (soff l))) SDone
    else if (c2 =? cSTAR)%N then
      let (_, k4) := next k3 in
      let '(found, k5) := skipTo2 cSTAR cSLASH k4 in
      if found then
        let (_, k6) := next k5 in
        let (_, k7) := next k6 in
        with_state (with_cu l k7) SGround
      else with_state (ErrorfAt (with_cu l k5) (line k5) (col k5 - 2) EMissingComment (Some (soff l))) SDone
    else with_state (with_cu l k3) SUnquoted
  else if (c =? cPLUS)%N then
    let (_, k2) := next k1 in
    let (c2, k3) := peek k2 in
    if ((c2 =? cDQ) || (c2 =? cSQ))%N then with_state (emit (with_cu l k3) TUnquoted) SGround
    else with_state (with_cu l k3) SUnquoted
  else with_state l SUnquoted.

(* ---- lexQString ---- *)
Fixpoint trim_trailing_rev (t : str) : str :=       (* on the reversed text *)
  match t with
  | c :: r => if ((c =? cSP) || (c =? cTAB))%N then trim_trailing_rev r else t
  | [] => []
  end.

Definition rune_text (c : rune) : rune := if (c =? EOFR)%N then RuneError else c.

(* the loop; [textrev] is text reversed; fuel = S (length after) *)
Fixpoint qstring_loop (fuel : nat) (l : lexer) (indent : Z) (qline qcol : Z) (over : bool) (textrev : str)
  : lexer :=
  match fuel with
  | O => with_state l SDone      (* not reached: see fuel lemma *)
  | S f =>
    let (c, k) := next (cu l) in
    let l := with_cu l k in
    if (c =? EOFR)%N then
      with_state (ErrorfAt l qline qcol EMissingDQuote (Some (soff l))) SDone
    else if (c =? cDQ)%N then
      with_state (emitText l TString (rev textrev)) SGround
    else if (c =? cLF)%N then
      qstring_loop f l indent qline qcol false (c :: trim_trailing_rev textrev)
    else if ((c =? cSP) || (c =? cTAB))%N then
      if negb over && (tcol k <=? indent) then qstring_loop f l indent qline qcol over textrev
      else qstring_loop f l indent qline qcol true (c :: textrev)
    else if (c =? cBSL)%N then
      let bline := line k in let bcol := col k - 1 in
      let boff := Nat.pred (length (before k)) in
      let (c2, k2) := next k in
      let l := with_cu l k2 in
      if (c2 =? c_n)%N then qstring_loop f l indent qline qcol true (cLF :: textrev)
      else if (c2 =? c_t)%N then qstring_loop f l indent qline qcol true (cTAB :: textrev)
      else if (c2 =? cDQ)%N then qstring_loop f l indent qline qcol true (cDQ :: textrev)
      else if (c2 =? cBSL)%N then qstring_loop f l indent qline qcol true (cBSL :: textrev)
      else
        let l := if inPattern l then l else ErrorfAt l bline bcol EInvalidEscape (Some boff) in
        qstring_loop f l indent qline qcol true (rune_text c2 :: cBSL :: textrev)
    else qstring_loop f l indent qline qcol true (c :: textrev)
  end.

Definition lexQString (l : lexer) : lexer :=
  let k := cu l in
  qstring_loop (S (length (after k))) l (tcol k) (line k) (col k - 1) true [].

(* ---- lexUnquoted ---- *)
Fixpoint unquoted_loop (fuel : nat) (l : lexer) : lexer :=
  match fuel with
  | O => with_state l SDone
  | S f =>
    let (c, k) := peek (cu l) in
    if is_delim c then with_state (emit (with_cu l k) TUnquoted) SGround
    else let (_, k2) := next k in unquoted_loop f (with_cu l k2)
  end.
Definition lexUnquoted (l : lexer) : lexer := unquoted_loop (S (length (after (cu l)))) l.

Definition run_state (l : lexer) : lexer :=
  match state l with
  | SGround => lexGround l
  | SQString => lexQString l
  | SUnquoted => lexUnquoted l
  | SDone => l
  end.

(* NextToken: None = out of fuel (never, see fuel lemma); Some None = nil token (EOF) *)
Fixpoint NextToken (fuel : nat) (l : lexer) : option (option token) * lexer :=
  match items l with
  | t :: r =>
    (Some (Some t),
     {| cu := cu l; sline := sline l; scol := scol l; soff := soff l; inPattern := inPattern l;
        items := r; errcnt := errcnt l; errs := errs l; state := state l |})
  | [] =>
    match state l with
    | SDone => (Some None, l)
    | _ => match fuel with
           | O => (None, l)
           | S f => NextToken f (run_state l)
           end
    end
  end.

Definition lex_fuel (l : lexer) : nat := 2 * length (after (cu l)) + 8.
