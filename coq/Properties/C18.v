(* C18 -- re-processing, incremental loading and failed loads do not skew results (property theorems). *)
From Coq Require Import List NArith Bool.
Import ListNotations.
From GY Require Import Model.Registry Model.History Spec.C18 Proofs.HistoryProofs.
Open Scope N_scope.

(* ---------------------------------------------------------------- the code as it is now: history refinement *)
(* T: for every finite history of loads (good, bad, syntactically wrong, several statements per text), Process calls,
   namespace lookups and cached-entry reads, every observation of the one long-lived Modules value equals the
   observation of the specification: verdicts by the (kind, name, revision) keys of the accepted items, every
   Process and query answered by a batch run on a fresh set loaded with exactly the accepted items. *)
Theorem C18_history_refinement :
  forall (obs : Type) (sem : view -> obs) (ops : list op),
  snd (run sem now NewState ops) = snd (spec_run sem now a_init ops).
Proof. exact refinement_now. Qed.

(* the same for every variant of the code that contains all five repairs *)
Theorem C18_history_refinement_fixed :
  forall (obs : Type) (sem : view -> obs) (fx : fixes) (ops : list op),
  all_fixed fx = true ->
  snd (run sem fx NewState ops) = snd (spec_run sem fx a_init ops).
Proof. exact refinement. Qed.

(* processing twice gives what processing once gives, after any history *)
Theorem C18_process_twice :
  forall (obs : Type) (sem : view -> obs) (pre : list op),
  let st := fst (run sem now NewState pre) in
  snd (Process sem now (fst (Process sem now st))) = snd (Process sem now st).
Proof. exact process_twice_now. Qed.

(* loading more after a Process and processing again = loading everything accepted into a fresh set first *)
Theorem C18_incremental :
  forall (obs : Type) (sem : view -> obs) (pre : list op) (more : list text),
  let st := fst (run sem now NewState (pre ++ Proc :: map Load more)) in
  snd (Process sem now st) = batch sem now (accepted obs sem now (pre ++ Proc :: map Load more)).
Proof. exact incremental_now. Qed.

(* a load that fails changes nothing at all in the Modules value ... *)
Theorem C18_failed_load_no_trace :
  forall (obs : Type) (st : state obs) (t : text),
  snd (load now st t) = false -> fst (load now st t) = st.
Proof. exact failed_load_no_trace_now. Qed.

(* ... so every later load, Process and query runs exactly as if the text had not been offered *)
Theorem C18_failed_load_invisible :
  forall (obs : Type) (sem : view -> obs) (st : state obs) (t : text) (post : list op),
  snd (load now st t) = false ->
  run sem now st (Load t :: post) = (fst (run sem now st post), OLoad false :: snd (run sem now st post)).
Proof. exact failed_load_invisible_now. Qed.

(* ---------------------------------------------------------------- every variant of the code, the pinned one included *)
(* without the atomic Parse a failed load is traceless exactly when it fails at its first statement *)
Theorem C18_failed_load_no_trace_partial :
  forall (obs : Type) (fx : fixes) (st : state obs) (t : text),
  snd (load fx st t) = false -> fx_atomic fx = true \/ fails_at_first st t = true -> fst (load fx st t) = st.
Proof. exact failed_load_no_trace. Qed.

(* loads followed by the FIRST Process agree with the specification outside the shape D43 *)
Theorem C18_first_process_partial :
  forall (obs : Type) (sem : view -> obs) (fx : fixes) (ts : list text),
  no_partial [] (map Load ts) ->
  snd (run sem fx NewState (map Load ts ++ [Proc])) = snd (spec_run sem fx a_init (map Load ts ++ [Proc])).
Proof. exact first_process. Qed.

(* ---------------------------------------------------------------- witnesses *)
Definition s1 (c : N) : str := [c].
Definition mk (id : N) (k : kind) (name : N) (revs : list N) (ns : N) (bel : option N) (tds : list N)
              (imps incs : list (N * option N)) (ids : list N) : ghdr :=
  {| g_hdr := {| h_id := id; h_kind := k; h_name := s1 name; h_revs := map s1 revs |};
     g_ns := s1 ns; g_belongs := option_map s1 bel; g_tds := tds;
     g_imports := map (fun p => (s1 (fst p), option_map s1 (snd p))) imps;
     g_includes := map (fun p => (s1 (fst p), option_map s1 (snd p))) incs;
     g_idents := map s1 ids |}.
Definition L (g : ghdr) : op := Load (Items [Good g]).
Definition hist (fx : fixes) (ops : list op) := snd (run_view fx ops).
Definition ref (fx : fixes) (ops : list op) := snd (spec_run (fun v => v) fx a_init ops).
(* the code before each repair (every other repair present), and [pinned] = before all of them *)
Definition before_07ff912 := {| fx_atomic := false; fx_byns := true; fx_types := true; fx_idents := true; fx_binds := true |}.
Definition before_9f6d850 := {| fx_atomic := true; fx_byns := false; fx_types := true; fx_idents := true; fx_binds := true |}.
Definition before_2ea7be8 := {| fx_atomic := true; fx_byns := true; fx_types := false; fx_idents := true; fx_binds := true |}.
Definition before_b3c50c0 := {| fx_atomic := true; fx_byns := true; fx_types := true; fx_idents := false; fx_binds := true |}.
Definition before_45df602 := {| fx_atomic := true; fx_byns := true; fx_types := true; fx_idents := true; fx_binds := false |}.

(* module a (id 1); module c in revisions 1 and 2 (ids 2, 3); a imports c *)
Definition wA := mk 1 KMod 97 [] 97 None [10] [(99, None)] [] [].
Definition wC1 := mk 2 KMod 99 [49] 99 None [11] [] [] [].
Definition wC2 := mk 3 KMod 99 [50] 99 None [12] [] [] [].
(* module m (id 4) includes submodule s; s in revisions 1 (id 5, imports g, identity o) and 2 (id 6); module g (id 7) *)
Definition wM := mk 4 KMod 109 [] 109 None [] [] [(115, None)] [].
Definition wS1 := mk 5 KSub 115 [49] 0 (Some 109) [] [(103, None)] [] [111].
Definition wS2 := mk 6 KSub 115 [50] 0 (Some 109) [] [] [] [110].
Definition wG := mk 7 KMod 103 [] 103 None [] [] [] [].
(* a second module with the namespace of a *)
Definition wA' := mk 8 KMod 98 [] 97 None [] [] [] [].

(* the listed shape (D43): a good module followed by a rejected statement; the module stays *)
Theorem C18_partial_text_refuted :
  exists ops, hist before_07ff912 ops <> ref before_07ff912 ops /\ hist pinned ops <> ref pinned ops.
Proof. exists [Load (Items [Good wG; Bad [13]]); Proc]. split; intros H; vm_compute in H; discriminate H. Qed.

(* D55: byNS is never invalidated: the answer given before the second module arrived is repeated *)
Theorem C18_byns_refuted :
  exists ops, no_partial [] ops /\ hist before_9f6d850 ops <> ref before_9f6d850 ops /\ hist pinned ops <> ref pinned ops.
Proof.
  exists [L wA; QNs (s1 97); L wA'; QNs (s1 97)]. split; [vm_compute; tauto|].
  split; intros H; vm_compute in H; discriminate H.
Qed.

(* D56: resolved types are kept: after the newer revision has arrived they are still those of the older one *)
Theorem C18_type_memo_refuted :
  exists ops, no_partial [] ops /\ hist before_2ea7be8 ops <> ref before_2ea7be8 ops /\ hist pinned ops <> ref pinned ops.
Proof.
  exists [L wA; L wC1; Proc; L wC2; Proc]. split; [vm_compute; tauto|].
  split; intros H; vm_compute in H; discriminate H.
Qed.

(* a READ between the runs (ToEntry on a module that has not been converted) memoises types too: without the reset
   at the top of Process the run after the next load still uses them *)
Theorem C18_read_leaves_memo_refuted :
  exists ops, no_partial [] ops /\ hist before_2ea7be8 ops <> ref before_2ea7be8 ops /\ hist now ops = ref now ops.
Proof.
  exists [L wA; L wC1; QTree; L wC2; Proc]. split; [vm_compute; tauto|].
  split; [intros H; vm_compute in H; discriminate H|vm_compute; reflexivity].
Qed.

(* D57: the identity dictionary is never cleared: identities of a superseded submodule revision stay *)
Theorem C18_identity_dict_refuted :
  exists ops, no_partial [] ops /\ hist before_b3c50c0 ops <> ref before_b3c50c0 ops /\ hist pinned ops <> ref pinned ops.
Proof.
  exists [L wM; L wG; L wS1; Proc; L wS2; Proc]. split; [vm_compute; tauto|].
  split; intros H; vm_compute in H; discriminate H.
Qed.

(* D62: Import.Module of a module that include() no longer reaches keeps the binding of an earlier run *)
Theorem C18_import_memo_refuted :
  exists ops, no_partial [] ops /\ hist before_45df602 ops <> ref before_45df602 ops /\ hist pinned ops <> ref pinned ops.
Proof.
  exists [L wM; L wG; L wS1; Proc; L wS2; Proc]. split; [vm_compute; tauto|].
  split; intros H; vm_compute in H; discriminate H.
Qed.

(* before 44c33d9 (D40): the typedefs of a rejected text stayed in the dictionary *)
Theorem C18_d40_typedef_leak_refuted :
  exists l, snd (load_items_d40 (@NewState view) l) = false /\ tdict (fst (load_items_d40 (@NewState view) l)) <> [].
Proof. exists [Bad [13]]. split; [reflexivity|]. intros H; vm_compute in H; discriminate H. Qed.

(* ---------------------------------------------------------------- non-vacuity *)
Example now_is_repaired : now = repaired /\ all_fixed now = true.
Proof. split; reflexivity. Qed.

(* the same histories on the repaired code agree with the specification, and they exercise something *)
Example repaired_on_witnesses :
  hist repaired [L wM; L wG; L wS1; Proc; L wS2; Proc] = ref repaired [L wM; L wG; L wS1; Proc; L wS2; Proc] /\
  hist repaired [Load (Items [Good wG; Bad [13]]); Proc; L wG; Proc] =
  ref repaired [Load (Items [Good wG; Bad [13]]); Proc; L wG; Proc] /\
  hist repaired [L wA; QNs (s1 97); L wA'; QNs (s1 97)] = [OLoad true; ONs (NsFound 1); OLoad true; ONs NsAmbiguous].
Proof. repeat split; vm_compute; reflexivity. Qed.

(* several revisions of one module share its namespace: the lookup answers with the most recent one, also when the
   older one arrives later and a lookup lay in between; a different module with that namespace is the ambiguity *)
Example namespace_of_revisions :
  hist now [L wC1; QNs (s1 99); L wC2; QNs (s1 99)] = [OLoad true; ONs (NsFound 2); OLoad true; ONs (NsFound 3)] /\
  hist now [L wC2; QNs (s1 99); L wC1; QNs (s1 99)] = [OLoad true; ONs (NsFound 3); OLoad true; ONs (NsFound 3)] /\
  hist now [L wC1; L wC2; L (mk 9 KMod 100 [] 99 None [] [] [] []); QNs (s1 99)] =
  [OLoad true; OLoad true; OLoad true; ONs NsAmbiguous].
Proof. repeat split; vm_compute; reflexivity. Qed.

Example no_partial_satisfiable :
  no_partial [] (map Load [Items [Good wA]; SyntaxErr; Items [Bad [13]; Good wG]; Items [Good wA]; Items [Good wC1; Good wC2]]) /\
  map (fun t => spec_load [wA] t) [Items [Good wA]; Items [Good wC1; Good wC1]; Items [Good wC1; Good wC2]] =
  [None; None; Some [wC1; wC2]].
Proof. split; vm_compute; tauto. Qed.

Example failing_text_guard :
  fails_at_first (@NewState view) (Items [Bad [13]; Good wG]) = true /\
  fails_at_first (@NewState view) (Items [Good wG; Bad [13]]) = false /\
  partial_shape [] (Items [Good wG; Bad [13]]) = true /\
  partial_shape [wG] (Items [Good wG; Bad [13]]) = false.
Proof. repeat split. Qed.
