(* C20 — Indented writing is chunk-independent and accounts bytes truthfully.
   Only statements, closed by [exact], and Print Assumptions. *)
From Coq Require Import List NArith ZArith Bool.
Import ListNotations.
From GY Require Import Model.Indent Spec.C20 Proofs.IndentProofs Proofs.IndentStackProofs.
Local Open Scope Z_scope.

(* T0: the one-shot function is the character-level rendering: the prefix before the first
   byte of every line, nothing after the final line break. *)
Theorem C20_oneshot : forall prefix b, Bytes prefix b = spec_indent prefix b.
Proof. exact Bytes_spec. Qed.

(* T1: any division of a text into successful Write calls delivers exactly the one-shot
   rendering of the concatenation, and every call reports the length of its argument.
   Holds for every prefix, the empty one included (NewWriter then hands back the
   underlying writer). *)
Theorem C20_chunks : forall prefix chunks,
  run prefix (NewWriter prefix) (ok_calls chunks)
  = (map (fun c => (Z.of_nat (length c), false)) chunks, Bytes prefix (concat chunks)).
Proof. exact run_chunks. Qed.

(* the writer state after any successful history is a function of the text so far *)
Theorem C20_state : forall prefix acc w buf, winv prefix acc w ->
  winv prefix (acc ++ buf) (w_state (Write prefix w buf None)).
Proof. intros p acc w buf H. exact (proj1 (proj2 (proj2 (Write_ok_step p acc w buf H)))). Qed.

(* T2: a short write reports the number of caller bytes among the bytes that reached the
   underlying writer; never negative, never more than the argument.  [n] is whatever the
   underlying writer returned (any integer). *)
Theorem C20_short : forall prefix partial buf n,
  prefix <> [] -> buf <> [] ->
  let r := Write prefix (Ind partial) buf (Some n) in
  let t := tind_sm prefix (negb partial) buf in
  w_err r = true /\
  w_out r = firstn (Z.to_nat n) (map snd t) /\
  w_n r = caller_count n t /\
  0 <= w_n r <= Z.of_nat (length buf).
Proof. exact Write_short. Qed.

(* the tagged rendering is the rendering, and its caller bytes are the argument *)
Theorem C20_tagged_sound : forall prefix s b,
  map snd (tind_sm prefix s b) = ind_sm prefix s b /\
  map snd (filter fst (tind_sm prefix s b)) = b.
Proof. intros. split; [apply tind_erase | apply tind_caller]. Qed.

(* T3: the underlying writer may itself be an indenting writer (the printers of the library
   stack one per nesting level).  Whatever the interleaving of successful writes to the two
   writers, and wherever in the history the upper writer is created or re-created, the bottom
   writer receives the one-shot rendering, by the lower prefix, of exactly the bytes the lower
   writer was handed ([stream]: direct writes, and the upper writer's renderings). *)
Theorem C20_stack : forall p1 p2 w2 ops, Forall op_ok ops ->
  run2 p1 p2 (NewWriter p1) w2 ops = (results ops, Bytes p1 (concat (stream p2 w2 ops))).
Proof. exact run2_ok. Qed.

(* in particular: a head through the lower writer (which may end mid-line), any chunking of a
   text through an upper writer created at that point, a tail through the lower writer *)
Theorem C20_stack_nested : forall p1 p2 w2 heads chunks tails,
  run2 p1 p2 (NewWriter p1) w2
       (map (fun c => OLower c None) heads ++ ONew :: map (fun c => OUpper c None) chunks
        ++ map (fun c => OLower c None) tails)
  = (map (fun c => (Z.of_nat (length c), false)) (heads ++ chunks ++ tails),
     Bytes p1 (concat heads ++ Bytes p2 (concat chunks) ++ concat tails)).
Proof. exact stacked_head_upper_tail. Qed.

(* a short write through the stack is accounted level by level *)
Theorem C20_stack_short : forall p1 p2 partial1 partial2 buf n,
  p1 <> [] -> p2 <> [] -> buf <> [] ->
  let joined := ind_sm p2 (negb partial2) buf in
  let t1 := tind_sm p1 (negb partial1) joined in
  let t2 := tind_sm p2 (negb partial2) buf in
  let '(res, out, _) := WriteUpper p1 p2 (Ind partial1) (Ind partial2) buf (Some n) in
  out = firstn (Z.to_nat n) (map snd t1) /\
  res = (caller_count (caller_count n t1) t2, true) /\
  0 <= fst res <= Z.of_nat (length buf).
Proof. exact WriteUpper_short. Qed.

(* D44: the accounting function as it stood at the pinned commit violates T2. *)
Theorem C20_short_old_refuted : exists prefix lines n,
  actualWrittenSize_old n (Z.of_nat (length prefix)) lines <> caller_count n (tjoin lines prefix).
Proof. exists [62; 32]%N, [[99; 100; 101]%N], 2. vm_compute. discriminate. Qed.

(* non-vacuity *)
Example C20_chunks_ex :
  run [62;32]%N (NewWriter [62;32]%N) (ok_calls [[97;10;98]; [99;10]; [10;100]])%N
  = ([(3,false);(2,false);(2,false)], [62;32;97;10;62;32;98;99;10;62;32;10;62;32;100]%N).
Proof. vm_compute. reflexivity. Qed.
Example C20_short_ex :
  w_n (Write [62;32]%N (Ind true) [99;100;101]%N (Some 2)) = 2.
Proof. vm_compute. reflexivity. Qed.
Example C20_stack_ex :
  run2 [65;62]%N [66;62]%N (NewWriter [65;62]%N) (NewWriter [66;62]%N)
       [OLower [104]%N None; ONew; OUpper [120;10;121]%N None; OLower [10]%N None]
  = ([(1,false);(3,false);(1,false)], [65;62;104;66;62;120;10;65;62;66;62;121;10]%N).
Proof. vm_compute. reflexivity. Qed.
