(* C11 -- Each identity lists exactly its transitive derivations, once, in fixed order.
   Only statements, closed by [exact], and non-vacuity examples.

   [resolve_identities o2 o3 sc] (Model/Identity.v) is the model of Modules.resolveIdentities on schema sc, in
   which several revisions of one module may be loaded: o2, o3 are the iteration orders of the two loops over
   the identity dictionary (a Go map); ms.Modules is walked in the order of its keys.  Its result r holds the
   dictionary [r_dict r] (key "<owning module revision>:<name>" -> declaration), the owners table
   [r_owners r], the Values list of every declaration [r_values r "<declaring (sub)module>:<name>"] and the
   errors [r_errors r].  The third loop is the real one: the closure of an identity is computed from whatever
   Values lists it meets, some already replaced by their closure and some still holding direct children only,
   depending on o3; a submodule's identity filed under two revisions has its bases resolved within each of
   them (so it is derived from both revisions' bases) and is closed twice.

   [derived], [resolves], [declares], [filed], [consistent], [links_ok], [all_resolve], [acyclic],
   [sorted_keys], [is_oracle] are in Spec/C11.v; [wf_schema] (no two loaded nodes of one kind, name and
   revision: what Modules.add enforces) in Proofs/IdentityProofs.v.  The graph is read off the dictionary and
   the owners tables, g = dict_get (r_dict r), ow = owners_get (r_owners r), ko = dict_get (r_key_owners r)
   (the owner recorded with each dictionary entry); C11_dictionary, C11_owners, C11_key_owner say which
   functions of the schema these are. *)
From Coq Require Import Ascii String List Bool Arith Relations Permutation.
From GY Require Import Model.Identity Spec.C11 Proofs.IdentityProofs.
Import ListNotations.
Local Open Scope string_scope.
Local Open Scope list_scope.

(* ------------------------------------------------------------------ termination *)

(* T0: for every schema (cyclic derivations, dangling bases, several revisions, anything) and every iteration
   order, the resolver terminates: the fuel given to addChildren, number of dictionary entries + 1, is never
   exhausted. *)
Theorem C11_terminates : forall sc o2 o3, is_oracle o2 -> is_oracle o3 ->
  exists r, resolve_identities o2 o3 sc = Some r.
Proof. exact resolve_total. Qed.

(* the reason: over any Values table whose entries are among ks, addChildren needs no more nesting than there
   are identities not yet collected -- cycles included *)
Theorem C11_closure_fuel : forall (V : vals) (ks : list key),
  (forall x c, In c (V x) -> In c ks) ->
  forall f r ids, NoDup ids -> incl ids ks -> In r ks -> length ks - length ids < f ->
  exists ids', add_children f V r ids = Some ids'.
Proof. exact fuel_ok. Qed.

(* and what the loop "for j in Values(i): new = addChildren(j, new)" returns, for any table, cyclic or
   not: every identity reachable from i through one or more "is in Values of" steps, each once *)
Theorem C11_closure_exact : forall f (V : vals) i nv, close f V i = Some nv ->
  NoDup nv /\ forall x, In x nv <-> clos_trans key (fun a c => In c (V a)) i x.
Proof. exact close_spec. Qed.

(* ------------------------------------------------------------------ the Values lists *)

(* T1 (a): no identity is listed twice *)
Theorem C11_no_duplicates : forall sc o2 o3 r, is_oracle o2 -> is_oracle o3 ->
  resolve_identities o2 o3 sc = Some r -> forall b, NoDup (r_values r b).
Proof. exact values_nodup. Qed.

(* T1 (b): Values b is exactly the set of declarations that reach b through one or more base statements *)
Theorem C11_exact : forall sc o2 o3 r, is_oracle o2 -> is_oracle o3 ->
  resolve_identities o2 o3 sc = Some r ->
  forall b x, In x (r_values r b) <-> derived sc (dict_get (r_dict r)) (owners_get (r_owners r)) (dict_get (r_key_owners r)) b x.
Proof. exact values_exact. Qed.

(* T1 (c): never the identity itself, unless it is derived from itself (which T3 reports) *)
Theorem C11_never_itself : forall sc o2 o3 r, is_oracle o2 -> is_oracle o3 ->
  resolve_identities o2 o3 sc = Some r ->
  forall b, ~ derived sc (dict_get (r_dict r)) (owners_get (r_owners r)) (dict_get (r_key_owners r)) b b -> ~ In b (r_values r b).
Proof. exact values_not_self. Qed.

Theorem C11_lists_identities : forall sc o2 o3 r, is_oracle o2 -> is_oracle o3 ->
  resolve_identities o2 o3 sc = Some r ->
  forall b x, In x (r_values r b) ->
    (exists e, declares (dict_get (r_dict r)) x e) /\ (exists e, declares (dict_get (r_dict r)) b e).
Proof. exact values_are_identities. Qed.

(* T1 (d): strictly increasing by (identity name, module-qualified name, full name of the declaring
   (sub)module), bytewise *)
Theorem C11_sorted : forall sc o2 o3 r, is_oracle o2 -> is_oracle o3 ->
  resolve_identities o2 o3 sc = Some r ->
  forall b, sorted_keys sc (decl_get (r_dict r)) (r_values r b).
Proof. exact values_sorted. Qed.

(* a strictly increasing list is determined by its set: (b) and (d) fix the list *)
Theorem C11_sorted_unique : forall sc dl l1 l2, sorted_keys sc dl l1 -> sorted_keys sc dl l2 ->
  (forall x, In x l1 <-> In x l2) -> l1 = l2.
Proof. exact strict_sorted_unique. Qed.

(* T1 (d'): the order -- the whole result -- is a function of the schema alone: any two choices of the
   map iteration orders give the same dictionary and owners, the same Values list for every declaration,
   and agree on whether an error is reported *)
Theorem C11_schema_alone : forall sc o2 o3 o2' o3' r r',
  is_oracle o2 -> is_oracle o3 -> is_oracle o2' -> is_oracle o3' ->
  resolve_identities o2 o3 sc = Some r -> resolve_identities o2' o3' sc = Some r' ->
  r_dict r = r_dict r' /\ r_owners r = r_owners r' /\ r_key_owners r = r_key_owners r' /\
  (forall b, r_values r b = r_values r' b) /\
  (r_errors r = [] <-> r_errors r' = []).
Proof. exact oracle_independent. Qed.

(* ------------------------------------------------------------------ which identities, under which keys *)

(* T2: for a schema Modules.add accepts, the dictionary holds exactly the identity statements of the loaded
   module revisions and of the submodules reachable from them through include statements, each under every
   revision whose whole module it is part of (for a schema in which no two statements compete for a key) *)
Theorem C11_dictionary : forall sc o2 o3 r, wf_schema sc -> is_oracle o2 -> is_oracle o3 ->
  resolve_identities o2 o3 sc = Some r -> consistent sc ->
  forall k e, dict_get (r_dict r) k = Some e <-> filed sc k e.
Proof. exact dictionary_spec. Qed.

(* without the consistency assumption: everything in the dictionary is a filed declaration, and every key
   under which something is filed is in the dictionary *)
Theorem C11_dictionary_sound : forall sc o2 o3 r, wf_schema sc -> is_oracle o2 -> is_oracle o3 ->
  resolve_identities o2 o3 sc = Some r ->
  forall k e, dict_get (r_dict r) k = Some e -> filed sc k e.
Proof. exact dictionary_sound. Qed.

Theorem C11_dictionary_complete : forall sc o2 o3 r, wf_schema sc -> is_oracle o2 -> is_oracle o3 ->
  resolve_identities o2 o3 sc = Some r ->
  forall k e, filed sc k e -> exists e', dict_get (r_dict r) k = Some e' /\ filed sc k e'.
Proof. exact dictionary_complete. Qed.

(* the owner recorded with a key -- the revision as part of which the bases of the entry are read -- is a
   module revision the key is a key of *)
Theorem C11_key_owner : forall sc o2 o3 r, wf_schema sc -> is_oracle o2 -> is_oracle o3 ->
  resolve_identities o2 o3 sc = Some r ->
  forall k o, dict_get (r_key_owners r) k = Some o -> key_owner_of sc k o.
Proof. exact key_owner_run_sound. Qed.

Theorem C11_key_owner_complete : forall sc o2 o3 r, wf_schema sc -> is_oracle o2 -> is_oracle o3 ->
  resolve_identities o2 o3 sc = Some r ->
  forall k o, key_owner_of sc k o -> exists o', dict_get (r_key_owners r) k = Some o' /\ key_owner_of sc k o'.
Proof. exact key_owner_run_complete. Qed.

(* the module revisions a visible (sub)module's identities are filed under -- the list identities.find searches
   for a name without prefix -- are the owners for the revisions whose whole module it is part of (the order of
   the list is the model's: the order in which sortedModules visits them) *)
Theorem C11_owners : forall sc o2 o3 r, wf_schema sc -> is_oracle o2 -> is_oracle o3 ->
  resolve_identities o2 o3 sc = Some r ->
  forall m, visible sc m -> forall w, In w (owners_get (r_owners r) m) <-> owner_of sc m w.
Proof. exact owners_run. Qed.

(* every value of ms.Modules is visited exactly as a value: the bare name and the name@revision key of the
   latest revision do not make it two *)
Theorem C11_loaded_modules : forall sc, wf_schema sc -> forall sub md,
  In md (sorted_modules sc sub) <-> exists k, reg_get sc sub k = Some md.
Proof. exact sorted_modules_spec. Qed.

(* wholeModule of a loaded module revision: it and everything reachable through resolved includes (nested
   includes are hoisted) *)
Theorem C11_whole_module : forall sc, wf_schema sc -> forall md, loaded sc false md ->
  forall m, In m (whole_module sc md) <-> part_of sc md m.
Proof. exact whole_module_spec. Qed.

(* ------------------------------------------------------------------ identityref *)

(* T4: an identityref type statement inside the (sub)module revision with that full name points at the
   declaration its base argument names there; it keeps that identity, so the values it sees are
   r_values r b: by C11_exact, C11_sorted the same list *)
Theorem C11_identityref : forall sc r sub fulln s b,
  identityref_base sc r sub fulln s = Some b <->
  exists md e, find (fun m => Bool.eqb (m_sub m) sub && (full_name m =? fulln)) sc = Some md /\
               resolves sc (dict_get (r_dict r)) (owners_get (r_owners r)) None md s e /\ b = did_of e.
Proof. exact identityref_spec. Qed.

(* ------------------------------------------------------------------ errors *)

(* T3 (e): no error is reported exactly when every followed include/import is bound to something loaded,
   every base resolves, and no identity is derived from itself *)
Theorem C11_no_error_iff : forall sc o2 o3 r, wf_schema sc -> is_oracle o2 -> is_oracle o3 ->
  resolve_identities o2 o3 sc = Some r ->
  (r_errors r = [] <->
   links_ok sc /\ all_resolve sc (dict_get (r_dict r)) (owners_get (r_owners r)) (dict_get (r_key_owners r)) /\
   acyclic sc (dict_get (r_dict r)) (owners_get (r_owners r)) (dict_get (r_key_owners r))).
Proof. exact errors_none_iff'. Qed.

(* the same without the assumption on the schema, the link errors as the model computes them *)
Theorem C11_no_error_iff_any : forall sc o2 o3 r, is_oracle o2 -> is_oracle o3 ->
  resolve_identities o2 o3 sc = Some r ->
  (r_errors r = [] <->
   link_errors sc = [] /\ all_resolve sc (dict_get (r_dict r)) (owners_get (r_owners r)) (dict_get (r_key_owners r)) /\
   acyclic sc (dict_get (r_dict r)) (owners_get (r_owners r)) (dict_get (r_key_owners r))).
Proof. exact errors_none_iff. Qed.

Theorem C11_undefined_base_is_error : forall sc o2 o3 r, is_oracle o2 -> is_oracle o3 ->
  resolve_identities o2 o3 sc = Some r ->
  forall k e s, dict_get (r_dict r) k = Some e -> In s (i_bases (snd e)) ->
    (~ exists eb, resolves sc (dict_get (r_dict r)) (owners_get (r_owners r)) (dict_get (r_key_owners r) k)
                         (fst e) s eb) ->
    In (ErrBase (did_of e) s) (r_errors r).
Proof. exact error_undefined_base. Qed.

Theorem C11_cycle_is_error : forall sc o2 o3 r, is_oracle o2 -> is_oracle o3 ->
  resolve_identities o2 o3 sc = Some r ->
  forall x, derived sc (dict_get (r_dict r)) (owners_get (r_owners r)) (dict_get (r_key_owners r)) x x -> In (ErrCycle x) (r_errors r).
Proof. exact error_cycle. Qed.

Theorem C11_missing_link_is_error : forall sc o2 o3 r, wf_schema sc -> is_oracle o2 -> is_oracle o3 ->
  resolve_identities o2 o3 sc = Some r ->
  forall m n, visible sc m ->
    (exists dt, In (n, dt) (m_includes m) /\ find_module sc true n dt = None) \/
    (exists p dt, In (p, n, dt) (m_imports m) /\ find_module sc false n dt = None) ->
    In (ErrLink (m_name m) n) (r_errors r).
Proof. exact error_missing_link. Qed.

(* ------------------------------------------------------------------ non-vacuity *)

Example C11_oracle_id : is_oracle ord_id.
Proof. exact ord_id_oracle. Qed.
Example C11_oracle_rev : is_oracle ord_rev.
Proof. exact ord_rev_oracle. Qed.

Definition vals_of (o : option result) (ks : list key) : option (list (list key) * list err) :=
  match o with Some r => Some (map (r_values r) ks, r_errors r) | None => None end.

(* module a { prefix pa; include s1; identity top; identity l { base top; } }
   submodule s1 { belongs-to a { prefix pa; } include s2; identity r { base pa:top; } }
   submodule s2 { belongs-to a { prefix zz; } identity bot { base zz:l; base r; } }      (nested include)
   module b { prefix pb; import a { prefix x; } identity bot { base x:bot; } identity l { base x:top; } } *)
Definition ex_a := Module "a" false "" "pa" "" [] [("s1", "")] [Ident "top" []; Ident "l" ["top"]].
Definition ex_s1 := Module "s1" true "" "pa" "a" [] [("s2", "")] [Ident "r" ["pa:top"]].
Definition ex_s2 := Module "s2" true "" "zz" "a" [] [] [Ident "bot" ["zz:l"; "r"]].
Definition ex_b := Module "b" false "" "pb" "" [("x", "a", "")] [] [Ident "bot" ["x:bot"]; Ident "l" ["x:top"]].
Definition ex_schema : schema := [ex_s2; ex_b; ex_a; ex_s1].

(* a diamond (bot -> l, r -> top), equal names in two modules, a nested include; two different sets of
   iteration orders *)
Example C11_ex_values :
  vals_of (resolve_identities ord_id ord_id ex_schema) ["a:top"; "a:l"; "s1:r"; "s2:bot"; "b:bot"; "b:l"] =
  Some ([["s2:bot"; "b:bot"; "a:l"; "b:l"; "s1:r"]; ["s2:bot"; "b:bot"]; ["s2:bot"; "b:bot"]; ["b:bot"]; []; []], []).
Proof. vm_compute. reflexivity. Qed.

Example C11_ex_values_other_order :
  vals_of (resolve_identities ord_rev (oracle 2) ex_schema) ["a:top"; "a:l"; "s1:r"; "s2:bot"; "b:bot"; "b:l"] =
  Some ([["s2:bot"; "b:bot"; "a:l"; "b:l"; "s1:r"]; ["s2:bot"; "b:bot"]; ["s2:bot"; "b:bot"]; ["b:bot"]; []; []], []).
Proof. vm_compute. reflexivity. Qed.

(* the hypotheses of C11_dictionary are satisfiable *)
Example C11_ex_wf : wf_schema ex_schema.
Proof.
  apply wf_nodup. vm_compute. repeat (constructor; [simpl; intuition discriminate|]). constructor.
Qed.

Example C11_ex_dict_keys :
  match resolve_identities ord_id ord_id ex_schema with
  | Some r => dict_keys (r_dict r) = ["a:top"; "a:l"; "a:r"; "a:bot"; "b:bot"; "b:l"]
  | None => False
  end.
Proof. vm_compute. reflexivity. Qed.

(* two loaded revisions of module m, a submodule s included by both, a user with an import of the latest
   revision, one pinned to the old revision and one pinned to a revision that is not loaded:
   module m { revision 2021-06-15; prefix mm; include s; identity b; identity d { base b; } }
   module m { revision 2020-01-01; prefix m; include s; identity b; identity c { base b; } }
   submodule s { belongs-to m { prefix m; } identity x { base b; } }
   module u { import m { prefix new; } import m { prefix old; revision-date 2020-01-01; }
              import m { prefix gone; revision-date 1999-09-09; }
              identity un { base new:b; } identity uo { base old:b; } identity ug { base gone:d; }
              identity ux { base old:x; } } *)
Definition ex_m1 := Module "m" false "2021-06-15" "mm" "" [] [("s", "")] [Ident "b" []; Ident "d" ["b"]].
Definition ex_m0 := Module "m" false "2020-01-01" "m" "" [] [("s", "")] [Ident "b" []; Ident "c" ["b"]].
Definition ex_s := Module "s" true "" "m" "m" [] [] [Ident "x" ["b"]].
Definition ex_u := Module "u" false "" "u" ""
  [("new", "m", ""); ("old", "m", "2020-01-01"); ("gone", "m", "1999-09-09")] []
  [Ident "un" ["new:b"]; Ident "uo" ["old:b"]; Ident "ug" ["gone:d"]; Ident "ux" ["old:x"]].
Definition ex_revs : schema := [ex_m1; ex_u; ex_m0; ex_s].

Example C11_ex_revisions :
  vals_of (resolve_identities ord_id ord_rev ex_revs)
          ["m@2020-01-01:b"; "m@2021-06-15:b"; "m@2021-06-15:d"; "s:x"] =
  Some ([["m@2020-01-01:c"; "u:uo"; "u:ux"; "s:x"]; ["m@2021-06-15:d"; "u:ug"; "u:un"; "u:ux"; "s:x"]; ["u:ug"]; ["u:ux"]], []).
Proof. vm_compute. reflexivity. Qed.

(* the submodule's identity is filed under both revisions *)
Example C11_ex_revisions_keys :
  match resolve_identities ord_id ord_id ex_revs with
  | Some r => map (fun k => option_map did_of (dict_get (r_dict r) k)) ["m@2020-01-01:x"; "m@2021-06-15:x"; "m:x"] =
              [Some "s:x"; Some "s:x"; None] /\
              map full_name (owners_get (r_owners r) ex_s) = ["m@2021-06-15"; "m@2020-01-01"]
  | None => False
  end.
Proof. vm_compute. split; reflexivity. Qed.

Example C11_ex_identityref :
  match resolve_identities ord_id ord_id ex_revs with
  | Some r => identityref_base ex_revs r false "u" "old:b" = Some "m@2020-01-01:b" /\
              identityref_base ex_revs r false "u" "new:b" = Some "m@2021-06-15:b" /\
              identityref_base ex_revs r false "m@2020-01-01" "b" = Some "m@2020-01-01:b" /\
              identityref_base ex_revs r true "s" "b" = Some "m@2021-06-15:b" /\
              identityref_base ex_revs r false "u" "b" = None
  | None => False
  end.
Proof. vm_compute. repeat split. Qed.

(* derivation cycles and an undefined base are reported (and the resolver terminates on them) *)
Example C11_ex_self :
  vals_of (resolve_identities ord_id ord_id [Module "a" false "" "p" "" [] [] [Ident "x" ["x"]]]) ["a:x"] =
  Some ([["a:x"]], [ErrCycle "a:x"]).
Proof. vm_compute. reflexivity. Qed.

Example C11_ex_cycle :
  vals_of (resolve_identities ord_id ord_rev
             [Module "a" false "" "p" "" [] [] [Ident "x" ["y"]; Ident "y" ["p:x"]; Ident "z" ["x"]]])
          ["a:x"; "a:y"; "a:z"] =
  Some ([["a:x"; "a:y"; "a:z"]; ["a:x"; "a:y"; "a:z"]; []], [ErrCycle "a:y"; ErrCycle "a:x"]).
Proof. vm_compute. reflexivity. Qed.

Example C11_ex_dangling :
  vals_of (resolve_identities ord_id ord_id
             [Module "a" false "" "p" "" [("q", "b", "")] [] [Ident "x" ["q:nosuch"; "zz:x"; "y"]];
              Module "b" false "" "p" "" [] [] [Ident "x" []]]) ["a:x"; "b:x"] =
  Some ([[]; []], [ErrBase "a:x" "q:nosuch"; ErrBase "a:x" "zz:x"; ErrBase "a:x" "y"]).
Proof. vm_compute. reflexivity. Qed.

(* an identity of a submodule nobody includes is not in the dictionary: a base naming it is undefined *)
Example C11_ex_not_included :
  vals_of (resolve_identities ord_id ord_id
             [Module "a" false "" "p" "" [] [] [Ident "x" ["y"]];
              Module "s" true "" "p" "a" [] [] [Ident "y" []]]) ["a:x"; "s:y"] =
  Some ([[]; []], [ErrBase "a:x" "y"]).
Proof. vm_compute. reflexivity. Qed.
