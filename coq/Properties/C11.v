(* C11 -- Each identity lists exactly its transitive derivations, once, in fixed order.
   Only statements, closed by [exact], and non-vacuity examples.

   [resolve_identities om o2 o3 sc] (Model/Identity.v) is the model of Modules.resolveIdentities on schema sc:
   om, o2, o3 are the iteration orders of the three loops over Go maps (ms.Modules, and the identity
   dictionary twice).  Its result r holds the dictionary [r_dict r], the Values list of every identity
   [r_values r key] and the errors [r_errors r].  The third loop is the real one: the closure of an identity
   is computed from whatever Values lists it meets, some already replaced by their closure and some still
   holding direct children only, depending on o3.

   [derived], [resolves], [declared], [consistent], [links_ok], [all_resolve], [acyclic], [sorted_keys],
   [is_oracle] are in Spec/C11.v.  The graph is read off the dictionary, g = dict_get (r_dict r);
   C11_dictionary says which function of the schema that is. *)
From Coq Require Import Ascii String List Bool Arith Relations Permutation.
From GY Require Import Model.Identity Spec.C11 Proofs.IdentityProofs.
Import ListNotations.
Local Open Scope string_scope.
Local Open Scope list_scope.

(* ------------------------------------------------------------------ termination *)

(* T0: for every schema (cyclic derivations, dangling bases, anything) and every iteration order, the
   resolver terminates: the fuel given to addChildren, number of identities + 1, is never exhausted. *)
Theorem C11_terminates : forall sc om o2 o3, is_oracle o2 -> is_oracle o3 ->
  exists r, resolve_identities om o2 o3 sc = Some r.
Proof. exact resolve_total. Qed.

(* the reason: over any Values table whose entries are identities of the dictionary, addChildren needs
   no more nesting than there are identities not yet collected -- cycles included *)
Theorem C11_closure_fuel : forall (V : vals) (ks : list key),
  (forall x c, In c (V x) -> In c ks) ->
  forall f r ids, NoDup ids -> incl ids ks -> In r ks -> length ks - length ids < f ->
  exists ids', add_children f V r ids = Some ids'.
Proof. exact fuel_ok. Qed.

(* and what the loop "for j in Values(i): new = addChildren(j, new)" returns, for any table, cyclic or
   not: every identity reachable from i through one or more "is in Values of" steps, each once *)
Theorem C11_closure_exact : forall f (V : vals) i nv, close f V i = Some nv ->
  NoDup nv /\ forall x, In x nv <-> clos_trans key (fun a c => In c (V a)) i x.
Proof. exact close_spec. Qed.

(* ------------------------------------------------------------------ the Values lists *)

(* T1 (a): no identity is listed twice *)
Theorem C11_no_duplicates : forall sc om o2 o3 r, is_oracle o2 -> is_oracle o3 ->
  resolve_identities om o2 o3 sc = Some r -> forall b, NoDup (r_values r b).
Proof. exact values_nodup. Qed.

(* T1 (b): Values b is exactly the set of identities that reach b through one or more base statements *)
Theorem C11_exact : forall sc om o2 o3 r, is_oracle o2 -> is_oracle o3 ->
  resolve_identities om o2 o3 sc = Some r ->
  forall b i, In i (r_values r b) <-> derived sc (dict_get (r_dict r)) b i.
Proof. exact values_exact. Qed.

(* T1 (c): never the identity itself, unless it is derived from itself (which T3 reports) *)
Theorem C11_never_itself : forall sc om o2 o3 r, is_oracle o2 -> is_oracle o3 ->
  resolve_identities om o2 o3 sc = Some r ->
  forall b, ~ derived sc (dict_get (r_dict r)) b b -> ~ In b (r_values r b).
Proof. exact values_not_self. Qed.

Theorem C11_lists_identities : forall sc om o2 o3 r, is_oracle o2 -> is_oracle o3 ->
  resolve_identities om o2 o3 sc = Some r ->
  forall b i, In i (r_values r b) -> defined (dict_get (r_dict r)) i /\ defined (dict_get (r_dict r)) b.
Proof. exact values_are_identities. Qed.

(* T1 (d): strictly increasing by (identity name, module-qualified name), bytewise *)
Theorem C11_sorted : forall sc om o2 o3 r, is_oracle o2 -> is_oracle o3 ->
  resolve_identities om o2 o3 sc = Some r ->
  forall b, sorted_keys (dict_get (r_dict r)) (r_values r b).
Proof. exact values_sorted. Qed.

(* a strictly increasing list is determined by its set: (b) and (d) fix the list *)
Theorem C11_sorted_unique : forall g l1 l2, sorted_keys g l1 -> sorted_keys g l2 ->
  (forall x, In x l1 <-> In x l2) -> l1 = l2.
Proof. exact strict_sorted_unique. Qed.

(* T2: the dictionary holds exactly the identity statements of the loaded modules and of the submodules
   reachable from them through include statements, under the owner's name -- whatever order ms.Modules
   is walked in (for a schema in which no two statements compete for a key) *)
Theorem C11_dictionary : forall sc om o2 o3 r, is_oracle o2 -> is_oracle o3 ->
  resolve_identities om o2 o3 sc = Some r -> is_oracle om -> consistent sc ->
  forall k e, dict_get (r_dict r) k = Some e <-> declared sc k e.
Proof. exact dictionary_spec. Qed.

(* without the consistency assumption: everything in the dictionary is a declared identity, and every
   declared identity's key is in the dictionary *)
Theorem C11_dictionary_sound : forall sc om o2 o3 r, is_oracle o2 -> is_oracle o3 ->
  resolve_identities om o2 o3 sc = Some r -> is_oracle om ->
  forall k e, dict_get (r_dict r) k = Some e -> declared sc k e.
Proof. exact dictionary_sound. Qed.

Theorem C11_dictionary_complete : forall sc om o2 o3 r, is_oracle o2 -> is_oracle o3 ->
  resolve_identities om o2 o3 sc = Some r -> is_oracle om ->
  forall k e, declared sc k e -> defined (dict_get (r_dict r)) k.
Proof. exact dictionary_complete. Qed.

(* wholeModule of a loaded module: the module and everything reachable through resolved includes
   (nested includes are hoisted) *)
Theorem C11_whole_module : forall sc md, loaded sc md ->
  forall m, In m (whole_module sc md) <-> part_of sc md m.
Proof. exact whole_module_spec. Qed.

(* T1 (d'): the order -- the whole result -- is a function of the schema alone: any two choices of the
   three map iteration orders give the same dictionary, the same Values list for every identity, and
   agree on whether an error is reported *)
Theorem C11_schema_alone : forall sc om o2 o3 om' o2' o3' r r',
  is_oracle om -> is_oracle o2 -> is_oracle o3 -> is_oracle om' -> is_oracle o2' -> is_oracle o3' ->
  consistent sc ->
  resolve_identities om o2 o3 sc = Some r -> resolve_identities om' o2' o3' sc = Some r' ->
  (forall k, dict_get (r_dict r) k = dict_get (r_dict r') k) /\
  (forall b, r_values r b = r_values r' b) /\
  (r_errors r = [] <-> r_errors r' = []).
Proof. exact oracle_independent. Qed.

(* ------------------------------------------------------------------ identityref *)

(* T4: an identityref type statement inside (sub)module n points at the identity its base argument
   names there; it keeps that identity, so the values it sees are r_values r b: by C11_exact,
   C11_sorted the same list *)
Theorem C11_identityref : forall sc r sub n s b,
  identityref_base sc (r_dict r) sub n s = Some b <->
  exists md, find_mod sc sub n = Some md /\ resolves sc (dict_get (r_dict r)) md s b.
Proof. exact identityref_spec. Qed.

(* ------------------------------------------------------------------ errors *)

(* T3 (e): no error is reported exactly when every followed include/import names something loaded,
   every base resolves, and no identity is derived from itself *)
Theorem C11_no_error_iff : forall sc om o2 o3 r, is_oracle o2 -> is_oracle o3 ->
  resolve_identities om o2 o3 sc = Some r ->
  (r_errors r = [] <->
   links_ok sc /\ all_resolve sc (dict_get (r_dict r)) /\ acyclic sc (dict_get (r_dict r))).
Proof. exact errors_none_iff. Qed.

Theorem C11_undefined_base_is_error : forall sc om o2 o3 r, is_oracle o2 -> is_oracle o3 ->
  resolve_identities om o2 o3 sc = Some r ->
  forall i md id s, dict_get (r_dict r) i = Some (md, id) -> In s (i_bases id) ->
    (~ exists b, resolves sc (dict_get (r_dict r)) md s b) ->
    In (ErrBase i s) (r_errors r).
Proof. exact error_undefined_base. Qed.

Theorem C11_cycle_is_error : forall sc om o2 o3 r, is_oracle o2 -> is_oracle o3 ->
  resolve_identities om o2 o3 sc = Some r ->
  forall i, derived sc (dict_get (r_dict r)) i i -> In (ErrCycle i) (r_errors r).
Proof. exact error_cycle. Qed.

Theorem C11_missing_link_is_error : forall sc om o2 o3 r, is_oracle o2 -> is_oracle o3 ->
  resolve_identities om o2 o3 sc = Some r ->
  forall m n, visible sc m ->
    (In n (m_includes m) /\ find_mod sc true n = None) \/
    (exists p, In (p, n) (m_imports m) /\ find_mod sc false n = None) ->
    In (ErrLink (m_name m) n) (r_errors r).
Proof. exact error_missing_link. Qed.

(* ------------------------------------------------------------------ non-vacuity *)

Example C11_oracle_id : is_oracle ord_id.
Proof. exact ord_id_oracle. Qed.
Example C11_oracle_rev : is_oracle ord_rev.
Proof. exact ord_rev_oracle. Qed.

(* module a { prefix pa; include s1; identity top; identity l { base top; } }
   submodule s1 { belongs-to a { prefix pa; } include s2; identity r { base pa:top; } }
   submodule s2 { belongs-to a { prefix zz; } identity bot { base zz:l; base r; } }      (nested include)
   module b { prefix pb; import a { prefix x; } identity bot { base x:bot; } identity l { base x:top; } } *)
Definition ex_a := Module "a" false "pa" "" [] ["s1"] [Ident "top" []; Ident "l" ["top"]].
Definition ex_s1 := Module "s1" true "pa" "a" [] ["s2"] [Ident "r" ["pa:top"]].
Definition ex_s2 := Module "s2" true "zz" "a" [] [] [Ident "bot" ["zz:l"; "r"]].
Definition ex_b := Module "b" false "pb" "" [("x", "a")] [] [Ident "bot" ["x:bot"]; Ident "l" ["x:top"]].
Definition ex_schema : schema := [ex_s2; ex_b; ex_a; ex_s1].

Definition vals_of (o : option result) (ks : list key) : option (list (list key) * list err) :=
  match o with Some r => Some (map (r_values r) ks, r_errors r) | None => None end.

(* a diamond (bot -> l, r -> top), equal names in two modules, a nested include; two different sets of
   iteration orders *)
Example C11_ex_values :
  vals_of (resolve_identities ord_id ord_id ord_id ex_schema) ["a:top"; "a:l"; "a:r"; "a:bot"; "b:bot"; "b:l"] =
  Some ([["a:bot"; "b:bot"; "a:l"; "b:l"; "a:r"]; ["a:bot"; "b:bot"]; ["a:bot"; "b:bot"]; ["b:bot"]; []; []], []).
Proof. vm_compute. reflexivity. Qed.

Example C11_ex_values_other_order :
  vals_of (resolve_identities ord_rev ord_rev (oracle 2) ex_schema) ["a:top"; "a:l"; "a:r"; "a:bot"; "b:bot"; "b:l"] =
  Some ([["a:bot"; "b:bot"; "a:l"; "b:l"; "a:r"]; ["a:bot"; "b:bot"]; ["a:bot"; "b:bot"]; ["b:bot"]; []; []], []).
Proof. vm_compute. reflexivity. Qed.

(* the hypothesis of C11_schema_alone / C11_dictionary is satisfiable *)
Example C11_ex_consistent : consistent ex_schema.
Proof.
  apply consistent_nodup. vm_compute.
  repeat (constructor; [simpl; intuition discriminate|]). constructor.
Qed.

Example C11_ex_identityref :
  match resolve_identities ord_id ord_id ord_id ex_schema with
  | Some r => identityref_base ex_schema (r_dict r) false "b" "x:top" = Some "a:top" /\
              identityref_base ex_schema (r_dict r) true "s2" "r" = Some "a:r" /\
              identityref_base ex_schema (r_dict r) false "b" "top" = None
  | None => False
  end.
Proof. vm_compute. repeat split. Qed.

(* derivation cycles and an undefined base are reported (and the resolver terminates on them) *)
Example C11_ex_self :
  vals_of (resolve_identities ord_id ord_id ord_id [Module "a" false "p" "" [] [] [Ident "x" ["x"]]]) ["a:x"] =
  Some ([["a:x"]], [ErrCycle "a:x"]).
Proof. vm_compute. reflexivity. Qed.

Example C11_ex_cycle :
  vals_of (resolve_identities ord_id ord_id ord_rev
             [Module "a" false "p" "" [] [] [Ident "x" ["y"]; Ident "y" ["p:x"]; Ident "z" ["x"]]])
          ["a:x"; "a:y"; "a:z"] =
  Some ([["a:x"; "a:y"; "a:z"]; ["a:x"; "a:y"; "a:z"]; []], [ErrCycle "a:y"; ErrCycle "a:x"]).
Proof. vm_compute. reflexivity. Qed.

Example C11_ex_dangling :
  vals_of (resolve_identities ord_id ord_id ord_id
             [Module "a" false "p" "" [("q", "b")] [] [Ident "x" ["q:nosuch"; "zz:x"; "y"]];
              Module "b" false "p" "" [] [] [Ident "x" []]]) ["a:x"; "b:x"] =
  Some ([[]; []], [ErrBase "a:x" "q:nosuch"; ErrBase "a:x" "zz:x"; ErrBase "a:x" "y"]).
Proof. vm_compute. reflexivity. Qed.

(* an identity of a submodule nobody includes is not in the dictionary: a base naming it is undefined *)
Example C11_ex_not_included :
  vals_of (resolve_identities ord_id ord_id ord_id
             [Module "a" false "p" "" [] [] [Ident "x" ["y"]];
              Module "s" true "p" "a" [] [] [Ident "y" []]]) ["a:x"; "a:y"] =
  Some ([[]; []], [ErrBase "a:x" "y"]).
Proof. vm_compute. reflexivity. Qed.
