(* C11 -- placeholder while the proofs are being developed; replaced by the real statements. *)
From Coq Require Import String List.
From GY Require Import Model.Identity.
Import ListNotations.
Local Open Scope string_scope.
Theorem C11_stub : append_if_not_in ["a"] "a" = ["a"].
Proof. reflexivity. Qed.
