(* C02 — Generic parsing agrees with the RFC 7950 section 6 reading of the text.
   Only statements, closed by [exact], and Print Assumptions (printed by the checker).
   [Parse] is the model of yang.Parse (Model/Lex.v, Model/Parse.v); [spec_parse] is the reference reader
   of Spec/C02.v.  What is proved here and what is only tested is listed in check/manifest.d/C02.json. *)
From Coq Require Import List NArith ZArith Bool Lia.
Import ListNotations.
From GY Require Import Model.Lex Model.Parse Spec.C16 Spec.C02 Proofs.LexProofs Proofs.ParseProofs.
Local Open Scope Z_scope.

(* (1) the shape of the result: statements and errors never come together *)
Theorem C02_reject_shape : forall input ss es o, Parse input = (ss, es, o) ->
  (es <> [] -> ss = []) /\ (es = [] \/ ss = []).
Proof. exact Parse_reject_shape. Qed.
