(* C02 — Generic parsing agrees with the RFC 7950 section 6 reading of the text.
   Only statements, closed by [exact], and Print Assumptions (printed by the checker).

   [Parse] is the model of yang.Parse (Model/Lex.v, Model/Parse.v, tied to lex.go / parse.go by the
   correspondence run of the check); [spec_parse] is the reference reader of Spec/C02.v: the RFC reading
   written directly over the list of runes, which answers Accept forest, Reject, or Ambiguous on the
   constructs the property excludes.  [terminated input] is the input forced to end in a line break, which
   is what yang.Parse lexes.  The hypothesis that the text does not contain the rune 0x7fffffff (the
   lexer's end-of-file sentinel) holds for every decoded text: UTF-8 decoding yields runes below 0x110000
   — proved below for the model of the decoding the lexer performs (Model/Utf8.v: one
   utf8.DecodeRuneInString per call of lexer.next), so that (3) is restated over the BYTES of a file with
   no hypothesis on the text at all ([C02_accept_bytes], [C02_reject_bytes]). *)
From Coq Require Import List NArith ZArith Bool Lia.
Import ListNotations.
From GY Require Import Model.Lex Model.Parse Model.Utf8 Spec.C16 Spec.C02 Proofs.LexProofs Proofs.ParseProofs Proofs.Utf8Proofs.
From GY Require Import Model.Printer Proofs.PrinterProofs.
Local Open Scope Z_scope.

(* (1) the shape of the result: statements and errors never come together *)
Theorem C02_reject_shape : forall input ss es o, Parse input = (ss, es, o) ->
  (es <> [] -> ss = []) /\ (es = [] \/ ss = []).
Proof. exact Parse_reject_shape. Qed.

(* (2) token level.  From the ground state at any suffix [s] of a text that ends in a line break,
   NextToken (with the fuel the parser gives it) returns exactly the token the reference reader reads at
   [s] — same kind, same text: an unquoted run, a punctuation character, a single-quoted string verbatim, a
   double-quoted string with escapes substituted, trailing blanks trimmed and continuation indentation
   stripped, pattern mode honoured — writes no error, and leaves the lexer in the ground state at the
   suffix where the reference reader continues (or stopped, at the end of the text).  Blanks and comments
   before the token are skipped as the reference reader skips them.  Nothing is claimed where the
   reference reader says Reject or Ambiguous. *)
Theorem C02_token_agreement : forall text, ~ In EOFR text -> lf_term text -> forall n s l fuel,
  (length s <= n)%nat -> glex text l s -> (2 * length s + 4 <= fuel)%nat ->
  token_result text l fuel (read_token text (inPattern l) s).
Proof. exact NextToken_sim. Qed.

(* the double-quoted string by itself: the state machine of lexQString, started just after an opening
   quote whose column is what the text says, emits exactly the string the line-wise reference reading
   [dquoted] yields (no cursor counters on the reference side), whenever that reading is defined *)
Theorem C02_dquoted_agreement : forall text l0 l s1 r t rest, ~ In EOFR text -> in_dq text l0 l s1 r ->
  dquoted (inPattern l) (column_of text s1) r = DOk t rest ->
  one_tok text l0 (lexQString l) TString t rest.
Proof. exact lexQString_sim. Qed.

(* its algorithmic core, free of any lexer state: the rune-at-a-time accumulator (trim the text so far at
   every line break, skip blanks while the tab column is within the indent) computes the line-wise
   reading (split at line breaks, strip, drop, substitute, join) *)
Theorem C02_dquoted_linewise : forall pat q s t rest, dquoted pat q s = DOk t rest ->
  exists its, dq_items s = Some (its, rest) /\ acc_loop pat (q + 1) true 0 [] its = Some t.
Proof. exact dquoted_acc. Qed.

(* (3) acceptance: whenever the reference reader accepts a text with forest [f], the parser reports no
   error, does not run out of fuel, and returns exactly that forest: keywords, argument presence, exact
   argument strings, nesting and sibling order.  For all texts, no size bound. *)
Theorem C02_accept : forall input f, ~ In EOFR input -> spec_parse (terminated input) = Accept f ->
  exists ss, Parse input = (ss, [], false) /\ map erase ss = f.
Proof. exact Parse_accepts. Qed.

(* (3) rejection: whenever the reference reader rejects a text — a token that cannot be read (a quote or
   a block comment that is never closed, an undefined escape outside a pattern argument), a token where
   none may stand (a quoted string or punctuation for a keyword, something other than a semicolon or an
   opening brace after the argument, a + that does not join two quoted strings), a block that is never
   closed, a closing brace that closes nothing, a text that ends inside a statement — the parser returns
   no statements and a non-empty list of errors.  For all texts, no size bound. *)
Theorem C02_reject : forall input, ~ In EOFR input -> spec_parse (terminated input) = Reject ->
  forall ss es o, Parse input = (ss, es, o) -> ss = [] /\ es <> [].
Proof. exact Parse_rejects. Qed.

(* (4) from the BYTES of the file.  [decode] is the rune sequence lexer.next hands to the state machine
   (Model/Utf8.v: utf8.DecodeRuneInString, width-1 U+FFFD for every ill-formed byte).  Every rune it yields is a
   Unicode scalar value, hence never the end-of-file sentinel: the hypothesis of (2) and (3) holds for EVERY byte
   string, well-formed UTF-8 or not. *)
Theorem C02_decode_scalar : forall s, Forall (fun r => scalar r = true) (decode s).
Proof. exact decode_scalar. Qed.

Theorem C02_decode_no_eof : forall s, ~ In EOFR (decode s).
Proof. exact decode_no_eof. Qed.

(* decoding inverts Go's encoding on every sequence of scalar values (so a text and its bytes denote each
   other), is the identity on ASCII, re-encodes to a text that reads the same, never yields more runes than
   bytes, and is the loop "decode one rune, skip its width" the lexer runs *)
Theorem C02_decode_encode : forall rs, Forall (fun r => scalar r = true) rs -> decode (encode rs) = rs.
Proof. exact decode_encode. Qed.

Theorem C02_decode_ascii : forall s, Forall (fun b => (b < 128)%N) s -> decode s = s.
Proof. exact decode_ascii. Qed.

Theorem C02_decode_stable : forall s, decode (encode (decode s)) = decode s.
Proof. exact decode_encode_decode. Qed.

Theorem C02_decode_is_the_lexer_loop : forall fuel s, (length s <= fuel)%nat -> decode_loop fuel s = decode s.
Proof. exact decode_loop_eq. Qed.

Theorem C02_decode_step : forall s0 r0,
  decode (s0 :: r0) = fst (decode_rune (s0 :: r0)) :: decode (skipn (snd (decode_rune (s0 :: r0))) (s0 :: r0))
  /\ (1 <= snd (decode_rune (s0 :: r0)) <= length (s0 :: r0))%nat.
Proof. exact (fun s0 r0 => conj (decode_unfold s0 r0) (decode_rune_width s0 r0)). Qed.

(* newLexer's forcing of a final line break, done on the bytes, is the forcing on the decoded text that (3) speaks of *)
Theorem C02_terminated_bytes : forall s, decode (terminated_bytes s) = terminated (decode s).
Proof. exact decode_terminated. Qed.

(* (3) for every byte string, no side condition *)
Theorem C02_accept_bytes : forall bytes f, spec_parse (terminated (decode bytes)) = Accept f ->
  exists ss, Parse_bytes bytes = (ss, [], false) /\ map erase ss = f.
Proof. exact (fun bytes f => Parse_accepts (decode bytes) f (decode_no_eof bytes)). Qed.

Theorem C02_reject_bytes : forall bytes, spec_parse (terminated (decode bytes)) = Reject ->
  forall ss es o, Parse_bytes bytes = (ss, es, o) -> ss = [] /\ es <> [].
Proof. exact (fun bytes => Parse_rejects (decode bytes) (decode_no_eof bytes)). Qed.

(* non-vacuity: a text with a comment, a concatenation, a multi-line string and a pattern argument *)
Example C02_accept_ex :
  spec_parse [97;32;39;98;39;43;34;99;10;32;32;32;100;34;123;112;97;116;116;101;114;110;32;34;92;100;34;59;125;10]%N =
  Accept [Node [97%N] true [98;99;10;100]%N [Node [112;97;116;116;101;114;110]%N true [92;100]%N []]].
Proof. vm_compute. reflexivity. Qed.
(* a text that ends inside a block *)
Example C02_reject_ex : spec_parse [97;32;123;32;98;59;10]%N = Reject.
Proof. vm_compute. reflexivity. Qed.
(* bytes: a, e-acute (C3 A9), euro sign (E2 82 AC), U+1F600 (F0 9F 98 80), then ill-formed bytes: FF, an overlong
   C0 80, a surrogate ED A0 80, a truncated E2 82 -- every one of them is one U+FFFD *)
Example C02_decode_ex :
  decode [97; 195; 169; 226; 130; 172; 240; 159; 152; 128; 255; 192; 128; 237; 160; 128; 226; 130]%N =
  [97; 233; 8364; 128512; 65533; 65533; 65533; 65533; 65533; 65533; 65533; 65533]%N.
Proof. vm_compute. reflexivity. Qed.

(* (5) the way back: a printer from statement forests to text (Model/Printer.v: keyword, the argument always as a
   double-quoted string on one source line with backslash, double quote, line break and tab escaped, then a
   semicolon or a block in braces, one statement per line) that the reference reader reads back to exactly the
   forest printed -- for every forest whose keywords are single unquoted tokens ([kw_ok], the keyword pattern
   included) and whose arguments are ANY rune strings without the end-of-file sentinel ([arg_ok]); a node without
   argument carries the empty string.  So every such forest is the reading of some text (the reference reader is
   onto), and the printed text is one the property's quantifier covers (never Ambiguous). *)
Theorem C02_print_spec : forall f, forest_ok f = true -> spec_parse (print_forest f) = Accept f.
Proof. exact print_spec_parse. Qed.

(* hence the parser model reads the printed text back: no error, no fuel shortage, the same forest *)
Theorem C02_print_parse : forall f, forest_ok f = true ->
  exists ss, Parse (print_forest f) = (ss, [], false) /\ map erase ss = f.
Proof. exact print_Parse. Qed.

(* the printed text ends in a line break already and never contains the end-of-file sentinel *)
Theorem C02_print_terminated : forall f, terminated (print_forest f) = print_forest f.
Proof. exact print_forest_terminated. Qed.

Theorem C02_print_no_eof : forall f, forest_ok f = true -> ~ In EOFR (print_forest f).
Proof. exact no_eof_forest. Qed.

(* non-vacuity: an empty argument; quote, backslash, line break, tab and trailing blanks in an argument; a nested
   block; a pattern statement whose argument has a backslash before a letter, before a blank and before a line
   break; a CR LF and punctuation inside an argument; the keywords + and / *)
Example C02_print_ex :
  let f := [Node [97] true [] [];
            Node [98] false [] [Node [99;47] true [34;92;10;9;32;32] [];
                                Node [112;97;116;116;101;114;110] true [92;100;92;92;10;32;9;13;10;39;59;123;125;32]
                                  [Node [47] false [] []]];
            Node [43] true [43] [];
            Node [112;97;116;116;101;114;110] true [92;32;10] []]%N in
  forest_ok f = true /\ spec_parse (print_forest f) = Accept f /\
  print_forest [Node [97] true [34;92;10;9;32] [Node [98] false [] []]]%N =
    [97; 32; 34; 92; 34; 92; 92; 92; 110; 92; 116; 32; 34; 32; 123; 10; 98; 59; 10; 125; 10]%N.
Proof. vm_compute. repeat split; reflexivity. Qed.
