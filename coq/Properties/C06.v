(* C06 -- placeholder while the development is being built; replaced below *)
From Coq Require Import List.
From GY Require Import Model.Schema.
Import ListNotations.
Theorem C06_stub : forall e, locate e [] = Some e.
Proof. intros; reflexivity. Qed.
