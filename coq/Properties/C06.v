(* C06 -- every use of a grouping is an independent, faithful, locally scoped copy.
   Only statements, closed by [exact], and non-vacuity examples.

   [to_entry], [FindGrouping], [Process], [locate], [update_at] are the model (Model/Schema.v); [inline_node],
   [inline_body], [inline_stmts] are the reference expansion on SOURCE schemas (Spec/C06.v): every `uses g` replaced
   by the statements of the grouping g denotes there, references inside those statements resolved (inlined) in the
   grouping's defining context first, failing on unknown and cyclic groupings.
   The model's entries are immutable trees: two instances of a grouping are separate subtrees by construction; what
   the model can and does state about independence is the frame property of updates (T4).  Object sharing on the
   implementation is checked by the two-run oracle of check/props/c06.py and by the pointer-level walker. *)
From Coq Require Import List NArith Bool.
From GY Require Import Model.Schema Spec.C06 Spec.C04 Proofs.SchemaLemmas Proofs.GroupingProofs Proofs.GroupingProcess.
From GY Require Model.Heap Proofs.HeapProofs.
Import ListNotations.

(* ------------------------------------------------------------------ T1 faithful *)
(* the core: inside a body, a uses statement is processed exactly as the statements of its grouping would be in its
   place, evaluated in the grouping's DEFINING context gc (with the grouping marked busy) -- same resulting child
   list in the same order, duplicates detected identically (same flag) *)
Theorem C06_T1_uses_is_splice : forall SC f c' busy acc g gid gb gc,
  FindGrouping SC c' g = Some (gid, gb, gc) -> existsb (Nat.eqb gid) busy = false ->
  body_step SC (S f) c' busy acc (DUses g) =
  fold_left (body_step SC f (inner_ctx gc gb) (gid :: busy)) gb acc.
Proof. exact uses_is_splice. Qed.

(* wherever the reference expansion succeeds, the entry tree of a statement IS the entry tree of its inlined form:
   identical entry (names, kinds, types, defaults, constraints, nesting, even child order) and identical error flag,
   and the inlined form can be built in any context, with any busy set and any larger fuel -- it refers to no
   grouping any more *)
Theorem C06_T1_inline_faithful : forall SC f c busy n n',
  inline_node SC f c busy n = Some n' ->
  forall f2 c2 busy2, f <= f2 -> to_entry SC f c busy n = to_entry SC f2 c2 busy2 n'.
Proof. exact inline_faithful. Qed.

Theorem C06_T1_inline_body_faithful : forall SC f c busy body body',
  inline_body SC f c busy body = Some body' ->
  forall f2 c2 busy2, f <= f2 -> body_dir SC f c busy body = body_dir SC f2 c2 busy2 body'.
Proof. exact inline_body_faithful. Qed.

(* the statement list of a module, submodule or augment, with the model's own fuel *)
Theorem C06_T1_module_statements : forall SC m scopes body body',
  inline_stmts SC m scopes body = Some body' ->
  forall c2 busy2, body_entry SC m scopes body = to_entry SC (entry_fuel SC) c2 busy2 (DGrouping O [] body').
Proof. exact inline_stmts_faithful. Qed.

(* T1 for the processed result: where the reference expansion succeeds for every statement list of every module and
   submodule and every augment body ([inline_schema], Spec/C06.v), processing the inlined module set gives exactly
   the result of processing the original one -- the same forest (every tree, after include merging, augmentation,
   FixChoice and deviations) or the same error verdict -- for every visiting order and all options.  No side
   condition: the inlined statements are shown to fit the fuel of the inlined module set. *)
Theorem C06_T1_process : forall SC SC' ignoreCirc ignoreNotSupported order,
  inline_schema SC = Some SC' ->
  Process SC' ignoreCirc ignoreNotSupported order = Process SC ignoreCirc ignoreNotSupported order.
Proof. exact inline_schema_process. Qed.

(* what makes it work: a statement without uses is built the same way whatever the module set, the context, the busy
   set and the fuel (above its nesting depth), and the inlined form is such a statement *)
Theorem C06_T1_uses_free_independent : forall f f' n, plain f n -> plain f' n ->
  forall SC SC' c c' busy busy', to_entry SC f c busy n = to_entry SC' f' c' busy' n.
Proof. exact to_entry_plain. Qed.

Theorem C06_T1_inlined_is_uses_free : forall SC f c busy n n', inline_node SC f c busy n = Some n' -> plain f n'.
Proof. exact inline_plain. Qed.

(* namespace: no node built from sources carries a namespace stamp (only Augment stamps), so every copy belongs to
   the namespace of the tree it is in -- the module that uses the grouping, not the one that defines it *)
Theorem C06_T1_copies_unstamped : forall SC fuel c busy n, NoStamp (fst (to_entry SC fuel c busy n)).
Proof. exact to_entry_nostamp. Qed.

Theorem C06_T1_namespace_of_using_module : forall SC F p root,
  lookup (fst p) F = Some root -> NoStamp root ->
  Namespace SC F p = match find_module SC (fst p) with Some m => owner_ns SC m | None => [] end.
Proof. exact Namespace_unstamped. Qed.

(* ------------------------------------------------------------------ T2 scoping *)
(* the innermost enclosing definition wins; its defining context is the scope chain from there outwards *)
Theorem C06_T2_innermost : forall SC m sc o outer name gid b,
  find_in name (groupings_of sc) = Some (gid, b) ->
  find_grouping_scopes SC m (sc :: o :: outer) name = Some (gid, b, {| g_mod := m; g_scopes := sc :: o :: outer |}).
Proof. exact find_scopes_innermost. Qed.

Theorem C06_T2_skip_scope : forall SC m sc o outer name,
  find_in name (groupings_of sc) = None ->
  find_grouping_scopes SC m (sc :: o :: outer) name = find_grouping_scopes SC m (o :: outer) name.
Proof. exact find_scopes_skip. Qed.

(* the outermost scope is the module itself: its own top-level groupings first ... *)
Theorem C06_T2_module_level : forall SC m top name,
  find_grouping_scopes SC m [top] name = fst (find_grouping_mod (S (length SC)) SC m false name []).
Proof. exact find_scopes_module. Qed.

Theorem C06_T2_module_own : forall SC f m name seen gid b,
  find_in name (groupings_of (m_body m)) = Some (gid, b) ->
  find_grouping_mod (S f) SC m false name seen = (Some (gid, b, {| g_mod := m; g_scopes := [m_body m] |}), seen).
Proof. exact find_mod_own. Qed.

(* ... a name that carries no import prefix is then searched in the included submodules only (depth first, each
   submodule once) ... *)
Theorem C06_T2_includes : forall SC f m name seen,
  find_in name (groupings_of (m_body m)) = None ->
  (forall p mn, In (p, mn) (m_imports m) -> has_prefix (p ++ [cCOLON]) name = false) ->
  find_grouping_mod (S f) SC m false name seen = includes_walk SC f name (m_includes m) seen.
Proof. exact find_mod_includes. Qed.

(* ... and a name carrying the prefix of an import is searched in exactly that module, without the prefix *)
Theorem C06_T2_import : forall SC f m name seen before p mn after im,
  find_in name (groupings_of (m_body m)) = None ->
  m_imports m = before ++ (p, mn) :: after ->
  (forall p' mn', In (p', mn') before -> has_prefix (p' ++ [cCOLON]) name = false) ->
  has_prefix (p ++ [cCOLON]) name = true ->
  find_module SC mn = Some im ->
  forall g seen', find_grouping_mod f SC im true (trim_prefix (p ++ [cCOLON]) name) seen = (Some g, seen') ->
  find_grouping_mod (S f) SC m false name seen = (Some g, seen').
Proof. exact find_mod_import. Qed.

Theorem C06_T2_import_lands_in_that_module : forall SC f im name seen gid b,
  find_in (trim_prefix (m_prefix im ++ [cCOLON]) name) (groupings_of (m_body im)) = Some (gid, b) ->
  find_grouping_mod (S f) SC im true name seen = (Some (gid, b, {| g_mod := im; g_scopes := [m_body im] |}), seen).
Proof. exact find_mod_import_own. Qed.

(* the module's own prefix is dropped first: p:g and g denote the same grouping *)
Theorem C06_T2_own_prefix : forall SC c name,
  has_prefix (m_prefix (g_mod c) ++ [cCOLON]) name = false ->
  FindGrouping SC c ((m_prefix (g_mod c) ++ [cCOLON]) ++ name) = FindGrouping SC c name.
Proof. exact FindGrouping_own_prefix. Qed.
(* references inside a grouping are resolved from its defining context: that is the [inner_ctx gc gb] of
   C06_T1_uses_is_splice -- the user's context c' does not occur on the right-hand side *)

(* ------------------------------------------------------------------ T3 unknown / cyclic => error *)
(* wherever the reference expansion fails -- unknown grouping, a grouping reached again while being expanded (cycle),
   fuel exhausted -- the entry is built with its error flag set *)
Theorem C06_T3_inline_none_is_error : forall SC f c busy n,
  inline_node SC f c busy n = None -> snd (to_entry SC f c busy n) = true.
Proof. exact inline_none_is_error. Qed.

(* ... and Process reports it, for the statements of any module or submodule of the set *)
Theorem C06_T3_process_error : forall SC ignoreCirc ignoreNotSupported order m,
  In m SC -> inline_stmts SC m [] (m_body m) = None -> Process SC ignoreCirc ignoreNotSupported order = RErr.
Proof. exact inline_fail_process_error. Qed.

(* ------------------------------------------------------------------ T4 independence: the frame of an update *)
(* whatever is done at position p (an augment merging children there, a deviation changing attributes there), every
   position that is neither p, below p nor above p is left exactly as it was -- in particular every other instance
   of the same grouping *)
Theorem C06_T4_frame_tree : forall f p q e, unrelated p q -> locate (update_at e p f) q = locate e q.
Proof. exact locate_update_at_unrelated. Qed.

Theorem C06_T4_frame_forest : forall f F p q,
  fst p <> fst q \/ unrelated (snd p) (snd q) -> locate_pos (update_pos F p f) q = locate_pos F q.
Proof. exact locate_update_pos_frame. Qed.

(* deviate not-supported removes child n of the node at [parent]: nothing outside parent/n changes *)
Theorem C06_T4_frame_not_supported : forall n parent q e,
  unrelated (parent ++ [SChild n]) q ->
  locate (update_at e parent (fun pe => match e_dir pe with Some d => set_dir pe (Some (remove n d)) | None => pe end)) q
  = locate e q.
Proof. exact locate_remove_frame. Qed.

(* ------------------------------------------------------------------ non-vacuity *)
Definition s (x : list nat) : str := map N.of_nat x.
Definition n_a := s [97]. Definition n_b := s [98]. Definition n_x := s [120]. Definition n_y := s [121].
Definition n_g := s [103]. Definition n_h := s [104]. Definition n_m := s [109]. Definition n_p := s [112].
Definition t_string := s [115;116;114;105;110;103].
Definition lf (n : str) := DLeaf n t_string TSUnset TSUnset None None.

(* module m { prefix p; grouping h { leaf y; }  grouping g { leaf x; container b { uses h; } }
              container a { grouping h { leaf x; } uses g; }    -- g's "uses h" is the OUTER h (defining scope)
              container b2 { uses p:g; } } *)
Definition ex_body : list dnode :=
  [ DGrouping 1 n_h [lf n_y];
    DGrouping 2 n_g [lf n_x; DContainer n_b TSUnset [DUses n_h]];
    DContainer n_a TSUnset [DGrouping 3 n_h [lf n_x]; DUses n_g];
    DContainer (s [98;50]) TSUnset [DUses (s [112;58;103])] ].
Definition ex_mod : module :=
  {| m_name := n_m; m_prefix := n_p; m_ns := s [117]; m_belongs := None; m_imports := []; m_includes := [];
     m_body := ex_body; m_augments := []; m_deviations := [] |}.

Example C06_ex_inline : inline_stmts [ex_mod] ex_mod [] ex_body =
  Some [ DGrouping 1 n_h [lf n_y];
         DGrouping 2 n_g [lf n_x; DContainer n_b TSUnset [lf n_y]];
         DContainer n_a TSUnset [DGrouping 3 n_h [lf n_x]; lf n_x; DContainer n_b TSUnset [lf n_y]];
         DContainer (s [98;50]) TSUnset [lf n_x; DContainer n_b TSUnset [lf n_y]] ].
Proof. vm_compute. reflexivity. Qed.

Example C06_ex_two_instances : exists F, Process [ex_mod] false false [n_m] = ROk F /\
  locate_pos F (n_m, [SChild n_a; SChild n_b; SChild n_y]) <> None /\
  locate_pos F (n_m, [SChild (s [98;50]); SChild n_b; SChild n_y]) <> None /\
  unrelated [SChild n_a; SChild n_b] [SChild (s [98;50]); SChild n_b].
Proof. eexists. split; [vm_compute; reflexivity|]. vm_compute. repeat split; discriminate. Qed.

(* a grouping that uses itself through another one, and an unknown grouping: no expansion, Process errors *)
Definition ex_cyc : module :=
  {| m_name := n_m; m_prefix := n_p; m_ns := s [117]; m_belongs := None; m_imports := []; m_includes := [];
     m_body := [DGrouping 1 n_g [DUses n_h]; DGrouping 2 n_h [DContainer n_b TSUnset [DUses n_g]]; DContainer n_a TSUnset [DUses n_g]];
     m_augments := []; m_deviations := [] |}.
Example C06_ex_cycle : inline_stmts [ex_cyc] ex_cyc [] (m_body ex_cyc) = None /\ Process [ex_cyc] false false [n_m] = RErr.
Proof. vm_compute. split; reflexivity. Qed.

Definition ex_unknown : module :=
  {| m_name := n_m; m_prefix := n_p; m_ns := s [117]; m_belongs := None; m_imports := []; m_includes := [];
     m_body := [DContainer n_a TSUnset [DGrouping 1 n_g [lf n_x]]; DContainer n_b TSUnset [DUses n_g]];
     m_augments := []; m_deviations := [] |}.
Example C06_ex_unknown : inline_stmts [ex_unknown] ex_unknown [] (m_body ex_unknown) = None /\
  Process [ex_unknown] false false [n_m] = RErr.
Proof. vm_compute. split; reflexivity. Qed.

(* two modules: m2 defines g (which uses its own h) and k; m uses x:g inside its own grouping o, at module level through
   an augment of m2's container, and o twice; the whole set inlines, and Process agrees on both *)
Definition n_k := s [107]. Definition n_o := s [111]. Definition n_x2 := s [120;58;103].
Definition n_m2 := s [109;50]. Definition n_p2 := s [113].
Definition ex_m2 : module :=
  {| m_name := n_m2; m_prefix := n_p2; m_ns := s [118]; m_belongs := None; m_imports := []; m_includes := [];
     m_body := [DGrouping 1 n_h [lf n_y; DList n_k None TSUnset (Some 1%N) None [lf n_x]];
                DGrouping 2 n_g [DContainer n_b TSUnset [DUses n_h]; DChoice n_o TSUnset TSUnset None [lf n_a]];
                DContainer n_a TSUnset [DUses (s [113;58;103])]];
     m_augments := []; m_deviations := [] |}.
Definition ex_m1 : module :=
  {| m_name := n_m; m_prefix := n_p; m_ns := s [117]; m_belongs := None; m_imports := [(s [120], n_m2)]; m_includes := [];
     m_body := [DGrouping 3 n_o [DContainer n_g TSUnset [DUses n_x2]; lf n_k];
                DContainer n_a TSUnset [DUses n_o];
                DRpc false n_b (Some [DUses (s [112;58;111])]) None];
     m_augments := [(s [47;120;58;97], [DContainer n_h TSUnset [DUses n_x2]])];
     m_deviations := [(s [47;112;58;97;47;112;58;107], [{| dv_kind := s_replace; dv_cfg := TSFalse; dv_mand := TSUnset;
                        dv_default := None; dv_min := None; dv_max := None; dv_units := None; dv_type := None |}])] |}.
Definition ex_set : schema := [ex_m1; ex_m2].

Example C06_ex_process : exists SC' F,
  inline_schema ex_set = Some SC' /\
  Process ex_set false false [n_m; n_m2] = ROk F /\ Process SC' false false [n_m; n_m2] = ROk F /\
  forallb (fun m => forallb uses_free (m_body m) && forallb (fun a => forallb uses_free (snd a)) (m_augments m)) SC' = true /\
  locate_pos F (n_m2, [SChild n_a; SChild n_h; SChild n_b; SChild n_k; SChild n_x]) <> None /\
  locate_pos F (n_m, [SChild n_b; SIn; SChild n_g; SChild n_o; SChild n_a; SChild n_a]) <> None.
Proof.
  eexists. eexists. split; [vm_compute; reflexivity|]. split; [vm_compute; reflexivity|].
  split; [vm_compute; reflexivity|]. vm_compute. repeat split; discriminate.
Qed.

(* ------------------------------------------------------------------ pointer level (Model/Heap.v) *)
(* The entries above are immutable trees.  Model/Heap.v models Entry.dup / add / merge of entry.go on a heap of cells
   with Parent pointers; wf_tree h r: the cells reachable from r (Dir, RPC.Input, RPC.Output) are allocated, each
   points back to its holder, none is reached twice.  The model is compared with the implementation's pointer graph
   on every run (check/props/c06.py, heap_leg). *)

(* dup of a well-formed tree (fuel = size of the heap, as run by the harness): succeeds; the copy is a well-formed tree;
   every id of it is FRESH (not allocated before: disjoint from the source, the grouping and every earlier copy); it
   erases to the same plain tree (names, kinds, list attributes, type references, shape, input/output); every cell
   allocated before is unchanged *)
Theorem C06_heap_dup_fresh_wf_iso_frame : forall h r, HeapProofs.wf_tree h r ->
  exists h' r' t ids',
    Heap.dup_top h r = Some (h', r') /\
    HeapProofs.wf_tree h' r' /\
    Heap.reach (length h) h' r' = Some ids' /\ Forall (fun i => length h <= i < length h') ids' /\
    Heap.erase (length h) h r = Some t /\ Heap.erase (length h) h' r' = Some t /\
    (forall i, i < length h -> Heap.get h' i = Heap.get h i) /\ length h <= length h'.
Proof. exact HeapProofs.dup_fresh_wf_iso_frame. Qed.

Theorem C06_heap_dup_keeps_source : forall h r h' r', HeapProofs.wf_tree h r -> Heap.dup_top h r = Some (h', r') ->
  HeapProofs.wf_tree h' r /\ Heap.erase (length h) h' r = Heap.erase (length h) h r.
Proof. exact HeapProofs.dup_keeps_source. Qed.

(* two uses of one grouping: two successive copies are both well-formed in the final heap, erase to the grouping's
   tree, and share no cell with each other, with the grouping, or with anything allocated before *)
Theorem C06_heap_dup_twice_disjoint : forall h r, HeapProofs.wf_tree h r ->
  exists h1 r1 h2 r2 t ids1 ids2,
    Heap.dup_top h r = Some (h1, r1) /\ Heap.dup_top h1 r = Some (h2, r2) /\
    HeapProofs.wf_tree h2 r1 /\ HeapProofs.wf_tree h2 r2 /\ HeapProofs.wf_tree h2 r /\
    Heap.reach (length h) h2 r1 = Some ids1 /\ Heap.reach (length h1) h2 r2 = Some ids2 /\
    (forall i, In i ids1 -> In i ids2 -> False) /\
    Forall (fun i => length h <= i) ids1 /\ Forall (fun i => length h <= i) ids2 /\
    Heap.erase (length h) h2 r1 = Some t /\ Heap.erase (length h1) h2 r2 = Some t /\ Heap.erase (length h) h r = Some t.
Proof. exact HeapProofs.dup_twice_disjoint. Qed.

(* non-vacuity: a grouping with a container, a list and an rpc with input and output children is a well-formed tree *)
Example C06_heap_ex_wf : HeapProofs.wf_tree HeapProofs.ex_heap 0.
Proof. exact HeapProofs.ex_heap_wf. Qed.

(* add of a separate well-formed tree v (a fresh copy) under a cell e anywhere in a well-formed tree, key not taken:
   the result is a well-formed tree over exactly the ids of both; v points to e; e holds v under the key; no other cell
   changes *)
Theorem C06_heap_add_wf : forall h root e key v idsr idsv ce,
  HeapProofs.reaches h root idsr -> NoDup idsr -> HeapProofs.reaches h v idsv -> NoDup idsv ->
  In e idsr -> (forall x, In x idsr -> ~ In x idsv) ->
  Heap.get h e = Some ce -> Heap.lookup key (Heap.c_children ce) = None ->
  let h' := Heap.add h e key v in
  (exists ids', HeapProofs.reaches h' root ids' /\ NoDup ids' /\ (forall x, In x ids' <-> In x idsr \/ In x idsv)) /\
  HeapProofs.wf_tree h' root /\
  (exists cv, Heap.get h' v = Some cv /\ Heap.c_parent cv = Some e) /\
  Heap.get h' e = Some (Heap.with_children ce (Heap.c_children ce ++ [(key, v)])) /\
  (forall x, x <> e -> x <> v -> Heap.get h' x = Heap.get h x).
Proof. exact HeapProofs.add_wf. Qed.

(* key taken: the error is recorded on e, the link is not made; value.Parent = e has already been written (entry.go
   assigns it before looking the key up); no other cell changes *)
Theorem C06_heap_add_duplicate : forall h e key v ce w,
  Heap.get h e = Some ce -> v <> e -> Heap.lookup key (Heap.c_children ce) = Some w ->
  let h' := Heap.add h e key v in
  Heap.get h' e = Some (Heap.with_err ce) /\
  (forall cv, Heap.get h v = Some cv -> Heap.get h' v = Some (Heap.with_parent cv (Some e))) /\
  (forall x, x <> e -> x <> v -> Heap.get h' x = Heap.get h x).
Proof. exact HeapProofs.add_duplicate. Qed.

Theorem C06_heap_wf_tree_reaches : forall h r,
  HeapProofs.wf_tree h r <-> exists ids, HeapProofs.reaches h r ids /\ NoDup ids.
Proof. exact HeapProofs.wf_tree_reaches. Qed.

(* merge (what `uses` and augment do) of a separate well-formed tree oe -- the grouping -- into a cell e anywhere in a
   well-formed tree, with the harness's fuel: succeeds; the target tree is again well-formed and contains e; every
   link of e, the moved copies among them, leads to a cell whose Parent is e; every cell allocated before, other than
   e, is unchanged -- the grouping itself, every other instance, the rest of the target (a duplicate name adds an
   error to e and links nothing) *)
Theorem C06_heap_merge_wf : forall h root e ns oe idsr idso,
  HeapProofs.reaches h root idsr -> NoDup idsr -> In e idsr -> HeapProofs.reaches h oe idso -> NoDup idso ->
  (forall x, In x idsr -> ~ In x idso) ->
  exists h', Heap.merge_top h e ns oe = Some h' /\
    HeapProofs.wf_tree h' root /\
    (exists ids', HeapProofs.reaches h' root ids' /\ NoDup ids' /\ In e ids') /\
    (exists ce', Heap.get h' e = Some ce' /\
       forall k w, In (k, w) (Heap.c_children ce' ++ Heap.opt_list (Heap.c_input ce') ++ Heap.opt_list (Heap.c_output ce')) ->
       exists cw, Heap.get h' w = Some cw /\ Heap.c_parent cw = Some e) /\
    (forall x, x < length h -> x <> e -> Heap.get h' x = Heap.get h x) /\ length h <= length h'.
Proof. exact HeapProofs.merge_wf. Qed.

(* in a well-formed tree every link (Dir, input, output) of every reachable cell leads to a cell pointing back to it *)
Theorem C06_heap_links_point_back : forall f h p r t ids e, Heap.walk f h p r = Some (t, ids) -> In e ids ->
  exists ce, Heap.get h e = Some ce /\
    forall k w, In (k, w) (Heap.c_children ce ++ Heap.opt_list (Heap.c_input ce) ++ Heap.opt_list (Heap.c_output ce)) ->
    exists cw, Heap.get h w = Some cw /\ Heap.c_parent cw = Some e.
Proof. exact HeapProofs.walk_links_parent. Qed.
From GY Require Proofs.HeapFixProofs.

(* FixChoice at pointer level (Model/Heap.v: wrap_cases / fix_choice / fix_top; spec on plain trees: HeapFixProofs.fix_tree).
   On a well-formed tree fix_top, with the fuel the harness uses, succeeds; the result is a well-formed tree from the same
   root; erased it is fix_tree of the erased source (every non-case child of an error-free choice wrapped exactly once
   into a case of its name and namespace, everywhere, rpc input and output included); the cells reachable afterwards are
   exactly the old ones plus ALL cells the run allocated: every inserted case is fresh and linked into the tree, hence
   (wf_tree, C06_heap_links_point_back) its Parent is its choice and its member's Parent is the case *)
Theorem C06_heap_fix_top_wf_erase : forall h r, HeapProofs.wf_tree h r ->
  exists h' t ids ids',
    Heap.fix_top h r = Some h' /\ HeapProofs.wf_tree h' r /\
    Heap.erase (length h) h r = Some t /\ Heap.erase (length h') h' r = Some (HeapFixProofs.fix_tree t) /\
    Heap.reach (length h) h r = Some ids /\ Heap.reach (length h') h' r = Some ids' /\
    (forall y, In y ids' <-> In y ids \/ length h <= y < length h') /\ length h <= length h'.
Proof. exact HeapFixProofs.fix_top_wf_erase. Qed.

(* frame, PARTIAL: cells allocated before that are not in the tree are unchanged; for cells in the tree the theorem above
   pins every field through erase, but "a member changes in Parent only, a choice in its child list only" is not stated
   cell by cell *)
Theorem C06_heap_fix_top_frame_partial : forall h r h' ids,
  HeapProofs.wf_tree h r -> Heap.fix_top h r = Some h' -> Heap.reach (length h) h r = Some ids ->
  forall y, y < length h -> ~ In y ids -> Heap.get h' y = Heap.get h y.
Proof. exact HeapFixProofs.fix_top_frame_partial. Qed.

(* the cells made at one choice (wrap_cases, the allocation step of fix_choice): every cell it allocates is a case whose
   Parent is the choice, named and stamped like one member m of the child list, with m as its ONLY child and no
   input/output; m is not a case and m's Parent is now that case; old cells other than the members are unchanged.
   (PARTIAL with respect to fix_top: stated for one choice level; that every cell allocated by the whole recursive run
   is one of these follows from the code of fix_choice -- wrap_cases is its only allocation -- but is not a theorem) *)
Theorem C06_heap_fix_wrap_cells_partial : forall l h e hw dir,
  Heap.wrap_cases h e l = (hw, dir) -> NoDup (map snd l) -> Forall (fun kv => snd kv < length h) l ->
  length h <= length hw /\
  (forall y, y < length h -> ~ In y (map snd l) -> Heap.get hw y = Heap.get h y) /\
  (forall y, length h <= y < length hw -> exists nm ns m cm,
     In m (map snd l) /\
     Heap.get hw y = Some (Heap.mkCell (Some e) nm Heap.K_CASE [(nm, m)] None None None None ns 0) /\
     Heap.get hw m = Some cm /\ Heap.c_parent cm = Some y /\ Heap.c_name cm = nm /\ Heap.c_ns cm = ns /\
     Heap.c_kind cm <> Heap.K_CASE).
Proof. exact HeapFixProofs.wrap_cases_cells. Qed.

(* the plain-tree spec: what fix_tree does at one node *)
Theorem C06_heap_fix_tree_eq : forall nm k la ty ns errs ks ti to,
  HeapFixProofs.fix_tree (Heap.TNode nm k la ty ns errs ks ti to) =
  Heap.TNode nm k la ty ns errs
    (if HeapFixProofs.wraps k errs then map HeapFixProofs.wrapkid ks else map HeapFixProofs.fixkid ks)
    (map HeapFixProofs.fixkid ti) (map HeapFixProofs.fixkid to).
Proof. exact HeapFixProofs.fix_tree_eq. Qed.

(* idempotence on the erased level, and of a second run *)
Theorem C06_heap_fix_tree_idem : forall t, HeapFixProofs.fix_tree (HeapFixProofs.fix_tree t) = HeapFixProofs.fix_tree t.
Proof. exact HeapFixProofs.fix_tree_idem. Qed.

Theorem C06_heap_fix_top_twice : forall h r h1, HeapProofs.wf_tree h r -> Heap.fix_top h r = Some h1 ->
  exists h2, Heap.fix_top h1 r = Some h2 /\ HeapProofs.wf_tree h2 r /\
    Heap.erase (length h2) h2 r = Heap.erase (length h1) h1 r.
Proof. exact HeapFixProofs.fix_top_twice. Qed.

(* non-vacuity: choice { leaf a; container c { choice n { leaf b } }; case x { leaf y } } is a well-formed tree
   (HeapFixProofs.exf_fix runs fix_top on it: three fresh cases 7, 8, 9; x kept; second run = identity) *)
Example C06_heap_fix_ex_wf : HeapProofs.wf_tree HeapFixProofs.exf_heap 0.
Proof. exact HeapFixProofs.exf_wf. Qed.

