(* C03 — The AST mirrors the statement tree one-to-one or the build fails.
   Only statements, closed by [exact], and non-vacuity examples.

   [build] (Model/Ast.v) interprets the struct-tag table the way ast.go's reflective builder does;
   [YangSchema.schema] is that table, regenerated from yang.go / ast.go on every run.
   [mirror], [rejects], [schema_wf] are in Spec/C03.v. *)
From Coq Require Import Ascii String List Bool Arith.
From GY Require Import Base.Outcome Model.Ast Spec.C03 Proofs.AstProofs Proofs.AstPosProofs.
From GY Require Gen.YangSchema.
Import ListNotations.
Local Open Scope string_scope.

(* T0: the table generated from the pinned sources is well formed: no field on which initTypes would
   panic, every keyword names one struct wherever it is used as a field, no two fields of a struct
   share a keyword, every struct a keyword builds is a Node with Name, Statement and Parent fields,
   required= only names module|submodule, only Module reports the kinds module/submodule. *)
Theorem C03_schema_wf : schema_wf YangSchema.schema = true.
Proof. exact yang_schema_wf. Qed.

(* T1 (mirror): for every well-formed table, statement tree and parent: a successful build yields a node
   of the struct the keyword names, whose name is the argument, whose statement reference is the
   statement, whose parent link is the enclosing node, whose fields hold -- per keyword, in source order,
   recursively mirrored, with this node as parent -- exactly the substatements of that keyword, whose
   extension list holds exactly the prefixed non-field substatements in source order, every substatement
   being in exactly one of the two (count equality), single-valued fields holding at most one. *)
Theorem C03_mirror : forall S, schema_wf S = true ->
  forall s p n, good_parent S p -> build S s p = Ok n -> mirror S s p n.
Proof. exact build_mirror. Qed.

(* the same read off the fields: ids, names and parent links of the nodes under keyword k are those of
   the substatements with keyword k, in source order *)
Theorem C03_fields : forall S kw ha a i subs p n k,
  mirror S (Stmt kw ha a i subs) p n -> In k (map fst (n_fields n)) ->
  map n_src (get k (n_fields n)) = map (fun ss => Some (id_of ss)) (kids k subs) /\
  map n_name (get k (n_fields n)) = map arg_of (kids k subs) /\
  map n_parent (get k (n_fields n)) = map (fun _ => Some i) (kids k subs).
Proof. exact mirror_field. Qed.

(* T2 (reject): the build fails exactly on the trees the property lists: unknown keyword at the top or
   in its context, prefixed keyword where the struct keeps no extensions, second occurrence of a
   single-valued substatement, absent required / required-for-this-keyword substatement, substatement
   required for the other keyword present -- at the statement itself or at any filed substatement. *)
Theorem C03_reject : forall S, schema_wf S = true ->
  forall s p, good_parent S p -> (build S s p = Err <-> rejects S s).
Proof. exact build_reject. Qed.

Theorem C03_accept : forall S, schema_wf S = true ->
  forall s p, good_parent S p -> ((exists n, build S s p = Ok n) <-> ~ rejects S s).
Proof. exact build_accept. Qed.

(* T3 (total): on a well-formed table no reflect panic (and no unmodelled case) is reachable *)
Theorem C03_total : forall S, schema_wf S = true ->
  forall s p, good_parent S p -> build S s p <> Panic /\ build S s p <> Unmodelled.
Proof. exact build_total. Qed.

(* the three-way verdict in one statement *)
Theorem C03_verdict : forall S, schema_wf S = true ->
  forall s p, good_parent S p -> outcome_spec S s p (build S s p).
Proof. exact build_spec. Qed.

(* T4 (top level, generated table): build followed by Modules.add files only mirrored modules and
   submodules, rejects every other top-level statement, and never panics *)
Theorem C03_top_ok : forall s n, parse_one YangSchema.schema s = Ok n ->
  mirror YangSchema.schema s None n /\ (kw_of s = "module" \/ kw_of s = "submodule").
Proof. exact yang_parse_one. Qed.

Theorem C03_top_rejected : forall s,
  kw_of s <> "module" -> kw_of s <> "submodule" -> parse_one YangSchema.schema s = Err.
Proof. exact yang_top_rejected. Qed.

Theorem C03_top_total : forall s,
  parse_one YangSchema.schema s <> Panic /\ parse_one YangSchema.schema s <> Unmodelled.
Proof. exact (parse_one_total _ yang_schema_wf). Qed.

Theorem C03_parse_all : forall l ns, parse_all YangSchema.schema l = Ok ns ->
  Forall2 (fun s n => mirror YangSchema.schema s None n /\ In (kw_of s) (top_keywords YangSchema.schema)) l ns.
Proof. exact (parse_all_ok _ yang_schema_wf). Qed.

(* T5 (pinned mandatory substatements): the table generated from the sources makes mandatory exactly
   these substatements -- leaf/leaf-list/typedef without type, import and belongs-to without prefix,
   deviation without deviate, module without namespace or prefix, submodule without belongs-to. *)
Theorem C03_required_pinned : required_table YangSchema.schema =
  [ ("Module", "belongs-to", false, ["submodule"]);
    ("Module", "namespace", false, ["module"]);
    ("Module", "prefix", false, ["module"]);
    ("Leaf", "type", true, []);
    ("LeafList", "type", true, []);
    ("Typedef", "type", true, []);
    ("BelongsTo", "prefix", true, []);
    ("Deviation", "deviate", true, []);
    ("Import", "prefix", true, []) ].
Proof. exact yang_required. Qed.

(* ------------------------------------------------------------------ which error, and where
   (this part also serves C16's third sentence for errors from building a module)
   [build_e] is [build] returning, for an error, its kind and the id of the statement whose
   Location() the Go code prints in front of the message (None: the message has no position). *)

(* P0: build_e is build with more information: same verdict, same node; hence T1-T4 carry over *)
Theorem C03_pos_projects : forall S s p, forget (build_e S s p) = build S s p.
Proof. exact forget_build_e. Qed.

Theorem C03_pos_projects_all : forall S l, forget (parse_all_e S l) = parse_all S l.
Proof. exact forget_parse_all_e. Qed.

(* P1: a reported position is the start of a statement of the tree (any table) *)
Theorem C03_pos_in_tree : forall S s p k j, build_e S s p = RErr k (Some j) -> In j (ids s).
Proof. exact build_e_pos_in_tree. Qed.

(* P2: the reported error is THE first one in Go's evaluation order -- depth-first, substatements in
   source order (everything before the culprit is accepted), then required, required-for-this-keyword,
   required-for-the-other-keyword -- as stated declaratively by [reports] (Spec/C03.v), and conversely *)
Theorem C03_pos_first : forall S, schema_wf S = true ->
  forall s p k pos, good_parent S p -> (build_e S s p = RErr k pos <-> reports S s (k, pos)).
Proof. exact build_e_reports_iff. Qed.

Theorem C03_pos_unique : forall S, schema_wf S = true ->
  forall s e1 e2, reports S s e1 -> reports S s e2 -> e1 = e2.
Proof. exact reports_unique. Qed.

(* P3: what the position points at, by kind ([site], Spec/C03.v): the unknown substatement itself for
   unknown-field and no-extension errors; the statement that lacks the mandatory substatement for
   missing-required errors; the statement itself for an unknown statement; no position for "already set";
   and -- pinned known behaviour, KNOWN_FINDINGS builder.kind-field-reported-at-parent -- the PARENT for a
   substatement that is required only by the other keyword *)
Theorem C03_pos_site : forall S, schema_wf S = true ->
  forall s p k pos, good_parent S p -> build_e S s p = RErr k pos -> site S s k pos.
Proof. exact build_e_site. Qed.

(* P4: Modules.Parse over a whole text: the error is that of the first statement that fails to build, or
   the position-less "not a module or submodule" of the first statement that builds but is neither *)
Theorem C03_pos_parse_all : forall S l k pos, parse_all_e S l = RErr k pos ->
  exists l1 s l2, l = (l1 ++ s :: l2)%list /\ (exists ns, parse_all S l1 = Ok ns) /\
    (build_e S s None = RErr k pos \/
     (k = ENotModule /\ pos = None /\ exists n, build S s None = Ok n /\ add S n = Err)).
Proof. exact parse_all_e_err. Qed.

(* ------------------------------------------------------------------ non-vacuity *)

Definition S0 := YangSchema.schema.
Definition st k a i l := Stmt k true a i l.

(* module m { namespace n; x:ann 1; prefix p; leaf a { type string; } leaf b { type t; } y:z; } *)
Definition ex_module : stmt :=
  st "module" "m" 0 [
    st "namespace" "n" 1 []; st "x:ann" "1" 2 []; st "prefix" "p" 3 [];
    st "leaf" "a" 4 [st "type" "string" 5 []];
    st "leaf" "b" 6 [st "type" "t" 7 []];
    Stmt "y:z" false "" 8 []].

Example C03_build_ex :
  exists n, parse_one S0 ex_module = Ok n /\
    n_ty n = "Module" /\ n_name n = "m" /\ n_src n = Some 0 /\ n_parent n = None /\ n_exts n = [2; 8] /\
    map n_src (get "leaf" (n_fields n)) = [Some 4; Some 6] /\
    map n_name (get "leaf" (n_fields n)) = ["a"; "b"] /\
    map n_parent (get "leaf" (n_fields n)) = [Some 0; Some 0] /\
    map n_src (get "namespace" (n_fields n)) = [Some 1] /\
    map (fun l => map n_src (get "type" (n_fields l))) (get "leaf" (n_fields n)) = [[Some 5]; [Some 7]].
Proof. eexists. split; [vm_compute; reflexivity|]. vm_compute. repeat split. Qed.

(* the hypotheses of T1 are satisfiable below the top level as well *)
Example C03_good_parent_ex : good_parent S0 (Some ("Module", 0)).
Proof. simpl. eexists. split; [vm_compute; reflexivity | reflexivity]. Qed.

(* the rejections the property names *)
Example C03_leaf_without_type :
  parse_one S0 (st "module" "m" 0 [st "namespace" "n" 1 []; st "prefix" "p" 2 []; st "leaf" "a" 3 []]) = Err.
Proof. vm_compute. reflexivity. Qed.
Example C03_import_without_prefix :
  parse_one S0 (st "module" "m" 0 [st "namespace" "n" 1 []; st "prefix" "p" 2 []; st "import" "o" 3 []]) = Err.
Proof. vm_compute. reflexivity. Qed.
Example C03_module_without_namespace :
  parse_one S0 (st "module" "m" 0 [st "prefix" "p" 1 []]) = Err.
Proof. vm_compute. reflexivity. Qed.
Example C03_submodule_without_belongs_to :
  parse_one S0 (st "submodule" "m" 0 []) = Err.
Proof. vm_compute. reflexivity. Qed.
Example C03_submodule_ok :
  is_ok (parse_one S0 (st "submodule" "m" 0 [st "belongs-to" "o" 1 [st "prefix" "p" 2 []]])) = true.
Proof. vm_compute. reflexivity. Qed.
Example C03_submodule_with_namespace :   (* required for the other keyword *)
  parse_one S0 (st "submodule" "m" 0 [st "belongs-to" "o" 1 [st "prefix" "p" 2 []]; st "namespace" "n" 3 []]) = Err.
Proof. vm_compute. reflexivity. Qed.
Example C03_second_single :
  parse_one S0 (st "module" "m" 0 [st "namespace" "n" 1 []; st "prefix" "p" 2 []; st "prefix" "q" 3 []]) = Err.
Proof. vm_compute. reflexivity. Qed.
Example C03_unknown_in_context :         (* known keyword, wrong place *)
  parse_one S0 (st "module" "m" 0 [st "namespace" "n" 1 []; st "prefix" "p" 2 []; st "type" "t" 3 []]) = Err.
Proof. vm_compute. reflexivity. Qed.
Example C03_pseudo_keyword :             (* D02: the table key Statement is not a YANG keyword *)
  parse_one S0 (st "module" "m" 0 [st "namespace" "n" 1 []; st "prefix" "p" 2 []; st "Statement" "zz" 3 []]) = Err.
Proof. vm_compute. reflexivity. Qed.
Example C03_top_container : parse_one S0 (st "container" "c" 0 []) = Err.
Proof. vm_compute. reflexivity. Qed.
Example C03_top_unknown : parse_one S0 (st "bogus" "c" 0 []) = Err.   (* D01 *)
Proof. vm_compute. reflexivity. Qed.

(* [rejects] is inhabited by the reasons themselves (not only via the equivalence) *)
Example C03_rejects_ex : rejects S0 (st "container" "c" 0 [st "bogus" "x" 1 []]).
Proof.
  eapply RejHere; [vm_compute; reflexivity|].
  eapply BadUnknown; [left; reflexivity | vm_compute; reflexivity].
Qed.

(* error positions: module m { namespace n; prefix p; container c { leaf a; bogus x; } zzz y; }
   -- three things wrong; the first in evaluation order is the leaf (id 4) lacking its type *)
Definition ex_three_errors : stmt :=
  st "module" "m" 0 [st "namespace" "n" 1 []; st "prefix" "p" 2 [];
    st "container" "c" 3 [st "leaf" "a" 4 []; st "bogus" "x" 5 []]; st "zzz" "y" 6 []].
Example C03_pos_first_ex : build_e S0 ex_three_errors None = RErr EMissing (Some 4).
Proof. vm_compute. reflexivity. Qed.
Example C03_pos_unknown_field_ex :
  build_e S0 (st "module" "m" 0 [st "namespace" "n" 1 []; st "prefix" "p" 2 [];
                st "container" "c" 3 [st "leaf" "a" 4 [st "type" "t" 5 []]; st "bogus" "x" 6 []]]) None
  = RErr EUnknownField (Some 6).
Proof. vm_compute. reflexivity. Qed.
Example C03_pos_already_set_ex :
  build_e S0 (st "module" "m" 0 [st "namespace" "n" 1 []; st "prefix" "p" 2 []; st "prefix" "q" 3 []]) None
  = RErr EAlreadySet None.
Proof. vm_compute. reflexivity. Qed.
Example C03_pos_other_kind_ex :          (* reported at the module (id 0), not at belongs-to (id 3) *)
  build_e S0 (st "module" "m" 0 [st "namespace" "n" 1 []; st "prefix" "p" 2 [];
                st "belongs-to" "x" 3 [st "prefix" "x" 4 []]]) None
  = RErr EOtherKind (Some 0).
Proof. vm_compute. reflexivity. Qed.
Example C03_pos_not_module_ex : parse_all_e S0 [st "container" "c" 0 []] = RErr ENotModule None.
Proof. vm_compute. reflexivity. Qed.
Example C03_pos_unknown_statement_ex :
  parse_all_e S0 [st "submodule" "s" 0 [st "belongs-to" "o" 1 [st "prefix" "p" 2 []]]; st "bogus" "c" 3 []]
  = RErr EUnknownStmt (Some 3).
Proof. vm_compute. reflexivity. Qed.
