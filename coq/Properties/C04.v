(* C04 -- a clean Process yields proper trees and really means there were no errors.
   Only statements, closed by [exact], and non-vacuity examples.

   [Process] (Model/Schema.v) models Modules.Process over abstract module sources; [TreeInv], [ForestInv], the
   stages [stage_*], [final_applied] are in Spec/C04.v.  Entries of the model are immutable trees:
   parent pointers and object identity do not exist in it; those two clauses of the property are checked on the
   implementation by the pointer-level walker of harness/go/resolve.go (treeviol), see check/props/c04.py. *)
From Coq Require Import List NArith Bool.
From Coq Require Import Permutation.
From GY Require Import Model.Schema Spec.C04 Proofs.SchemaLemmas Proofs.TreeInvProofs Proofs.TreeInvFull.
Import ListNotations.

(* T1 (every clause but one, unconditional): whatever the module set, the options and the visiting order, every tree
   of a clean result is proper -- every child is filed under its own name, the keys of a child map are pairwise
   distinct, leaves and leaf-lists have a type and no child map, every other kind has a child map, list attributes sit
   only on leaf-lists and lists, rpc input/output have their kind and name -- recursively through child maps and rpc
   input/output. *)
Theorem C04_T1_tree_invariant : forall SC ignoreCirc ignoreNotSupported order F,
  Process SC ignoreCirc ignoreNotSupported order = ROk F -> ForestInv false F.
Proof. exact Process_TreeInv_weak. Qed.

(* T1 (all clauses, "every child of a choice is a case" included), for every module set with pairwise distinct module
   names and every visiting order that visits every module (what Go's sorted iteration does).  No residual hypothesis:
   FixChoice in the Go code is plain structural recursion over e.Dir and the rpc's input/output; the model's
   [fix_choice] runs on fuel that Process derives from the structural height of the highest tree ([height],
   Model/Schema.v: twice that height plus a margin), so it reaches every node however deep augments grafted subtrees
   (Proofs/TreeInvProofs.v HeightLe_height, fix_all_strict). *)
Theorem C04_T1_choice_clause : forall SC ignoreCirc ignoreNotSupported order F,
  NoDup (map m_name SC) -> (forall m, In m SC -> In (m_name m) order) ->
  Process SC ignoreCirc ignoreNotSupported order = ROk F -> ForestInv true F.
Proof. exact Process_TreeInv_choice. Qed.

Theorem C04_T1_choice_clause_perm : forall SC ignoreCirc ignoreNotSupported order F,
  NoDup (map m_name SC) -> Permutation (map m_name SC) order ->
  Process SC ignoreCirc ignoreNotSupported order = ROk F -> ForestInv true F.
Proof. exact Process_TreeInv_choice_perm. Qed.

(* the reporting pass Augment(true) applies no augment: after the rounds of {retry loop; FixChoice} have reached their
   fixpoint no pending augment is applicable (C07: Proofs/AugmentProofs.v final_pass_applies_nothing), so FixChoice is
   the last thing that happens to every tree before the deviations *)
Theorem C04_T1_reporting_pass_idle : forall SC ignoreCirc order,
  NoDup (map m_name SC) -> (forall m, In m SC -> In (m_name m) order) -> final_applied SC ignoreCirc order = 0.
Proof. exact reporting_pass_idle. Qed.

(* the general form, for arbitrary module sets and visiting orders (duplicate module names, orders that skip
   modules): under the one computable side condition that the reporting pass applies nothing *)
Theorem C04_T1_choice_clause_side_condition : forall SC ignoreCirc ignoreNotSupported order F,
  Process SC ignoreCirc ignoreNotSupported order = ROk F ->
  final_applied SC ignoreCirc order = 0 -> ForestInv true F.
Proof. exact Process_TreeInv_full. Qed.

(* FixChoice over a whole forest with the fuel Process gives it establishes the clause on every proper forest *)
Theorem C04_fix_all_establishes : forall F, ForestInv false F -> ForestInv true (fix_all F).
Proof. exact fix_all_strict. Qed.

(* ... because that fuel is derived from a height that is one: every tree is at most as high as its [height] *)
Theorem C04_height_is_height : forall e, HeightLe (height e) e.
Proof. exact HeightLe_height. Qed.

(* what establishes the clause: FixChoice with fuel twice the height of a proper tree makes every child of every
   choice a case and keeps the rest of the invariant; with any fuel it keeps the other clauses, names and kinds *)
Theorem C04_fix_choice_establishes : forall fuel h e,
  HeightLe h e -> 2 * h <= fuel -> TreeInv false e -> TreeInv true (fix_choice fuel e).
Proof. exact fix_choice_strict. Qed.

Theorem C04_fix_choice_preserves : forall fuel e, TreeInv false e ->
  TreeInv false (fix_choice fuel e) /\ e_name (fix_choice fuel e) = e_name e /\ e_kind (fix_choice fuel e) = e_kind e.
Proof. exact fix_choice_weak. Qed.

(* the constructors and transformations, one by one *)
Theorem C04_to_entry : forall SC fuel c busy n, TreeInv false (fst (to_entry SC fuel c busy n)).
Proof. exact to_entry_inv. Qed.

Theorem C04_add : forall s acc v,
  dir_ok s (fst acc) -> TreeInv s (fst v) -> dir_ok s (fst (add_child acc (e_name (fst v)) v)).
Proof. exact add_child_ok. Qed.

Theorem C04_merge : forall s ns oe acc,
  dir_ok s (fst acc) -> elems_ok s oe -> dir_ok s (fst (merge_dir acc ns oe)).
Proof. exact merge_dir_ok. Qed.

Theorem C04_module_entry : forall SC ignoreCirc m, TreeInv false (fst (module_entry SC ignoreCirc m)).
Proof. exact module_entry_inv. Qed.

Theorem C04_find_lazy_io : forall SC s F ctx start name,
  ForestInv s F -> ForestInv s (snd (Find SC F ctx start name)).
Proof. exact Find_inv. Qed.

Theorem C04_augment : forall SC pending F err addErrors,
  ForestInv false F -> AugsOk pending ->
  ForestInv false (fst (fst (fst (augment_module SC F err pending addErrors)))) /\
  AugsOk (snd (augment_module SC F err pending addErrors)).
Proof. exact augment_module_inv. Qed.

Theorem C04_deviations : forall SC ignoreNotSupported s m devs F err,
  ForestInv s F -> ForestInv s (fst (apply_deviations SC ignoreNotSupported F err m devs)).
Proof. exact apply_deviations_inv. Qed.

(* T2: the complete list of ways in which Process reports an error: include/import resolution fails, some module or
   submodule entry carries an error (ToEntry, uses, duplicates, deviate statements), or the flag is up after the
   augment rounds, the reporting pass and the deviations *)
Theorem C04_T2_error_iff : forall SC ignoreCirc ignoreNotSupported order,
  Process SC ignoreCirc ignoreNotSupported order = RErr <->
  includes_fail SC = true \/ (exists m, In m SC /\ snd (module_entry SC ignoreCirc m) = true) \/
  stage_err4 SC ignoreCirc ignoreNotSupported order = true.
Proof. exact Process_err_iff. Qed.

(* ... and the flag never falls: an error recorded while augmenting (conflict, erroneous augment body) or by the
   reporting pass is still there at the end *)
Theorem C04_T2_no_error_lost : forall SC ignoreCirc ignoreNotSupported order,
  (stage_err1 SC ignoreCirc order = true -> stage_err3 SC ignoreCirc order = true) /\
  (stage_err3 SC ignoreCirc order = true -> stage_err4 SC ignoreCirc ignoreNotSupported order = true).
Proof. exact stage_err_mono. Qed.

(* Augment(true) reports every augment it cannot apply *)
Theorem C04_T2_unapplied_reported : forall SC pending F err,
  snd (augment_module SC F err pending true) <> [] ->
  snd (fst (fst (augment_module SC F err pending true))) = true.
Proof. exact augment_module_report. Qed.

(* no augment is left pending in a clean result: every module the reporting pass visits (those the rounds left with
   pending augments) ends with an empty list *)
Theorem C04_T2_no_pending_augment : forall SC ignoreCirc ignoreNotSupported order F,
  Process SC ignoreCirc ignoreNotSupported order = ROk F ->
  forall mn, In mn (stage_mods1 SC ignoreCirc order) -> pend_of (stage_P3 SC ignoreCirc order) mn = [].
Proof. exact Process_ok_no_pending. Qed.

(* ------------------------------------------------------------------ non-vacuity *)
Definition s (x : list nat) : str := map N.of_nat x.
Definition n_a := s [97]. Definition n_b := s [98]. Definition n_c := s [99]. Definition n_x := s [120].
Definition n_g := s [103]. Definition n_m := s [109]. Definition n_p := s [112].
Definition t_string := s [115;116;114;105;110;103].
Definition lf (n : str) := DLeaf n t_string TSUnset TSUnset None None.

(* module m { prefix p; grouping g { leaf x; choice c { leaf b; } }  container a { uses g; }
              augment "/p:a" { leaf b; } }   -- leaf b under choice c gets its implicit case *)
Definition ex_mod : module :=
  {| m_name := n_m; m_prefix := n_p; m_ns := s [117]; m_belongs := None; m_imports := []; m_includes := [];
     m_body := [DGrouping 1 n_g [lf n_x; DChoice n_c TSUnset TSUnset None [lf n_b]]; DContainer n_a TSUnset [DUses n_g]];
     m_augments := [(s [47;112;58;97], [lf n_b])]; m_deviations := [] |}.

Example C04_ex_clean : exists F, Process [ex_mod] false false [n_m] = ROk F /\
  NoDup (map m_name [ex_mod]) /\ (forall m, In m [ex_mod] -> In (m_name m) [n_m]) /\
  final_applied [ex_mod] false [n_m] = 0 /\
  match locate_pos F (n_m, [SChild n_a; SChild n_c; SChild n_b; SChild n_b]) with
  | Some e => e_kind e = KLeaf | None => False end.
Proof.
  eexists. split; [vm_compute; reflexivity|].
  split; [repeat constructor; intros []|]. split; [intros m [<-|[]]; left; reflexivity|].
  vm_compute. repeat split.
Qed.

(* a late conflict: the augment adds a name the uses already brought: error, not a clean result *)
Definition ex_conflict : module :=
  {| m_name := n_m; m_prefix := n_p; m_ns := s [117]; m_belongs := None; m_imports := []; m_includes := [];
     m_body := [DGrouping 1 n_g [lf n_x]; DContainer n_a TSUnset [DUses n_g]];
     m_augments := [(s [47;112;58;97], [lf n_x])]; m_deviations := [] |}.
Example C04_ex_conflict : Process [ex_conflict] false false [n_m] = RErr /\
  stage_err1 [ex_conflict] false [n_m] = true.
Proof. vm_compute. split; reflexivity. Qed.

(* ---- the reader (Model/Reader.v): the step text -> abstract module sources is inside the model.
   read_module reads a parsed module / submodule statement (Model/Parse.v) into Schema.module, for exactly the subset
   Schema.dnode / deviate / module express; everything else is rejected.  render_module is the renderer at the
   statement-tree level.  The check (check/props/c04.py, reader leg) compares on every run what the Python renderer
   and encoder of schema_gen.py produce against this reader (read_text, resolve_text). *)
From GY Require Model.Parse.
From GY Require Import Model.Reader Proofs.ReaderProofs.

(* reading back the rendering of a module gives the module, ghost ids included, whenever the module has a text at all
   (reader_wf: ghost ids in canonical numbering 1, 2, ...; min/max-elements <= MaxUint64; a submodule has no namespace) *)
Theorem C04_reader_roundtrip : forall m, reader_wf m = true -> read_module (render_module m) = Some m.
Proof. exact reader_roundtrip. Qed.

(* the same with the ghost ids counted from any g: how read_schema / process_text number a whole set of texts *)
Theorem C04_reader_roundtrip_from : forall m g g', reader_wf_from m g = Some g' ->
  obind (read_module0 (render_module m)) (fun m0 => Some (number_module m0 g)) = Some (m, g').
Proof. exact reader_roundtrip_from. Qed.

(* per data definition: the statement reads back as the node (ghost ids erased: the text does not carry them) *)
Theorem C04_reader_dnode_roundtrip : forall d, nums_ok d = true -> read_dnode (render_dnode d) = Some (erase d).
Proof. exact read_dnode_render. Qed.

(* the ghost ids the reader assigns are the canonical ones *)
Theorem C04_reader_numbering : forall l g g',
  check_nodes l g = Some g' -> number_nodes (map erase l) g = (l, g').
Proof. exact number_nodes_check. Qed.

(* non-vacuity: a module with nested groupings, uses, list, rpc, choice, augment, deviation, import, include satisfies
   the hypothesis and round-trips; a text is read; a text with a statement outside the subset is rejected *)
Example C04_reader_wf_example : reader_wf ex_module = true.
Proof. exact ex_module_wf. Qed.
Example C04_reader_text_example : exists m, read_text ex_text = Some m /\ m_name m = [109%N].
Proof. eexists. split. - exact ex_text_read. - reflexivity. Qed.

(* ------------------------------------------------------------------ from TEXT: printer + parser + reader
   [Printer.print_forest] (Model/Printer.v) writes a statement forest as YANG text that the parser provably reads back
   (C02_print_parse).  Composed with the reader round trip: the text printed from the rendered module is read by
   [read_text] -- lexer, parser and reader models end to end -- as the module itself.  Partial: that the rendered tree is
   printable and ASCII, and that the reader does not look at positions, are hypotheses (boolean / by inspection of
   Model/Reader.v; all three hold by computation on the example module of Proofs/PrinterReaderProofs.v). *)
From GY Require Proofs.PrinterReaderProofs.
Theorem C04_reader_print_read_text_partial : forall m : Schema.module, Reader.reader_wf m = true ->
  Printer.forest_ok [Spec.C02.erase (Reader.render_module m)] = true ->
  Reader.is_ascii (Printer.print_forest [Spec.C02.erase (Reader.render_module m)]) = true ->
  (forall s', Spec.C02.erase s' = Spec.C02.erase (Reader.render_module m) ->
              Reader.read_module0 s' = Reader.read_module0 (Reader.render_module m)) ->
  Reader.read_text (Printer.print_forest [Spec.C02.erase (Reader.render_module m)]) = Some m.
Proof. exact PrinterReaderProofs.print_render_read_text_partial. Qed.

(* the hypotheses of the partial theorem above discharged: the reader never looks at positions, and printability / ASCII-ness
   of the rendered tree follow from ONE computable predicate on the module ([printable m]: every keyword of the rendered tree is
   a single unquoted token, every rune of every keyword and argument is below 128).  So for every well-formed printable module
   the TEXT printed from it is read back -- lexer, parser and reader models end to end -- as the module itself.  (That
   [printable m] is equivalent to "every rune of every string field of m is below 128" is not proved; it is computable on m.) *)
From GY Require Proofs.PrinterReaderFull.

Theorem C04_reader_ignores_positions : forall s s', Spec.C02.erase s' = Spec.C02.erase s ->
  Reader.read_module0 s' = Reader.read_module0 s.
Proof. exact PrinterReaderFull.read_module0_positions. Qed.

Theorem C04_reader_text_roundtrip : forall m : Schema.module, Reader.reader_wf m = true -> PrinterReaderFull.printable m = true ->
  Reader.read_text (Printer.print_forest [Spec.C02.erase (Reader.render_module m)]) = Some m.
Proof. exact PrinterReaderFull.print_render_read_text. Qed.

Example C04_reader_text_roundtrip_ex : Reader.reader_wf ReaderProofs.ex_module = true /\ PrinterReaderFull.printable ReaderProofs.ex_module = true.
Proof. exact PrinterReaderFull.print_render_read_text_full_ex. Qed.
