(* C04 -- placeholder while the development is being built; replaced below *)
From Coq Require Import List.
From GY Require Import Model.Schema.
Import ListNotations.
Theorem C04_stub : forall e, locate e [] = Some e.
Proof. intros; reflexivity. Qed.
