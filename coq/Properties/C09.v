(* C09 — Type names bind lexically and derived types inherit the whole chain.
   Only statements, closed by [exact], and non-vacuity examples.

   Model/Types.v: lookup_type (the switch at the head of Type.resolve: BaseTypedefs, ancestor walk + wholeModule,
   findExternal), wholeModule, resolve_type / resolve_td (Type.resolve / Typedef.resolve on fuel, with the
   `resolving` marks), process (resolveTypedefs + every leaf).
   Spec/C09.v: binds, in_whole, chain, chain_type, reaches/cyclic. *)
From Coq Require Import Ascii String List Bool Arith NArith ZArith Lia.
From GY Require Import Base.Outcome Model.Number Model.Range Model.Types Spec.C15 Spec.C10 Spec.C09 Proofs.RangeProofs
  Proofs.TypesProofs.
Import ListNotations.
Local Open Scope string_scope.
Local Open Scope list_scope.

(* ------------------------------------------------------------------ T1: lexical binding *)

(* wholeModule returns exactly: the (sub)module, the module it belongs to, everything these include, transitively *)
Theorem C09_whole_module : forall S root x, In x (wholeModule S root) <-> in_whole S root x.
Proof. exact wholeModule_spec. Qed.

(* the typedef the lookup returns is one the reference binds: innermost enclosing declaring scope, else top level of
   the whole module; foreign prefix: top level of the whole module of exactly the imported module *)
Theorem C09_lookup_sound : forall S st tname key td,
  lookup_type S st tname = LFound key td -> binds S st tname key td.
Proof. exact lookup_sound. Qed.

(* built-in names denote the built-in types, whatever typedefs exist *)
Theorem C09_lookup_builtin : forall S st tname k,
  lookup_type S st tname = LBuiltin k <-> base_kind tname = Some k.
Proof. exact lookup_builtin. Qed.

(* the lookup fails iff the name is not built in and binds nothing *)
Theorem C09_lookup_none : forall S st tname,
  lookup_type S st tname = LNone <-> base_kind tname = None /\ forall key td, ~ binds S st tname key td.
Proof. exact lookup_none. Qed.

(* with unique top-level names per whole module, binds names one typedef and the lookup returns exactly that one *)
Theorem C09_binds_functional : forall S st tname key td key' td',
  unique_top S -> binds S st tname key td -> binds S st tname key' td' -> key = key' /\ td = td'.
Proof. exact binds_functional. Qed.

Theorem C09_lookup_exact : forall S st tname key td,
  unique_top S -> (lookup_type S st tname = LFound key td <-> binds S st tname key td).
Proof. exact lookup_exact. Qed.

(* ------------------------------------------------------------------ T2: chain inheritance *)

(* for any fuel: a successfully resolved reference has a chain of bound typedefs down to a built-in kind, every
   union member type of every link resolves, and the result is the chain type: base kind, nearest units / default /
   fraction-digits / range / length / path / enum set / bit set, patterns and union members accumulated from the
   base outward without repetitions *)
Theorem C09_chain_type : forall S fuel st t y,
  resolve_type S fuel st t = Ok y ->
  exists tds k mss,
    chain S st t tds k /\
    members_ok (fun st u yu => resolve_type S fuel st u = Ok yu) (links st t tds) mss /\
    y = chain_type k t (map snd tds) mss.
Proof. exact resolve_chain. Qed.

(* the same along the resolver's own lookups (a deterministic chain) *)
Theorem C09_chain_steps : forall S fuel st t y,
  resolve_type S fuel st t = Ok y ->
  exists tds k mss,
    lchain S st t tds k /\
    members_ok (fun st u yu => resolve_type S fuel st u = Ok yu) (links st t tds) mss /\
    y = chain_type k t (map snd tds) mss.
Proof. exact resolve_lchain. Qed.

(* memoisation is sound: a success does not depend on which typedefs are marked `resolving`, nor on spare fuel *)
Theorem C09_marks_irrelevant : forall S f F marks st t y,
  f <= F -> resolve_ty S (resolve_td S f) marks st t = Ok y -> resolve_type S F st t = Ok y.
Proof. exact resolve_marks_irrelevant. Qed.

(* ------------------------------------------------------------------ T3: errors *)

(* unknown name, unknown prefix, name not visible from here *)
Theorem C09_unbound_error : forall S fuel st t,
  base_kind (t_name t) = None -> (forall key td, ~ binds S st (t_name t) key td) ->
  resolve_type S fuel st t = Err.
Proof. exact resolve_unbound_spec. Qed.

(* no finite chain down to a built-in type (unknown somewhere on the way, or cyclic) *)
Theorem C09_no_chain_error : forall S fuel st t,
  count_typedefs S < fuel -> (forall tds k, ~ lchain S st t tds k) -> resolve_type S fuel st t = Err.
Proof. exact resolve_no_chain. Qed.

(* cyclic: the chain of the reference meets a typedef that is based on itself *)
Theorem C09_cyclic_error : forall S fuel st t key td,
  count_typedefs S < fuel -> reaches S st t key td -> cyclic S key td -> resolve_type S fuel st t = Err.
Proof. exact resolve_cyclic. Qed.

Theorem C09_cyclic_error_spec : forall S fuel st t key td,
  unique_top S -> count_typedefs S < fuel ->
  breaches S st t key td -> breaches S (site_of key) (td_type td) key td ->
  resolve_type S fuel st t = Err.
Proof. exact resolve_cyclic_spec. Qed.

(* resolveTypedefs reports the typedef itself *)
Theorem C09_cyclic_typedef_error : forall S fuel key td,
  count_typedefs S < fuel -> In key (all_keys S) -> cyclic S key td -> resolve_td S fuel [] key td = Err.
Proof. exact resolve_td_cyclic. Qed.

(* an erroneous union member is an error of the union *)
Theorem C09_member_error : forall S fuel st t u,
  In u (t_members t) -> resolve_type S fuel st u = Err -> forall y, resolve_type S fuel st t <> Ok y.
Proof. exact resolve_member_err. Qed.

(* converse of T2 (full): a resolvable reference -- name built in or bound to a typedef whose own type is resolvable,
   local checks passed (fraction-digits exactly at decimal64 and in 1..18, identityref base, no repeated enum/bit
   names), every listed union member type resolvable, recursively -- resolves, to a type of its base kind *)
Theorem C09_resolves : forall S fuel st t k,
  count_typedefs S < fuel -> resolvable S st t k ->
  exists y, resolve_type S fuel st t = Ok y /\ y_kind y = k.
Proof. exact resolve_complete. Qed.

Theorem C09_resolved_is_resolvable : forall S fuel st t y,
  resolve_type S fuel st t = Ok y -> resolvable S st t (y_kind y).
Proof. exact resolve_ok_resolvable. Qed.

Theorem C09_ok_iff : forall S fuel st t,
  count_typedefs S < fuel ->
  ((exists y, resolve_type S fuel st t = Ok y) <-> exists k, resolvable S st t k).
Proof. exact resolve_ok_iff. Qed.

(* resolvable, read along the whole chain: a chain of bound typedefs down to the built-in kind, every type statement
   of it locally well formed, every union member of every type statement resolvable *)
Theorem C09_resolvable_chain : forall S st t k,
  resolvable S st t k <->
  exists tds, lchain S st t tds k /\ links_ok k (map snd (links st t tds)) /\
              forall l, In l (links st t tds) -> forall u, In u (t_members (snd l)) ->
                        exists k', resolvable S (fst l) u k'.
Proof. exact resolvable_chain. Qed.

(* T2 + T3 together: the resolver reports an error exactly when there is no finite chain of bound typedefs down to a
   built-in type, or a type statement of the chain fails a local check, or a union member of a type statement of the
   chain is itself an error *)
Theorem C09_error_iff : forall S fuel st t,
  count_typedefs S < fuel ->
  (resolve_type S fuel st t = Err <->
   (forall tds k, ~ lchain S st t tds k) \/
   exists tds k, lchain S st t tds k /\
     (~ links_ok k (map snd (links st t tds)) \/
      exists l u, In l (links st t tds) /\ In u (t_members (snd l)) /\ resolve_type S fuel (fst l) u = Err)).
Proof. exact resolve_error_causes. Qed.

(* ... and there is no such chain exactly when following the bindings from the reference ends at a name that binds
   nothing (unknown name, unknown prefix, not visible) or meets a typedef that is based on itself *)
Theorem C09_no_chain_iff : forall S st t,
  (forall tds k, ~ lchain S st t tds k) <->
  (lookup_type S st (t_name t) = LNone \/
   (exists key td, reaches S st t key td /\ lookup_type S (site_of key) (t_name (td_type td)) = LNone) \/
   (exists key td, reaches S st t key td /\ cyclic S key td)).
Proof. exact no_chain_causes. Qed.

Theorem C09_error_iff_unresolvable : forall S fuel st t,
  count_typedefs S < fuel ->
  (resolve_type S fuel st t = Err <-> ~ exists k, resolvable S st t k).
Proof. exact resolve_error_iff. Qed.

(* a verdict reached without running out of fuel is the verdict for every larger fuel *)
Theorem C09_fuel_stable : forall S f1 f2 st t r,
  f1 <= f2 -> resolve_type S f1 st t = r -> r <> Unmodelled -> resolve_type S f2 st t = r.
Proof. exact resolve_type_stable. Qed.

(* a chain to a built-in type never meets a typedef twice *)
Theorem C09_chain_acyclic : forall S st t tds k, lchain S st t tds k -> NoDup (map fst tds).
Proof. exact lchain_nodup. Qed.

(* ------------------------------------------------------------------ resolved ranges of integer types (C09 x C10) *)

(* range_of composes C10's parseChildRanges along the chain of T2, from the built-in range of the base kind outward
   over the range statements of the chain's type statements; whatever it returns is derived (C10) from the built-in
   range: well formed, non-empty, within the built-in range -- and each step within its parent (C10_parseChildRanges) *)
Theorem C09_range_composition : forall S st t r,
  range_of S st t = Ok (Some r) ->
  exists tds k,
    lchain S st t tds k /\ int_bounds k <> None /\
    apply_ranges (base_range k) (chain_range_texts t (map snd tds)) = Ok r /\
    derived 0 false (base_range k) r /\
    WF r /\ r <> [] /\ subset (den r) (den (base_range k)).
Proof. exact range_of_spec. Qed.

Theorem C09_range_defined : forall S st t tds k,
  lchain S st t tds k -> int_bounds k <> None ->
  range_of S st t = (r <- apply_ranges (base_range k) (chain_range_texts t (map snd tds)) ;; Ok (Some r)).
Proof. exact range_of_defined. Qed.

Theorem C09_range_no_panic : forall S st t, range_of S st t <> Panic.
Proof. exact range_of_no_panic. Qed.

(* the opaque range text of the resolved type (nearest range statement, T2) is the last text range_of applies *)
Theorem C09_range_text_is_last : forall k t tds mss,
  y_range (chain_type k t tds mss) = hd_error (rev (chain_range_texts t tds)).
Proof. exact range_text_is_last. Qed.

(* ------------------------------------------------------------------ T3 (termination) / T4 (totality) *)

(* number of typedefs + 1 is enough fuel: thanks to the resolving marks the recursion ends, cyclic or not *)
Theorem C09_total : forall S fuel st t,
  count_typedefs S < fuel ->
  resolve_type S fuel st t <> Panic /\ resolve_type S fuel st t <> Unmodelled.
Proof. exact resolve_total. Qed.

Theorem C09_no_panic : forall S fuel st t, resolve_type S fuel st t <> Panic.
Proof. exact resolve_no_panic. Qed.

(* what the harness runs: every leaf and every typedef gets a verdict *)
Theorem C09_process_total : forall S name o,
  In (name, o) (snd (process S)) -> o <> Panic /\ o <> Unmodelled.
Proof. exact process_total. Qed.

Theorem C09_typedefs_total : forall S key o,
  In (key, o) (typedef_results S) -> o <> Panic /\ o <> Unmodelled.
Proof. exact typedef_results_total. Qed.

(* ------------------------------------------------------------------ non-vacuity *)

Definition rf (n : string) : tref := TRef n None None None [] [] [] None None [].
Definition rpat (n : string) (ps : list string) : tref := TRef n None None None ps [] [] None None [].
Definition tdf (n : string) (t : tref) (u d : option string) : typedef :=
  {| td_name := n; td_type := t; td_units := u; td_default := d |}.
Definition lf (n : string) (t : tref) : leaf := {| lf_name := n; lf_type := t |}.

(* module m0 { prefix p; include s0;
     typedef t0 { type int8; units "top"; }  typedef t1 { type t0; }  typedef string { type int16; }
     typedef a { type string { pattern "x"; pattern "y"; } default "d"; }  typedef b { type p:a { pattern "y"; pattern "z"; } }
     typedef c1 { type c2; } typedef c2 { type c1; }
     container { typedef t0 { type t1; units "inner"; }   // based, through t1, on the OUTER t0: not a cycle
                 container { leaf l { type t0; } leaf s { type sub; } } } }
   submodule s0 { belongs-to m0 { prefix pp; } typedef sub { type pp:b; } }
   module m1 { prefix q; import m0 { prefix x; } typedef t0 { type boolean; } } *)
Definition ex_m0 : module :=
  {| m_name := "m0"; m_sub := false; m_rev := ""; m_prefix := "p"; m_belongs := ""; m_imports := []; m_includes := [("s0", None)];
     m_top := Scope [tdf "t0" (rf "int8") (Some "top") None; tdf "t1" (rf "t0") None None; tdf "string" (rf "int16") None None;
                     tdf "a" (rpat "string" ["x"; "y"]) None (Some "d"); tdf "b" (rpat "p:a" ["y"; "z"]) None None;
                     tdf "c1" (rf "c2") None None; tdf "c2" (rf "c1") None None]
                    [Scope [tdf "t0" (rf "t1") (Some "inner") None]
                           [Scope [] [] [lf "l" (rf "t0"); lf "s" (rf "sub")]] []] [] |}.
Definition ex_s0 : module :=
  {| m_name := "s0"; m_sub := true; m_rev := ""; m_prefix := "pp"; m_belongs := "m0"; m_imports := []; m_includes := [];
     m_top := Scope [tdf "sub" (rf "pp:b") None None] [] [] |}.
Definition ex_m1 : module :=
  {| m_name := "m1"; m_sub := false; m_rev := ""; m_prefix := "q"; m_belongs := ""; m_imports := [("x", ("m0", None))]; m_includes := [];
     m_top := Scope [tdf "t0" (rf "boolean") None None] [] [] |}.
Definition ex_S : schema := [ex_m0; ex_s0; ex_m1].

(* nearest scope wins; the inner t0 is based (through t1) on the outer one *)
Example C09_ex_nearest :
  resolve_type ex_S (resolve_fuel ex_S) (0, [0; 0]) (rf "t0")
  = Ok (YT "t0" Yint8 "inner" "" false 0 None None [] None None "" None []).
Proof. vm_compute. reflexivity. Qed.

(* a built-in name is the built-in type even when a typedef of that name is in scope; with the own prefix it is the
   typedef *)
Example C09_ex_builtin_first :
  lookup_type ex_S (0, []) "string" = LBuiltin Ystring /\
  exists td, lookup_type ex_S (0, []) "p:string" = LFound (0, [], "string") td.
Proof. split; [vm_compute; reflexivity | eexists; vm_compute; reflexivity]. Qed.

(* typedef of a submodule seen from a nested scope of the module; patterns accumulate without repetition; the
   default comes from two links up *)
Example C09_ex_chain :
  resolve_type ex_S (resolve_fuel ex_S) (0, [0; 0]) (rf "sub")
  = Ok (YT "sub" Ystring "" "d" true 0 None None ["x"; "y"; "z"] None None "" None []).
Proof. vm_compute. reflexivity. Qed.

(* a foreign prefix reaches the imported module's submodule, and never the local typedef of the same name *)
Example C09_ex_foreign :
  (exists td, lookup_type ex_S (2, []) "x:sub" = LFound (1, [], "sub") td) /\
  (exists td, lookup_type ex_S (2, []) "x:t0" = LFound (0, [], "t0") td) /\
  (exists td, lookup_type ex_S (2, []) "t0" = LFound (2, [], "t0") td) /\
  lookup_type ex_S (2, []) "p:t0" = LNone /\           (* p is not a prefix known in m1 *)
  lookup_type ex_S (2, []) "x:nosuch" = LNone.
Proof. repeat split; try (eexists; vm_compute; reflexivity); vm_compute; reflexivity. Qed.

(* cyclic typedefs are errors, with the fuel the harness uses *)
Example C09_ex_cycle :
  resolve_type ex_S (resolve_fuel ex_S) (0, []) (rf "c1") = Err /\
  cyclic ex_S (0, [], "c1") (tdf "c1" (rf "c2") None None).
Proof.
  split; [vm_compute; reflexivity|].
  unfold cyclic. eapply R_more; [vm_compute; reflexivity|]. eapply R_one. vm_compute. reflexivity.
Qed.

(* the hypothesis unique_top is satisfiable *)
Example C09_ex_unique_top : unique_top [ex_m1].
Proof.
  assert (Hw : forall root x, root = 0 -> in_whole [ex_m1] root x -> x = 0).
  { intros root x Hr H. induction H as [| o Ho | a b Ha IHa Hb].
    - exact Hr.
    - subst root. destruct Ho.
    - rewrite IHa in Hb. destruct Hb. }
  intros root a b Ma Mb name tda tdb Ha Hb HMa HMb _ _.
  assert (Hroot : root = 0 \/ root <> 0) by lia. destruct Hroot as [Hr | Hr].
  - rewrite (Hw root a Hr Ha), (Hw root b Hr Hb). reflexivity.
  - assert (Hx : forall x, in_whole [ex_m1] root x -> x = root).
    { intros x H. induction H as [| o Ho | a' b' Ha' IHa' Hb'].
      - reflexivity.
      - exfalso. unfold owner in Ho. destruct root as [|r]; [congruence|]. destruct r; destruct Ho.
      - rewrite IHa' in Hb'. exfalso. unfold includes in Hb'. destruct root as [|r]; [congruence|].
        destruct r; destruct Hb'. }
    rewrite (Hx a Ha), (Hx b Hb). reflexivity.
Qed.

(* the whole module of the submodule: itself, its owner (and what the owner includes) *)
Example C09_ex_whole : wholeModule ex_S 1 = [1; 0] /\ wholeModule ex_S 0 = [0; 1] /\ wholeModule ex_S 2 = [2].
Proof. vm_compute. auto. Qed.

(* chains exist: leaf l's chain  t0 (inner) -> t1 -> t0 (top) -> int8 *)
Example C09_ex_lchain :
  exists tds, lchain ex_S (0, [0; 0]) (rf "t0") tds Yint8 /\ map fst tds = [(0, [0], "t0"); (0, [], "t1"); (0, [], "t0")] /\
              Forall (fun l => t_members (snd l) = []) (links (0, [0; 0]) (rf "t0") tds) /\
              links_ok Yint8 (map snd (links (0, [0; 0]) (rf "t0") tds)).
Proof.
  eexists. split.
  - eapply LChStep; [vm_compute; reflexivity|]. eapply LChStep; [vm_compute; reflexivity|].
    eapply LChStep; [vm_compute; reflexivity|]. eapply LChBase. vm_compute. reflexivity.
  - split; [reflexivity|]. split.
    + repeat constructor.
    + cbn. unfold link_ok. cbn. repeat split; try reflexivity; intros; discriminate.
Qed.

(* two revisions of one module loaded together: an import that pins a revision-date denotes exactly that revision,
   an import without one the latest, whatever the load order *)
Definition ex_lib (rev : string) (base : string) : module :=
  {| m_name := "lib"; m_sub := false; m_rev := rev; m_prefix := "lib"; m_belongs := ""; m_imports := [];
     m_includes := []; m_top := Scope [tdf "id" (rf base) (Some rev) None] [] [] |}.
Definition ex_user (name : string) (pin : option string) : module :=
  {| m_name := name; m_sub := false; m_rev := ""; m_prefix := "u"; m_belongs := "";
     m_imports := [("l", ("lib", pin))]; m_includes := []; m_top := Scope [] [] [lf "x" (rf "l:id")] |}.
Definition ex_R : schema :=
  [ex_lib "2021-01-01" "uint32"; ex_user "pinned" (Some "2020-01-01"); ex_lib "2020-01-01" "string";
   ex_user "floating" None].

Example C09_ex_pinned_revision :
  resolve_type ex_R (resolve_fuel ex_R) (1, []) (rf "l:id")
  = Ok (YT "id" Ystring "2020-01-01" "" false 0 None None [] None None "" None []) /\
  resolve_type ex_R (resolve_fuel ex_R) (3, []) (rf "l:id")
  = Ok (YT "id" Yuint32 "2021-01-01" "" false 0 None None [] None None "" None []) /\
  resolve_type (rev ex_R) (resolve_fuel ex_R) (2, []) (rf "l:id")
  = Ok (YT "id" Ystring "2020-01-01" "" false 0 None None [] None None "" None []) /\
  resolve_type (rev ex_R) (resolve_fuel ex_R) (0, []) (rf "l:id")
  = Ok (YT "id" Yuint32 "2021-01-01" "" false 0 None None [] None None "" None []).
Proof. vm_compute. auto. Qed.

(* resolvable is inhabited, union members included: type union { type t0; type string { pattern "a"; } } in the
   innermost scope of m0 *)
Example C09_ex_resolvable :
  resolvable ex_S (0, [0; 0])
    (TRef "union" None None None [] [] [] None None [rf "t0"; rpat "string" ["a"]]) Yunion.
Proof.
  assert (L : forall k n ps, k <> Ydecimal64 -> k <> Yidentityref -> forall b ms,
                link_ok k b (TRef n None None None ps [] [] None None ms)).
  { intros k n ps Hd Hi b ms. unfold link_ok. cbn [t_fd t_enums t_bits t_idbase nodup_names].
    destruct (kind_eqb k Ydecimal64) eqn:E; [exfalso; apply Hd; apply kind_eqb_eq; exact E|].
    rewrite andb_false_r. repeat split; try reflexivity. intros _ Hk. contradiction. }
  apply RS_base; [vm_compute; reflexivity | apply L; discriminate |].
  intros u [Hu | [Hu | []]]; subst u.
  - exists Yint8. eapply RS_step; [vm_compute; reflexivity | | apply L; discriminate | intros u []].
    eapply RS_step; [vm_compute; reflexivity | | apply L; discriminate | intros u []].
    eapply RS_step; [vm_compute; reflexivity | | apply L; discriminate | intros u []].
    apply RS_base; [vm_compute; reflexivity | apply L; discriminate | intros u []].
  - exists Ystring. apply RS_base; [vm_compute; reflexivity | apply L; discriminate | intros u []].
Qed.

(* typedef r1 { type int8 { range "1..100"; } }  typedef r2 { type r1 { range "min..50 | 60..max"; } }
   leaf x { type r2 { range "10..20|70"; } }: each range within its parent; widening is an error *)
Definition rrg (n : string) (r : string) : tref := TRef n None (Some r) None [] [] [] None None [].
Definition ex_G : schema :=
  [{| m_name := "g"; m_sub := false; m_rev := ""; m_prefix := "g"; m_belongs := ""; m_imports := []; m_includes := [];
      m_top := Scope [tdf "r1" (rrg "int8" "1..100") None None; tdf "r2" (rrg "r1" "min..50 | 60..max") None None]
                     [] [lf "x" (rrg "r2" "10..20|70"); lf "bad" (rrg "r2" "10..55")] |}].
Example C09_ex_range :
  range_of ex_G (0, []) (rrg "r2" "10..20|70") = Ok (Some [(FromInt 10, FromInt 20); (FromInt 70, FromInt 70)]) /\
  range_of ex_G (0, []) (rf "r2") = Ok (Some [(FromInt 1, FromInt 50); (FromInt 60, FromInt 100)]) /\
  range_of ex_G (0, []) (rrg "r2" "10..55") = Err /\
  any_range_error ex_G = true.
Proof. vm_compute. auto. Qed.
