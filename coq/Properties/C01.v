(* C01 — No input can crash, overflow or hang the loader and resolver: the model side.
   Only statements, closed by [exact], and non-vacuity examples.

   What is proved here is totality of the Gallina models: every modelled function returns (Ok or Err,
   never Panic), and the explicit fuel of the lexer / parser model is always sufficient, so "out of
   fuel" is excluded by theorem rather than hidden in a default.  Resolver-level termination on cyclic
   typedefs / groupings / identities is the subject of C09 / C11 (their own files); crash-freedom of
   the Go code itself is tested, not proved, by check/props/c01.py (isolated-process fuzzing).  What no
   model can exhibit -- Go stack and heap limits, scheduler, GC -- is outside these theorems: PARTIAL.

   Models: Model/Lex.v (lex.go), Model/Parse.v (parse.go), Model/Ast.v (ast.go, over the table
   Gen/YangSchema.v regenerated from yang.go on every run), Model/Enum.v, Model/Range.v, Model/Number.v
   (types.go / types_builtin.go).  Proofs: Proofs/TotalProofs.v (new), AstProofs, EnumProofs,
   RangeProofs, NumberProofs (re-exported). *)
From Coq Require Import List NArith ZArith Bool.
Import ListNotations.
From GY Require Import Base.Outcome.
From GY Require Model.Lex Model.Parse Model.Ast Model.Number Model.Enum Model.Range.
From GY Require Spec.C03 Spec.C10 Spec.C15.
From GY Require Proofs.TotalProofs Proofs.AstProofs Proofs.EnumProofs.
From GY Require Gen.YangSchema.

(* ------------------------------------------------------------------ lexer and parser: fuel is sufficient *)

(* T1: for EVERY lexer record (in particular every state reachable from newLexer) NextToken with the
   model's fuel bound 2*|rest of input| + 8 returns a token or end of input, never "out of fuel" *)
Theorem C01_lexer_terminates : forall l : Lex.lexer, fst (Lex.NextToken (Lex.lex_fuel l) l) <> None.
Proof. exact TotalProofs.NextToken_fuel_enough. Qed.

(* T2: Parse is a total function of the text: the out-of-fuel flag (set by any of the fuelled loops:
   token skipping, "+" concatenation, statement nesting, substatement lists, top-level list) is false
   for every input *)
Theorem C01_parse_terminates : forall input : Lex.str, snd (Parse.Parse input) = false.
Proof. exact TotalProofs.Parse_never_out_of_fuel. Qed.

(* ------------------------------------------------------------------ the error budget *)

(* T3: in every lexer state reachable from newLexer by NextToken (any fuel) and inPattern switches, at
   most 9 errors have been counted, and once the 9th is counted the rest of the input has been dropped *)
Theorem C01_error_budget : forall l, TotalProofs.lreach l ->
  (Lex.errcnt l <= 9)%nat /\ (Lex.errcnt l = 9%nat -> Lex.after (Lex.cu l) = []).
Proof. exact TotalProofs.lreach_errcnt. Qed.

(* one message per counted error, hence at most 9 lexer messages, all of lexer kinds *)
Theorem C01_error_records : forall l, TotalProofs.lreach l ->
  length (Lex.errs l) = Lex.errcnt l /\ length (Lex.errs l) <= 9 /\
  Forall (fun e => TotalProofs.is_lexer_err e = true) (Lex.errs l).
Proof.
  exact (fun l H => conj (TotalProofs.lreach_lexer_errs l H)
                         (conj (TotalProofs.lreach_errs_bounded l H) (TotalProofs.lreach_all_lexer_errs l H))).
Qed.

(* the 9th message is "too many errors" *)
Theorem C01_ninth_is_too_many : forall l, TotalProofs.lreach l -> Lex.errcnt l = 9 ->
  exists r, Lex.errs l = TotalProofs.tooMany :: r.
Proof. exact TotalProofs.lreach_ninth_is_tooMany. Qed.

(* after the drop lexing ends: no further input, no further message, whatever is asked *)
Theorem C01_lexing_ends_after_drop : forall l, TotalProofs.lreach l -> Lex.errcnt l = 9 ->
  forall f, Lex.after (Lex.cu (snd (Lex.NextToken f l))) = [] /\
            Lex.errs (snd (Lex.NextToken f l)) = Lex.errs l.
Proof. exact TotalProofs.lreach_done_after_drop. Qed.

(* T4: whole parser: among the messages of Parse at most 9 come from the lexer (the others are the
   parser's own: unexpected brace, keyword not unquoted, unexpected EOF, syntax, missing braces) *)
Theorem C01_parse_lexer_errors : forall input,
  length (filter TotalProofs.is_lexer_err (snd (fst (Parse.Parse input)))) <= 9.
Proof. exact TotalProofs.Parse_lexer_errors_bounded. Qed.

(* ------------------------------------------------------------------ AST builder (re-exported from C03) *)

(* on a well-formed struct-tag table no reflect panic and no unmodelled case is reachable in build *)
Theorem C01_ast_total : forall S, C03.schema_wf S = true ->
  forall s p, C03.good_parent S p -> Ast.build S s p <> Panic /\ Ast.build S s p <> Unmodelled.
Proof. exact AstProofs.build_total. Qed.

(* and at top level (build + Modules.add) for the table generated from the current sources *)
Theorem C01_ast_top_total : forall s,
  Ast.parse_one YangSchema.schema s <> Panic /\ Ast.parse_one YangSchema.schema s <> Unmodelled.
Proof. exact (AstProofs.parse_one_total _ AstProofs.yang_schema_wf). Qed.

(* ------------------------------------------------------------------ enum / bits loop, numbers, ranges *)

(* the member loop of Type.resolve returns for every member list whose literals are inside the alphabet
   of the strconv model (errors are collected, the loop goes on) *)
Theorem C01_enum_total : forall bits ms,
  (forall name s, In (name, Some s) ms -> Number.ParseInt s <> Unmodelled) ->
  exists e errs, Enum.run_members bits ms = Ok (e, errs).
Proof. exact EnumProofs.run_members_total. Qed.

Theorem C01_parse_int_total : forall s,
  Number.ParseInt s = Unmodelled \/ Number.ParseInt s = Err \/ exists n, Number.ParseInt s = Ok n.
Proof. exact EnumProofs.ParseInt_total. Qed.

(* Number.Int returns a value or an error for every Number ... *)
Theorem C01_int_total : forall n, Number.Int n = Err \/ exists z, Number.Int n = Ok z.
Proof. exact EnumProofs.Int_total. Qed.

(* ... and a returned value is the exact one, inside int64: no wrap-around (D37) *)
Theorem C01_int_never_wraps : forall n, C15.dom n ->
  (exists z, Number.Int n = Ok z /\ z = C15.sval n /\ (- Number.two63 <= z < Number.two63)%Z) \/
  Number.Int n = Err.
Proof. exact TotalProofs.Int_no_wrap. Qed.

(* parseChildRanges never panics on a well-formed parent restriction *)
Theorem C01_ranges_never_panic : forall fd dec y s,
  C10.okRs fd y -> C10.WF y -> (dec = false -> fd = 0%Z) ->
  Range.parseChildRanges y s dec fd <> Panic.
Proof. exact TotalProofs.parseChildRanges_no_panic. Qed.

(* ------------------------------------------------------------------ non-vacuity *)

(* a {b;}  parses, with fuel to spare *)
Example C01_parse_ex :
  Parse.Parse [97;32;123;98;59;125]%N =
  ([Parse.Stmt [97%N] false [] 1 1 0 [Parse.Stmt [98%N] false [] 1 4 3 []]], [], false).
Proof. vm_compute. reflexivity. Qed.

(* a "\a\a\a\a\a\a\a\a\a\a\a\a";  twelve invalid escapes: eight messages, then "too many errors", then
   the parser's unexpected EOF; the budget is reached, not exceeded *)
Example C01_budget_ex :
  let r := Parse.Parse [97;32;34;92;97;92;97;92;97;92;97;92;97;92;97;92;97;92;97;92;97;92;97;92;97;92;97;34;59]%N in
  length (filter TotalProofs.is_lexer_err (snd (fst r))) = 9 /\ length (snd (fst r)) = 10 /\ snd r = false.
Proof. vm_compute. repeat split. Qed.

(* the hypothesis of the budget theorems is satisfiable with errcnt = 9 *)
Example C01_reach_ex :
  let l := snd (Lex.NextToken 100 (Lex.newLexer
             [34;92;97;92;97;92;97;92;97;92;97;92;97;92;97;92;97;92;97;92;97;34]%N)) in
  TotalProofs.lreach l /\ Lex.errcnt l = 9 /\ Lex.after (Lex.cu l) = [].
Proof. split; [apply TotalProofs.lreach_tok, TotalProofs.lreach_new|]. vm_compute. split; reflexivity. Qed.

(* deeply unbalanced and unterminated input still ends: 40 opening braces, then an unterminated string *)
Example C01_unbalanced_ex :
  snd (Parse.Parse (concat (repeat [97;123]%N 40) ++ [34;120]%N)) = false /\
  fst (fst (Parse.Parse (concat (repeat [97;123]%N 40) ++ [34;120]%N))) = [].
Proof. vm_compute. split; reflexivity. Qed.
