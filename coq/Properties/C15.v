(* C15 — Numbers print, parse, convert and compare as exact decimal arithmetic does.
   Only statements, closed by [exact], and Print Assumptions (printed by the checker). *)
From Coq Require Import List NArith ZArith QArith Bool Lia.
Import ListNotations.
From GY Require Import Base.Outcome Model.Number Spec.C15 Proofs.NumberProofs.
Local Open Scope Z_scope.

(* T1: ordering and equality are those of the rationals the numbers denote; every magnitude
   below 2^64, every fraction-digits 0..18, mixed precisions, both signs, -0 = 0. *)
Theorem C15_less : forall n m, dom n -> dom m -> (Less n m = true <-> (val n < val m)%Q).
Proof. exact Less_spec. Qed.
Theorem C15_equal : forall n m, dom n -> dom m -> (Equal n m = true <-> (val n == val m)%Q).
Proof. exact Equal_spec. Qed.

(* T2: conversion to int64 returns the exact value or an error, never a wrapped one, never a panic *)
Theorem C15_int : forall n, dom n ->
  match Int n with
  | Ok z => FractionDigits n = 0 /\ z = sval n /\ - two63 <= z < two63
  | Err => FractionDigits n <> 0 \/ ~ (- two63 <= sval n < two63)
  | _ => False
  end.
Proof. exact Int_spec. Qed.

(* T3 (integers): printing and parsing back gives the very same number *)
Theorem C15_roundtrip_int : forall n, dom n -> FractionDigits n = 0 ->
  exists s, String_ n = Ok s /\ ParseInt s = Ok n.
Proof. exact roundtrip_int. Qed.

(* T4 (integer literals): [sign] digits without a superfluous leading zero denotes its value,
   or is rejected exactly when the magnitude does not fit 64 bits *)
Theorem C15_parse_int_literal : forall sg ds,
  all_digits ds -> ds <> [] -> (ds = [c0] \/ hd c0 ds <> c0) ->
  ParseInt (sign_chars sg ++ ds) =
  if cval 0 ds <=? MaxUint64
  then Ok {| Value := cval 0 ds; FractionDigits := 0; Negative := sg_neg sg |} else Err.
Proof. exact ParseInt_sign_digits. Qed.

(* T4 (decimal literals): [sign] I . F at precision fd yields the mantissa (I F) * 10^(fd-|F|)
   — i.e. exactly the number written — or an error exactly when it has more than fd fraction
   digits or the mantissa does not fit a signed 64-bit integer *)
Theorem C15_parse_decimal_point : forall sg I F fd,
  all_digits I -> all_digits F -> 1 <= fd <= 18 ->
  decimalValueFromString (sign_chars sg ++ I ++ cdot :: F) fd =
  let k := Z.of_nat (length F) in
  if k >? fd then Err
  else let m := cval 0 (I ++ F) * 10 ^ (fd - k) in
       if m <=? (if sg_neg sg then two63 else two63 - 1) then Ok (of_mant (sg_neg sg) m fd) else Err.
Proof. exact dvfs_point. Qed.
Theorem C15_parse_decimal_nopoint : forall sg I fd,
  all_digits I -> I <> [] -> 1 <= fd <= 18 ->
  decimalValueFromString (sign_chars sg ++ I) fd =
  let m := cval 0 I * 10 ^ fd in
  if m <=? (if sg_neg sg then two63 else two63 - 1) then Ok (of_mant (sg_neg sg) m fd) else Err.
Proof. exact dvfs_nopoint. Qed.
Theorem C15_parse_decimal_entry : forall s fd, plain s -> s <> [] -> s <> [cplus] -> s <> [cminus] ->
  ParseDecimal s fd = decimalValueFromString s fd.
Proof. exact ParseDecimal_plain. Qed.

(* the defects repaired by fix: commits, as refutations of the pinned code's behaviour *)
Definition Int_old (n : Number) : outcome Z :=
  if IsDecimal n then Err
  else if Negative n then Ok (wrap64 (- wrap64 (Value n)))
  else if Value n <=? MaxInt64 then Ok (wrap64 (Value n)) else Err.
Theorem C15_int_old_refuted : exists n, dom n /\ Int_old n = Ok 1 /\ sval n <> 1.
Proof. exists {| Value := two64 - 1; FractionDigits := 0; Negative := true |}.
  split; [|split]; [unfold dom; vm_compute; intuition discriminate | vm_compute; reflexivity | vm_compute; discriminate]. Qed.

(* non-vacuity *)
Example C15_less_ex :
  Less {| Value := 15; FractionDigits := 1; Negative := false |}
       {| Value := 1500000000000000001; FractionDigits := 18; Negative := false |} = true.
Proof. vm_compute. reflexivity. Qed.
Example C15_dom_ex : dom {| Value := two64 - 1; FractionDigits := 18; Negative := true |}.
Proof. unfold dom; vm_compute; intuition discriminate. Qed.

(* T3 (decimal64): printing a decimal64 value (signed 64-bit mantissa, 1..18 fraction digits) and
   parsing the text back at the same precision never fails and returns a number with the same
   mantissa and precision that is Equal to / denotes the same rational as the original; it is the
   very same Number unless the original is -0 (which reads back as +0) *)
From GY Require Import Proofs.NumberRoundtrip.
Theorem C15_roundtrip_dec : forall n, dom_dec n ->
  exists s n', String_ n = Ok s /\ ParseDecimal s (FractionDigits n) = Ok n' /\
    Equal n' n = true /\ (val n' == val n)%Q /\
    Value n' = Value n /\ FractionDigits n' = FractionDigits n /\ (Value n <> 0 -> n' = n).
Proof. exact roundtrip_dec. Qed.
Example C15_dom_dec_ex : dom_dec {| Value := two63; FractionDigits := 18; Negative := true |}.
Proof. unfold dom_dec; vm_compute; intuition discriminate. Qed.
