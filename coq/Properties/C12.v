(* C12 — Config inheritance and namespace attribution follow the instantiated tree.
   Only statements, closed by [exact], and non-vacuity examples.

   [ReadOnly], [Namespace], [InstantiatingModule], [augment_module], [module_entry], [module_augs] are the model
   (Model/Schema.v) of Entry.ReadOnly / Namespace / InstantiatingModule, Entry.Augment, ToEntry(module) in entry.go
   and FindModuleByNamespace in modules.go; [path_entries], [ro_text], [ro_up_pinned], [ntbo], [ns_spec],
   [unstamped], [graft], [inst_spec] are the reference semantics in Spec/C12.v.  T1-T3 hold for EVERY forest. *)
From Coq Require Import List NArith Bool Ascii String.
From GY Require Import Model.Schema Spec.C17 Spec.C12 Proofs.FindProofs Proofs.ConfigNsProofs Proofs.AttributionProofs.
From GY Require Spec.C07 Proofs.AugmentProofs.
Import ListNotations.
Local Open Scope N_scope.

(* T1: for every forest and position, ReadOnly is the property's wording evaluated on the entries of the path:
   read-only iff some entry on the path (the node included) is an rpc/action output, or the last explicit config
   on the path says false; no explicit config and no output: read-write.  (Also when the position does not
   exist: the walk then stops at the deepest existing entry of the path.) *)
Theorem C12_readonly : forall F mn steps root, lookup mn F = Some root ->
  ReadOnly F (mn, steps) = ro_text (path_entries root steps).
Proof. exact ReadOnly_spec. Qed.

(* the upward walk of the pinned entry.go (an Output kind answered at the level where it was met, an explicit
   Config below it answered first) computed the same on every path without `config true` strictly below an output,
   and only there: D58, fixed by c376f44 *)
Theorem C12_readonly_pinned_agrees : forall F mn steps root, lookup mn F = Some root ->
  ntbo false (path_entries root steps) = true ->
  ro_up_pinned false (rev (path_entries root steps)) = ReadOnly F (mn, steps).
Proof. exact ReadOnly_pinned_agrees. Qed.

Theorem C12_readonly_pinned_refuted : exists es, ro_up_pinned false (rev es) = false /\ ro_text es = true.
Proof. exact ro_up_pinned_refuted. Qed.

(* T2: Namespace is the nearest stamp on the path, the node included and the root excluded, else the namespace of
   the module that owns the tree (for a tree filed under a submodule's name: of the module it belongs to) *)
Theorem C12_namespace : forall SC F mn steps root, lookup mn F = Some root ->
  Namespace SC F (mn, steps) = ns_spec SC root mn steps.
Proof. exact Namespace_spec. Qed.

(* T2 (a), source side: the tree ToEntry builds for a module from its own statements, the statements of its
   submodules (nested includes too) and the groupings they use -- whichever module defines them -- carries no
   stamp, so every node of it has the namespace of the module that owns the tree *)
Theorem C12_module_text_unstamped : forall SC ic m, unstamped (fst (module_entry SC ic m)).
Proof. exact module_entry_unstamped. Qed.

Theorem C12_unstamped_namespace : forall SC F mn steps root, lookup mn F = Some root -> unstamped root ->
  Namespace SC F (mn, steps) = tree_ns SC mn.
Proof. exact Namespace_unstamped. Qed.

(* T2 (b), source side: the body of an augment statement is built without stamps in the context of the declaring
   (sub)module; Entry.Augment on an applicable augment is [graft] with the namespace of the module that owns the
   declaring (sub)module; a grafted child is the augment's child with that namespace stamped on it, and it and
   every node below it report that namespace; the target's previous children and every position off the path to
   the target are untouched *)
Theorem C12_augment_body_unstamped : forall SC m a, In a (module_augs SC m) -> dir_unstamped (a_dir a) /\ a_mod a = m.
Proof. exact module_augs_unstamped. Qed.

Theorem C12_augment_is_graft : forall SC F err a rest addErrors p F1 te d,
  Find SC F (a_mod a) (m_name (a_mod a), []) (a_path a) = (Some p, F1) ->
  locate_pos F1 p = Some te -> e_dir te = Some d ->
  augment_module SC F err (a :: rest) addErrors =
  (let '(F3, err3, n, un) :=
     augment_module SC (graft F1 p (owner_ns SC (a_mod a)) (a_dir a))
                    (err || snd (merge_dir (d, false) None (a_dir a)) || a_err a) rest addErrors in
   (F3, err3, S n, un)).
Proof. exact augment_module_applicable. Qed.

Theorem C12_augment_without_target : forall SC F err a rest addErrors F1,
  Find SC F (a_mod a) (m_name (a_mod a), []) (a_path a) = (None, F1) ->
  augment_module SC F err (a :: rest) addErrors =
  (let '(F3, err3, n, un) := augment_module SC F1 (err || addErrors) rest addErrors in (F3, err3, n, a :: un)).
Proof. exact augment_module_skipped. Qed.

Theorem C12_graft_child : forall F mn ps root te d ns adir, lookup mn F = Some root -> locate root ps = Some te ->
  e_dir te = Some d -> forall k c, lookup k d = None -> lookup k adir = Some c ->
  locate_pos (graft F (mn, ps) ns adir) (mn, ps ++ [SChild k]) = Some (set_ns c (Some ns)).
Proof. exact graft_child. Qed.

Theorem C12_graft_namespace : forall SC F mn ps root te d ns adir, lookup mn F = Some root ->
  locate root ps = Some te -> e_dir te = Some d ->
  forall k c r, lookup k d = None -> lookup k adir = Some c -> unstamped c ->
  Namespace SC (graft F (mn, ps) ns adir) (mn, ps ++ SChild k :: r) = ns.
Proof. exact graft_namespace. Qed.

Theorem C12_graft_old_child : forall F mn ps root te d ns adir, lookup mn F = Some root -> locate root ps = Some te ->
  e_dir te = Some d -> forall k c0 r, lookup k d = Some c0 ->
  locate_pos (graft F (mn, ps) ns adir) (mn, ps ++ SChild k :: r) = locate_pos F (mn, ps ++ SChild k :: r).
Proof. exact graft_old_child. Qed.

Theorem C12_graft_elsewhere : forall F mn ps root te ns adir, lookup mn F = Some root -> locate root ps = Some te ->
  forall q, ~ below q (mn, ps) -> ~ below (mn, ps) q -> locate_pos (graft F (mn, ps) ns adir) q = locate_pos F q.
Proof. exact graft_elsewhere. Qed.

(* an augment changes the namespace and the read-only flag of no node that existed before it; neither does the
   on-demand creation of an rpc/action input or output by a path lookup *)
Theorem C12_graft_keeps_answers : forall SC F mn ps te d ns adir, locate_pos F (mn, ps) = Some te -> e_dir te = Some d ->
  forall q x, locate_pos F q = Some x ->
  Namespace SC (graft F (mn, ps) ns adir) q = Namespace SC F q /\
  ReadOnly (graft F (mn, ps) ns adir) q = ReadOnly F q.
Proof. exact graft_keeps_answers. Qed.

Theorem C12_lazy_io_keeps_answers : forall SC F mn ps te, locate_pos F (mn, ps) = Some te ->
  (forall o, e_rpc te = Some (None, o) -> forall q x, locate_pos F q = Some x ->
     Namespace SC (update_pos F (mn, ps) (add_input o)) q = Namespace SC F q /\
     ReadOnly (update_pos F (mn, ps) (add_input o)) q = ReadOnly F q) /\
  (forall i, e_rpc te = Some (i, None) -> forall q x, locate_pos F q = Some x ->
     Namespace SC (update_pos F (mn, ps) (add_output i)) q = Namespace SC F q /\
     ReadOnly (update_pos F (mn, ps) (add_output i)) q = ReadOnly F q).
Proof. exact lazy_io_keeps_answers. Qed.

(* FixChoice: the case put around a choice member that is not a case has the member's name, holds the member
   under that name and carries the member's namespace stamp (D59, fixed by 20ac024); a child that carries its
   parent's stamp (or none) reports its parent's namespace -- so the implicit case and its member report one
   namespace, that of the text that placed the member *)
Theorem C12_implicit_case : forall f e d k c, e_kind e = KChoice -> e_dir e = Some d -> lookup k d = Some c ->
  e_kind c <> KCase ->
  exists w, dir_lookup (fix_choice (S f) e) k = Some w /\ label w = label (implicit_case c) /\
            dir_lookup w (e_name c) = Some (fix_choice (pred f) c).
Proof. exact fix_choice_member. Qed.

Theorem C12_same_stamp_same_namespace : forall SC F mn ps s root w x, lookup mn F = Some root -> ps <> [] ->
  locate root ps = Some w -> locate w [s] = Some x -> e_ns x = e_ns w \/ e_ns x = None ->
  Namespace SC F (mn, ps ++ [s]) = Namespace SC F (mn, ps).
Proof. exact Namespace_same_stamp. Qed.

(* ------------------------------------------------------------------ T2 (b) END TO END through Process *)
(* For every module set WITHOUT deviation statements whose Process is clean (module names distinct, the visiting order
   contains every module that declares augments):
   (i)  every augment statement a of every module or submodule A of the set is [attributed]: there is a map phi from
        the paths inside a's body to positions of the result such that every node the body defines -- each top-level
        child k and everything below it, whatever uses it expands -- is present at phi (k :: r) with the name and kind it
        was written with and Namespace there is the namespace of the module that owns A.  (The positions are the
        target the augment's path had when it was applied, followed by k :: r, moved by every later FixChoice:
        see C12_fix_choice_carries.)
   (ii) every namespace stamp of the result sits on a node named like a top-level child of the body of an augment of a
        module with that owner namespace (the child itself or the case FixChoice put around it): nothing else is ever
        stamped. *)
Theorem C12_process_attribution : forall SC ic ins order F, Process SC ic ins order = ROk F ->
  NoDup (map m_name SC) -> AugmentProofs.covers (C07.pend0 SC) order -> AugmentProofs.no_deviations SC ->
  (forall a, aug_of SC a -> attributed SC F a) /\ all_trees (from_augment SC) F.
Proof. exact Process_attribution. Qed.

(* (ii) read at a position: Namespace is the namespace of the module owning the tree -- nodes from the module's own
   statements, its submodules', any grouping they use, and the implicit cases around such nodes -- unless a node on
   the path carries a stamp; then it is the owner namespace of a module that declares an augment whose body has a
   top-level child named like the nearest stamped node *)
Theorem C12_namespace_provenance : forall SC F mn steps root, all_trees (from_augment SC) F -> lookup mn F = Some root ->
  Namespace SC F (mn, steps) = tree_ns SC mn \/
  exists a k c s pre x, aug_of SC a /\ lookup k (a_dir a) = Some c /\ locate root (s :: pre) = Some x /\
                        e_name x = e_name c /\ e_ns x = Some (owner_ns SC (a_mod a)) /\
                        Namespace SC F (mn, steps) = owner_ns SC (a_mod a).
Proof. exact Namespace_provenance. Qed.

(* the stages: FixChoice on a forest carries every node to [fix_pos] with its attributes and namespace; so do a
   graft and the on-demand creation of an input or output (at the same position); what is attributed stays
   attributed in every later stage *)
Theorem C12_fix_choice_carries : forall SC n F, carries SC F (fix_forest n F) (fix_pos n F).
Proof. exact carries_fix. Qed.

Theorem C12_update_carries : forall SC F mn ps te f, locate_pos F (mn, ps) = Some te -> keeps_all te f ->
  carries SC F (update_pos F (mn, ps) f) (fun q => q).
Proof. exact carries_update. Qed.

Theorem C12_attributed_carried : forall SC F F' psi a, carries SC F F' psi -> attributed SC F a -> attributed SC F' a.
Proof. exact attributed_carries. Qed.

(* one clean graft attributes its augment *)
Theorem C12_graft_attributed : forall SC F mn ps te d a, good SC a -> locate_pos F (mn, ps) = Some te ->
  e_dir te = Some d -> snd (merge_dir (d, false) None (a_dir a)) = false ->
  attributed SC (graft F (mn, ps) (owner_ns SC (a_mod a)) (a_dir a)) a.
Proof. exact graft_attributed. Qed.

(* deviate statements never touch a node's stamp (the deviation stage is otherwise outside these theorems) *)
Theorem C12_deviate_keeps_stamp : forall r dv t old,
  e_ns (fst (apply_add_replace r dv t)) = e_ns t /\ e_ns (fst (apply_delete dv t)) = e_ns t /\
  e_ns (keep_children old t) = e_ns t.
Proof. intros. exact (conj (apply_add_replace_ns r dv t) (conj (apply_delete_ns dv t) (keep_children_ns old t))). Qed.

(* (iii) source side of T1: the config (and name) of the entry ToEntry builds for a statement are the statement's *)
Theorem C12_entry_config_is_statement_config : forall SC f c busy n,
  e_cfg (fst (to_entry SC (S f) c busy n)) = stmt_cfg n /\ e_name (fst (to_entry SC (S f) c busy n)) = stmt_name n.
Proof. exact to_entry_cfg. Qed.

(* T3: InstantiatingModule names the module whose namespace Namespace returned when exactly one module of the set
   has it; it fails when none has it and when two or more have it *)
Theorem C12_instantiating_module : forall SC F p,
  inst_spec (modules_only SC) (Namespace SC F p) (InstantiatingModule SC F p).
Proof. exact InstantiatingModule_spec. Qed.

Theorem C12_instantiating_module_unique : forall SC F p l1 m l2, modules_only SC = l1 ++ m :: l2 ->
  m_ns m = Namespace SC F p -> (forall x, In x l1 \/ In x l2 -> m_ns x <> Namespace SC F p) ->
  InstantiatingModule SC F p = Some (m_name m).
Proof. exact InstantiatingModule_unique. Qed.

(* ------------------------------------------------------------------ non-vacuity *)
Definition s (x : string) : str := map N_of_ascii (list_ascii_of_string x).
Definition lf (n : string) (cfg : tri) : dnode := DLeaf (s n) (s "string") cfg TSUnset None None.

(* module g { prefix g; grouping gr { container gc { config false; leaf gl; leaf gt { config true; } } } }
   module a { prefix a; import g { prefix g; } include as1;
              container c { uses g:gr; leaf l; }   choice ch { leaf sh { config false; } }
              rpc r { input { leaf i { config false; } } output { leaf o; } } }
   submodule as1 { belongs-to a { prefix a; } container sc { leaf sl; } augment /a:c { leaf fs; } }
   module b { prefix b; import a { prefix xa; }
              augment /xa:c/xa:gc { container bg { leaf bl; } }   augment /xa:ch { leaf ag; } } *)
Definition ex_g : module :=
  {| m_name := s "g"; m_prefix := s "g"; m_ns := s "urn:g"; m_belongs := None; m_imports := []; m_includes := [];
     m_body := [DGrouping 1 (s "gr") [DContainer (s "gc") TSFalse [lf "gl" TSUnset; lf "gt" TSTrue]]];
     m_augments := []; m_deviations := [] |}.
Definition ex_a : module :=
  {| m_name := s "a"; m_prefix := s "a"; m_ns := s "urn:a"; m_belongs := None; m_imports := [(s "g", s "g")];
     m_includes := [s "as1"];
     m_body := [DContainer (s "c") TSUnset [DUses (s "g:gr"); lf "l" TSUnset];
                DChoice (s "ch") TSUnset TSUnset None [lf "sh" TSFalse];
                DRpc false (s "r") (Some [lf "i" TSFalse]) (Some [lf "o" TSUnset])];
     m_augments := []; m_deviations := [] |}.
Definition ex_as1 : module :=
  {| m_name := s "as1"; m_prefix := s "a"; m_ns := []; m_belongs := Some (s "a"); m_imports := [];
     m_includes := []; m_body := [DContainer (s "sc") TSUnset [lf "sl" TSUnset]];
     m_augments := [(s "/a:c", [lf "fs" TSUnset])]; m_deviations := [] |}.
Definition ex_b : module :=
  {| m_name := s "b"; m_prefix := s "b"; m_ns := s "urn:b"; m_belongs := None; m_imports := [(s "xa", s "a")];
     m_includes := []; m_body := [];
     m_augments := [(s "/xa:c/xa:gc", [DContainer (s "bg") TSUnset [lf "bl" TSUnset]]); (s "/xa:ch", [lf "ag" TSUnset])];
     m_deviations := [] |}.
Definition ex_SC : schema := [ex_g; ex_a; ex_as1; ex_b].
Definition ex_order := [s "g"; s "a"; s "as1"; s "b"].
Definition ex_F : forest := match Process ex_SC false false ex_order with ROk F => F | RErr => [] end.

Example C12_ex_processed : Process ex_SC false false ex_order = ROk ex_F.
Proof. vm_compute. reflexivity. Qed.

Definition obs (st : list step) := (Namespace ex_SC ex_F (s "a", st), ReadOnly ex_F (s "a", st), InstantiatingModule ex_SC ex_F (s "a", st)).
Definition C := fun x => SChild (s x).

(* what the property says about this module set, position by position *)
Example C12_ex_observations :
  (* grouping defined in g, used in a: a's namespace; config false inherited from gc; explicit true below it wins *)
  obs [C "c"; C "gc"; C "gl"] = (s "urn:a", true, Some (s "a")) /\
  obs [C "c"; C "gc"; C "gt"] = (s "urn:a", false, Some (s "a")) /\
  obs [C "c"; C "l"] = (s "urn:a", false, Some (s "a")) /\
  (* written in the submodule / grafted by the submodule's augment: the owning module a *)
  obs [C "sc"; C "sl"] = (s "urn:a", false, Some (s "a")) /\
  obs [C "c"; C "fs"] = (s "urn:a", false, Some (s "a")) /\
  (* grafted by b, below a config false container of a grouping: b's namespace, read-only *)
  obs [C "c"; C "gc"; C "bg"] = (s "urn:b", true, Some (s "b")) /\
  obs [C "c"; C "gc"; C "bg"; C "bl"] = (s "urn:b", true, Some (s "b")) /\
  (* implicit cases: the leaf's config does not leak to the case node *)
  obs [C "ch"; C "sh"] = (s "urn:a", false, Some (s "a")) /\
  obs [C "ch"; C "sh"; C "sh"] = (s "urn:a", true, Some (s "a")) /\
  obs [C "ch"; C "ag"; C "ag"] = (s "urn:b", false, Some (s "b")) /\
  (* rpc: output is read-only, input only by explicit config *)
  obs [C "r"; SOut] = (s "urn:a", true, Some (s "a")) /\
  obs [C "r"; SOut; C "o"] = (s "urn:a", true, Some (s "a")) /\
  obs [C "r"; SIn] = (s "urn:a", false, Some (s "a")) /\
  obs [C "r"; SIn; C "i"] = (s "urn:a", true, Some (s "a")).
Proof. vm_compute. repeat split. Qed.

(* the wording evaluated on two paths of this forest, and the pinned walk's input class *)
Example C12_ex_readonly_text : exists root, lookup (s "a") ex_F = Some root /\
  ntbo false (path_entries root [C "r"; SOut; C "o"]) = true /\
  ro_text (path_entries root [C "r"; SOut; C "o"]) = true /\
  ro_text (path_entries root [C "c"; C "gc"; C "gt"]) = false.
Proof. eexists. split; [vm_compute; reflexivity|]. vm_compute. repeat split. Qed.

Example C12_ex_unique : InstantiatingModule ex_SC ex_F (s "a", [C "c"; C "gc"; C "bg"]) = Some (s "b").
Proof.
  apply (InstantiatingModule_unique ex_SC ex_F _ [ex_g; ex_a] ex_b []); [reflexivity|vm_compute; reflexivity|].
  intros x [[<-|[<-|[]]]|[]]; vm_compute; discriminate.
Qed.

(* two modules with one namespace: InstantiatingModule fails (and so does a namespace nobody has) *)
Definition ex_dup : schema :=
  [ {| m_name := s "p"; m_prefix := s "p"; m_ns := s "urn:same"; m_belongs := None; m_imports := []; m_includes := [];
       m_body := [lf "x" TSUnset]; m_augments := []; m_deviations := [] |};
    {| m_name := s "q"; m_prefix := s "q"; m_ns := s "urn:same"; m_belongs := None; m_imports := []; m_includes := [];
       m_body := [lf "y" TSUnset]; m_augments := []; m_deviations := [] |} ].
Example C12_ex_ambiguous :
  match Process ex_dup false false [s "p"; s "q"] with
  | ROk F => Namespace ex_dup F (s "p", [C "x"]) = s "urn:same" /\ InstantiatingModule ex_dup F (s "p", [C "x"]) = None
  | RErr => False
  end.
Proof. vm_compute. split; reflexivity. Qed.

(* the graft lemmas applied to a concrete forest: b's augment of /xa:c/xa:gc *)
Example C12_ex_graft :
  let F0 := match Process [ex_g; ex_a; ex_as1] false false [s "g"; s "a"; s "as1"] with ROk F => F | RErr => [] end in
  let adir := a_dir (hd {| a_mod := ex_b; a_path := []; a_dir := []; a_err := true |} (module_augs ex_SC ex_b)) in
  forall r, Namespace ex_SC (graft F0 (s "a", [C "c"; C "gc"]) (s "urn:b") adir) (s "a", [C "c"; C "gc"] ++ C "bg" :: r)
            = s "urn:b".
Proof.
  intros F0 adir r.
  assert (Hin : In (hd {| a_mod := ex_b; a_path := []; a_dir := []; a_err := true |} (module_augs ex_SC ex_b))
                   (module_augs ex_SC ex_b)) by (left; reflexivity).
  destruct (module_augs_unstamped ex_SC ex_b _ Hin) as [Hu _].
  eapply graft_namespace with (c := match lookup (s "bg") adir with Some c => c | None => newDirectory [] end).
  - vm_compute. reflexivity.
  - vm_compute. reflexivity.
  - vm_compute. reflexivity.
  - vm_compute. reflexivity.
  - vm_compute. reflexivity.
  - apply (Hu (s "bg")). vm_compute. reflexivity.
Qed.

(* `config true` below an output: rpc r { output { leaf x { config true; } } }.  ReadOnly says read-only as the
   property does; the pinned walk said read-write (D58) *)
Definition ex_out : schema :=
  [ {| m_name := s "o"; m_prefix := s "o"; m_ns := s "urn:o"; m_belongs := None; m_imports := []; m_includes := [];
       m_body := [DRpc false (s "r") None (Some [lf "x" TSTrue])]; m_augments := []; m_deviations := [] |} ].
Example C12_ex_config_true_below_output :
  match Process ex_out false false [s "o"] with
  | ROk F => ReadOnly F (s "o", [C "r"; SOut; C "x"]) = true /\
             match lookup (s "o") F with
             | Some root => ro_text (path_entries root [C "r"; SOut; C "x"]) = true /\
                            ro_up_pinned false (rev (path_entries root [C "r"; SOut; C "x"])) = false /\
                            ntbo false (path_entries root [C "r"; SOut; C "x"]) = false
             | None => False
             end
  | RErr => False
  end.
Proof. vm_compute. repeat split. Qed.

(* a shorthand member grafted into a choice by another module: the implicit case carries the member's namespace
   (D59, fixed by 20ac024) *)
Example C12_ex_implicit_case_namespace :
  obs [C "ch"; C "ag"] = (s "urn:b", false, Some (s "b")) /\ obs [C "ch"; C "ag"; C "ag"] = (s "urn:b", false, Some (s "b")).
Proof. vm_compute. split; reflexivity. Qed.

(* the hypotheses of C12_process_attribution hold for the example set, and its conclusion read at one augment *)
Example C12_ex_attribution_hyp : NoDup (map m_name ex_SC) /\ AugmentProofs.covers (C07.pend0 ex_SC) ex_order /\
  AugmentProofs.no_deviations ex_SC.
Proof.
  split; [|split].
  - repeat constructor; cbn; intros H; repeat (destruct H as [H|H]; [discriminate|]); exact H.
  - apply AugmentProofs.covers_all. intros m [H|[H|[H|[H|[]]]]]; subst m; vm_compute; tauto.
  - intros m [H|[H|[H|[H|[]]]]]; subst m; reflexivity.
Qed.

Example C12_ex_attribution : forall a, aug_of ex_SC a -> attributed ex_SC ex_F a.
Proof.
  destruct C12_ex_attribution_hyp as (H1 & H2 & H3).
  exact (proj1 (Process_attribution ex_SC false false ex_order ex_F C12_ex_processed H1 H2 H3)).
Qed.

Example C12_ex_aug_of : exists a, aug_of ex_SC a /\ a_mod a = ex_b /\ lookup (s "ag") (a_dir a) <> None.
Proof.
  eexists. split; [exists ex_b; split; [right; right; right; left; reflexivity|right; left; reflexivity]|].
  split; [reflexivity|vm_compute; discriminate].
Qed.
