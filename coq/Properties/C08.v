(* C08 — Deviations change exactly what they name, in written order, or are reported.
   Only statements, closed by [exact], and non-vacuity examples.

   Model: apply_add_replace / apply_delete / apply_deviates / apply_deviations / Process (Model/Schema.v,
   tied to entry.go ApplyDeviate and modules.go Process by the correspondence check).
   Reference: spec_deviate / spec_apply_all / spec_deviation / spec_module, remove_target / replace_attrs
   (Spec/C08.v, RFC 7950 7.20.3).  Positions: [pcomparable p q] = same module tree and one of the two is
   the other or an ancestor of it; [below p r] = the descendant of p reached by the steps r;
   [attrs e] = everything a node says about itself (all fields but its children and rpc input/output).

   No theorem here is partial any more: the former exclusion of `delete` of an absent element bound (D45) is gone
   with the presence flags in the model's list attributes. *)
From Coq Require Import List NArith Bool.
From GY Require Import Model.Schema Spec.C08 Proofs.DeviationStripProofs Proofs.DeviationProofs Proofs.DeviationTypeProofs.
From GY Require Spec.C04.
Import ListNotations.
Local Open Scope N_scope.

(* ================================================================== T1: agreement with the reference *)

(* one add / replace statement: the model edits exactly the named properties the way the reference does, or
   raises its error flag exactly when the reference says "inapplicable" (no hypotheses) *)
Theorem C08_T1_add_replace : forall (rep : bool) dv st,
  match spec_edits (if rep then DKReplace else DKAdd) st (named_props dv) with
  | Some st' => apply_add_replace rep dv (ts_node st) = (ts_node st', false) /\ step_rel st st'
  | None => snd (apply_add_replace rep dv (ts_node st)) = true
  end.
Proof. exact set_agree. Qed.

(* one delete statement that is inside the claim ([in_scope]: no delete of units/type) and that the library
   does not refuse ([refused]: delete of a leaf-list default, which it declines with an error) *)
Theorem C08_T1_delete : forall dv st,
  kind_of (dv_kind dv) = Some DKDelete -> in_scope dv = true -> refused st dv = false ->
  match spec_edits DKDelete st (named_props dv) with
  | Some st' => apply_delete dv (ts_node st) = (ts_node st', false) /\ step_rel st st'
  | None => snd (apply_delete dv (ts_node st)) = true
  end.
Proof. exact del_agree. Qed.

(* every list of deviate statements on a target that exists, in written order: same node (its min-/max-elements
   presence flags included), same attached/removed verdict, same forest, same error verdict.  Hypotheses: sibling
   names are distinct where the target hangs (holds in every forest Process builds: C08_T1_pass below takes it from
   C04's tree invariant), the option is not combined with a module root as target, and the run stays inside the
   claim ([claimed]: no delete of units/type, no delete of a leaf-list default). *)
Theorem C08_T1_agreement : forall ign F p cur dvs err,
  locate_pos F p = Some cur ->
  parent_nodup F p -> (ign = true -> snd p <> []) ->
  claimed is_builtin ign (removable p) (init_state cur) dvs = true ->
  match spec_apply_all is_builtin ign (removable p) (init_state cur) dvs with
  | Some st' =>
      apply_deviates ign F p cur true err dvs =
        (if ts_removed st' then remove_target F p else F, ts_node st', negb (ts_removed st'), err)
      /\ existsb deviate_err dvs = false
  | None => snd (apply_deviates ign F p cur true err dvs) = true \/ existsb deviate_err dvs = true
  end.
Proof. exact deviates_agree_top. Qed.

(* one deviation statement on a forest, and the deviations of a module in written order *)
Theorem C08_T1_deviation : forall SC ign F err m d,
  deviation_claimed SC ign F m d ->
  match spec_deviation SC ign F m d with
  | Some F' => apply_deviations SC ign F err m [d] = (F', err) /\ existsb deviate_err (snd d) = false
  | None => snd (apply_deviations SC ign F err m [d]) = true \/ existsb deviate_err (snd d) = true
  end.
Proof. exact deviation_agree. Qed.

Theorem C08_T1_module : forall SC ign m devs F err,
  module_claimed SC ign F m devs ->
  match spec_module SC ign F m devs with
  | Some F' => apply_deviations SC ign F err m devs = (F', err) /\ any_deviate_err devs = false
  | None => snd (apply_deviations SC ign F err m devs) = true \/ any_deviate_err devs = true
  end.
Proof. exact module_agree. Qed.

(* the whole deviation pass on a forest that satisfies the tree invariant of C04 (which the pass keeps): the
   hypotheses about sibling names are gone; what remains ([jobs_claimed]) is the claim itself and "the option is
   not combined with a module root as target", at every deviation in the forest of its moment *)
Theorem C08_T1_pass : forall SC ign s js F err,
  C04.ForestInv s F -> jobs_claimed SC ign F js ->
  match spec_pass SC ign F js with
  | Some F' => run_jobs SC ign (F, err) js = (F', err) /\ jobs_deviate_err js = false
  | None => snd (run_jobs SC ign (F, err) js) = true \/ jobs_deviate_err js = true
  end.
Proof. exact jobs_agree. Qed.

(* Process itself: if the modules WITHOUT their deviation statements yield F3, then Process with them returns
   exactly what the reference pass makes of F3 -- the forest it computes, or an error where it says "must be
   reported" *)
Theorem C08_T1_process : forall SC ic ign order F3,
  existsb derr SC = false ->
  Process (strip_devs SC) ic ign order = ROk F3 ->
  jobs_claimed SC ign F3 (jobs SC order) ->
  Process SC ic ign order = match spec_pass SC ign F3 (jobs SC order) with Some F' => ROk F' | None => RErr end.
Proof. exact Process_agrees_without. Qed.

(* a statement the library cannot read is exactly one the reference rejects before looking at the target *)
Theorem C08_T1_unreadable : forall dv,
  deviate_err dv = match kind_of (dv_kind dv) with
                   | None => true
                   | Some _ => negb (props_valid is_builtin (named_props dv))
                   end.
Proof. exact deviate_err_spec. Qed.

(* ================================================================== T2: frame *)

(* --- what the reference's two forest operations do, observed through locate_pos *)
(* not-supported removes exactly the target subtree ... *)
Theorem C08_T2_removed_subtree_gone : forall F p cur r,
  removable p = true -> locate_pos F p = Some cur -> parent_nodup F p ->
  locate_pos (remove_target F p) (below p r) = None.
Proof. exact remove_target_gone. Qed.
(* ... every node that is neither the target, nor below it, nor an ancestor is literally unchanged
   (a node is its whole subtree: other instances of a grouping, siblings, other modules) ... *)
Theorem C08_T2_removed_elsewhere_same : forall F p q,
  ~ pcomparable p q -> locate_pos (remove_target F p) q = locate_pos F q.
Proof. exact remove_target_away. Qed.
(* ... and the ancestors keep their own attributes *)
Theorem C08_T2_removed_ancestors_same : forall F p a b, snd p = a ++ b -> b <> [] ->
  option_map attrs (locate_pos (remove_target F p) (fst p, a)) = option_map attrs (locate_pos F (fst p, a)).
Proof. exact remove_target_above. Qed.

(* add / replace / delete: the target carries the new attributes and keeps its children ... *)
Theorem C08_T2_replaced_target : forall F p old new,
  locate_pos F p = Some old ->
  exists e, locate_pos (replace_attrs F p new) p = Some e /\
            attrs e = attrs new /\ e_dir e = e_dir old /\ e_rpc e = e_rpc old.
Proof. exact replace_attrs_target. Qed.
Theorem C08_T2_replaced_subtree_kept : forall F p old new s r,
  locate_pos F p = Some old ->
  locate_pos (replace_attrs F p new) (below p (s :: r)) = locate_pos F (below p (s :: r)).
Proof. exact replace_attrs_below. Qed.
Theorem C08_T2_replaced_elsewhere_same : forall F p new q,
  ~ pcomparable p q -> locate_pos (replace_attrs F p new) q = locate_pos F q.
Proof. exact replace_attrs_away. Qed.
Theorem C08_T2_replaced_ancestors_same : forall F p new a b, snd p = a ++ b -> b <> [] ->
  option_map attrs (locate_pos (replace_attrs F p new) (fst p, a)) = option_map attrs (locate_pos F (fst p, a)).
Proof. exact replace_attrs_above. Qed.

(* --- the model itself, without any hypothesis on the statements ([deviation_forest]: what one deviation whose
   target was found at p leaves) *)
Theorem C08_T2_frame_elsewhere : forall ign F1 p cur dvs q,
  ~ pcomparable p q -> locate_pos (deviation_forest ign F1 p cur dvs) q = locate_pos F1 q.
Proof. exact deviation_frame_away. Qed.

Theorem C08_T2_frame_ancestors : forall ign F1 p cur dvs a b,
  snd p = a ++ b -> b <> [] ->
  option_map attrs (locate_pos (deviation_forest ign F1 p cur dvs) (fst p, a)) =
  option_map attrs (locate_pos F1 (fst p, a)).
Proof. exact deviation_frame_above. Qed.

Theorem C08_T2_frame_subtree_kept : forall ign F1 p cur dvs,
  locate_pos F1 p = Some cur ->
  dv_att (apply_deviates ign F1 p cur true false dvs) = true ->
  (exists e, locate_pos (deviation_forest ign F1 p cur dvs) p = Some e /\
             attrs e = attrs (dv_node (apply_deviates ign F1 p cur true false dvs)) /\
             e_dir e = e_dir cur /\ e_rpc e = e_rpc cur) /\
  (forall s r, locate_pos (deviation_forest ign F1 p cur dvs) (below p (s :: r)) = locate_pos F1 (below p (s :: r))).
Proof. exact deviation_frame_target. Qed.

Theorem C08_T2_deviation_forest : forall SC ign F err m path dvs p F1 cur,
  Find SC F m (m_name m, []) path = (Some p, F1) -> locate_pos F1 p = Some cur ->
  fst (apply_deviations SC ign F err m [(path, dvs)]) = deviation_forest ign F1 p cur dvs.
Proof. exact apply_deviations_one. Qed.

(* a path lookup changes the forest only by creating the rpc input/output nodes it names where the rpc is written
   without them ([Find_created]: their positions); every position not comparable with one of those keeps its node *)
Theorem C08_T2_lookup_frame : forall SC F ctx start name q,
  (forall c, In c (Find_created SC F ctx start name) -> ~ pcomparable c q) ->
  locate_pos (snd (Find SC F ctx start name)) q = locate_pos F q.
Proof. exact Find_frame. Qed.

(* the whole deviation pass (all deviations of all modules, in the order visited): a position that is not
   comparable with anything a deviation touches -- its target, an input/output node its path creates
   ([jobs_touched]) -- keeps its node, literally.  No hypothesis. *)
Theorem C08_T2_frame_pass : forall SC ign js F err q,
  (forall p, In p (jobs_touched SC ign F js) -> ~ pcomparable p q) ->
  locate_pos (fst (run_jobs SC ign (F, err) js)) q = locate_pos F q.
Proof. exact jobs_frame. Qed.

(* Process = the stages before the deviation pass ([pre_dev]: includes, ToEntry, augment rounds, choice fix-up,
   reporting pass; they do not look at the option) followed by the pass *)
Theorem C08_T2_process_split : forall SC ic ign order,
  Process SC ic ign order =
  match pre_dev SC ic order with
  | None => RErr
  | Some st => let '(F4, err4) := dev_pass SC ign order st in if err4 then RErr else ROk F4
  end.
Proof. exact Process_split. Qed.

(* nothing before the pass reads a deviation statement (apart from rejecting unreadable ones): the forest handed to
   the pass is what Process yields for the same modules without their deviation statements *)
Theorem C08_T2_without_deviations : forall SC ic ign order,
  existsb derr SC = false ->
  Process (strip_devs SC) ic ign order =
  match pre_dev SC ic order with
  | None => RErr
  | Some (F3, e3) => if e3 then RErr else ROk F3
  end.
Proof. exact Process_strip. Qed.

(* the frame of the property: after a clean Process every node that no deviation touches is identical to what the
   same modules yield without the deviation statements.
   (Not proved: the variant that removes whole modules consisting of deviations only.  Removing a module changes
   the fuel of every bounded recursion of the model and the swap-remove order of the augment loop; equality would
   need fuel-sufficiency of all of them and C07's order independence.  The check compares the implementation with
   and without the deviating MODULES.) *)
Theorem C08_T2_frame_process : forall SC ic ign order F4,
  Process SC ic ign order = ROk F4 ->
  exists F3, Process (strip_devs SC) ic ign order = ROk F3 /\
    forall q, (forall p, In p (jobs_touched SC ign F3 (jobs SC order)) -> ~ pcomparable p q) ->
              locate_pos F4 q = locate_pos F3 q.
Proof. exact Process_frame_without. Qed.

(* ================================================================== T3: IgnoreDeviateNotSupported *)

(* with the option the not-supported statements are skipped and every other statement does what it does
   without the option *)
Theorem C08_T3_option : forall p dvs F cur att err,
  snd p <> [] ->
  apply_deviates true F p cur att err dvs =
  apply_deviates false F p cur att err (filter (fun dv => negb (is_ns dv)) dvs).
Proof. exact ignore_not_supported. Qed.

(* a deviation that only says not-supported retains the target and changes nothing, and reports nothing *)
Theorem C08_T3_option_retains : forall SC F err m path dvs p F1 cur,
  Find SC F m (m_name m, []) path = (Some p, F1) -> locate_pos F1 p = Some cur ->
  snd p <> [] -> forallb is_ns dvs = true ->
  apply_deviations SC true F err m [(path, dvs)] = (F1, err).
Proof. exact ignore_not_supported_forest. Qed.

Theorem C08_T3_option_spec : forall res rem st dv,
  is_ns dv = true -> props_valid res (named_props dv) = true ->
  spec_deviate res true rem st dv = Some st.
Proof. exact spec_ignore_not_supported. Qed.

(* ================================================================== T4: inapplicable deviations are reported *)

(* unknown deviate kind, unresolvable replacement type (and max-elements 0): wherever such a statement
   stands in the module set, Process reports *)
Theorem C08_T4_unreadable_statement : forall SC ic ign order m d dv,
  In m SC -> In d (m_deviations m) -> In dv (snd d) -> deviate_err dv = true ->
  Process SC ic ign order = RErr.
Proof. exact Process_reports_bad_statement. Qed.
Theorem C08_T4_unknown_kind : forall dv, kind_of (dv_kind dv) = None -> deviate_err dv = true.
Proof. exact unknown_kind_bad_statement. Qed.
Theorem C08_T4_unresolvable_type : forall dv t,
  dv_type dv = Some t -> is_builtin t = false -> deviate_err dv = true.
Proof. exact unresolvable_type_bad_statement. Qed.

(* The reference for ANY classification [resolvable] of type statements (the model's types are opaque names that resolve
   iff builtin; the correspondence check also runs the reference on generated replacement types that are whole type
   statements -- restrictions, unions, typedef references -- with [resolvable] := resolves-by-construction, OCaml
   c08specr): a deviate statement naming a type that does not resolve is inapplicable whatever its kind, its other
   properties, the target and the options; wherever it stands among the deviate statements of the deviation (statements
   after it that overwrite the type do not repair it); and one naming only a type that resolves sets exactly the type *)
Theorem C08_T4_spec_unresolvable_type : forall (resolvable : str -> bool) ign rem st dv t,
  dv_type dv = Some t -> resolvable t = false -> spec_deviate resolvable ign rem st dv = None.
Proof. exact spec_unresolvable_type_reported. Qed.
Theorem C08_T4_spec_unresolvable_type_anywhere : forall (resolvable : str -> bool) ign rem d1 dv d2 st t,
  dv_type dv = Some t -> resolvable t = false ->
  spec_apply_all resolvable ign rem st (d1 ++ dv :: d2) = None.
Proof. exact spec_apply_all_unresolvable_type. Qed.
Theorem C08_T1_spec_resolvable_type : forall (resolvable : str -> bool) ign rem st dv t k,
  kind_of (dv_kind dv) = Some k -> k = DKAdd \/ k = DKReplace ->
  named_props dv = [PType t] -> resolvable t = true ->
  spec_deviate resolvable ign rem st dv = Some (with_node st (set_ty (ts_node st) (Some t))).
Proof. exact spec_resolvable_type_set. Qed.

(* a deviation (job) that fails when its turn comes -- after the deviations before it, of this and of the
   modules visited earlier, have been applied -- makes Process report *)
Theorem C08_T4_failed_deviation : forall SC ic ign order st0 pre j post,
  pre_dev SC ic order = Some st0 ->
  jobs SC order = pre ++ j :: post ->
  job_fails SC ign (fst (run_jobs SC ign st0 pre)) j ->
  Process SC ic ign order = RErr.
Proof. exact Process_reports_failed_job. Qed.

(* missing target *)
Theorem C08_T4_missing_target : forall SC ign F j,
  fst (Find SC F (fst j) (m_name (fst j), []) (fst (snd j))) = None -> job_fails SC ign F j.
Proof. exact missing_target_fails. Qed.

(* a statement that errs on the node the earlier statements of its deviation have left *)
Theorem C08_T4_failing_statement : forall SC ign F m path d1 dv d2 p F1 cur,
  Find SC F m (m_name m, []) path = (Some p, F1) -> locate_pos F1 p = Some cur ->
  step_errs (node_after cur d1) dv = true ->
  job_fails SC ign F (m, (path, d1 ++ dv :: d2)).
Proof. exact step_errs_job_fails. Qed.

(* the listed cases, as conditions on the statement and the node it meets *)
Theorem C08_T4_add_default_exists : forall cur dv d,
  kind_of (dv_kind dv) = Some DKAdd -> dv_default dv = Some d ->
  isLeafList cur = false -> e_dflt cur <> [] -> step_errs cur dv = true.
Proof. exact add_default_exists_errs. Qed.

Theorem C08_T4_delete_default_absent_or_different : forall cur dv d,
  kind_of (dv_kind dv) = Some DKDelete -> dv_default dv = Some d ->
  (isLeafList cur = true \/ e_dflt cur = [] \/ (exists x r, e_dflt cur = x :: r /\ x <> d)) ->
  step_errs cur dv = true.
Proof. exact delete_default_mismatch_errs. Qed.

Theorem C08_T4_delete_bound_absent_or_different : forall cur dv,
  kind_of (dv_kind dv) = Some DKDelete ->
  ((exists n, dv_min dv = Some n /\ (min_written cur = false \/ min_of cur <> n)) \/
   (exists n, dv_max dv = Some n /\ (max_written cur = false \/ max_of cur <> n))) ->
  step_errs cur dv = true.
Proof. exact delete_bound_absent_or_different_errs. Qed.

Theorem C08_T4_bounds_on_non_list : forall cur dv k,
  kind_of (dv_kind dv) = Some k -> k <> DKNotSupported ->
  (dv_min dv <> None \/ dv_max dv <> None) -> bounded cur = false ->
  step_errs cur dv = true.
Proof. exact bounds_on_non_list_errs. Qed.

Theorem C08_T4_unknown_kind_at_target : forall cur dv, kind_of (dv_kind dv) = None -> step_errs cur dv = true.
Proof. exact unknown_kind_errs. Qed.

(* not-supported on a module root or on the input/output of an rpc, and a second not-supported on one target *)
Theorem C08_T4_not_removable : forall p dvs F cur att err,
  removable p = false -> existsb is_ns dvs = true ->
  snd (apply_deviates false F p cur att err dvs) = true.
Proof. exact not_supported_not_removable_fails. Qed.

Theorem C08_T4_not_supported_twice : forall F p cur d1 dv1 d2 dv2 d3 err,
  locate_pos F p = Some cur -> parent_nodup F p ->
  is_ns dv1 = true -> is_ns dv2 = true ->
  snd (apply_deviates false F p cur true err (d1 ++ dv1 :: d2 ++ dv2 :: d3)) = true.
Proof. exact not_supported_twice_fails. Qed.

(* ================================================================== non-vacuity *)

Definition t_string : str := [115;116;114;105;110;103].
(* module b { container c { leaf x {type string; default "1";} list l {key k; min-elements 1; leaf k {..}}
                           leaf-list m {type string; default "1";} }
              container e { leaf x {type string; default "1";} } } *)
Definition mB : module :=
  {| m_name := [98]; m_prefix := [98]; m_ns := [117]; m_belongs := None; m_imports := []; m_includes := [];
     m_body := [DContainer [99] TSUnset
                  [DLeaf [120] t_string TSUnset TSUnset (Some [49]) None;
                   DList [108] (Some [107]) TSUnset (Some 1) None [DLeaf [107] t_string TSUnset TSUnset None None];
                   DLeafList [109] t_string TSUnset [[49]] None None];
                DContainer [101] TSUnset [DLeaf [120] t_string TSUnset TSUnset (Some [49]) None]];
     m_augments := []; m_deviations := [] |}.
Definition dv0 (k : str) : deviate :=
  {| dv_kind := k; dv_cfg := TSUnset; dv_mand := TSUnset; dv_default := None; dv_min := None; dv_max := None;
     dv_units := None; dv_type := None |}.
Definition dv_dflt (k v : str) : deviate :=
  {| dv_kind := k; dv_cfg := TSUnset; dv_mand := TSUnset; dv_default := Some v; dv_min := None; dv_max := None;
     dv_units := None; dv_type := None |}.
Definition dv_mm (k : str) (mn mx : option N) : deviate :=
  {| dv_kind := k; dv_cfg := TSUnset; dv_mand := TSUnset; dv_default := None; dv_min := mn; dv_max := mx;
     dv_units := None; dv_type := None |}.
Definition dv_ty (k t : str) : deviate :=
  {| dv_kind := k; dv_cfg := TSUnset; dv_mand := TSUnset; dv_default := None; dv_min := None; dv_max := None;
     dv_units := None; dv_type := Some t |}.
Definition path_x : str := [47;98;58;99;47;98;58;120].   (* /b:c/b:x *)
Definition path_l : str := [47;98;58;99;47;98;58;108].   (* /b:c/b:l *)
Definition path_m : str := [47;98;58;99;47;98;58;109].   (* /b:c/b:m *)
Definition path_z : str := [47;98;58;99;47;98;58;122].   (* /b:c/b:z, does not exist *)
Definition mD (devs : list (str * list deviate)) : module :=
  {| m_name := [100]; m_prefix := [100]; m_ns := [118]; m_belongs := None; m_imports := [([98], [98])];
     m_includes := []; m_body := []; m_augments := []; m_deviations := devs |}.
Definition order1 : list str := [[98]; [100]].

(* delete + add of a default in written order, replace of both bounds, not-supported *)
Definition devs1 := [(path_x, [dv_dflt s_delete [49]; dv_dflt s_add [50]]);
                     (path_l, [dv_mm s_replace (Some 2) (Some 9)]);
                     (path_m, [dv0 s_notsupported])].
Definition SC1 := [mB; mD devs1].
Definition F3_1 : forest := match pre_dev SC1 false order1 with Some (F, _) => F | None => [] end.
Definition leaf_x (d : str) : entry := Entry [120] KLeaf TSUnset TSUnset [d] [] (Some t_string) [] None None None None.
Definition leaf_k : entry := Entry [107] KLeaf TSUnset TSUnset [] [] (Some t_string) [] None None None None.
Definition dirE (n : str) (la : option (N * N * (bool * bool))) (key : str) (d : list (str * entry)) : entry :=
  Entry n KDir TSUnset TSUnset [] [] None key la None (Some d) None.
Definition F4_1 : forest :=
  [([98], dirE [98] None []
            [([99], dirE [99] None [] [([120], leaf_x [50]); ([108], dirE [108] (Some (2, 9, (true, true))) [107] [([107], leaf_k)])]);
             ([101], dirE [101] None [] [([120], leaf_x [49])])]);
   ([100], dirE [100] None [] [])].

Example C08_ex_process : Process SC1 false false order1 = ROk F4_1.
Proof. vm_compute. reflexivity. Qed.
Example C08_ex_spec_module : spec_module SC1 false F3_1 (mD devs1) devs1 = Some F4_1.
Proof. vm_compute. reflexivity. Qed.

(* the hypotheses of T1 are satisfiable: the whole run above is inside the claim *)
Example C08_ex_module_claimed : module_claimed SC1 false F3_1 (mD devs1) devs1.
Proof.
  unfold module_claimed, deviation_claimed, parent_nodup.
  vm_compute.
  repeat split; try discriminate;
    try (intros pe d H1 H2; inversion H1; subst; inversion H2; subst;
         repeat constructor; cbn; intuition discriminate).
Qed.
Example C08_ex_jobs_claimed : jobs_claimed SC1 false F3_1 (jobs SC1 order1).
Proof. unfold jobs_claimed, job_claimed. vm_compute. repeat split; discriminate. Qed.
Example C08_ex_spec_pass : spec_pass SC1 false F3_1 (jobs SC1 order1) = Some F4_1.
Proof. vm_compute. reflexivity. Qed.
(* ... and F3_1 is what the modules yield without their deviation statements *)
Example C08_ex_without : Process (strip_devs SC1) false false order1 = ROk F3_1 /\ existsb derr SC1 = false.
Proof. vm_compute. split; reflexivity. Qed.

(* what the pass touches; the leaf /b:e/b:x -- same name as a target, other container -- is not comparable with
   any of it and keeps its node *)
Example C08_ex_touched : jobs_touched SC1 false F3_1 (jobs SC1 order1) =
  [([98], [SChild [99]; SChild [120]]); ([98], [SChild [99]; SChild [108]]); ([98], [SChild [99]; SChild [109]])].
Proof. vm_compute. reflexivity. Qed.
Example C08_ex_frame : locate_pos F4_1 ([98], [SChild [101]; SChild [120]]) = locate_pos F3_1 ([98], [SChild [101]; SChild [120]]).
Proof. vm_compute. reflexivity. Qed.
Example C08_ex_incomparable :
  ~ pcomparable ([98], [SChild [99]; SChild [120]]) ([98], [SChild [101]; SChild [120]]).
Proof. intros [_ [H _]]. discriminate. Qed.

(* a deviation path through the input of an rpc written without one: the lookup creates the node, which is then
   touched: module r { rpc p; }  deviation /r:p/r:input { deviate add { config false; } } *)
Definition mR : module :=
  {| m_name := [114]; m_prefix := [114]; m_ns := [119]; m_belongs := None; m_imports := []; m_includes := [];
     m_body := [DRpc false [112] None None]; m_augments := [];
     m_deviations := [([47;114;58;112;47;114;58;105;110;112;117;116],
                       [{| dv_kind := s_add; dv_cfg := TSFalse; dv_mand := TSUnset; dv_default := None; dv_min := None;
                           dv_max := None; dv_units := None; dv_type := None |}])] |}.
Example C08_ex_created :
  match pre_dev [mR] false [[114]] with
  | Some (F3, _) => jobs_touched [mR] false F3 (jobs [mR] [[114]])
  | None => []
  end = [([114], [SChild [112]; SIn]); ([114], [SChild [112]; SIn])] /\
  Process [mR] false false [[114]] <> RErr.
Proof. vm_compute. split; [reflexivity|discriminate]. Qed.

(* written order matters: add before delete is reported *)
Example C08_ex_order :
  Process [mB; mD [(path_x, [dv_dflt s_add [50]; dv_dflt s_delete [49]])]] false false order1 = RErr.
Proof. vm_compute. reflexivity. Qed.

(* T3: with the option the leaf-list m stays and nothing is reported *)
Example C08_ex_option :
  match Process SC1 false true order1 with
  | ROk F => match locate_pos F ([98], [SChild [99]; SChild [109]]) with Some _ => true | None => false end
  | RErr => false
  end = true.
Proof. vm_compute. reflexivity. Qed.

(* T4: each inapplicable case of the property text *)
Example C08_ex_missing_target :
  Process [mB; mD [(path_z, [dv_dflt s_add [50]])]] false false order1 = RErr.
Proof. vm_compute. reflexivity. Qed.
Example C08_ex_add_default_exists :
  Process [mB; mD [(path_x, [dv_dflt s_add [50]])]] false false order1 = RErr.
Proof. vm_compute. reflexivity. Qed.
Example C08_ex_add_default_leaflist_ok :
  match Process [mB; mD [(path_m, [dv_dflt s_add [50]])]] false false order1 with
  | ROk F => match locate_pos F ([98], [SChild [99]; SChild [109]]) with Some e => e_dflt e | None => [] end
  | RErr => []
  end = [[49]; [50]].
Proof. vm_compute. reflexivity. Qed.
Example C08_ex_delete_default_different :
  Process [mB; mD [(path_x, [dv_dflt s_delete [50]])]] false false order1 = RErr.
Proof. vm_compute. reflexivity. Qed.
Example C08_ex_delete_min_different :
  Process [mB; mD [(path_l, [dv_mm s_delete (Some 2) None])]] false false order1 = RErr.
Proof. vm_compute. reflexivity. Qed.
Example C08_ex_delete_max_different :
  Process [mB; mD [(path_l, [dv_mm s_delete None (Some 7)])]] false false order1 = RErr.
Proof. vm_compute. reflexivity. Qed.
Example C08_ex_bound_on_leaf :
  Process [mB; mD [(path_x, [dv_mm s_add (Some 1) None])]] false false order1 = RErr.
Proof. vm_compute. reflexivity. Qed.
Example C08_ex_unresolvable_type :
  Process [mB; mD [(path_x, [dv_ty s_replace [110;111;112;101]])]] false false order1 = RErr.
Proof. vm_compute. reflexivity. Qed.
(* the hypotheses of C08_T1_spec_resolvable_type / C08_T4_spec_unresolvable_type_anywhere are satisfiable: a label that
   the classification accepts is set, the same label under a classification that rejects it is reported although a
   later statement names a builtin type *)
Example C08_ex_spec_labelled_type :
  let lab : str := [84;89;76;49] in
  kind_of (dv_kind (dv_ty s_replace lab)) = Some DKReplace /\ named_props (dv_ty s_replace lab) = [PType lab] /\
  spec_apply_all (fun t => str_eqb t lab) false true (init_state (leaf_x [50])) [dv_ty s_replace lab] <> None /\
  spec_apply_all (fun _ => false) false true (init_state (leaf_x [50])) [dv_ty s_replace lab; dv_ty s_replace [115;116;114;105;110;103]] = None.
Proof. vm_compute. repeat split; discriminate. Qed.
Example C08_ex_unknown_kind :
  Process [mB; mD [(path_x, [dv0 [98;111;103;117;115]])]] false false order1 = RErr.
Proof. vm_compute. reflexivity. Qed.
Example C08_ex_not_supported_twice :
  Process [mB; mD [(path_m, [dv0 s_notsupported; dv0 s_notsupported])]] false false order1 = RErr.
Proof. vm_compute. reflexivity. Qed.

(* D45 (fixed): the list l has a min-elements but no max-elements statement; `delete max-elements unbounded` names
   the value an absent statement stands for and must be reported -- reference and model agree, and deleting the
   bound that IS written, with its value, is clean *)
Definition list_l : entry := dirE [108] (Some (1, MaxUint64, (true, false))) [107] [([107], leaf_k)].
Example C08_ex_delete_absent_bound :
  locate_pos F3_1 ([98], [SChild [99]; SChild [108]]) = Some list_l /\
  spec_deviate is_builtin false true (init_state list_l) (dv_mm s_delete None (Some MaxUint64)) = None /\
  Process [mB; mD [(path_l, [dv_mm s_delete None (Some MaxUint64)])]] false false order1 = RErr /\
  Process [mB; mD [(path_l, [dv_mm s_delete (Some 0) None])]] false false order1 = RErr /\
  Process [mB; mD [(path_l, [dv_mm s_delete (Some 1) None])]] false false order1 <> RErr /\
  (* a bound put there by an earlier deviate can be deleted *)
  Process [mB; mD [(path_l, [dv_mm s_add None (Some 7); dv_mm s_delete None (Some 7)])]] false false order1 <> RErr.
Proof. vm_compute. repeat split; discriminate. Qed.
(* the one remaining exclusion is real: deleting the default of a leaf-list is refused by the model where the
   reference removes the value *)
Definition leaflist_m : entry :=
  Entry [109] KLeaf TSUnset TSUnset [[49]] [] (Some t_string) [] (Some (0, MaxUint64, (false, false))) None None None.
Example C08_ex_refused :
  refused (init_state leaflist_m) (dv_dflt s_delete [49]) = true /\
  option_map (fun st => e_dflt (ts_node st))
             (spec_deviate is_builtin false true (init_state leaflist_m) (dv_dflt s_delete [49])) = Some [] /\
  Process [mB; mD [(path_m, [dv_dflt s_delete [49]])]] false false order1 = RErr.
Proof. vm_compute. repeat split. Qed.
