(* C14 — Enum values and bit positions are assigned as RFC 7950 9.6.4.2 / 9.7.4.2 say.
   Only statements, closed by [exact], and Print Assumptions (printed by the checker).
   Model: Model/Enum.v (EnumType.Set, SetNext, the member loop of Type.resolve);
   reference: Spec/C14.v ([assign]); [members_z], [denotes], [lit_z], [init] are defined in
   Proofs/EnumProofs.v ([members_z] is the loop over Set_/SetNext with integer values). *)
From Coq Require Import List NArith ZArith Bool.
Import ListNotations.
From GY Require Import Base.Outcome Model.Number Model.Enum Spec.C14 Proofs.EnumProofs.
Local Open Scope Z_scope.

(* T(a), modelled loop with literals: for every member list on which the model returns (see
   C14_total), no error is recorded  <->  every explicit literal denotes an int64 (ParseInt, Int)
   and the reference accepts the members; the name->value map then is the reference assignment *)
Theorem C14_assign : forall bits ms e errs, run_members bits ms = Ok (e, errs) ->
  (errs = [] <-> exists msz, Forall2 denotes ms msz /\ assign bits msz = Some (ToInt e)).
Proof. exact run_members_assign. Qed.

(* when every literal denotes an integer the modelled loop is the loop over Set_/SetNext *)
Theorem C14_loop_z : forall bits ms msz, Forall2 denotes ms msz ->
  run_members bits ms = Ok (members_z (init bits) 0 msz).
Proof. exact run_members_z. Qed.

(* T(a) on the integer loop, both directions, all member lists *)
Theorem C14_assign_ok : forall bits ms vs, assign bits ms = Some vs ->
  snd (members_z (init bits) 0 ms) = [] /\ ToInt (fst (members_z (init bits) 0 ms)) = vs.
Proof. exact members_z_assign_ok. Qed.
Theorem C14_assign_err : forall bits ms, assign bits ms = None ->
  snd (members_z (init bits) 0 ms) <> [].
Proof. exact members_z_assign_err. Qed.

(* a rejected member leaves the state unchanged: Set_/SetNext returning Err (repeated name or
   value, out of range, no next value) do not move [last] or the maps, and the later members are
   numbered as if the rejected statement were absent ("highest value assigned to any EARLIER
   MEMBER"); [wf bits e] holds in every state the loop reaches (C14_reachable_wf) *)
Theorem C14_rejected_member_leaves_state : forall bits e idx name ov rest, wf bits e ->
  set_member_z e name ov = Err ->
  members_z e idx ((name, ov) :: rest)
    = (fst (members_z e (S idx) rest), idx :: snd (members_z e (S idx) rest)) /\
  (forall vs, assign_from bits (ToInt e) rest = Some vs ->
     ToInt (fst (members_z e idx ((name, ov) :: rest))) = vs).
Proof. exact rejected_member_leaves_state. Qed.
Theorem C14_reachable_wf : forall bits ms, wf bits (fst (members_z (init bits) 0 ms)).
Proof. exact members_z_wf. Qed.

(* T(b): the two views of an enumeration are mutually inverse (whether or not errors were
   recorded on the way: a rejected member leaves the type unchanged) *)
Theorem C14_inverse : forall ms e errs, run_members false ms = Ok (e, errs) ->
  forall v n, lookup_z v (ToString e) = Some n <-> lookup_s n (ToInt e) = Some v.
Proof. exact run_members_inverse. Qed.

(* T(c): names pairwise distinct, values in the range of the type, enum values pairwise distinct *)
Theorem C14_sound : forall bits ms e errs, run_members bits ms = Ok (e, errs) ->
  NoDup (map fst (ToInt e)) /\
  Forall (fun v => lo bits <= v <= hi bits) (map snd (ToInt e)) /\
  (bits = false -> NoDup (map snd (ToInt e))).
Proof. exact run_members_sound. Qed.

(* the map view of name->value is the list of assignments *)
Theorem C14_lookup : forall bits ms e errs, run_members bits ms = Ok (e, errs) ->
  forall n v, lookup_s n (ToInt e) = Some v <-> In (n, v) (ToInt e).
Proof. exact run_members_lookup. Qed.

(* bitfields (and enums): value->name yields a name carrying that value, and is defined exactly
   on the assigned values *)
Theorem C14_names_of_values : forall bits ms e errs, run_members bits ms = Ok (e, errs) ->
  (forall v n, lookup_z v (ToString e) = Some n -> lookup_s n (ToInt e) = Some v) /\
  (forall v, In v (map snd (ToInt e)) <-> exists n, lookup_z v (ToString e) = Some n).
Proof. exact run_members_bits_names. Qed.

(* the invariant behind SetNext: [last] is the highest value assigned so far, -1 when none *)
Theorem C14_last : forall bits ms e errs, run_members bits ms = Ok (e, errs) ->
  e_last e = match highest (map snd (ToInt e)) with None => -1 | Some m => m end.
Proof. exact run_members_last. Qed.

(* the model of the loop returns (no panic) on every member list whose literals are inside the
   alphabet of the strconv model *)
Theorem C14_total : forall bits ms,
  (forall name s, In (name, Some s) ms -> ParseInt s <> Unmodelled) ->
  exists e errs, run_members bits ms = Ok (e, errs).
Proof. exact run_members_total. Qed.

(* the defects repaired by fix: commits, as refutations of the pinned code's behaviour
   (Enum.Set_old / SetNext_old) *)
Theorem C14_enum_old_refuted : exists ms vs,
  assign false ms = Some vs /\ snd (members_z_old NewEnumType 0 ms) = [] /\
  ToInt (fst (members_z_old NewEnumType 0 ms)) <> vs.
Proof. exact old_enum_refuted. Qed.
Theorem C14_bits_old_refuted : exists ms vs,
  assign true ms = Some vs /\ snd (members_z_old NewBitfield 0 ms) <> [].
Proof. exact old_bits_refuted. Qed.

(* non-vacuity *)
Definition s_m5 : str := [45%N; 53%N].        (* "-5" *)
Definition s_max31 : str := [50; 49; 52; 55; 52; 56; 51; 54; 52; 55]%N.   (* "2147483647" *)
Example C14_run_ex :
  exists e, run_members false [(nm_a, Some s_m5); (nm_b, None)] = Ok (e, []) /\
            ToInt e = [(nm_a, -5); (nm_b, -4)] /\ lookup_z (-4) (ToString e) = Some nm_b.
Proof. eexists. vm_compute. repeat split. Qed.
Example C14_run_bits_ex :
  exists e, run_members true [(nm_a, Some s_max31); (nm_b, None)] = Ok (e, []) /\
            ToInt e = [(nm_a, 2147483647); (nm_b, 2147483648)].
Proof. eexists. vm_compute. repeat split. Qed.
Example C14_denotes_ex : Forall2 denotes [(nm_a, Some s_m5); (nm_b, None)] [(nm_a, Some (-5)); (nm_b, None)].
Proof. repeat constructor. Qed.
Example C14_assign_ex :
  assign false [(nm_a, Some 7); (nm_b, Some 2); (nm_a, None)] = None /\
  assign false [(nm_a, Some 2147483647); (nm_b, None)] = None /\
  assign true [(nm_a, Some 4294967295); (nm_b, None)] = None /\
  assign false [(nm_a, None); (nm_b, Some 0)] = None /\
  assign false [(nm_a, Some 7); (nm_b, Some 2); ([99%N], None)] = Some [(nm_a, 7); (nm_b, 2); ([99%N], 8)].
Proof. vm_compute. repeat split. Qed.
Example C14_rejected_ex :     (* a; a; b  ==>  the second a is rejected, b = 1 *)
  exists e, members_z (init false) 0 [(nm_a, None); (nm_a, None); (nm_b, None)] = (e, [1%nat]) /\
            ToInt e = [(nm_a, 0); (nm_b, 1)] /\ set_member_z (fst (members_z (init false) 0 [(nm_a, None)])) nm_a None = Err.
Proof. eexists. vm_compute. repeat split. Qed.
Example C14_err_ex : exists e, run_members false [(nm_a, Some s_max31); (nm_b, None)] = Ok (e, [1%nat]).
Proof. eexists. vm_compute. reflexivity. Qed.
(* member names are arbitrary byte strings and the table of a type is computed from its own member list only:
   the one-member list ["a,b"] and the two-member list ["a"; "b"], or ["a=2"; "b"] and [a { value 2 }; "b"], which read
   the same when names and numbers are strung together, have different tables (the several-types family of the
   correspondence run, enumset, holds such lists next to each other in one Modules set) *)
Definition nm_a_comma_b : str := [97; 44; 98]%N.   (* "a,b" *)
Definition nm_a_eq_2 : str := [97; 61; 50]%N.      (* "a=2" *)
Example C14_separator_names_ex :
  (exists e, run_members false [(nm_a_comma_b, None)] = Ok (e, []) /\ ToInt e = [(nm_a_comma_b, 0)]) /\
  (exists e, run_members false [(nm_a, None); (nm_b, None)] = Ok (e, []) /\ ToInt e = [(nm_a, 0); (nm_b, 1)]) /\
  (exists e, run_members false [(nm_a_eq_2, None); (nm_b, None)] = Ok (e, []) /\ ToInt e = [(nm_a_eq_2, 0); (nm_b, 1)]) /\
  (exists e, run_members false [(nm_a, Some [50%N]); (nm_b, None)] = Ok (e, []) /\ ToInt e = [(nm_a, 2); (nm_b, 3)]).
Proof. repeat split; eexists; vm_compute; repeat split. Qed.
