(* C05 — Same sources and options give the same result, whatever the load order.
   Only statements, closed by [exact], [_refuted] witnesses and non-vacuity examples.

   What is a THEOREM here:
     T1  sortedErrors.Less (Model/ErrorSort.v, as written in entry.go since the repair 11569ed: a number sorts before
         a non-number, the whole texts break ties) is a strict total order -- hence a strict weak order -- on ALL
         error texts.  Before the repair it was not ([Less_old]: refuted by a cycle and by indistinguishable texts).
     T2  errorSort, with sort.Sort being ANY correct sort, returns the strictly increasing list of the distinct
         input texts: a function of the SET of errors, in particular invariant under permutation; for positioned
         errors file:line:col: text the list is ordered by (file, line, col) with line and col compared as numbers,
         and has no duplicates.
     T3  fold_perm: a fold whose steps commute gives equivalent results on permuted lists; instances on the
         resolver model (Model/Schema.v): Entry.merge over a permuted Dir, the forallb/existsb checks of Process
         over a permuted module list, the initial forest F0 and pending table P0 of Process over a permuted schema.
     T4  modules asked for by name and found through the search path (Model/File.v, dir/... entries included): the
         file a name denotes is a function of the file tree, the path and the name; a sequence of requests gets
         the same answers in every order.  The implementation is compared with [lookup_fs] on every run.
   What is NOT a theorem here (metamorphic testing of the implementation in check/props/c05.py): that the whole
   of Process -- augment loop (C07), identity lists (C11), deviations (C08), typedef dictionary -- and the CLI
   renderings are independent of load order and map iteration order. *)
From Coq Require Import List NArith ZArith Bool Permutation Sorted.
From GY Require Import Model.ErrorSort Model.Schema Spec.C05 Proofs.ErrorSortProofs Proofs.C05LookupProofs.
From GY Require Base.Outcome Model.Registry Model.File.
Import ListNotations.

(* ------------------------------------------------------------------ T1 *)
Theorem C05_less_strict_weak_order : strict_weak_order_on (fun _ : bstr => True) Less.
Proof. exact Less_swo. Qed.

(* ... and total: texts Less cannot tell apart are equal *)
Theorem C05_less_total : total_on (fun _ : bstr => True) Less.
Proof. exact Less_total_on. Qed.

Theorem C05_less_irreflexive : forall a, Less a a = false.
Proof. exact Less_irrefl. Qed.

Theorem C05_less_transitive : forall a b c, Less a b = true -> Less b c = true -> Less a c = true.
Proof. exact Less_trans. Qed.

Theorem C05_less_trichotomy : forall a b, Less a b = true \/ a = b \/ Less b a = true.
Proof. exact Less_trichotomy. Qed.

(* on positioned errors (file:line:col:text, numeric line and col, non-numeric text) Less is the lexicographic
   order of (file, line as a number, col as a number, text) *)
Theorem C05_less_is_key_order : forall a b, positioned a -> positioned b -> (Less a b = true <-> pos_lt a b).
Proof. exact Less_pos_lt. Qed.

(* [refuted], Less as it was before the repair: "f:9" < "f:10" (numbers), "f:10" < "f:1a" < "f:9" (strings) *)
Theorem C05_less_old_cycle_refuted : Less_old w9 w10 = true /\ Less_old w10 w1a = true /\ Less_old w1a w9 = true.
Proof. exact Less_old_cycle. Qed.

Theorem C05_less_old_strict_weak_order_refuted : ~ strict_weak_order_on (fun _ => True) Less_old.
Proof. exact Less_old_not_swo. Qed.

(* digits only, one of them beyond the int range (Atoi fails, the field was compared as a string) *)
Theorem C05_less_old_cycle_digits_refuted :
  Less_old w9 w10 = true /\ Less_old w10 wbig = true /\ Less_old wbig w9 = true.
Proof. exact Less_old_cycle_digits. Qed.

(* "f:1" and "f:01": equal as numbers, so the old Less ordered them neither way although the texts differ *)
Theorem C05_less_old_total_refuted : Less_old w1 w01 = false /\ Less_old w01 w1 = false /\ w1 <> w01.
Proof. exact Less_old_not_total. Qed.

(* consequence: the result of the old errorSort depended on the order of its input for such texts *)
Theorem C05_errorSort_old_order_refuted :
  Permutation [w9; w10; w1a] [w10; w1a; w9] /\ errorSort_old [w9; w10; w1a] <> errorSort_old [w10; w1a; w9].
Proof. exact errorSort_old_order_dependent. Qed.

Theorem C05_errorSort_any_old_functional_refuted :
  errorSort_any_old [w1; w01] [w1; w01] /\ errorSort_any_old [w1; w01] [w01; w1].
Proof. exact errorSort_any_old_not_functional. Qed.

(* ------------------------------------------------------------------ T2 *)
(* whatever sort.Sort does, as long as it sorts: the result is the strictly increasing list of the input's
   distinct texts ... *)
Theorem C05_errorSort_sorted_nodup : forall l out, errorSort_any l out ->
  strictly_sorted Less out /\ same_set l out /\ NoDup out.
Proof. exact errorSort_sorted_nodup. Qed.

(* ... so it is a function of the SET of error texts, for every sorting instance *)
Theorem C05_errorSort_set : forall l l' out out', same_set l l' ->
  errorSort_any l out -> errorSort_any l' out' -> out = out'.
Proof. exact errorSort_any_set. Qed.

(* the executable model (insertion sort) is one instance, and every instance agrees with it *)
Theorem C05_errorSort_instance : forall l, errorSort_any l (errorSort l).
Proof. exact errorSort_is_instance. Qed.

Theorem C05_errorSort_any_unique : forall l out, errorSort_any l out -> out = errorSort l.
Proof. exact errorSort_any_unique. Qed.

Theorem C05_errorSort_perm : forall l l', Permutation l l' -> errorSort l = errorSort l'.
Proof. exact errorSort_perm. Qed.

(* positioned errors: ordered by (file, line, col) -- strictly by (file, line, col, text) --, numbers compared as
   numbers, no duplicates, same set of texts, and the same list for every correct sort *)
Theorem C05_errorSort_positioned : forall l out, Forall positioned l -> errorSort_any l out ->
  StronglySorted pos_lt out /\ StronglySorted pos_le3 out /\ NoDup out /\ same_set l out /\ out = errorSort l.
Proof. exact errorSort_positioned. Qed.

(* ------------------------------------------------------------------ T3 *)
Theorem C05_fold_perm : forall (A B : Type) (R : A -> A -> Prop) (f : A -> B -> A),
  (forall a, R a a) -> (forall a b c, R a b -> R b c -> R a c) ->
  (forall a a' b, R a a' -> R (f a b) (f a' b)) ->
  forall l l', Permutation l l' -> commute_on R f l ->
  forall a a', R a a' -> R (fold_left f l a) (fold_left f l' a').
Proof. exact @fold_perm. Qed.

(* Entry.merge ranges over oe.Dir (a Go map: distinct keys) *)
Theorem C05_merge_dir_perm : forall ns oe oe' acc acc',
  NoDup (map fst oe) -> Permutation oe oe' -> dir_equiv acc acc' ->
  dir_equiv (merge_dir acc ns oe) (merge_dir acc' ns oe').
Proof. exact merge_dir_perm. Qed.

(* `for _, m := range ms.Modules` of Process: include/import resolution and the first error sweep *)
Theorem C05_process_includes_check_perm : forall SC SC', distinct_names SC -> Permutation SC SC' ->
  forallb (fun m => fst (includes_ok SC' (S (length SC')) [] m)) (modules_only SC') =
  forallb (fun m => fst (includes_ok SC (S (length SC)) [] m)) (modules_only SC).
Proof. exact process_includes_check_perm. Qed.

Theorem C05_process_build_check_perm : forall SC SC', distinct_names SC -> Permutation SC SC' -> forall ic,
  existsb (fun x => snd (snd x)) (map (fun m => (m, module_entry SC' ic m)) SC') =
  existsb (fun x => snd (snd x)) (map (fun m => (m, module_entry SC ic m)) SC).
Proof. exact process_build_check_perm. Qed.

(* every module converts to the same entry, whatever the order of the module list it is looked up in *)
Theorem C05_module_entry_perm : forall SC SC', distinct_names SC -> Permutation SC SC' -> forall ic m,
  module_entry SC' ic m = module_entry SC ic m.
Proof. exact module_entry_perm. Qed.

(* the forest and the pending augments Process starts from: permuted, and equal under every lookup *)
Theorem C05_F0_perm : forall SC SC', distinct_names SC -> Permutation SC SC' -> forall ic,
  Permutation (F0_of SC ic) (F0_of SC' ic) /\ lookup_equiv (F0_of SC ic) (F0_of SC' ic).
Proof. exact F0_perm_lookup. Qed.

Theorem C05_P0_perm : forall SC SC', distinct_names SC -> Permutation SC SC' ->
  Permutation (P0_of SC) (P0_of SC') /\ lookup_equiv (P0_of SC) (P0_of SC').
Proof. exact P0_perm_lookup. Qed.

(* the two checks above are the ones Process makes: when one fails, Process returns errors.  (That the augment loop
   of Process starts from exactly F0_of and P0_of is checked syntactically by the proof script of
   Process_starts_from_F0_P0 in Proofs/ErrorSortProofs.v, which breaks when Process is edited there.) *)
Theorem C05_process_includes_check_decides : forall SC ic ins order,
  forallb (fun m => fst (includes_ok SC (S (length SC)) [] m)) (modules_only SC) = false ->
  Process SC ic ins order = RErr.
Proof. exact Process_includes_check. Qed.

Theorem C05_process_build_check_decides : forall SC ic ins order,
  existsb (fun x => snd (snd x)) (map (fun m => (m, module_entry SC ic m)) SC) = true ->
  Process SC ic ins order = RErr.
Proof. exact Process_build_check. Qed.

(* ------------------------------------------------------------------ T4 *)
(* the answer to a request by name is that of [lookup_fs]: a function of tree, path and name *)
Theorem C05_lookups_functional : forall root path names n o,
  In (n, o) (lookups root path names) -> o = lookup_fs root path n.
Proof. exact lookups_functional. Qed.

(* the same requests in another order get the same answers *)
Theorem C05_lookups_perm : forall root path names names', Permutation names names' ->
  forall n o, In (n, o) (lookups root path names) <-> In (n, o) (lookups root path names').
Proof. exact lookups_perm. Qed.

(* ------------------------------------------------------------------ non-vacuity *)
(* ROOT/a/c.yang, ROOT/b/c.yang, ROOT/b/d.yang, path ROOT/...: c is a/c.yang whether or not d (in b) was asked first *)
Example C05_lookups_example :
  lookups ex_root ex_path [[99%N]; [100%N]] =
    [([99%N], Outcome.Ok (File.Found 1 [[97%N]; ex_yang 99])); ([100%N], Outcome.Ok (File.Found 1 [[98%N]; ex_yang 100]))] /\
  lookups ex_root ex_path [[100%N]; [99%N]] =
    [([100%N], Outcome.Ok (File.Found 1 [[98%N]; ex_yang 100])); ([99%N], Outcome.Ok (File.Found 1 [[97%N]; ex_yang 99]))].
Proof. exact lookups_example. Qed.

(* "m.yang:12:3: x", "m.yang:9:30: y": positioned; line 9 sorts before line 12; the duplicate is dropped *)
Example C05_positioned_example : positioned p12 /\ positioned p9 /\ errorSort [p12; p9; p12] = [p9; p12].
Proof. exact positioned_example. Qed.

(* the witnesses of the refuted theorems, under the repaired Less: every order of the input gives one answer *)
Example C05_witnesses_repaired :
  errorSort [w9; w10; w1a] = [w9; w10; w1a] /\ errorSort [w10; w1a; w9] = [w9; w10; w1a] /\
  errorSort [w1a; w9; w10] = [w9; w10; w1a] /\ errorSort [w1; w01] = errorSort [w01; w1] /\
  errorSort [w9; w10; wbig] = errorSort [wbig; w9; w10].
Proof. exact witnesses_repaired. Qed.

Example C05_distinct_names_example :
  distinct_names [ {| m_name := [97%N]; m_prefix := [97%N]; m_ns := [117%N]; m_belongs := None; m_imports := []; m_includes := [];
                      m_body := []; m_augments := []; m_deviations := [] |};
                   {| m_name := [98%N]; m_prefix := [98%N]; m_ns := [118%N]; m_belongs := None; m_imports := []; m_includes := [];
                      m_body := []; m_augments := []; m_deviations := [] |} ].
Proof. repeat constructor; cbn; intuition discriminate. Qed.
