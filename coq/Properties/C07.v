(* C07 — Augments are applied exactly once, order-independently, or reported.
   Only statements, closed by [exact], and non-vacuity examples.

   The abstract augment system, its states (views of forests: [flat], [flat_of], [forest_eqv]), steps
   ([astep]: a pending augment whose path resolves, by [afind], to a node with a child map is grafted
   there, its children stamped with the owner namespace; a name already present makes the step dirty),
   runs ([vrun], [vrun_n]) and maximality ([vmaximal]) are in Spec/C07.v; the stages of the model's
   Process ([augment_stage] = the rounds of {retry loop; FixChoice}, [final_pass], [Process_staged]) too.
   The model is Model/Schema.v (augment_module, augment_pass, augment_loop, Process). *)
From Coq Require Import List NArith Bool Permutation Ascii.
From Coq Require String.
From GY Require Import Model.Schema Spec.C07 Proofs.AugmentProofs Proofs.AugmentBodyProofs.
From GY Require Spec.C04.
Import ListNotations.

(* ------------------------------------------------------------------ T1: confluence *)
(* If one maximal run from a state is clean, every maximal run from it is clean, ends in the same
   view (forest up to the order of children and empty implicit input/output) and leaves the same
   augments unapplied. *)
Theorem C07_T1_confluence : forall SC fl P, prefix_closed fl ->
  forall fl1 P1, vrun SC fl P false fl1 P1 false -> vmaximal SC fl1 P1 ->
  forall fl2 P2 d2, vrun SC fl P false fl2 P2 d2 -> vmaximal SC fl2 P2 ->
  d2 = false /\ feq fl1 fl2 /\ Permutation P1 P2.
Proof. exact view_confluence. Qed.

(* the key lemmas: an applicable step stays applicable (and stays dirty) after a clean step ... *)
Theorem C07_T1_steps_persist : forall SC fl a b t u c, prefix_closed fl ->
  astep SC fl a = Some (t, false) -> astep SC fl b = Some (u, c) ->
  exists u' c', astep SC t b = Some (u', c') /\ (c = true -> c' = true).
Proof. exact astep_persist. Qed.

(* ... and two clean steps commute: both orders are clean or both meet a conflict; if clean, same view *)
Theorem C07_T1_steps_commute : forall SC fl a b t1 t2 u1 u2 c1 c2, prefix_closed fl ->
  astep SC fl a = Some (t1, false) -> astep SC fl b = Some (t2, false) ->
  astep SC t1 b = Some (u1, c1) -> astep SC t2 a = Some (u2, c2) ->
  c1 = c2 /\ (c1 = false -> feq u1 u2).
Proof. exact astep_comm. Qed.

(* the views of the model's forests are states of the system *)
Theorem C07_view_prefix_closed : forall F, prefix_closed (flat_of F).
Proof. exact prefix_closed_flat_of. Qed.

(* ------------------------------------------------------------------ T2: refinement *)
(* what augment_module does with one pending augment is a step of the system on the view (Find's
   on-demand creation of rpc input/output is invisible in the view) *)
Theorem C07_T2_step_refines : forall SC F a F' r, cstep SC F a = (F', r) ->
  match r with
  | None => astep SC (flat_of F) a = None /\ feq (flat_of F') (flat_of F)
  | Some c => exists t, astep SC (flat_of F) a = Some (t, c) /\ feq (flat_of F') t
  end.
Proof. exact cstep_sim. Qed.

(* the retry loop with swap-remove, for ANY visiting order that contains every module with pending
   augments and any fuel above the number of pending augments, performs a maximal run; its error flag is
   the run's dirty flag and its counter the number of steps *)
Theorem C07_T2_loop_is_maximal_run : forall SC fuel F err P mods ap F1 err1 P1 mods1 ap1,
  augment_loop SC fuel F err P mods ap = (F1, err1, P1, mods1, ap1) ->
  (length (all_pending P) < fuel)%nat -> NoDup (map fst P) -> covers P mods ->
  exists x n, (forall d, vrun_n SC n (flat_of F) (all_pending P) d (flat_of F1) (all_pending P1) (d || x)) /\
              err1 = (err || x)%bool /\ ap1 = (ap + n)%nat /\ map fst P1 = map fst P /\ covers P1 mods1 /\
              vmaximal SC (flat_of F1) (all_pending P1) /\ tight P1 mods1.
Proof. exact augment_loop_spec. Qed.

(* hence the loop's outcome does not depend on the order in which modules are visited *)
Theorem C07_T2_loop_order_independent : forall SC fuel1 fuel2 F P o1 o2 a1 a2 F1 P1 m1 n1 F2 e2 P2 m2 n2,
  NoDup (map fst P) -> covers P o1 -> covers P o2 ->
  (length (all_pending P) < fuel1)%nat -> (length (all_pending P) < fuel2)%nat ->
  augment_loop SC fuel1 F false P o1 a1 = (F1, false, P1, m1, n1) ->
  augment_loop SC fuel2 F false P o2 a2 = (F2, e2, P2, m2, n2) ->
  e2 = false /\ forest_eqv F1 F2 /\ Permutation (all_pending P1) (all_pending P2).
Proof. exact augment_loop_order_independent. Qed.

Theorem C07_T2_loop_error_agree : forall SC fuel1 fuel2 F P o1 o2 a1 a2 F1 e1 P1 m1 n1 F2 e2 P2 m2 n2,
  NoDup (map fst P) -> covers P o1 -> covers P o2 ->
  (length (all_pending P) < fuel1)%nat -> (length (all_pending P) < fuel2)%nat ->
  augment_loop SC fuel1 F false P o1 a1 = (F1, e1, P1, m1, n1) ->
  augment_loop SC fuel2 F false P o2 a2 = (F2, e2, P2, m2, n2) ->
  e1 = e2.
Proof. exact augment_loop_error_agree. Qed.

(* Process is its stages (a change of Model/Schema.v's Process breaks this proof) *)
Theorem C07_Process_stages : forall SC ic ins order, Process SC ic ins order = Process_staged SC ic ins order.
Proof. exact Process_stages. Qed.

(* FixChoice on all trees is a function of the view: equal views before, equal views after -- its fuel comes from
   the structural height of the trees (it does not depend on the schema), which may differ between two forests with
   equal views, and is always enough -- and doing it twice is doing it once *)
Theorem C07_T2_fix_all_respects_eqv : forall F F', forest_eqv F F' -> forest_eqv (fix_all F) (fix_all F').
Proof. exact fix_all_respects_eqv. Qed.

Theorem C07_T2_fix_all_idempotent : forall X, forest_eqv (fix_all (fix_all X)) (fix_all X).
Proof. exact fix_all_idem. Qed.

(* the rounds {retry loop; FixChoice}, from equivalent states and in two visiting orders, are both clean or
   both not, and if clean end in equivalent forests with the same augments left *)
Theorem C07_T2_rounds_order_independent : forall SC fuel round F F' P P' o1 o2 F2 P2 m2 F2' e2' P2' m2',
  forest_eqv F F' -> Permutation (all_pending P) (all_pending P') ->
  NoDup (map fst P) -> NoDup (map fst P') -> covers P o1 -> covers P' o2 ->
  (length (all_pending P) <= n_aug SC)%nat ->
  rounds SC fuel round F false P o1 = (F2, false, P2, m2) ->
  rounds SC fuel round F' false P' o2 = (F2', e2', P2', m2') ->
  e2' = false /\ forest_eqv F2 F2' /\ Permutation (all_pending P2) (all_pending P2').
Proof. exact rounds_order_independent. Qed.

(* the rounds of Process never run out of fuel: they end in a state in which no pending augment is applicable
   (every later round applies at least one augment) *)
Theorem C07_T2_rounds_reach_fixpoint : forall SC fuel round F err P mods F2 err2 P2 mods2,
  rounds SC fuel round F err P mods = (F2, err2, P2, mods2) ->
  NoDup (map fst P) -> covers P mods -> (length (all_pending P) <= n_aug SC)%nat ->
  (length (all_pending P) + (match round with O => 1 | _ => 0 end) < fuel)%nat ->
  (round <> O -> forest_eqv (fix_all F) F) ->
  vmaximal SC (flat_of F2) (all_pending P2).
Proof. exact rounds_final. Qed.

(* Process: for schemas without deviations (deviations visit the modules in [order]: C08), two visiting
   orders that contain every module with augments either both report an error or return equivalent forests *)
Theorem C07_T2_process_order_independent : forall SC ic ins,
  no_deviations SC -> NoDup (map m_name SC) ->
  forall o1 o2, covers (pend0 SC) o1 -> covers (pend0 SC) o2 ->
  match Process SC ic ins o1, Process SC ic ins o2 with
  | ROk F1, ROk F2 => forest_eqv F1 F2
  | RErr, RErr => True
  | _, _ => False
  end.
Proof. exact process_order_independent_full. Qed.

Theorem C07_T2_process_order_independent_perm : forall SC ic ins,
  no_deviations SC -> NoDup (map m_name SC) ->
  forall o1 o2, Permutation (map m_name SC) o1 -> Permutation (map m_name SC) o2 ->
  match Process SC ic ins o1, Process SC ic ins o2 with
  | ROk F1, ROk F2 => forest_eqv F1 F2
  | RErr, RErr => True
  | _, _ => False
  end.
Proof. exact process_order_independent_perm. Qed.

(* ------------------------------------------------------------------ T3: reporting *)
(* not applicable = the path finds nothing, or what it finds cannot have children *)
Theorem C07_T3_not_applicable : forall SC fl a,
  astep SC fl a = None <->
  (afind SC fl (a_mod a) (m_name (a_mod a), []) (a_path a) = None \/
   exists p, afind SC fl (a_mod a) (m_name (a_mod a), []) (a_path a) = Some p /\
             (fl p = None \/ exists l, fl p = Some l /\ l_hasdir l = false)).
Proof. exact astep_none_iff. Qed.

(* whether a pending augment can be applied is decided by the augmenting module and the path alone: what the
   augment would graft (nothing at all, for an empty statement or one that holds only description / reference /
   status / when or uses of groupings without nodes) plays no part, so with C07_T3_reports_unapplied an augment
   without nodes on a missing or childless target is reported like any other *)
Theorem C07_T3_applicability_ignores_body : forall SC fl a a',
  a_mod a = a_mod a' -> a_path a = a_path a' ->
  (astep SC fl a = None <-> astep SC fl a' = None).
Proof. exact astep_applicable_ignores_body. Qed.

(* and when such an augment can be applied, its step leaves the view as it is (dirty only by its own errors) *)
Theorem C07_T4_nothing_to_graft : forall SC fl a fl' d,
  a_dir a = [] -> astep SC fl a = Some (fl', d) ->
  (forall q, fl' q = fl q) /\ d = a_err a.
Proof. exact astep_nothing_to_graft. Qed.

(* a graft is clean exactly when no child name is present under the target and none occurs twice *)
Theorem C07_T3_conflict : forall fl p kids,
  aconflict fl p kids = false <->
  (forall k, In k (map fst kids) -> absent fl p k) /\ NoDup (map fst kids).
Proof. exact aconflict_false. Qed.

(* a dirty step anywhere in the rounds makes Process return errors *)
Theorem C07_T3_reports_dirty : forall SC ic ins order F2 P1 mods1,
  augment_stage SC ic order = (F2, true, P1, mods1) -> Process SC ic ins order = RErr.
Proof. exact process_reports_dirty. Qed.

(* an augment that the last pass cannot apply (target not found, or without a child map) makes Process
   return errors *)
Theorem C07_T3_reports_unapplied : forall SC ic ins order F2 e1 P1 mods1 F3 e3 P3 a,
  NoDup (map m_name SC) -> covers (pend0 SC) order ->
  augment_stage SC ic order = (F2, e1, P1, mods1) ->
  final_pass SC (F2, e1, P1) mods1 = (F3, e3, P3) ->
  In a (all_pending P3) -> Process SC ic ins order = RErr.
Proof. exact process_reports_unapplied. Qed.

(* after the rounds the reporting pass only reports: it applies no augment (final_applied of Spec/C04.v) *)
Theorem C07_T3_final_pass_applies_nothing : forall SC ic order,
  NoDup (map m_name SC) -> covers (pend0 SC) order -> C04.final_applied SC ic order = O.
Proof. exact final_pass_applies_nothing. Qed.

(* read from a clean result: no step was dirty and no augment remains unapplied *)
Theorem C07_T3_clean_result : forall SC ic ins order F4, Process SC ic ins order = ROk F4 ->
  NoDup (map m_name SC) -> covers (pend0 SC) order ->
  exists F2 P1 mods1 F3 P3,
    augment_stage SC ic order = (F2, false, P1, mods1) /\
    final_pass SC (F2, false, P1) mods1 = (F3, false, P3) /\
    all_pending P3 = [].
Proof. exact process_ok_inv. Qed.

(* ------------------------------------------------------------------ T4: exactly once, namespace *)
(* every step consumes exactly one pending augment *)
Theorem C07_T4_one_augment_per_step : forall SC n s P d s' P' d',
  vrun_n SC n s P d s' P' d' -> length P = (n + length P')%nat.
Proof. exact vrun_n_length. Qed.

(* a clean merge files every child of the augment under its own name exactly once *)
Theorem C07_T4_children_once : forall ns kids d,
  snd (merge_dir (d, false) ns kids) = false ->
  map fst (fst (merge_dir (d, false) ns kids)) = map fst d ++ map fst kids /\
  (NoDup (map fst d) -> NoDup (map fst (fst (merge_dir (d, false) ns kids)))).
Proof. exact merge_dir_clean_keys. Qed.

(* the nodes an applied augment of the schema defines -- the grafted child and every descendant -- keep
   their place and label and are attributed to the augmenting module's namespace in every later state of
   the run (ToEntry builds the augment's subtree without namespace stamps: C07_T4_toentry_unstamped) *)
Theorem C07_T4_namespace : forall SC s a t c t' Q d fl1 P1 d1 p k c0 rest node,
  In a (all_pending (pend0 SC)) ->
  prefix_closed s -> astep SC s a = Some (t, c) -> feq t t' -> vrun SC t' Q d fl1 P1 d1 ->
  afind SC s (a_mod a) (m_name (a_mod a), []) (a_path a) = Some p ->
  s (fst p, snd p ++ [SChild k]) = None -> lookup k (a_dir a) = Some c0 ->
  vlocate c0 rest = Some node ->
  fl1 (fst p, snd p ++ SChild k :: rest) =
    Some (lab (match rest with [] => stamp (owner_ns SC (a_mod a)) c0 | _ => node end)) /\
  vns fl1 (fst p, snd p ++ SChild k :: rest) = Some (owner_ns SC (a_mod a)).
Proof. exact augment_attributed_schema. Qed.

Theorem C07_T4_toentry_unstamped : forall SC fuel c busy n, ns_free (fst (to_entry SC fuel c busy n)).
Proof. exact to_entry_ns_free. Qed.

(* the model's Namespace() is that function of the view *)
Theorem C07_T4_Namespace_is_vns : forall SC F p,
  Namespace SC F p =
  match lookup (fst p) F with
  | Some _ => match vns (flat_of F) p with
              | Some n => n
              | None => match find_module SC (fst p) with Some m => owner_ns SC m | None => [] end
              end
  | None => []
  end.
Proof. exact Namespace_view. Qed.

(* ------------------------------------------------------------------ non-vacuity *)
Import String.
Local Open Scope string_scope.
Definition S_ (x : string) : str := map (fun c => N.of_nat (nat_of_ascii c)) (list_ascii_of_string x).
Definition lf (n : string) : dnode := DLeaf (S_ n) (S_ "string") TSUnset TSUnset None None.
Definition md (n : string) (imps : list (str * str)) (body : list dnode) (augs : list (str * list dnode)) : module :=
  {| m_name := S_ n; m_prefix := S_ n; m_ns := S_ ("urn:" ++ n); m_belongs := None; m_imports := imps;
     m_includes := []; m_body := body; m_augments := augs; m_deviations := [] |}.

(* a chain across three modules: c's augment needs the container that b's augment creates *)
Definition exA := md "a" [] [DContainer (S_ "c") TSUnset [lf "l"]] [].
Definition exB := md "b" [(S_ "a", S_ "a")] [] [(S_ "/a:c", [DContainer (S_ "x") TSUnset [lf "bl"]])].
Definition exC := md "c" [(S_ "a", S_ "a")] [] [(S_ "/a:c/a:x", [lf "cl"])].
Definition exSC : schema := [exA; exB; exC].
Definition ord1 := [S_ "a"; S_ "b"; S_ "c"].
Definition ord2 := [S_ "c"; S_ "b"; S_ "a"].

Definition is_ok (r : result) : bool := match r with ROk _ => true | RErr => false end.
Definition stage_clean_done (x : forest * bool * pendings * list str) : bool :=
  match x with (_, false, P, []) => match all_pending P with [] => true | _ => false end | _ => false end.

Example C07_ex_both_orders_clean :
  is_ok (Process exSC false false ord1) = true /\ is_ok (Process exSC false false ord2) = true /\
  stage_clean_done (augment_stage exSC false ord1) = true /\ stage_clean_done (augment_stage exSC false ord2) = true.
Proof. vm_compute. auto. Qed.

Example C07_ex_hypotheses : NoDup (map m_name exSC) /\ covers (pend0 exSC) ord1 /\ covers (pend0 exSC) ord2 /\
  no_deviations exSC /\ sources_ok exSC false = true.
Proof.
  split; [| split; [| split; [| split]]].
  - repeat constructor; simpl; intros H; repeat (destruct H as [H | H]; [discriminate |]); exact H.
  - apply covers_all. intros m [H | [H | [H | []]]]; subst m; vm_compute; tauto.
  - apply covers_all. intros m [H | [H | [H | []]]]; subst m; vm_compute; tauto.
  - intros m [H | [H | [H | []]]]; subst m; reflexivity.
  - vm_compute. reflexivity.
Qed.

(* the Process-level theorem applies: both orders give equivalent forests *)
Example C07_ex_orders_equivalent :
  match Process exSC false false ord1, Process exSC false false ord2 with
  | ROk F1, ROk F2 => forest_eqv F1 F2
  | RErr, RErr => True
  | _, _ => False
  end.
Proof.
  destruct C07_ex_hypotheses as [Hnd [Hc1 [Hc2 [Hdev _]]]].
  exact (C07_T2_process_order_independent exSC false false Hdev Hnd ord1 ord2 Hc1 Hc2).
Qed.

(* the grafted nodes and their namespaces, in both orders *)
Definition ns_at (order : list str) (steps : list step) : option str :=
  match Process exSC false false order with
  | ROk F => Some (Namespace exSC F (S_ "a", steps))
  | RErr => None
  end.

Example C07_ex_namespaces :
  ns_at ord1 [SChild (S_ "c"); SChild (S_ "x")] = Some (S_ "urn:b") /\
  ns_at ord2 [SChild (S_ "c"); SChild (S_ "x")] = Some (S_ "urn:b") /\
  ns_at ord1 [SChild (S_ "c"); SChild (S_ "x"); SChild (S_ "bl")] = Some (S_ "urn:b") /\
  ns_at ord1 [SChild (S_ "c"); SChild (S_ "x"); SChild (S_ "cl")] = Some (S_ "urn:c") /\
  ns_at ord2 [SChild (S_ "c"); SChild (S_ "x"); SChild (S_ "cl")] = Some (S_ "urn:c") /\
  ns_at ord1 [SChild (S_ "c"); SChild (S_ "l")] = Some (S_ "urn:a").
Proof. vm_compute. repeat split. Qed.

(* the error variants are reported in both orders: missing target, leaf target, conflicting pair *)
Definition exMissing := md "b" [(S_ "a", S_ "a")] [] [(S_ "/a:nope", [lf "z"])].
Definition exLeaf := md "b" [(S_ "a", S_ "a")] [] [(S_ "/a:c/a:l", [lf "z"])].
Definition exDup := md "c" [(S_ "a", S_ "a")] [] [(S_ "/a:c", [lf "x"])].

Example C07_ex_reported :
  Process [exA; exMissing] false false [S_ "a"; S_ "b"] = RErr /\
  Process [exA; exMissing] false false [S_ "b"; S_ "a"] = RErr /\
  Process [exA; exLeaf] false false [S_ "a"; S_ "b"] = RErr /\
  Process [exA; exLeaf] false false [S_ "b"; S_ "a"] = RErr /\
  Process [exA; exB; exDup] false false ord1 = RErr /\
  Process [exA; exB; exDup] false false ord2 = RErr.
Proof. vm_compute. repeat split. Qed.

(* augments that define no node (empty body; uses of a grouping without nodes): reported on a missing or leaf
   target in both orders, clean - and without effect - on a proper target *)
Definition exGE := DGrouping 7 (S_ "ge") [].
Definition exEmptyMissing := md "b" [(S_ "a", S_ "a")] [] [(S_ "/a:nope", [])].
Definition exEmptyLeaf := md "b" [(S_ "a", S_ "a")] [] [(S_ "/a:c/a:l", [])].
Definition exUsesEmptyMissing := md "b" [(S_ "a", S_ "a")] [exGE] [(S_ "/a:c/a:nope", [DUses (S_ "ge")])].
Definition exEmptyGood := md "b" [(S_ "a", S_ "a")] [exGE] [(S_ "/a:c", []); (S_ "/a:c", [DUses (S_ "ge")])].

Example C07_ex_nothing_to_graft_reported :
  Process [exA; exEmptyMissing] false false [S_ "a"; S_ "b"] = RErr /\
  Process [exA; exEmptyMissing] false false [S_ "b"; S_ "a"] = RErr /\
  Process [exA; exEmptyLeaf] false false [S_ "a"; S_ "b"] = RErr /\
  Process [exA; exEmptyLeaf] false false [S_ "b"; S_ "a"] = RErr /\
  Process [exA; exUsesEmptyMissing] false false [S_ "a"; S_ "b"] = RErr /\
  Process [exA; exUsesEmptyMissing] false false [S_ "b"; S_ "a"] = RErr /\
  is_ok (Process [exA; exEmptyGood] false false [S_ "a"; S_ "b"]) = true /\
  Process [exA; exEmptyGood] false false [S_ "a"; S_ "b"] = Process [exA; md "b" [(S_ "a", S_ "a")] [exGE] []] false false [S_ "a"; S_ "b"].
Proof. vm_compute. repeat split. Qed.

(* regression witness (was order-dependent before the rounds): a chain that starts below the case FixChoice
   inserts around a shorthand choice member resolves in both orders *)
Definition exCh := md "a" [] [DChoice (S_ "ch") TSUnset TSUnset None [DContainer (S_ "x") TSUnset [lf "y"]]]
                      [(S_ "/a:ch/a:x/a:x/a:n", [lf "z"]); (S_ "/a:ch/a:x/a:x", [DContainer (S_ "n") TSUnset []])].
Definition exCh2 := md "b" [(S_ "a", S_ "a")] [] [(S_ "/a:ch/a:x/a:x/a:n", [lf "w"])].

Example C07_ex_implicit_case_chain :
  is_ok (Process [exCh; exCh2] false false [S_ "a"; S_ "b"]) = true /\
  is_ok (Process [exCh; exCh2] false false [S_ "b"; S_ "a"]) = true.
Proof. vm_compute. auto. Qed.
