(* C17 — Schema path lookup finds exactly the node the path names.
   Only statements, closed by [exact], and non-vacuity examples.

   [Find], [locate_pos], [update_pos] are the model of Entry.Find in Model/Schema.v (positions = module name and
   steps from the module's root entry; the forest is threaded because Find creates rpc/action input and output
   on demand).  The spelling of positions as paths ([abs_path], [rel_path]), the well-formedness conditions
   ([path_ok] along one path, [wf_forest] for whole forests, [wf_forestb] its checker) and [names_module],
   [no_child], [label], [below] are in Spec/C17.v.  The theorems hold for EVERY forest, not only for results of
   Process. *)
From Coq Require Import List NArith Bool Ascii String.
From GY Require Import Model.Schema Spec.C17 Proofs.FindProofs.
Import ListNotations.
Local Open Scope N_scope.

(* T1 (absolute): for every forest F, every position (mn, steps) that exists in F and whose path can be followed
   (child steps at non-rpc nodes, names free of "/" and ":" and not "", ".", ".."), every context module ctx
   that names mn's module by prefix pfx and EVERY start position: looking up "/pfx:s1/.../pfx:sn" (input and
   output spelled out) returns exactly that position and leaves the forest unchanged. *)
Theorem C17_abs_lookup : forall SC F ctx pfx mn steps e,
  names_module SC ctx pfx mn -> good_prefix pfx -> steps <> [] ->
  locate_pos F (mn, steps) = Some e -> path_ok_pos F (mn, steps) ->
  forall start, Find SC F ctx start (abs_path pfx steps) = (Some (mn, steps), F).
Proof. exact Find_abs. Qed.

(* the same with the hypothesis on the whole forest *)
Theorem C17_abs_lookup_wf : forall SC F ctx pfx mn steps e, wf_forest F ->
  names_module SC ctx pfx mn -> good_prefix pfx -> steps <> [] -> locate_pos F (mn, steps) = Some e ->
  forall start, Find SC F ctx start (abs_path pfx steps) = (Some (mn, steps), F).
Proof. exact Find_abs_wf. Qed.

(* T1 for an absolute path WITHOUT prefixes, "/s1/.../sn": it is looked up in the tree of the start position --
   for a start position filed under a submodule's name, in the tree of the module the submodule belongs to --
   whatever the context module *)
Theorem C17_abs_lookup_plain : forall SC F ctx start steps e, steps <> [] ->
  locate_pos F (start_root SC start, steps) = Some e -> path_ok_pos F (start_root SC start, steps) ->
  Find SC F ctx start (plain_path steps) = (Some (start_root SC start, steps), F).
Proof. exact Find_abs_plain. Qed.

Theorem C17_start_root_module : forall SC start m, find_module SC (fst start) = Some m -> m_belongs m = None ->
  m_name m = fst start -> start_root SC start = fst start.
Proof. exact start_root_module. Qed.

Theorem C17_start_root_submodule : forall SC start sm o, find_module SC (fst start) = Some sm ->
  owner SC sm = Some o -> start_root SC start = m_name o.
Proof. exact start_root_submodule. Qed.

(* who names whom: a module or submodule names its owner by its own (belongs-to) prefix, and the owner of
   whatever its first import statement with prefix pfx resolves to by that prefix *)
Theorem C17_names_own : forall SC ctx m, owner SC ctx = Some m -> names_module SC ctx (m_prefix ctx) (m_name m).
Proof. exact names_own. Qed.

Theorem C17_names_import : forall SC ctx pfx imn md m, pfx <> [] -> pfx <> m_prefix ctx ->
  import_of pfx (m_imports ctx) = Some imn -> find_module SC imn = Some md -> owner SC md = Some m ->
  names_module SC ctx pfx (m_name m).
Proof. exact names_import. Qed.

(* T2 (relative): from position c ++ a (which need not even exist) the path "../" x |a| followed by the names of b
   returns position c ++ b, forest unchanged; for a = b = [] the path is "." *)
Theorem C17_rel_lookup : forall SC F ctx mn root c a b ec x,
  lookup mn F = Some root -> locate root c = Some ec -> locate ec b = Some x -> path_ok ec b ->
  Find SC F ctx (mn, c ++ a) (rel_path a b) = (Some (mn, c ++ b), F).
Proof. exact Find_rel. Qed.

Theorem C17_rel_lookup_wf : forall SC F ctx mn c a b x, wf_forest F -> locate_pos F (mn, c ++ b) = Some x ->
  Find SC F ctx (mn, c ++ a) (rel_path a b) = (Some (mn, c ++ b), F).
Proof. exact Find_rel_wf. Qed.

(* T3 (bad step): a component that names no child of the node reached so far -- at an rpc/action node anything
   but input/output, elsewhere anything that is not a key of Dir -- makes the whole lookup return nothing,
   whatever follows it *)
Theorem C17_bad_step_abs : forall SC F ctx pfx mn pre e nm rest,
  names_module SC ctx pfx mn -> good_prefix pfx ->
  locate_pos F (mn, pre) = Some e -> path_ok_pos F (mn, pre) ->
  noslash nm -> no_child e nm -> Forall noslash rest ->
  forall start, Find SC F ctx start (join_abs (map (abs_part pfx) pre ++ (pfx ++ cCOLON :: nm) :: rest)) = (None, F).
Proof. exact Find_abs_bad_step. Qed.

Theorem C17_bad_step_rel : forall SC F ctx mn root c a b ec x part rest,
  lookup mn F = Some root -> locate root c = Some ec -> locate ec b = Some x -> path_ok ec b ->
  noslash part -> part <> [] -> str_eqb part s_dot = false -> str_eqb part s_dotdot = false ->
  no_child x (snd (getPrefix part)) -> Forall noslash rest ->
  Find SC F ctx (mn, c ++ a) (join_rel (rel_parts a b ++ part :: rest)) = (None, F).
Proof. exact Find_rel_bad_step. Qed.

(* a lookup that continues from a position that does not exist returns nothing *)
Theorem C17_missing_position : forall F mn pre part rest, locate_pos F (mn, pre) = None ->
  str_eqb part s_dot = false -> str_eqb part s_dotdot = false ->
  find_steps F (Some (mn, pre)) (part :: rest) = (None, F).
Proof. exact find_steps_missing. Qed.

(* T4 (input/output on demand): on an rpc/action node without input, ".../input" returns the position of a
   new input and the forest changes exactly by that node *)
Theorem C17_lazy_input : forall SC F ctx pfx mn pre e o,
  names_module SC ctx pfx mn -> good_prefix pfx ->
  locate_pos F (mn, pre) = Some e -> path_ok_pos F (mn, pre) -> e_rpc e = Some (None, o) ->
  forall start, Find SC F ctx start (abs_path pfx (pre ++ [SIn]))
                = (Some (mn, pre ++ [SIn]), update_pos F (mn, pre) (add_input o)).
Proof. exact Find_abs_lazy_input. Qed.

Theorem C17_lazy_output : forall SC F ctx pfx mn pre e i,
  names_module SC ctx pfx mn -> good_prefix pfx ->
  locate_pos F (mn, pre) = Some e -> path_ok_pos F (mn, pre) -> e_rpc e = Some (i, None) ->
  forall start, Find SC F ctx start (abs_path pfx (pre ++ [SOut]))
                = (Some (mn, pre ++ [SOut]), update_pos F (mn, pre) (add_output i)).
Proof. exact Find_abs_lazy_output. Qed.

(* frame: the new node is the empty input (nothing below it); the rpc node is the old one with the input hung
   in; every node outside the new input keeps its own attributes and no other node appears or disappears; every
   position that is not on the way to the rpc sees exactly the entry it saw before; so do the rpc's other
   children *)
Theorem C17_lazy_input_frame : forall F mn pre e o, locate_pos F (mn, pre) = Some e -> e_rpc e = Some (None, o) ->
  let F' := update_pos F (mn, pre) (add_input o) in
  (forall r, locate_pos F' (mn, pre ++ SIn :: r) = locate (empty_io true) r) /\
  locate_pos F' (mn, pre) = Some (add_input o e) /\
  (forall q, ~ below (mn, pre ++ [SIn]) q -> option_map label (locate_pos F' q) = option_map label (locate_pos F q)) /\
  (forall q, ~ below q (mn, pre) -> ~ below (mn, pre) q -> locate_pos F' q = locate_pos F q) /\
  (forall s r, s <> SIn -> locate_pos F' (mn, pre ++ s :: r) = locate_pos F (mn, pre ++ s :: r)).
Proof. exact lazy_input_frame. Qed.

Theorem C17_lazy_output_frame : forall F mn pre e i, locate_pos F (mn, pre) = Some e -> e_rpc e = Some (i, None) ->
  let F' := update_pos F (mn, pre) (add_output i) in
  (forall r, locate_pos F' (mn, pre ++ SOut :: r) = locate (empty_io false) r) /\
  locate_pos F' (mn, pre) = Some (add_output i e) /\
  (forall q, ~ below (mn, pre ++ [SOut]) q -> option_map label (locate_pos F' q) = option_map label (locate_pos F q)) /\
  (forall q, ~ below q (mn, pre) -> ~ below (mn, pre) q -> locate_pos F' q = locate_pos F q) /\
  (forall s r, s <> SOut -> locate_pos F' (mn, pre ++ s :: r) = locate_pos F (mn, pre ++ s :: r)).
Proof. exact lazy_output_frame. Qed.

(* the boolean check run on every model forest by the correspondence step implies the hypotheses above *)
Theorem C17_wf_checker_sound : forall fuel F, wf_forestb fuel F = true -> wf_forest F.
Proof. exact wf_forestb_sound. Qed.

Theorem C17_wf_path_ok : forall F p e, wf_forest F -> locate_pos F p = Some e -> path_ok_pos F p.
Proof. exact wf_forest_path_ok. Qed.

(* ------------------------------------------------------------------ non-vacuity *)
Definition s (x : string) : str := map N_of_ascii (list_ascii_of_string x).
Definition lf (n : string) : dnode := DLeaf (s n) (s "string") TSUnset TSUnset None None.

(* module a { prefix a; include as1; container c { leaf l; }  choice ch { leaf sh; }  rpc r { output { leaf o; } } }
   submodule as1 { belongs-to a { prefix a; }  container sc { leaf sl; } }
   module b { prefix b; import a { prefix xa; }
              augment /xa:c { leaf g; }  augment /xa:ch { leaf ag; }  augment /xa:r/xa:input { leaf i; } } *)
Definition ex_a : module :=
  {| m_name := s "a"; m_prefix := s "a"; m_ns := s "urn:a"; m_belongs := None; m_imports := [];
     m_includes := [s "as1"];
     m_body := [DContainer (s "c") TSUnset [lf "l"]; DChoice (s "ch") TSUnset TSUnset None [lf "sh"];
                DRpc false (s "r") None (Some [lf "o"])];
     m_augments := []; m_deviations := [] |}.
Definition ex_as1 : module :=
  {| m_name := s "as1"; m_prefix := s "a"; m_ns := []; m_belongs := Some (s "a"); m_imports := [];
     m_includes := []; m_body := [DContainer (s "sc") TSUnset [lf "sl"]]; m_augments := []; m_deviations := [] |}.
Definition ex_b : module :=
  {| m_name := s "b"; m_prefix := s "b"; m_ns := s "urn:b"; m_belongs := None; m_imports := [(s "xa", s "a")];
     m_includes := []; m_body := [];
     m_augments := [(s "/xa:c", [lf "g"]); (s "/xa:ch", [lf "ag"]); (s "/xa:r/xa:input", [lf "i"])];
     m_deviations := [] |}.
Definition ex_SC : schema := [ex_a; ex_as1; ex_b].
Definition ex_F : forest :=
  match Process ex_SC false false [s "a"; s "as1"; s "b"] with ROk F => F | RErr => [] end.

Example C17_ex_processed : Process ex_SC false false [s "a"; s "as1"; s "b"] = ROk ex_F /\ wf_forestb 10 ex_F = true.
Proof. split; vm_compute; reflexivity. Qed.

Example C17_ex_wf : wf_forest ex_F.
Proof. apply (wf_forestb_sound 10). vm_compute. reflexivity. Qed.

(* b names a by the import prefix xa, the submodule as1 names its owner a by its belongs-to prefix *)
Example C17_ex_names_import : names_module ex_SC ex_b (s "xa") (s "a").
Proof. apply (names_import ex_SC ex_b (s "xa") (s "a") ex_a ex_a); try reflexivity; discriminate. Qed.
Example C17_ex_names_sub : names_module ex_SC ex_as1 (s "a") (s "a").
Proof. exact (names_own ex_SC ex_as1 ex_a eq_refl). Qed.
Example C17_ex_good_prefix : good_prefix (s "xa").
Proof. repeat split; [discriminate|vm_compute; intuition discriminate..]. Qed.

(* the positions the property names exist in the processed forest: a leaf grafted by an augment, a leaf grafted
   into a choice and wrapped into an implicit case, a leaf grafted into an rpc input that the augment's own lookup
   created, a leaf of the written output, a node written in a submodule *)
Definition ex_positions : list (list step) :=
  [ [SChild (s "c"); SChild (s "g")];
    [SChild (s "ch"); SChild (s "ag"); SChild (s "ag")];
    [SChild (s "ch"); SChild (s "sh"); SChild (s "sh")];
    [SChild (s "r"); SIn; SChild (s "i")];
    [SChild (s "r"); SOut; SChild (s "o")];
    [SChild (s "sc"); SChild (s "sl")] ].

Example C17_ex_located : forallb (fun st => match locate_pos ex_F (s "a", st) with Some _ => true | None => false end)
                                 ex_positions = true.
Proof. vm_compute. reflexivity. Qed.

(* T1 instantiated (through the theorem, not by evaluation) and cross-checked by evaluation *)
Example C17_ex_abs : forall start,
  Find ex_SC ex_F ex_b start (s "/xa:r/xa:input/xa:i") = (Some (s "a", [SChild (s "r"); SIn; SChild (s "i")]), ex_F).
Proof.
  intros start.
  change (s "/xa:r/xa:input/xa:i") with (abs_path (s "xa") [SChild (s "r"); SIn; SChild (s "i")]).
  eapply Find_abs_wf; [exact C17_ex_wf|exact C17_ex_names_import|exact C17_ex_good_prefix|discriminate|].
  vm_compute. reflexivity.
Qed.

Example C17_ex_abs_eval :
  forallb (fun st => match Find ex_SC ex_F ex_b (s "b", []) (abs_path (s "xa") st) with
                     | (Some (mn, st'), _) => str_eqb mn (s "a") && Nat.eqb (List.length st') (List.length st)
                     | _ => false
                     end) ex_positions = true.
Proof. vm_compute. reflexivity. Qed.

(* the unprefixed absolute path, from a position in a's tree and from one filed under the submodule's name *)
Example C17_ex_abs_plain : forall ctx st,
  Find ex_SC ex_F ctx (s "a", st) (s "/r/output/o") = (Some (s "a", [SChild (s "r"); SOut; SChild (s "o")]), ex_F) /\
  Find ex_SC ex_F ctx (s "as1", st) (s "/sc/sl") = (Some (s "a", [SChild (s "sc"); SChild (s "sl")]), ex_F).
Proof.
  intros ctx st. split.
  - change (s "/r/output/o") with (plain_path [SChild (s "r"); SOut; SChild (s "o")]).
    change (s "a") with (start_root ex_SC (s "a", st)) at 2.
    eapply Find_abs_plain_wf; [exact C17_ex_wf|discriminate|vm_compute; reflexivity].
  - change (s "/sc/sl") with (plain_path [SChild (s "sc"); SChild (s "sl")]).
    change (s "a") with (start_root ex_SC (s "as1", st)).
    eapply Find_abs_plain_wf; [exact C17_ex_wf|discriminate|vm_compute; reflexivity].
Qed.

(* T2: from /c/l to /ch/ag/ag: "../../ch/ag/ag" *)
Example C17_ex_rel : forall ctx,
  Find ex_SC ex_F ctx (s "a", [SChild (s "c"); SChild (s "l")]) (s "../../ch/ag/ag")
  = (Some (s "a", [SChild (s "ch"); SChild (s "ag"); SChild (s "ag")]), ex_F).
Proof.
  intros ctx.
  change (s "../../ch/ag/ag")
    with (rel_path [SChild (s "c"); SChild (s "l")] [SChild (s "ch"); SChild (s "ag"); SChild (s "ag")]).
  eapply (Find_rel_wf ex_SC ex_F ctx (s "a") [] [SChild (s "c"); SChild (s "l")]
                      [SChild (s "ch"); SChild (s "ag"); SChild (s "ag")]); [exact C17_ex_wf|].
  vm_compute. reflexivity.
Qed.

(* T3: one bad step at each position of /xa:r/xa:input/xa:i, and a step other than input/output at the rpc *)
Example C17_ex_bad : forall start,
  Find ex_SC ex_F ex_b start (s "/xa:r/xa:input/xa:zz") = (None, ex_F) /\
  Find ex_SC ex_F ex_b start (s "/xa:r/xa:zz/xa:i") = (None, ex_F) /\
  Find ex_SC ex_F ex_b start (s "/xa:zz/xa:input/xa:i") = (None, ex_F).
Proof.
  intros start. split; [|split].
  - change (s "/xa:r/xa:input/xa:zz")
      with (join_abs (map (abs_part (s "xa")) [SChild (s "r"); SIn] ++ (s "xa" ++ cCOLON :: s "zz") :: [])).
    eapply Find_abs_bad_step_wf; [exact C17_ex_wf|exact C17_ex_names_import|exact C17_ex_good_prefix| | | |constructor].
    + vm_compute. reflexivity.
    + vm_compute. intuition discriminate.
    + vm_compute. split; [discriminate|reflexivity].
  - change (s "/xa:r/xa:zz/xa:i")
      with (join_abs (map (abs_part (s "xa")) [SChild (s "r")] ++ (s "xa" ++ cCOLON :: s "zz") :: [s "xa:i"])).
    eapply Find_abs_bad_step_wf; [exact C17_ex_wf|exact C17_ex_names_import|exact C17_ex_good_prefix| | | |].
    + vm_compute. reflexivity.
    + vm_compute. intuition discriminate.
    + vm_compute. split; discriminate.
    + constructor; [|constructor]. vm_compute. intuition discriminate.
  - change (s "/xa:zz/xa:input/xa:i")
      with (join_abs (map (abs_part (s "xa")) [] ++ (s "xa" ++ cCOLON :: s "zz") :: [s "xa:input"; s "xa:i"])).
    eapply Find_abs_bad_step_wf; [exact C17_ex_wf|exact C17_ex_names_import|exact C17_ex_good_prefix| | | |].
    + vm_compute. reflexivity.
    + vm_compute. intuition discriminate.
    + vm_compute. split; [discriminate|reflexivity].
    + repeat constructor; vm_compute; intuition discriminate.
Qed.

(* T4: module d { rpc q; }: "/d:q/d:input" creates the input, "/d:q/d:output" the output *)
Definition ex_d : module :=
  {| m_name := s "d"; m_prefix := s "d"; m_ns := s "urn:d"; m_belongs := None; m_imports := [];
     m_includes := []; m_body := [DRpc false (s "q") None None]; m_augments := []; m_deviations := [] |}.
Definition ex_Fd : forest := match Process [ex_d] false false [s "d"] with ROk F => F | RErr => [] end.

Example C17_ex_lazy : forall start,
  exists e, locate_pos ex_Fd (s "d", [SChild (s "q")]) = Some e /\ e_rpc e = Some (None, None) /\
  locate_pos ex_Fd (s "d", [SChild (s "q"); SIn]) = None /\
  Find [ex_d] ex_Fd ex_d start (s "/d:q/d:input")
  = (Some (s "d", [SChild (s "q"); SIn]), update_pos ex_Fd (s "d", [SChild (s "q")]) (add_input None)) /\
  locate_pos (update_pos ex_Fd (s "d", [SChild (s "q")]) (add_input None)) (s "d", [SChild (s "q"); SIn])
  = Some (empty_io true).
Proof.
  intros start. eexists. split; [vm_compute; reflexivity|]. split; [reflexivity|]. split; [vm_compute; reflexivity|].
  split; [|vm_compute; reflexivity].
  change (s "/d:q/d:input") with (abs_path (s "d") ([SChild (s "q")] ++ [SIn])).
  eapply Find_abs_lazy_input_wf.
  - apply (wf_forestb_sound 10). vm_compute. reflexivity.
  - exact (names_own [ex_d] ex_d ex_d eq_refl).
  - repeat split; [discriminate|vm_compute; intuition discriminate..].
  - vm_compute. reflexivity.
  - reflexivity.
Qed.
