(* placeholder while the proofs are being written *)
From Coq Require Import List NArith Bool.
From GY Require Import Model.Registry Model.File Spec.C13.
Theorem C13_placeholder : True. Proof. exact I. Qed.
