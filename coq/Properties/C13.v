(* C13 — Names bind to the right module revision (parts a and b of the property).
   Only statements, closed by [exact], refutation witnesses for defects of the pinned code,
   and non-vacuity examples.  Part (c), include = inline, is NOT covered by these theorems.

   (a) registry: Model/Registry.v  (Modules.add as repaired by the fix for D30, lookup half of
       Modules.FindModule, Module.Current / FullName) over all sequences of module headers;
       [add_old] / [verdicts_old] is the pinned-commit add, used only by the _refuted witnesses;
   (b) file chooser: Model/File.v (findInDir, findFile) over all directory trees.
   Strings are byte lists compared as Go compares strings.  Module names are assumed to be
   '@'-free ([names_ok], [at_free]): they are YANG identifiers. *)
From Coq Require Import List NArith Bool Permutation.
Import ListNotations.
From GY Require Import Base.Outcome Model.Registry Model.File Spec.C13.
From GY Require Import Proofs.RegistryProofs Proofs.FileProofs.

(* ================================== (a) registry ===================================== *)

(* the revision of a module is the greatest argument of its revision statements, whatever
   their written order ("" when there is none) *)
Theorem C13_current_is_greatest : forall revs,
  (forall r, In r revs -> str_ltb (Current revs) r = false) /\
  (Current revs = [] \/ In (Current revs) revs).
Proof. intros revs. split; [exact (Current_ge revs)|exact (Current_in revs)]. Qed.

(* T-a: after ANY load sequence every lookup (bare name, import/include without and with
   revision-date) denotes what the specification says *)
Theorem C13_lookup : forall hs k n rev,
  names_ok hs = true -> at_free n = true ->
  Registry.find (final hs) k n rev = spec_find hs k n rev.
Proof. exact find_spec. Qed.

(* bare name / import without revision-date: the loaded header of that name with the
   latest revision; nothing iff none is loaded *)
Theorem C13_bare_name_is_latest : forall hs k n, names_ok hs = true -> at_free n = true ->
  match Registry.find (final hs) k n None with
  | Some m => In m hs /\ h_kind m = k /\ h_name m = n /\
              forall c, In c hs -> h_kind c = k -> h_name c = n -> str_ltb (cur m) (cur c) = false
  | None => forall c, In c hs -> ~ (h_kind c = k /\ h_name c = n)
  end.
Proof. exact find_bare_latest. Qed.

(* import/include with revision-date r: exactly that revision whenever it is loaded *)
Theorem C13_revision_date_is_exact : forall hs k n r h0,
  names_ok hs = true -> at_free n = true -> r <> [] ->
  In h0 hs -> is_knr k n r h0 = true ->
  exists h, Registry.find (final hs) k n (Some r) = Some h /\ In h hs /\
            h_kind h = k /\ h_name h = n /\ cur h = r.
Proof. exact find_exact. Qed.

(* the same (kind, name, revision) loaded again is rejected, in every sequence *)
Theorem C13_duplicate_rejected : forall pre h post,
  names_ok (pre ++ h :: post) = true -> existsb (same_key h) pre = true ->
  nth (length pre) (verdicts (pre ++ h :: post)) true = false.
Proof. exact duplicate_rejected. Qed.

(* and every header whose (kind, name, revision) was not loaded before is accepted *)
Theorem C13_new_key_accepted : forall pre h post,
  names_ok (pre ++ h :: post) = true -> existsb (same_key h) pre = false ->
  nth (length pre) (verdicts (pre ++ h :: post)) false = true.
Proof. exact new_key_accepted. Qed.

(* the verdicts of every sequence: a header is rejected iff its (kind, name, revision) was
   loaded before.  Unconditional since the fix for D30 (the model follows the repaired add). *)
Theorem C13_verdicts : forall hs, names_ok hs = true -> verdicts hs = spec_verdicts hs.
Proof. exact verdicts_spec. Qed.

Definition hB : header := {| h_id := 0; h_kind := KMod; h_name := [109]; h_revs := [[50;48;50;48;45;48;49;45;48;49]] |}%N.
Definition hA : header := {| h_id := 1; h_kind := KMod; h_name := [109]; h_revs := [] |}%N.
Definition hC : header := {| h_id := 2; h_kind := KMod; h_name := [109];
                             h_revs := [[50;48;49;57]; [50;48;50;49]; [50;48;50;48]] |}%N.

(* D30 at the pinned commit ([add_old]): module m revision 2020-01-01, then module m without
   revision: the second was rejected *)
Theorem C13_verdicts_refuted : exists hs, names_ok hs = true /\ verdicts_old hs <> spec_verdicts hs.
Proof. exists [hB; hA]. split; [reflexivity|]. vm_compute. discriminate. Qed.

(* order independence of the bindings: both maps end up the same under every permutation
   of headers with pairwise distinct (kind, name, revision) *)
Theorem C13_bindings_order_independent : forall hs hs',
  Permutation hs hs' -> distinct_keys hs -> names_ok hs = true ->
  forall k key, mget (sel (final hs) k) key = mget (sel (final hs') k) key.
Proof. exact bindings_order_independent. Qed.

Theorem C13_lookups_order_independent : forall hs hs',
  Permutation hs hs' -> distinct_keys hs -> names_ok hs = true ->
  forall k n rev, Registry.find (final hs) k n rev = Registry.find (final hs') k n rev.
Proof. exact lookups_order_independent. Qed.

(* order independence of the verdicts: distinct headers are all accepted in every load order *)
Theorem C13_all_accepted : forall hs hs',
  Permutation hs hs' -> distinct_keys hs -> names_ok hs = true ->
  forallb (fun b => b) (verdicts hs') = true.
Proof. exact all_accepted. Qed.

(* D30 at the pinned commit ([add_old]): accepted in one load order, rejected in the other *)
Theorem C13_all_accepted_refuted : exists hs hs',
  Permutation hs hs' /\ distinct_keys hs /\ names_ok hs = true /\
  forallb (fun b => b) (verdicts_old hs) = true /\ forallb (fun b => b) (verdicts_old hs') = false.
Proof.
  exists [hA; hB], [hB; hA]. split; [apply perm_swap|]. split.
  - unfold distinct_keys. vm_compute. repeat constructor; simpl; intuition discriminate.
  - repeat split; reflexivity.
Qed.

(* ---- texts holding several modules: Modules.Parse is all or nothing ---- *)

(* atomicity: a rejected text leaves the module set exactly as it was *)
Theorem C13_parse_text_atomic : forall st hs, snd (parse_text st hs) = false -> fst (parse_text st hs) = st.
Proof. exact parse_text_atomic. Qed.

(* an accepted text is the same as adding its statements one after the other, all of them accepted *)
Theorem C13_parse_text_accepted : forall st hs, snd (parse_text st hs) = true ->
  fst (parse_text st hs) = fst (run_with add st hs) /\
  forallb (fun b => b) (snd (run_with add st hs)) = true.
Proof. exact parse_text_accepted. Qed.

(* every load history made of texts: a text is accepted iff each of its headers is new with
   respect to the ACCEPTED texts before it and to the headers before it in the same text; the
   lookups afterwards are those of the accepted headers loaded one by one *)
Theorem C13_parse_texts : forall texts k n rev,
  names_ok (concat texts) = true -> at_free n = true ->
  snd (parse_texts NewModules texts) = spec_texts [] texts /\
  Registry.find (fst (parse_texts NewModules texts)) k n rev = spec_find (accepted_headers [] texts) k n rev.
Proof. exact parse_texts_find. Qed.

Example C13_parse_text_ex :
  snd (parse_texts NewModules [[hB]; [hC; hB]; [hC; hA]; [hA; hA]; [hA]]) = [true; false; true; false; false] /\
  option_map h_id (Registry.find (fst (parse_texts NewModules [[hB]; [hC; hB]])) KMod [109]%N None) = Some 0%N.
Proof. vm_compute. split; reflexivity. Qed.

(* ================================ (b) file chooser =================================== *)

(* what a directory offers for module [name] ([spec_best]): a file of that directory that
   belongs to the module (name.yang or name@YYYY-MM-DD.yang, never another stem), name.yang
   whenever present, else the dated file no other dated file of the module is later than *)
Theorem C13_offer_is_best : forall name es f, spec_best name es = Some f ->
  In f (files es) /\ candidate name f /\
  (In (name ++ DOT_YANG) (files es) -> f = name ++ DOT_YANG) /\
  (f <> name ++ DOT_YANG ->
   exists df, f = name ++ AT :: df ++ DOT_YANG /\ date_shaped df = true /\
     forall d, date_shaped d = true -> In (name ++ AT :: d ++ DOT_YANG) (files es) -> str_ltb df d = false).
Proof. exact spec_best_sound. Qed.

Theorem C13_no_offer_no_candidate : forall name es, spec_best name es = None ->
  forall f, In f (files es) -> ~ candidate name f.
Proof. exact spec_best_none. Qed.

(* string order on YYYY-MM-DD is calendar order *)
Theorem C13_date_order : forall a b, date_shaped a = true -> date_shaped b = true ->
  str_ltb a b = N.ltb (date_num a) (date_num b).
Proof. exact date_order. Qed.

(* findInDir on one directory without recursion *)
Theorem C13_findInDir_plain : forall name n es,
  findInDir (name ++ DOT_YANG) false (Dir n es) = option_map (fun f => [f]) (spec_best name es).
Proof. exact findInDir_plain. Qed.

(* T-b, search paths without "dir/..." elements: findFile opens the offer of the first
   location (current directory first, then the path in order) that has one *)
Theorem C13_findfile_plain : forall cwd path name,
  has_slash name = false -> has_suffix name DOT_YANG = false ->
  forallb (fun pe : pathent => negb (snd pe)) path = true ->
  findFile cwd path name = to_outcome (spec_findFile cwd path name).
Proof. exact findFile_plain. Qed.

(* Full statement (fails on the pinned code for "dir/..." elements, see the _refuted theorem):
     forall cwd path name, has_slash name = false -> has_suffix name DOT_YANG = false ->
       findFile cwd path name = to_outcome (spec_findFile cwd path name)
   where a "dir/..." element stands for dir followed by its subdirectories depth first. *)
Theorem C13_findfile_partial : forall cwd path name,
  has_slash name = false -> has_suffix name DOT_YANG = false ->
  dots_nested name path = false ->
  findFile cwd path name = to_outcome (spec_findFile cwd path name).
Proof. exact findFile_partial. Qed.

Theorem C13_findfile_fs_partial : forall root cwd path name,
  has_slash name = false -> has_suffix name DOT_YANG = false ->
  resolve (readDirAll root) cwd <> None ->
  dots_nested_fs root path name = false ->
  findFile_fs root cwd path name = to_outcome (spec_findFile_fs root cwd path name).
Proof. exact findFile_fs_partial. Qed.

(* for EVERY search path, "dir/..." included: the file opened lies in the first location any
   of whose directories offers a file of the module, it is the offer of the directory it lies
   in -- hence name.yang or a name@date.yang, never a file of a differently named module *)
Theorem C13_findfile_sound : forall cwd path name f,
  has_slash name = false -> has_suffix name DOT_YANG = false ->
  findFile cwd path name = Ok f ->
  exists pe q es fl,
    nth_error ((Some cwd, false) :: path) (f_loc f) = Some pe /\
    f_rel f = q ++ [fl] /\ In (q, es) (dirs_of pe) /\
    spec_best name es = Some fl /\ candidate name fl /\ In fl (files es) /\
    forall j pe', j < f_loc f -> nth_error ((Some cwd, false) :: path) j = Some pe' ->
                  first_offer name (dirs_of pe') = None.
Proof. exact findFile_sound. Qed.

(* and nothing is opened only if no location offers anything *)
Theorem C13_findInDir_none : forall name d,
  findInDir (name ++ DOT_YANG) true d = None <-> any_offer name d = false.
Proof. exact findInDir_none. Qed.

(* findInDir on a "dir/..." element for EVERY tree, nested offers included (the behaviour behind
   the known finding findfile.dots-subdir-first, described exactly): entries in name order, the
   first that is name.yang or a subdirectory with any offer below it decides; else the latest own
   dated file *)
Theorem C13_findInDir_recursive_exact : forall name d,
  findInDir (name ++ DOT_YANG) true d = chosen name d.
Proof. exact findInDir_recursive_exact. Qed.

(* findFile for every search path without any hypothesis on the trees *)
Theorem C13_findfile_exact : forall cwd path name,
  has_slash name = false -> has_suffix name DOT_YANG = false ->
  findFile cwd path name = to_outcome (exact_findFile cwd path name).
Proof. exact findFile_exact. Qed.

(* and it is the depth-first offer exactly when no offering directory has an offering descendant *)
Theorem C13_chosen_is_first_offer : forall name d, nested_offers name d = false ->
  chosen name d = first_offer name (expand d).
Proof. exact chosen_is_first_offer. Qed.

Definition s_foo : str := [102;111;111]%N.
Definition s_2020 : str := s_foo ++ [64;50;48;50;48;45;48;49;45;48;49]%N ++ DOT_YANG.
Definition s_2019 : str := s_foo ++ [64;50;48;49;57;45;48;49;45;48;49]%N ++ DOT_YANG.
Definition d_p : entry := Dir [112]%N [File s_2020; Dir [115]%N [File s_2019]].

(* sig=findfile.dots-subdir-first: p/foo@2020-01-01.yang and p/s/foo@2019-01-01.yang, path
   "p/...": the older file in the subdirectory is opened *)
Theorem C13_findfile_dots_refuted : exists cwd path name,
  has_slash name = false /\ has_suffix name DOT_YANG = false /\
  findFile cwd path name <> to_outcome (spec_findFile cwd path name).
Proof.
  exists (Dir [] []), [(Some d_p, true)], s_foo. repeat split; try reflexivity.
  vm_compute. discriminate.
Qed.

(* ==================================== non-vacuity ==================================== *)


Example C13_lookup_ex :
  option_map h_id (Registry.find (final [hB; hC; hA]) KMod [109]%N None) = Some 2%N /\
  option_map h_id (Registry.find (final [hB; hC; hA]) KMod [109]%N (Some [50;48;50;48;45;48;49;45;48;49]%N)) = Some 0%N /\
  verdicts [hB; hC; hA; hC; hA] = [true; true; true; false; false] /\
  verdicts_old [hB; hC; hA] = [true; true; false] /\
  names_ok [hB; hC; hA] = true.
Proof. vm_compute. repeat split; reflexivity. Qed.

Example C13_all_accepted_ex :
  verdicts [hA; hB; hC] = [true; true; true] /\ verdicts [hC; hB; hA] = [true; true; true] /\
  option_map h_id (Registry.find (final [hA; hB; hC]) KMod [109]%N None) = Some 2%N /\
  option_map h_id (Registry.find (final [hC; hB; hA]) KMod [109]%N None) = Some 2%N.
Proof. vm_compute. repeat split; reflexivity. Qed.

Example C13_findfile_ex :
  findFile (Dir [] []) [(None, false); (Some (Dir [120]%N [File s_2019; File s_2020; File (s_foo ++ [98]%N ++ DOT_YANG)]), false)] s_foo
  = Ok (Found 2 [s_2020]) /\
  dots_nested s_foo [(Some (Dir [120]%N [Dir [97]%N [File s_2019]; Dir [98]%N [File s_2020]]), true)] = false /\
  findFile (Dir [] []) [(Some (Dir [120]%N [Dir [97]%N [File s_2019]; Dir [98]%N [File s_2020]]), true)] s_foo
  = Ok (Found 1 [[97]%N; s_2019]) /\
  has_slash s_foo = false /\ has_suffix s_foo DOT_YANG = false.
Proof. vm_compute. repeat split; reflexivity. Qed.

(* The current directory as an element of the search path (named there as ".", "./" ..., or appended by an earlier
   Read of a file of the working directory, Model/File.v [Read]): asking for the FILE name.yang then finds a file
   whenever asking for the module name does -- the dated candidates of the current directory are reached through
   its path element, the only place where a file-name lookup sees them. *)
Theorem C13_findfile_file_name_here : forall cwd path name,
  has_slash name = false -> has_suffix name DOT_YANG = false ->
  In (Some cwd, false) path ->
  findFile cwd path name <> Err -> findFile cwd path (name ++ DOT_YANG) <> Err.
Proof. exact findFile_file_name_here. Qed.

Example C13_findfile_file_name_here_ex :
  let cwd := Dir [] [File s_2019; File s_2020] in
  findFile cwd [(Some cwd, false)] (s_foo ++ DOT_YANG) = Ok (Found 1 [s_2020]) /\
  findFile cwd [] (s_foo ++ DOT_YANG) = Err /\
  findFile cwd [] s_foo = Ok (Found 0 [s_2020]) /\
  Read_all (Dir [] [Dir [99]%N [File s_2019; File s_2020; File ([97]%N ++ DOT_YANG)]]) [[99]%N]
           (MState [] false []) [[97]%N ++ DOT_YANG; s_foo ++ DOT_YANG; s_foo ++ DOT_YANG]
  = [Ok [[99]%N; [97]%N ++ DOT_YANG]; Ok [[99]%N; s_2020]; Err].
Proof. vm_compute. repeat split; reflexivity. Qed.

(* ============================ (c) include = inline (core model) ====================== *)
(* On the core resolver model (Model/Schema.v: module_dir with the mergedSubmodule bookkeeping,
   find_grouping_mod's include walk, to_entry, module_entry).  [unsplit SC m] moves the body
   statements, augments and deviations of every submodule reachable from m through includes
   into m, [unsplit_schema SC m] replaces m and empties those submodules.
   Proved in full for DIRECT includes ([flat_family]: the included submodules include nothing
   themselves, belong to m, share its prefix, every uses name is local -- no import prefix --
   and a submodule uses only groupings it declares itself).  NOT covered by these theorems:
   nested includes (metamorphic check only), uses of imported groupings (C06), typedefs
   (Model/Types.v, C09) and identities (Model/Identity.v, C11) of submodules, and the effect of
   the moved augments/deviations on the final forest (Process), which the metamorphic check of
   check/props/c13.py compares on the implementation. *)
From GY Require Model.Schema Proofs.IncludeProofs.

Section PartC.
Import Schema IncludeProofs.

(* the module's tree (its Dir, child by child, in the same order) is the same whether its
   statements are spread over submodules or written in the module; so is the error flag,
   duplicates included -- except that an erroneous deviate of a submodule is reported on the
   submodule's entry when split and on the module's when unsplit *)
Theorem C13_include_module_entry : forall SC ic m subs, flat_family SC m subs ->
  fst (module_entry (unsplit_schema SC m) ic (unsplit SC m)) = fst (module_entry SC ic m) /\
  snd (module_entry (unsplit_schema SC m) ic (unsplit SC m)) =
    snd (module_entry SC ic m) || existsb devs_err (reachable_subs SC m).
Proof. exact module_entry_unsplit. Qed.

Theorem C13_include_unsplit_shape : forall SC m subs, flat_family SC m subs ->
  reachable_subs SC m = subs /\
  find_module (unsplit_schema SC m) (m_name m) = Some (unsplit SC m) /\
  m_includes (unsplit SC m) = [] /\
  map m_name (unsplit_schema SC m) = map m_name SC.
Proof. intros SC m subs FF. split; [exact (reachable_flat SC m subs FF)|exact (unsplit_schema_shape SC m subs FF)]. Qed.

(* a uses statement anywhere in the family (any part X, any nesting [inner] of X's statements)
   finds the same grouping statement before and after unsplitting *)
Theorem C13_include_grouping_lookup : forall SC m subs, flat_family SC m subs ->
  forall X inner u,
  In X (m :: subs) -> Forall (fun sc => okb (uses_ok m subs X) sc = true) inner ->
  uses_ok m subs X u = true ->
  match FindGrouping SC {| g_mod := X; g_scopes := inner ++ [m_body X] |} u,
        FindGrouping (unsplit_schema SC m)
                     {| g_mod := unsplit SC m; g_scopes := inner ++ [m_body (unsplit SC m)] |} u with
  | None, None => True
  | Some (gid, gb, _), Some (gid', gb', _) => gid = gid' /\ gb = gb'
  | _, _ => False
  end.
Proof. exact uses_lookup_unsplit. Qed.

(* the augments of all parts arrive at the unsplit module with the same body entries and errors *)
Theorem C13_include_augments : forall SC m subs, flat_family SC m subs ->
  map (fun a => (a_path a, a_dir a, a_err a)) (module_augs (unsplit_schema SC m) (unsplit SC m)) =
  flat_map (fun X => map (fun a => (a_path a, a_dir a, a_err a)) (module_augs SC X)) (m :: subs).
Proof. exact module_augs_unsplit. Qed.

(* non-vacuity: module m (prefix p) with a container using p:g1 of submodule s1 and a top-level
   uses of g2 of s2; s1 declares g1 (which uses its own h) and augments /c; s2 repeats leaf l1 of
   s1, so the error flag is set on both sides *)
Definition c_str (l : list nat) : Schema.str := map N.of_nat l.
Definition c_string := c_str [115;116;114;105;110;103].
Definition c_leaf (n : list nat) := DLeaf (c_str n) c_string TSUnset TSUnset None None.
Definition c_m : module :=
  {| m_name := c_str [109]; m_prefix := c_str [112]; m_ns := c_str [117]; m_belongs := None;
     m_imports := []; m_includes := [c_str [115;49]; c_str [115;50]];
     m_body := [DContainer (c_str [99]) TSUnset [DUses (c_str [112;58;103;49]); c_leaf [97]];
                DGrouping 1 (c_str [103;48]) [c_leaf [120]]; DUses (c_str [103;50])];
     m_augments := []; m_deviations := [] |}.
Definition c_s1 : module :=
  {| m_name := c_str [115;49]; m_prefix := c_str [112]; m_ns := []; m_belongs := Some (c_str [109]);
     m_imports := []; m_includes := [];
     m_body := [DGrouping 2 (c_str [103;49]) [c_leaf [121]; DUses (c_str [104])];
                DGrouping 3 (c_str [104]) [c_leaf [122]]; c_leaf [108;49]];
     m_augments := [(c_str [47;99], [c_leaf [98]; DUses (c_str [104])])]; m_deviations := [] |}.
Definition c_s2 (dup : bool) : module :=
  {| m_name := c_str [115;50]; m_prefix := c_str [112]; m_ns := []; m_belongs := Some (c_str [109]);
     m_imports := []; m_includes := [];
     m_body := [DGrouping 4 (c_str [103;50]) [c_leaf [119]]; c_leaf (if dup then [108;49] else [108;50])];
     m_augments := []; m_deviations := [] |}.
Definition c_SC (dup : bool) : schema := [c_s2 dup; c_m; c_s1].

Example C13_include_ex : forall dup, flat_family (c_SC dup) c_m [c_s1; c_s2 dup].
Proof.
  intros dup. constructor.
  - destruct dup; vm_compute; repeat constructor; simpl; intuition discriminate.
  - right. left. reflexivity.
  - reflexivity.
  - destruct dup; vm_compute; repeat constructor; simpl; intuition discriminate.
  - constructor; [|constructor; [|constructor]]; (split; [simpl; intuition|repeat split]).
  - repeat constructor.
  - destruct dup; repeat constructor.
Qed.

Example C13_include_ex_values :
  snd (module_entry (c_SC false) false c_m) = false /\
  snd (module_entry (c_SC true) false c_m) = true /\
  module_entry (unsplit_schema (c_SC true) c_m) false (unsplit (c_SC true) c_m) = module_entry (c_SC true) false c_m /\
  option_map (fun d => map fst d) (e_dir (fst (module_entry (c_SC false) false c_m))) =
    Some [c_str [99]; c_str [119]; c_str [108;49]; c_str [108;50]].
Proof. vm_compute. repeat split; reflexivity. Qed.

End PartC.

(* ===================== (c) nested includes: any acyclic include graph ================== *)
(* [nested_family SC m subs rank]: subs = the submodules reachable from m (depth first, each once);
   every include of every part names one of them; all belong to m and share its prefix; includes go
   strictly down the [rank] (no cycles); top-level grouping names are distinct across the family;
   every uses name is local and, if it names a top-level grouping of the family, names one that
   the using part declares or reaches through its own includes. *)
From GY Require Proofs.IncludeNestedProofs.

Section PartCNested.
Import Schema IncludeProofs IncludeNestedProofs.

(* module_dir with its mergedSubmodule bookkeeping merges every reachable submodule exactly once,
   in depth-first include order, whatever the (acyclic) include graph looks like *)
Theorem C13_include_nested_merge_once : forall SC ic m subs rank, nested_family SC m subs rank ->
  fst (module_dir SC ic (S (length SC)) [] m) = fold_left (merge_part SC) subs (own_dir SC m).
Proof. exact nested_HS. Qed.

Theorem C13_include_nested_module_entry : forall SC ic m subs rank, nested_family SC m subs rank ->
  fst (module_entry (unsplit_schema SC m) ic (unsplit SC m)) = fst (module_entry SC ic m) /\
  snd (module_entry (unsplit_schema SC m) ic (unsplit SC m)) =
    snd (module_entry SC ic m) || existsb devs_err (reachable_subs SC m).
Proof. exact nested_module_entry. Qed.

Theorem C13_include_nested_grouping_lookup : forall SC m subs rank, nested_family SC m subs rank ->
  forall X inner u,
  In X (m :: subs) -> Forall (fun sc => okb (uses_ok_n SC m subs X) sc = true) inner ->
  uses_ok_n SC m subs X u = true ->
  match FindGrouping SC {| g_mod := X; g_scopes := inner ++ [m_body X] |} u,
        FindGrouping (unsplit_schema SC m)
                     {| g_mod := unsplit SC m; g_scopes := inner ++ [m_body (unsplit SC m)] |} u with
  | None, None => True
  | Some (gid, gb, _), Some (gid', gb', _) => gid = gid' /\ gb = gb'
  | _, _ => False
  end.
Proof. exact nested_uses_lookup. Qed.

Theorem C13_include_nested_augments : forall SC m subs rank, nested_family SC m subs rank ->
  map (fun a => (a_path a, a_dir a, a_err a)) (module_augs (unsplit_schema SC m) (unsplit SC m)) =
  flat_map (fun X => map (fun a => (a_path a, a_dir a, a_err a)) (module_augs SC X)) (m :: subs).
Proof. exact nested_module_augs. Qed.

Theorem C13_include_nested_shape : forall SC m subs rank, nested_family SC m subs rank ->
  find_module (unsplit_schema SC m) (m_name m) = Some (unsplit SC m) /\
  m_includes (unsplit SC m) = [] /\
  map m_name (unsplit_schema SC m) = map m_name SC.
Proof. exact nested_shape. Qed.

(* non-vacuity: m includes n1 and n2, n1 includes n2 (a diamond); m uses g2 of n2, n1's grouping g1
   uses g2 as well *)
Definition n_m : module :=
  {| m_name := c_str [109]; m_prefix := c_str [112]; m_ns := c_str [117]; m_belongs := None;
     m_imports := []; m_includes := [c_str [110;49]; c_str [110;50]];
     m_body := [DUses (c_str [103;50]); DContainer (c_str [99]) TSUnset [c_leaf [97]; DUses (c_str [112;58;103;49])]];
     m_augments := []; m_deviations := [] |}.
Definition n_1 : module :=
  {| m_name := c_str [110;49]; m_prefix := c_str [112]; m_ns := []; m_belongs := Some (c_str [109]);
     m_imports := []; m_includes := [c_str [110;50]];
     m_body := [DGrouping 2 (c_str [103;49]) [c_leaf [121]; DUses (c_str [103;50])]; c_leaf [108;49]];
     m_augments := [(c_str [47;99], [DUses (c_str [103;50])])]; m_deviations := [] |}.
Definition n_2 : module :=
  {| m_name := c_str [110;50]; m_prefix := c_str [112]; m_ns := []; m_belongs := Some (c_str [109]);
     m_imports := []; m_includes := [];
     m_body := [DGrouping 4 (c_str [103;50]) [c_leaf [119]]; c_leaf [108;50]];
     m_augments := []; m_deviations := [] |}.
Definition n_SC : schema := [n_2; n_m; n_1].
Definition n_rank (x : module) : nat := length (m_includes x).

Example C13_include_nested_ex : nested_family n_SC n_m [n_1; n_2] n_rank.
Proof.
  constructor.
  - vm_compute; repeat constructor; simpl; intuition discriminate.
  - right. left. reflexivity.
  - vm_compute; repeat constructor; simpl; intuition discriminate.
  - constructor; [|constructor; [|constructor]]; (split; [simpl; intuition|repeat split]).
  - intros X sn HX Hsn. simpl in HX. destruct HX as [<-|[<-|[<-|[]]]]; simpl in Hsn;
      repeat (destruct Hsn as [<-|Hsn];
              [first [exists n_1; split; [simpl; auto|reflexivity]|exists n_2; split; [simpl; auto|reflexivity]]|]);
      destruct Hsn.
  - intros X HX. simpl in HX. destruct HX as [<-|[<-|[<-|[]]]]; vm_compute; repeat constructor.
  - intros X s HX Hs Hin. simpl in HX, Hs.
    destruct HX as [<-|[<-|[<-|[]]]]; destruct Hs as [<-|[<-|[]]]; vm_compute in Hin |- *;
      try (repeat constructor); exfalso; intuition discriminate.
  - reflexivity.
  - repeat constructor.
  - intros Y Z u HY HZ FY FZ. simpl in HY, HZ.
    destruct HY as [<-|[<-|[<-|[]]]]; destruct HZ as [<-|[<-|[<-|[]]]]; try reflexivity; exfalso;
      apply find_in_mem in FY; apply find_in_mem in FZ; apply mem_in in FY; apply mem_in in FZ;
      vm_compute in FY, FZ; intuition congruence.
  - repeat constructor.
Qed.

Example C13_include_nested_ex_values :
  module_entry (unsplit_schema n_SC n_m) false (unsplit n_SC n_m) = module_entry n_SC false n_m /\
  snd (module_entry n_SC false n_m) = false /\
  map m_name (reachable_subs n_SC n_m) = [c_str [110;49]; c_str [110;50]].
Proof. vm_compute. repeat split; reflexivity. Qed.

End PartCNested.
