(* C19 — Independent module sets and concurrent readers do not interfere.
   Only statements, closed by [exact], and non-vacuity examples.

   What is proved: (a) for ALL thread programs and ALL traces that respect sync.Mutex / sync.RWMutex semantics,
   the lockset discipline (executable check [lockset_ok]) implies that conflicting accesses of different threads
   are never adjacent and are always separated by a release and a later acquire of one mutex;
   (b) the programs built from the access table that the translator regenerates from pkg/yang on every run
   satisfy the discipline, the write sites on the read paths are exactly the allow-list, and package-level
   tables are written only from init;  (c) a mutex-guarded memo returns f k to every caller in any order.
   What is NOT proved (labelled partial in the manifest): that the syntactic table covers the dynamic footprint
   (validated by the -race stress harness: testing), the Go memory model, the scheduler. *)
From Coq Require Import String List Bool Arith.
Import ListNotations.
From GY Require Import Model.Conc Gen.Locks Spec.C19 Proofs.ConcProofs Proofs.C19Proofs.
Local Open Scope string_scope.

(* T1: lockset discipline => no two conflicting accesses of different threads are adjacent in any valid trace *)
Theorem C19_lockset_race_free : forall (ps : list prog) (tr : trace),
  lockset_ok ps = true -> valid_trace ps tr -> race_free tr.
Proof. exact lockset_race_free_proof. Qed.

(* T1, happens-before form: between two conflicting accesses (anywhere in the trace) the first thread
   releases a mutex that the second thread then acquires *)
Theorem C19_lockset_hb : forall (ps : list prog) (tr : trace),
  lockset_ok ps = true -> valid_trace ps tr -> hb_race_free tr.
Proof. exact lockset_hb_proof. Qed.

(* T2: the generated table satisfies the discipline in all three scenarios (readers of one processed set,
   pipelines on disjoint sets, every access to the guarded maps) *)
Theorem C19_instance : forallb lockset_ok (programs_of Gen.Locks.table) = true.
Proof. exact instance_lockset. Qed.

(* T2: read-API roots and cut points exist in the table; the writes reachable on the read paths are exactly
   the allow-list of Spec/C19.v (each lock-protected or documented as outside the claim) *)
Theorem C19_write_allowlist : roots_ok Gen.Locks.table = true /\ allow_ok Gen.Locks.table = true.
Proof. exact instance_allow. Qed.

(* T2: no function reachable from the exported API writes a package-level variable *)
Theorem C19_pkg_tables_init_only : pkg_writes_outside_init Gen.Locks.table = [].
Proof. exact instance_pkg_init_only. Qed.

(* T2: the only package-level objects that any function hands out by pointer are the two identity sentinels
   listed in Spec/C19.v (a shared default object returned by a constructor helper would appear here) *)
Theorem C19_pkg_objects_not_handed_out : handout_ok Gen.Locks.table = true.
Proof. exact instance_handout. Qed.

(* T1 applied to T2 *)
Theorem C19_readers_race_free : forall tr,
  valid_trace (reader_programs Gen.Locks.table) tr -> race_free tr /\ hb_race_free tr.
Proof. exact readers_race_free. Qed.

Theorem C19_pipelines_race_free : forall tr,
  valid_trace (pipeline_programs Gen.Locks.table) tr -> race_free tr /\ hb_race_free tr.
Proof. exact pipelines_race_free. Qed.

Theorem C19_guarded_maps_race_free : forall tr,
  valid_trace (guarded_programs Gen.Locks.table) tr -> race_free tr /\ hb_race_free tr.
Proof. exact guarded_race_free. Qed.

(* T3: a memo guarded by a mutex (lookup-else-compute-and-store is atomic) gives every caller f k, whatever
   the order in which the callers are serialised: the sequential result *)
Theorem C19_memo_sequential : forall (K V : Type) (keq : K -> K -> bool) (f : K -> V),
  (forall a b, keq a b = true -> a = b) ->
  forall ks, memo_run K V keq f [] ks = map f ks.
Proof. intros K V keq f Heq ks. exact (memo_run_spec K V keq f Heq ks [] (cache_sound_nil K V keq f)). Qed.

(* ---------------------------------------------------------------- non-vacuity *)
(* programs with locks that pass the check, and a complete interleaving of them *)
Example C19_ex_locked_ok : lockset_ok ex_locked = true.
Proof. exact ex_locked_ok. Qed.
Example C19_ex_locked_trace : valid_trace ex_locked ex_locked_trace.
Proof. exact ex_locked_trace_valid. Qed.
(* without the lock the check says false AND a racy valid trace exists *)
Example C19_ex_unlocked : lockset_ok ex_unlocked = false /\ exists tr, valid_trace ex_unlocked tr /\ ~ race_free tr.
Proof. exact (conj ex_unlocked_bad ex_unlocked_racy). Qed.
(* a write under RLock only *)
Example C19_ex_both_readers : lockset_ok ex_both_readers = false /\ exists tr, valid_trace ex_both_readers tr /\ ~ race_free tr.
Proof. exact (conj ex_both_readers_bad ex_both_readers_racy). Qed.
(* unlocking somebody else's mutex (legal in Go) *)
Example C19_ex_foreign_unlock : lockset_ok ex_foreign_unlock = false /\ exists tr, valid_trace ex_foreign_unlock tr /\ ~ race_free tr.
Proof. exact (conj ex_foreign_unlock_bad ex_foreign_unlock_racy). Qed.
(* the semantics excludes: Lock of a held mutex, RLock of a write-locked RWMutex *)
Example C19_ex_mutex_excludes : ~ valid_trace ex_locked [(0, Acq "mu"); (1, Acq "mu")].
Proof. exact ex_mutex_excludes. Qed.
Example C19_ex_writer_excludes_reader : ~ valid_trace ex_locked [(4, Acq "rw"); (2, RAcq "rw")].
Proof. exact ex_writer_excludes_reader. Qed.
(* the instance programs contain the interesting events: 18 reader threads, four of them store into the
   namespace memo under nsMu, two read the entry cache under RLock; the pipelines share typeMap *)
Example C19_ex_readers_nonvacuous :
  List.length (reader_programs table) = 18 /\
  4 <= count_ev (Wr "Modules.byNS") (reader_programs table) /\
  4 <= count_ev (Acq "Modules.nsMu") (reader_programs table) /\
  2 <= count_ev (RAcq "Modules.entryCacheMu") (reader_programs table) /\
  2 <= count_ev (Rd "Modules.entryCache") (reader_programs table).
Proof. exact readers_nonvacuous. Qed.
Example C19_ex_pipelines_nonvacuous :
  2 <= count_ev (Rd "pkg.typeMap") (pipeline_programs table) /\
  1 <= count_ev (Wr "1:typeDictionary.dict") (pipeline_programs table) /\
  1 <= count_ev (Wr "2:typeDictionary.dict") (pipeline_programs table).
Proof. exact pipelines_nonvacuous. Qed.
Example C19_ex_guarded_present : guarded_present table = true /\ exempt_ok table = true.
Proof. exact instance_guarded_present. Qed.
Example C19_ex_memo : memo_run nat nat Nat.eqb (fun k => k * k) [] [3; 4; 3; 3; 4] = [9; 16; 9; 9; 16].
Proof. exact ex_memo. Qed.
