(* C16 — Reported source positions are the true positions (generic parser part).
   Only statements, closed by [exact], and Print Assumptions (printed by the checker).

   [Parse input] is the model of yang.Parse (Model/Lex.v, Model/Parse.v, tied to lex.go / parse.go by the
   correspondence run of the check).  Tokens, statements and error records of the model carry a ghost
   offset: the index, in the text the lexer works on ([terminated input]: the input forced to end in a
   line break), of the first rune of the token / of the statement's keyword / of the place the error is
   about.  [linecol text off] is the true 1-based (line, column in runes) of that index. *)
From Coq Require Import List NArith ZArith Bool Lia.
Import ListNotations.
From GY Require Import Model.Lex Model.Parse Spec.C16 Proofs.LexProofs Proofs.ParseProofs.
Local Open Scope Z_scope.

(* T1: every statement of an accepted text, at every depth, reports (line, column) = the true position
   of the first rune of its keyword, and its keyword is literally the text standing there — whatever
   tabs, multi-byte runes, comments, multi-line strings or CR LF precede it.  No bound on the text.
   (The file name is the path argument copied verbatim into every token; it is not modelled.) *)
Theorem C16_statement_positions : forall input ss o,
  Parse input = (ss, [], o) -> Forall (stmt_ok (terminated input)) ss.
Proof. exact Parse_statement_positions. Qed.

(* T1 is not vacuous: no statement of an accepted forest, at any depth, is the error-recovery placeholder
   (every keyword is a non-empty unquoted token), so the position clause of [stmt_ok] applies to all *)
Theorem C16_statements_real : forall input ss o, Parse input = (ss, [], o) -> Forall stmt_real ss.
Proof. exact Parse_statements_real. Qed.

(* T2: every message of a rejected text that is about a particular place — the unexpected closing brace, the token
   standing where a semicolon or opening brace must, the token standing where a keyword must, the backslash of an invalid
   escape, the opening single quote, double quote or comment opener that is never closed — prints a line:column, and it is the true position
   of that place.  Holds for every error of every text (not only single-fault texts). *)
Theorem C16_error_positions : forall input ss es o,
  Parse input = (ss, es, o) -> Forall (err_ok (terminated input)) es.
Proof. exact Parse_error_positions. Qed.

(* positions inside the original input are not affected by the forced final line break *)
Theorem C16_terminated_same_positions : forall input off,
  (off <= length input)%nat -> linecol (terminated input) off = linecol input off.
Proof. exact linecol_terminated. Qed.

(* the recursion fuel of the model never runs out, on any text (accepted, rejected or excluded): [Parse] is the
   model of yang.Parse on every input, so T1 and T2 speak about every run.  (The rune 0x7fffffff is the
   lexer's end-of-file sentinel; UTF-8 decoding never produces it.) *)
Theorem C16_model_fuel_sufficient : forall input ss es o,
  ~ In EOFR input -> Parse input = (ss, es, o) -> o = false.
Proof. exact Parse_fuel_sufficient. Qed.

(* non-vacuity: an accepted text with a comment, tabs, a multi-byte rune and a line break before the
   statements (slash star x star slash TAB a TAB brace LF space e-acute space quote q quote semicolon
   brace), and a rejected text with two positioned errors (invalid escape at 1:5, a closing brace at 2:2
   where a semicolon must stand) *)
Example C16_accept_ex :
  Parse [47;42;120;42;47;9;97;9;123;10;32;233;32;39;113;39;59;125]%N =
  ([Stmt [97%N] false [] 1 7 6 [Stmt [233%N] true [113%N] 2 2 11 []]], [], false).
Proof. vm_compute. reflexivity. Qed.
Example C16_reject_ex :
  Parse [97;32;34;98;92;113;34;10;9;125]%N =
  ([], [ {| e_pos := Some (1, 5); e_kind := EInvalidEscape; e_subject := Some 4%nat |};
         {| e_pos := Some (2, 2); e_kind := ESyntax; e_subject := Some 9%nat |} ], false).
Proof. vm_compute. reflexivity. Qed.
