(* C16 — Reported source positions are the true positions (generic parser part).
   Only statements, closed by [exact], and Print Assumptions (printed by the checker).

   [Parse input] is the model of yang.Parse (Model/Lex.v, Model/Parse.v, tied to lex.go / parse.go by the
   correspondence run of the check).  Tokens, statements and error records of the model carry a ghost
   offset: the index, in the text the lexer works on ([terminated input]: the input forced to end in a
   line break), of the first rune of the token / of the statement's keyword / of the place the error is
   about.  [linecol text off] is the true 1-based (line, column in runes) of that index. *)
From Coq Require Import List NArith ZArith Bool Lia.
Import ListNotations.
From GY Require Import Model.Lex Model.Parse Model.Utf8 Spec.C16 Proofs.LexProofs Proofs.ParseProofs Proofs.Utf8Proofs.
Local Open Scope Z_scope.

(* T1: every statement of an accepted text, at every depth, reports (line, column) = the true position
   of the first rune of its keyword, and its keyword is literally the text standing there — whatever
   tabs, multi-byte runes, comments, multi-line strings or CR LF precede it.  No bound on the text.
   (The file name is the path argument copied verbatim into every token; it is not modelled.) *)
Theorem C16_statement_positions : forall input ss o,
  Parse input = (ss, [], o) -> Forall (stmt_ok (terminated input)) ss.
Proof. exact Parse_statement_positions. Qed.

(* T1 is not vacuous: no statement of an accepted forest, at any depth, is the error-recovery placeholder
   (every keyword is a non-empty unquoted token), so the position clause of [stmt_ok] applies to all *)
Theorem C16_statements_real : forall input ss o, Parse input = (ss, [], o) -> Forall stmt_real ss.
Proof. exact Parse_statements_real. Qed.

(* T2: every message of a rejected text that is about a particular place — the unexpected closing brace, the token
   standing where a semicolon or opening brace must, the token standing where a keyword must, the backslash of an invalid
   escape, the opening single quote, double quote or comment opener that is never closed — prints a line:column, and it is the true position
   of that place.  Holds for every error of every text (not only single-fault texts). *)
Theorem C16_error_positions : forall input ss es o,
  Parse input = (ss, es, o) -> Forall (err_ok (terminated input)) es.
Proof. exact Parse_error_positions. Qed.

(* positions inside the original input are not affected by the forced final line break *)
Theorem C16_terminated_same_positions : forall input off,
  (off <= length input)%nat -> linecol (terminated input) off = linecol input off.
Proof. exact linecol_terminated. Qed.

(* the recursion fuel of the model never runs out, on any text (accepted, rejected or excluded): [Parse] is the
   model of yang.Parse on every input, so T1 and T2 speak about every run.  (The rune 0x7fffffff is the
   lexer's end-of-file sentinel; UTF-8 decoding never produces it.) *)
Theorem C16_model_fuel_sufficient : forall input ss es o,
  ~ In EOFR input -> Parse input = (ss, es, o) -> o = false.
Proof. exact Parse_fuel_sufficient. Qed.

(* the same from the BYTES of the file ([decode]: Model/Utf8.v, the decoding lexer.next performs; it never yields
   the sentinel -- C02_decode_no_eof): the model never runs out of fuel on any byte string, and every statement
   reports the position of its keyword counted in CHARACTERS of the decoded text -- one per well-formed
   multi-byte sequence, one per ill-formed byte *)
Theorem C16_model_fuel_sufficient_bytes : forall bytes ss es o, Parse_bytes bytes = (ss, es, o) -> o = false.
Proof. exact (fun bytes ss es o => Parse_fuel_sufficient (decode bytes) ss es o (decode_no_eof bytes)). Qed.

Theorem C16_statement_positions_bytes : forall bytes ss o,
  Parse_bytes bytes = (ss, [], o) -> Forall (stmt_ok (terminated (decode bytes))) ss.
Proof. exact (fun bytes => Parse_statement_positions (decode bytes)). Qed.

Theorem C16_error_positions_bytes : forall bytes ss es o,
  Parse_bytes bytes = (ss, es, o) -> Forall (err_ok (terminated (decode bytes))) es.
Proof. exact (fun bytes => Parse_error_positions (decode bytes)). Qed.

(* a character is never wider than its bytes: a column (in characters) never exceeds the byte offset in the line + 1 *)
Theorem C16_characters_le_bytes : forall s, (length (decode s) <= length s)%nat.
Proof. exact decode_length. Qed.

(* non-vacuity: an accepted text with a comment, tabs, a multi-byte rune and a line break before the
   statements (slash star x star slash TAB a TAB brace LF space e-acute space quote q quote semicolon
   brace), and a rejected text with two positioned errors (invalid escape at 1:5, a closing brace at 2:2
   where a semicolon must stand) *)
Example C16_accept_ex :
  Parse [47;42;120;42;47;9;97;9;123;10;32;233;32;39;113;39;59;125]%N =
  ([Stmt [97%N] false [] 1 7 6 [Stmt [233%N] true [113%N] 2 2 11 []]], [], false).
Proof. vm_compute. reflexivity. Qed.
Example C16_reject_ex :
  Parse [97;32;34;98;92;113;34;10;9;125]%N =
  ([], [ {| e_pos := Some (1, 5); e_kind := EInvalidEscape; e_subject := Some 4%nat |};
         {| e_pos := Some (2, 2); e_kind := ESyntax; e_subject := Some 9%nat |} ], false).
Proof. vm_compute. reflexivity. Qed.

(* ------------------------------------------------------------------ third sentence, errors from BUILDING a module,
   end to end from the text.
   [FrontEnd.front_end S text] is the model of Modules.Parse(text, name) up to the point where the modules are
   filed: [Parse] above, then -- when the text is accepted -- the table-driven AST builder ([Ast.parse_all_e],
   Model/Ast.v, the subject of C03) on the converted statement forest ([FrontEnd.to_ast]: keywords and arguments
   as UTF-8 bytes, statements numbered in pre-order), a builder error's statement turned into the line:column
   that statement carries ([FrontEnd.pos_of]).  S is the struct-tag table (the generated one is
   [YangSchema.schema]; [C03_schema_wf] proves it well formed).  Tied to Modules.Parse by the `front` leg of the
   check (check/props/c16front.py): kind and position of the first error, model against implementation. *)
From GY Require Model.Ast Model.FrontEnd Spec.C03 Spec.C16Builder Proofs.FrontEndProofs Gen.YangSchema.

(* T3: for EVERY table and text: a line:column in a builder error is the true (line, column in runes) -- in the
   text as given -- of the offset at which the keyword of a statement of the text stands (a statement at any
   depth: [FrontEnd.all_stmts] is the pre-order list of all of them), whatever precedes it.  T1 composed with
   C03_pos_in_tree. *)
Theorem C16_builder_error_positions : forall S text k l c,
  FrontEnd.front_end S text = FrontEnd.FErr k (FrontEnd.At l c) ->
  exists ss x, Parse text = (ss, [], false) /\ In x (FrontEnd.all_stmts ss) /\
    FrontEnd.p_kw x <> [] /\ text_at (terminated text) (FrontEnd.p_off x) (FrontEnd.p_kw x) /\
    (l, c) = linecol text (FrontEnd.p_off x).
Proof. exact FrontEndProofs.front_end_error_positions_explicit. Qed.

(* the builder never reports a statement that is not in the text, and the model's fuel flag is never raised *)
Theorem C16_builder_error_known_statement : forall S text k,
  FrontEnd.front_end S text <> FrontEnd.FErr k FrontEnd.BadId.
Proof. exact FrontEndProofs.front_end_no_bad_id. Qed.

Theorem C16_builder_fuel : forall S text, ~ In EOFR text -> FrontEnd.front_end S text <> FrontEnd.FOutOfFuel.
Proof. exact FrontEndProofs.front_end_fuel. Qed.

(* T4: for every well-formed table: WHICH statement, by error kind ([C16Builder.text_site], Spec/C16Builder.v =
   Spec/C03.v's [site] read on the parser's statements): the unknown substatement itself (unknown field, extension
   where none is kept); the statement that lacks the mandatory substatement (missing required, missing
   required-for-this-keyword); the statement with the unknown keyword; no position for "already set" and "not a
   module"; and -- pinned known behaviour, KNOWN_FINDINGS builder.kind-field-reported-at-parent -- the parent for
   a substatement only the other keyword allows.  In each case the printed line:column is the true position of
   that statement's keyword ([C16Builder.points_at]).  T1 composed with C03_pos_site and C03_pos_parse_all. *)
Theorem C16_builder_error_site : forall S, C03.schema_wf S = true ->
  forall text k p, FrontEnd.front_end S text = FrontEnd.FErr k p ->
  exists ss, Parse text = (ss, [], false) /\ C16Builder.text_site S text ss k p.
Proof. exact FrontEndProofs.front_end_error_site. Qed.

(* (a) the position table: the statement ids handed to the builder are 0, 1, 2, ... in pre-order over the whole
   text, and the table maps the id of the image of a parsed statement to the (line, column) that statement
   carries ([FrontEndProofs.img]: same keyword and argument, id = index in the pre-order list, substatements
   corresponding one to one in order) *)
Theorem C16_builder_ids : forall ss,
  flat_map C03.ids (FrontEnd.to_ast ss) = seq 0 (length (FrontEnd.all_stmts ss)) /\
  Forall2 (FrontEndProofs.img (FrontEnd.all_stmts ss)) ss (FrontEnd.to_ast ss).
Proof. exact (fun ss => conj (FrontEndProofs.ids_to_ast ss) (FrontEndProofs.to_ast_img ss)). Qed.

Theorem C16_builder_pos_table : forall ss p a, FrontEndProofs.img (FrontEnd.all_stmts ss) p a ->
  FrontEnd.pos_of ss (Ast.id_of a) = Some (FrontEnd.p_line p, FrontEnd.p_col p).
Proof. exact FrontEndProofs.pos_of_img. Qed.

Import Coq.Strings.String.StringSyntax.
Local Open Scope string_scope.

(* non-vacuity, on the generated table.  Three things wrong in one line; the builder reports the leaf without
   type first (1:49 is where `leaf` stands) *)
Example C16_builder_missing_ex :
  FrontEnd.front_end YangSchema.schema
    (FrontEnd.text_of "module m { namespace n; prefix p; container c { leaf a; bogus x; } } zzz y;")
  = FrontEnd.FErr Ast.EMissing (FrontEnd.At 1 49).
Proof. vm_compute. reflexivity. Qed.

(* the unknown substatement (its keyword is e-acute followed by U+65E5) behind a comment with multi-byte runes, CR LF line ends,
   tabs, a // comment and a multi-line string: reported at 6:3, the true position of offset 116 *)
Definition C16_builder_layout_text : str :=
  (FrontEnd.text_of "/* " ++ [26085; 233]%N ++ FrontEnd.text_of " */" ++ [13; 10]%N ++
   FrontEnd.text_of "module m {" ++ [13; 10]%N ++
   [9]%N ++ FrontEnd.text_of "namespace n; prefix p; // c" ++ [13; 10]%N ++
   [9]%N ++ FrontEnd.text_of "container " ++ [233]%N ++ FrontEnd.text_of " { leaf a { type string; description 'x" ++ [13; 10]%N ++
   FrontEnd.text_of "  y'; }" ++ [13; 10]%N ++
   [9; 9]%N ++ [233; 26085]%N ++ FrontEnd.text_of " x; } }")%list.
Example C16_builder_unknown_field_ex :
  FrontEnd.front_end YangSchema.schema C16_builder_layout_text = FrontEnd.FErr Ast.EUnknownField (FrontEnd.At 6 3) /\
  linecol C16_builder_layout_text 116 = (6, 3) /\
  firstn 2 (skipn 116 C16_builder_layout_text) = [233; 26085]%N.
Proof. vm_compute. repeat split. Qed.

Example C16_builder_other_kinds_ex :
  FrontEnd.front_end YangSchema.schema (FrontEnd.text_of "module m { prefix p; }")
    = FrontEnd.FErr Ast.EMissingKind (FrontEnd.At 1 1) /\
  FrontEnd.front_end YangSchema.schema (FrontEnd.text_of "module m { namespace n; prefix p; } bogus x;")
    = FrontEnd.FErr Ast.EUnknownStmt (FrontEnd.At 1 37) /\
  FrontEnd.front_end YangSchema.schema (FrontEnd.text_of "module m { namespace n; prefix p; prefix q; }")
    = FrontEnd.FErr Ast.EAlreadySet FrontEnd.NoPos /\
  FrontEnd.front_end YangSchema.schema (FrontEnd.text_of "container c;")
    = FrontEnd.FErr Ast.ENotModule FrontEnd.NoPos /\
  FrontEnd.front_end YangSchema.schema (FrontEnd.text_of "submodule s { belongs-to m { prefix p; } namespace n; }")
    = FrontEnd.FErr Ast.EOtherKind (FrontEnd.At 1 1) /\
  (exists es, FrontEnd.front_end YangSchema.schema (FrontEnd.text_of "module m { namespace n; prefix p; } }")
    = FrontEnd.FSyntax es) /\
  (exists ns, FrontEnd.front_end YangSchema.schema (FrontEnd.text_of "module m { namespace n; prefix p; leaf a { type string; } }")
    = FrontEnd.FOk ns).
Proof. vm_compute. repeat split; eexists; reflexivity. Qed.
