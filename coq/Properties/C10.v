(* placeholder *)
From GY Require Import Model.Number.
