(* C10 — Range and length restrictions denote the written set and only ever narrow.
   Only statements, closed by [exact], and Print Assumptions (printed by the checker).
   A range list denotes a set of integers [den r] (decimal64: mantissas at the type's
   fraction-digits fd); every bound is a Number of 64-bit magnitude at the common precision fd
   ([okRs fd], fd = 0 for the integer types and for lengths, 1..18 for decimal64).
   [WF] = every part in order, parts sorted, and consecutive parts separated by a gap
   (max_i + 1 < min_{i+1}): sorted, disjoint and coalesced. *)
From Coq Require Import List NArith ZArith Bool Lia Permutation.
Import ListNotations.
From GY Require Import Base.Outcome Model.Number Model.Range Spec.C15 Spec.C10 Proofs.NumberProofs Proofs.RangeProofs.
Local Open Scope Z_scope.

(* at a common precision Less is < on mantissas; max+1 computed by addQuantum is exact except at
   2^64-1, where it wraps to 0 — and the repaired test in coalesce is still exactly max+1 < min *)
Theorem C10_less_mantissa : forall fd n m, okN fd n -> okN fd m -> Less n m = (sval n <? sval m).
Proof. exact Less_sval. Qed.
Theorem C10_gap_test : forall fd a b, okN fd a -> okN fd b ->
  (Less a (addQuantum a 1) && Less (addQuantum a 1) b) = (sval a + 1 <? sval b).
Proof. exact gap_test. Qed.

(* (1) sorting: a permutation, in the lexicographic order on (min, max), same set *)
Theorem C10_sort : forall fd l, okRs fd l ->
  Permutation (Sort l) l /\ sorted_lex (Sort l) /\ seteq (den (Sort l)) (den l).
Proof. exact Sort_spec. Qed.

(* (2) coalescing sorted valid parts gives the sorted, disjoint, coalesced presentation of the same
   set — for all bounds up to 2^64-1 and down to -(2^64-1) *)
Theorem C10_coalesce : forall fd r, okRs fd r -> Forall valid r -> lo_sorted r ->
  WF (coalesce r) /\ okRs fd (coalesce r) /\ seteq (den (coalesce r)) (den r) /\
  (r <> [] -> coalesce r <> []).
Proof. exact coalesce_spec. Qed.
Theorem C10_sorted_is_lo_sorted : forall r, sorted_lex r -> lo_sorted r.
Proof. exact sorted_lex_lo. Qed.

(* (3) Contains decides the subset relation on WF operands; an empty parent is "unrestricted" *)
Theorem C10_contains : forall fd y r, okRs fd y -> okRs fd r -> WF y -> WF r -> y <> [] ->
  (Contains y r = true <-> subset (den r) (den y)).
Proof. exact Contains_spec. Qed.
Theorem C10_contains_unrestricted : forall r, Contains [] r = true.
Proof. exact Contains_nil. Qed.

(* (4) Validate never rejects a WF list *)
Theorem C10_validate : forall fd r, okRs fd r -> WF r -> Validate r = true.
Proof. exact Validate_WF. Qed.

(* (5) sort, coalesce, subset check, validate: the result is WF, denotes the union of the parts
   and lies within the parent; an error is returned exactly when the union leaves the parent's set *)
Theorem C10_finish : forall fd y parts,
  okRs fd y -> WF y -> okRs fd parts -> Forall valid parts ->
  match finish y parts with
  | Ok r => WF r /\ okRs fd r /\ seteq (den r) (den parts) /\ (parts <> [] -> r <> []) /\
            (y <> [] -> subset (den r) (den y))
  | Err => y <> [] /\ ~ subset (den parts) (den y)
  | _ => False
  end.
Proof. exact finish_spec. Qed.

(* the presentation is canonical: two WF lists with the same set have the same bounds *)
Theorem C10_canonical : forall r q, WF r -> WF q -> seteq (den r) (den q) ->
  map (fun p => (lo p, hi p)) r = map (fun p => (lo p, hi p)) q.
Proof. exact WF_unique_bounds. Qed.

(* text level: `min` / `max` are the least / greatest element of the parent's set *)
Theorem C10_min_keyword : forall fd dec y, okRs fd y -> WF y -> y <> [] ->
  exists n, parseNumber y dec fd s_min = Ok n /\ okN fd n /\ least y (sval n).
Proof. exact parseNumber_min. Qed.
Theorem C10_max_keyword : forall fd dec y, okRs fd y -> WF y -> y <> [] ->
  exists n, parseNumber y dec fd s_max = Ok n /\ okN fd n /\ greatest y (sval n).
Proof. exact parseNumber_max. Qed.

(* a part a..b is accepted exactly when its bounds are in order *)
Theorem C10_part_order : forall fd dec y s a b mn mx, okRs fd y -> (dec = false -> fd = 0) ->
  split_dotdot [] s = [a; b] ->
  parseNumber y dec fd (TrimSpace a) = Ok mn -> parseNumber y dec fd (TrimSpace b) = Ok mx ->
  parsePart y dec fd s = if sval mx <? sval mn then Err else Ok (mn, mx).
Proof. exact parsePart_two. Qed.

(* the whole of parseChildRanges on every text: never a panic; Ok r => r is the WF presentation of
   the union of the parsed parts (all with bounds in order), within the parent's set;
   Err => a part was rejected, or the union is not within the parent's set *)
Theorem C10_parseChildRanges : forall fd dec y s,
  okRs fd y -> WF y -> (dec = false -> fd = 0) ->
  match parseChildRanges y s dec fd with
  | Ok r => exists parts, parseParts y dec fd (split_on cbar [] s) = Ok parts /\
            Forall valid parts /\ WF r /\ okRs fd r /\ r <> [] /\ seteq (den r) (den parts) /\
            (y <> [] -> subset (den r) (den y))
  | Err => parseParts y dec fd (split_on cbar [] s) = Err \/
           exists parts, parseParts y dec fd (split_on cbar [] s) = Ok parts /\
                         y <> [] /\ ~ subset (den parts) (den y)
  | Panic => False
  | Unmodelled => parseParts y dec fd (split_on cbar [] s) = Unmodelled
  end.
Proof. exact parseChildRanges_spec. Qed.

(* derivation chains: every set reached from a WF non-empty base by any number of restrictions is
   WF, non-empty and a subset of the base (and, step by step, of its parent) *)
Theorem C10_chain_narrows : forall fd dec y0 y,
  okRs fd y0 -> WF y0 -> y0 <> [] -> (dec = false -> fd = 0) ->
  derived fd dec y0 y ->
  WF y /\ okRs fd y /\ y <> [] /\ subset (den y) (den y0).
Proof. exact chain_narrows. Qed.

(* D31: the loop of the pinned commit (addQuantum wrapping at 2^64-1) returns overlapping parts on
   0..18446744073709551615|18446744073709551615; the repaired loop does not *)
Theorem C10_coalesce_old_refuted :
  exists r, okRs 0 r /\ Forall valid r /\ sorted_lex r /\ ~ WF (coalesce_old r) /\ WF (coalesce r).
Proof. exact coalesce_old_refuted. Qed.

(* ---------- non-vacuity: the bases of the chains, boundaries, zero crossings ---------- *)
Definition txt (l : list Z) : str := map Z.to_N l.
Definition I (z : Z) : Number := FromInt z.
Definition U (z : Z) : Number := FromUint z.

Ltac wf_ok := repeat split; repeat constructor;
  unfold valid, lo, hi; cbn; pose proof two64_eq; pose proof two63_eq; try lia.

(* "-128..127" with no parent: int8 *)
Example C10_int8_base :
  parseChildRanges [] (txt [45;49;50;56;46;46;49;50;55]) false 0 = Ok [(I (-128), I 127)].
Proof. vm_compute. reflexivity. Qed.
(* "0..18446744073709551615" with no parent: uint64 and lengths *)
Example C10_uint64_base :
  parseChildRanges [] (txt [48;46;46;49;56;52;52;54;55;52;52;48;55;51;55;48;57;53;53;49;54;49;53]) false 0
  = Ok [(U 0, U (two64 - 1))].
Proof. vm_compute. reflexivity. Qed.
(* "-9223372036854775808..9223372036854775807": int64 *)
Example C10_int64_base :
  parseChildRanges [] (txt [45;57;50;50;51;51;55;50;48;51;54;56;53;52;55;55;53;56;48;56;46;46;
                            57;50;50;51;51;55;50;48;51;54;56;53;52;55;55;53;56;48;55]) false 0
  = Ok [(I (- two63), I (two63 - 1))].
Proof. vm_compute. reflexivity. Qed.

Example C10_bases_wf :
  (forall b, In b [[(I (-128), I 127)]; [(I (-32768), I 32767)]; [(I (-2147483648), I 2147483647)];
                   [(I (- two63), I (two63 - 1))];
                   [(U 0, U 255)]; [(U 0, U 65535)]; [(U 0, U 4294967295)]; [(U 0, U (two64 - 1))]] ->
             okRs 0 b /\ WF b /\ b <> []).
Proof.
  intros b H. cbn [In] in H.
  repeat (destruct H as [H|H]; [subst b; split; [|split; [|discriminate]]; wf_ok|]). contradiction.
Qed.

(* the decimal64 base at every fraction-digits 1..18: mantissas -2^63 .. 2^63-1 *)
Definition dec_base (fd : Z) : YangRange :=
  [({| Value := two63; FractionDigits := fd; Negative := true |},
    {| Value := two63 - 1; FractionDigits := fd; Negative := false |})].
Example C10_dec_base_wf : forall fd, 1 <= fd <= 18 -> okRs fd (dec_base fd) /\ WF (dec_base fd) /\ dec_base fd <> [].
Proof. intros fd H. split; [|split; [|discriminate]]; wf_ok. Qed.

(* "min..0|1..max" under uint64: coalesced to the parent itself, including at 2^64-1 *)
Example C10_uint64_min_max :
  parseChildRanges [(U 0, U (two64 - 1))] (txt [109;105;110;46;46;48;124;49;46;46;109;97;120]) false 0
  = Ok [(U 0, U (two64 - 1))].
Proof. vm_compute. reflexivity. Qed.
(* "max|0..max" under uint64 (the D31 shape): one part *)
Example C10_uint64_d31_text :
  parseChildRanges [(U 0, U (two64 - 1))] (txt [109;97;120;124;48;46;46;109;97;120]) false 0
  = Ok [(U 0, U (two64 - 1))].
Proof. vm_compute. reflexivity. Qed.
(* "-5..-2|-1..0|2..3|4" under int8: adjacent parts merge across zero, the gap at 1 stays *)
Example C10_zero_crossing :
  parseChildRanges [(I (-128), I 127)]
    (txt [45;53;46;46;45;50;124;45;49;46;46;48;124;50;46;46;51;124;52]) false 0
  = Ok [(I (-5), I 0); (I 2, I 4)].
Proof. vm_compute. reflexivity. Qed.
(* "0..256" under uint8 admits a value the parent does not: rejected *)
Example C10_widening_rejected :
  parseChildRanges [(U 0, U 255)] (txt [48;46;46;50;53;54]) false 0 = Err.
Proof. vm_compute. reflexivity. Qed.
(* "5..1": bounds out of order: rejected *)
Example C10_out_of_order_rejected :
  parseChildRanges [(U 0, U 255)] (txt [53;46;46;49]) false 0 = Err.
Proof. vm_compute. reflexivity. Qed.
(* "1.5..2.5" at fraction-digits 2 under the decimal64 base: mantissas 150..250 *)
Example C10_decimal :
  parseChildRanges (dec_base 2) (txt [49;46;53;46;46;50;46;53]) true 2
  = Ok [({| Value := 150; FractionDigits := 2; Negative := false |},
         {| Value := 250; FractionDigits := 2; Negative := false |})].
Proof. vm_compute. reflexivity. Qed.
