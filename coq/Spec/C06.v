(* C06 -- every use of a grouping is an independent, faithful, locally scoped copy.
   The reference expansion [inline]: a function on SOURCE schemas (Model/Schema.v dnode) that replaces every
   `uses g` by the statements of the grouping g denotes at that point, recursively, and fails on unknown or cyclic
   groupings.  "Denotes": FindGrouping from the scope of the uses statement (innermost enclosing definition first,
   then module level / includes / the import the prefix names); references INSIDE the copied statements are resolved
   in the grouping's defining context [gc] -- they are inlined before the copy is made. *)
From Coq Require Import List NArith Bool.
From GY Require Import Model.Schema.
Import ListNotations.

Fixpoint opt_map {A B} (f : A -> option B) (l : list A) : option (list B) :=
  match l with
  | [] => Some []
  | x :: r => match f x, opt_map f r with Some y, Some ys => Some (y :: ys) | _, _ => None end
  end.

Section Inline.
Variable SC : schema.

Definition scope_ctx (c : gctx) (body : list dnode) : gctx :=
  {| g_mod := g_mod c; g_scopes := body :: g_scopes c |}.

(* one statement of a body: a uses is replaced by the (already inlined) statements of its grouping *)
Definition inline_step (rec : gctx -> list nat -> dnode -> option dnode) (c' : gctx) (busy : list nat)
           (acc : option (list dnode)) (ch : dnode) : option (list dnode) :=
  match acc with
  | None => None
  | Some out =>
    match ch with
    | DUses g =>
      match FindGrouping SC c' g with
      | None => None                                            (* unknown grouping *)
      | Some (gid, gb, gc) =>
        if existsb (Nat.eqb gid) busy then None                 (* the grouping is being expanded: a cycle *)
        else match rec gc (gid :: busy) (DGrouping gid [] gb) with   (* in the DEFINING context *)
             | Some (DGrouping _ _ gb') => Some (out ++ gb')
             | _ => None
             end
      end
    | _ => match rec c' busy ch with Some ch' => Some (out ++ [ch']) | None => None end
    end
  end.

Definition inline_body_with (rec : gctx -> list nat -> dnode -> option dnode) (c : gctx) (busy : list nat)
           (body : list dnode) : option (list dnode) :=
  fold_left (inline_step rec (scope_ctx c body) busy) body (Some []).

(* the fuel is spent exactly as to_entry spends it *)
Fixpoint inline_node (fuel : nat) (c : gctx) (busy : list nat) (n : dnode) : option dnode :=
  match fuel with
  | O => None
  | S f =>
    let ib := inline_body_with (inline_node f) c busy in
    match n with
    | DLeaf _ _ _ _ _ _ | DLeafList _ _ _ _ _ _ | DAny _ _ _ _ => Some n
    | DUses _ => None                                           (* a uses is only meaningful inside a body *)
    | DContainer name cfg body => option_map (DContainer name cfg) (ib body)
    | DList name key cfg mn mx body => option_map (DList name key cfg mn mx) (ib body)
    | DChoice name cfg mand dflt body => option_map (DChoice name cfg mand dflt) (ib body)
    | DCase name body => option_map (DCase name) (ib body)
    | DGrouping gid name body => option_map (DGrouping gid name) (ib body)
    | DNotification name body => option_map (DNotification name) (ib body)
    | DRpc action name input output =>
      let io (b : option (list dnode)) : option (option (list dnode)) :=
        match b with None => Some None | Some body => option_map Some (ib body) end in
      match io input, io output with
      | Some i, Some o => Some (DRpc action name i o)
      | _, _ => None
      end
    end
  end.

Definition inline_body (fuel : nat) (c : gctx) (busy : list nat) (body : list dnode) : option (list dnode) :=
  inline_body_with (inline_node fuel) c busy body.

(* the statements of a module (or of one of its augments), inlined: the same call shape as the model's body_entry *)
Definition inline_stmts (m : module) (scopes : list (list dnode)) (body : list dnode) : option (list dnode) :=
  match inline_node (entry_fuel SC) {| g_mod := m; g_scopes := scopes |} [] (DGrouping O [] body) with
  | Some (DGrouping _ _ body') => Some body'
  | _ => None
  end.

Definition inline_augs (m : module) : option (list (str * list dnode)) :=
  opt_map (fun a => option_map (fun b' => (fst a, b')) (inline_stmts m [m_body m] (snd a))) (m_augments m).

Definition inline_module (m : module) : option module :=
  match inline_stmts m [] (m_body m), inline_augs m with
  | Some body', Some augs' =>
      Some {| m_name := m_name m; m_prefix := m_prefix m; m_ns := m_ns m; m_belongs := m_belongs m;
              m_imports := m_imports m; m_includes := m_includes m; m_body := body';
              m_augments := augs'; m_deviations := m_deviations m |}
  | _, _ => None
  end.

(* the whole module set: every statement list of every module and submodule (data, rpc, notification and grouping
   bodies are all below m_body) and every augment body; fails if the expansion fails anywhere *)
Definition inline_schema : option schema := opt_map inline_module SC.

End Inline.

(* no uses statement anywhere *)
Fixpoint uses_free (n : dnode) : bool :=
  let fix all (l : list dnode) : bool := match l with [] => true | x :: r => uses_free x && all r end in
  match n with
  | DUses _ => false
  | DContainer _ _ b | DList _ _ _ _ _ b | DChoice _ _ _ _ b | DCase _ b | DGrouping _ _ b | DNotification _ b => all b
  | DRpc _ _ i o => (match i with Some b => all b | None => true end) && (match o with Some b => all b | None => true end)
  | _ => true
  end.

(* positions: one is "unrelated" to another when neither is a prefix of the other *)
Definition step_eqb (a b : step) : bool :=
  match a, b with
  | SChild x, SChild y => str_eqb x y
  | SIn, SIn => true
  | SOut, SOut => true
  | _, _ => false
  end.
Fixpoint is_prefix (p q : list step) : bool :=
  match p, q with
  | [], _ => true
  | a :: p', b :: q' => step_eqb a b && is_prefix p' q'
  | _ :: _, [] => false
  end.
Definition unrelated (p q : list step) : Prop := is_prefix p q = false /\ is_prefix q p = false.
