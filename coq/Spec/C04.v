(* C04 -- a clean Process yields proper trees and really means there were no errors.
   The tree invariant on model entries (Model/Schema.v).  Entries of the model are immutable trees, so parent
   pointers and object identity do not exist here: "points back to its parent" and "reachable by exactly one
   path" are checked on the implementation by the pointer-level walker of harness/go/resolve.go (treeviol). *)
From Coq Require Import List NArith Bool.
From GY Require Import Model.Schema.
Import ListNotations.

(* node kind, child map, list attributes and type are mutually consistent *)
Definition kind_ok (e : entry) : Prop :=
  (e_kind e = KLeaf -> e_dir e = None /\ e_ty e <> None) /\       (* leaf, leaf-list: resolved type, no child map *)
  (e_kind e <> KLeaf -> e_dir e <> None) /\                        (* every other kind has a child map *)
  (e_la e <> None -> e_kind e = KLeaf \/ e_kind e = KDir).         (* list attributes only on leaf-list / list *)

(* [strict] = with the clause "every child of a choice is a case" (what FixChoice establishes) *)
Inductive TreeInv (strict : bool) : entry -> Prop :=
| TreeInv_node : forall e,
    kind_ok e ->
    (forall d, e_dir e = Some d ->
       NoDup (map fst d) /\                                                       (* one child per key *)
       Forall (fun kv => fst kv = e_name (snd kv) /\ TreeInv strict (snd kv)) d /\  (* filed under its own name *)
       (strict = true -> e_kind e = KChoice -> Forall (fun kv => e_kind (snd kv) = KCase) d)) ->
    (forall i o, e_rpc e = Some (i, o) ->
       (forall x, i = Some x -> e_kind x = KInput /\ e_name x = s_input /\ TreeInv strict x) /\
       (forall x, o = Some x -> e_kind x = KOutput /\ e_name x = s_output /\ TreeInv strict x)) ->
    TreeInv strict e.

Definition ForestInv (strict : bool) (F : forest) : Prop := Forall (fun kv => TreeInv strict (snd kv)) F.

(* height of an entry tree (used to say that FixChoice's fuel reaches every node) *)
Inductive HeightLe : nat -> entry -> Prop :=
| HeightLe_node : forall n e,
    (forall d, e_dir e = Some d -> Forall (fun kv => HeightLe n (snd kv)) d) ->
    (forall i o, e_rpc e = Some (i, o) ->
       (forall x, i = Some x -> HeightLe n x) /\ (forall x, o = Some x -> HeightLe n x)) ->
    HeightLe (S n) e.

(* the stages of Process at which an error can be recorded (C04-T2): Process returns RErr iff one of these holds *)
Section Stages.
Variable SC : schema.
Variable ignoreCirc ignoreNotSupported : bool.
Variable order : list str.

Definition includes_fail : bool :=
  negb (forallb (fun m => fst (includes_ok SC (S (length SC)) [] m)) (modules_only SC)).
Definition build_fail : bool :=
  existsb (fun m => snd (module_entry SC ignoreCirc m)) SC.

Definition stage_F0 : forest :=
  map (fun x => (m_name (fst x), fst (snd x)))
      (filter (fun x => negb (is_sub (fst x))) (map (fun m => (m, module_entry SC ignoreCirc m)) SC)).
Definition stage_P0 : pendings := map (fun m => (m_name m, module_augs SC m)) SC.
Definition stage_naug : nat := fold_right (fun m n => length (m_augments m) + n)%nat O SC.
(* FixChoice on every tree (the fuel is derived from the height of the highest tree of the forest) *)
Definition fix_all (F : forest) : forest :=
  map (fun kv => (fst kv, fix_choice (2 * S (S (fold_right Nat.max O (map (fun kv => height (snd kv)) F))))
                                     (snd kv))) F.

(* the augment stage: { retry loop to a fixpoint; FixChoice } until a round applies nothing *)
Section Rounds.
Variable n_aug : nat.
Fixpoint rounds (fuel round : nat) (F : forest) (err : bool) (P : pendings) (mods : list str)
  : forest * bool * pendings * list str :=
  match fuel with
  | O => (F, err, P, mods)
  | S f =>
    let '(Fa, erra, Pa, modsa, applied) := augment_loop SC (S n_aug) F err P mods O in
    let Fb := fix_all Fa in
    match modsa with
    | [] => (Fb, erra, Pa, modsa)
    | _ => match round, applied with
           | S _, O => (Fb, erra, Pa, modsa)
           | _, _ => rounds f (S round) Fb erra Pa modsa
           end
    end
  end.
End Rounds.

Definition stage_rounds := rounds stage_naug (S (S stage_naug)) O stage_F0 false stage_P0 order.
Definition stage_F2 : forest := fst (fst (fst stage_rounds)).
Definition stage_err1 : bool := snd (fst (fst stage_rounds)).
Definition stage_P1 : pendings := snd (fst stage_rounds).
Definition stage_mods1 : list str := snd stage_rounds.

(* the reporting pass: Augment(true) on the modules that still have pending augments *)
Definition final_step (st : forest * bool * pendings) (mn : str) : forest * bool * pendings :=
  let '(F, err, P) := st in
  let '(F', err', _, un) := augment_module SC F err (match lookup mn P with Some l => l | None => [] end) true in
  (F', err', update mn un P).
Definition stage_final := fold_left final_step stage_mods1 (stage_F2, stage_err1, stage_P1).
Definition stage_F3 : forest := fst (fst stage_final).
Definition stage_err3 : bool := snd (fst stage_final).
Definition stage_P3 : pendings := snd stage_final.
Definition dev_step (st : forest * bool) (mn : str) : forest * bool :=
  match find_module SC mn with
  | Some m => apply_deviations SC ignoreNotSupported (fst st) (snd st) m (m_deviations m)
  | None => st
  end.
Definition stage_dev := fold_left dev_step order (stage_F3, stage_err3).
Definition stage_F4 : forest := fst stage_dev.
Definition stage_err4 : bool := snd stage_dev.

(* Process after the two early exits, as a function of the result of the augment stage *)
Definition process_tail (r : forest * bool * pendings * list str) : result :=
  let '(F2, err1, P1, mods1) := r in
  let '(F3, err3, _) := fold_left final_step mods1 (F2, err1, P1) in
  let '(F4, err4) := fold_left dev_step order (F3, err3) in
  if err4 then RErr else ROk F4.

(* number of augments the reporting pass applies (0 once the rounds have reached their fixpoint) *)
Definition final_step_cnt (st : (forest * bool * pendings) * nat) (mn : str) : (forest * bool * pendings) * nat :=
  let '(F, err, P) := fst st in
  let '(F', err', n, un) := augment_module SC F err (match lookup mn P with Some l => l | None => [] end) true in
  ((F', err', update mn un P), (snd st + n)%nat).
Definition final_applied : nat :=
  snd (fold_left final_step_cnt stage_mods1 ((stage_F2, stage_err1, stage_P1), O)).
End Stages.
