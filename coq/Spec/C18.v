(* C18 -- reference semantics of a history of loads, Process calls and queries on one Modules value.

   The abstract state is the list of ACCEPTED items (plus, for the cached-entry query, the list as it was at the last
   Process).  Nothing else survives: every Process and every query is answered by a batch run on a FRESH set into
   which exactly the accepted items have been loaded, one text per item, in the order of their acceptance.
   A text is accepted as a whole or not at all: it must parse, every item must be a module or submodule the builder
   accepts, and the (kind, name, latest revision) keys of its items must be new and pairwise distinct. *)
From Coq Require Import List NArith Bool.
Import ListNotations.
From GY Require Import Model.Registry Model.History.

Definition keys (acc : list ghdr) : list str := map key_of acc.

(* the items a text contributes when it is accepted; [used] = keys that are taken *)
Fixpoint spec_goods (used : list str) (l : list item) : option (list ghdr) :=
  match l with
  | [] => Some []
  | Bad _ :: _ => None
  | Good g :: r =>
      if mem_str (key_of g) used then None
      else match spec_goods (key_of g :: used) r with
           | Some gs => Some (g :: gs)
           | None => None
           end
  end.

Definition spec_load (acc : list ghdr) (t : text) : option (list ghdr) :=
  match t with
  | SyntaxErr => None
  | Items l => spec_goods (keys acc) l
  end.

(* the listed shape load.partial-text: the text is rejected although its first item is a module with a new key --
   the pinned Parse has added that module by the time it meets the item it rejects *)
Definition partial_shape (acc : list ghdr) (t : text) : bool :=
  match t with
  | Items (Good g :: r) =>
      negb (mem_str (key_of g) (keys acc)) &&
      match spec_goods (keys acc) (Good g :: r) with None => true | Some _ => false end
  | _ => false
  end.

(* the same shape seen from the Modules value: the first item is a module that is not loaded yet *)
Definition fails_at_first {obs} (st : state obs) (t : text) : bool :=
  match t with
  | Items (Good g :: _) => match mget (Loaded (reg st)) (key_of g) with Some _ => true | None => false end
  | _ => true
  end.

(* the registry after the items [acc] have been accepted one by one (Model/Registry.v, property C13) *)
Definition reg_from (r : mstate) (acc : list ghdr) : mstate := fold_left (fun r g => fst (add r (g_hdr g))) acc r.
Definition reg_of (acc : list ghdr) : mstate := reg_from NewModules acc.

(* FindModuleByNamespace over the accepted modules that hold a key of ms.Modules: go through those that have the
   namespace -- the same module again changes nothing; another revision of the module found so far makes the answer
   what the bare name of that module denotes (its most recent loaded revision); a module of another name is the error
   "matches two or more modules"; none at all is the error "no such namespace" *)
Definition ns_matches (ns : str) (acc : list ghdr) : list ghdr :=
  filter (fun g => match gkind g with KMod => str_eqb (g_ns g) ns | KSub => false end) acc.
Fixpoint ns_choose (holder : str -> option ghdr) (found : option ghdr) (l : list ghdr) : nsres :=
  match l with
  | [] => match found with Some f => NsFound (gid f) | None => NsNone end
  | g :: r =>
      match found with
      | None => ns_choose holder (Some g) r
      | Some f =>
          if N.eqb (gid f) (gid g) then ns_choose holder found r
          else if str_eqb (gname f) (gname g) then ns_choose holder (holder (gname g)) r
          else NsAmbiguous
      end
  end.
Definition spec_ns (acc : list ghdr) (ns : str) : nsres :=
  ns_choose (holder_of (reg_of acc) acc) None (ns_matches ns (filed_values (reg_of acc) acc)).

(* how the accepted list evolves; no load of a history has the listed shape *)
Definition next_acc (acc : list ghdr) (o : op) : list ghdr :=
  match o with
  | Load t => match spec_load acc t with Some gs => acc ++ gs | None => acc end
  | _ => acc
  end.
Fixpoint no_partial (acc : list ghdr) (ops : list op) : Prop :=
  match ops with
  | [] => True
  | o :: r =>
      match o with Load t => partial_shape acc t = false | _ => True end /\ no_partial (next_acc acc o) r
  end.

Section Spec.
  Variable obs : Type.
  Variable sem : view -> obs.
  Variable fx : fixes.

  (* a fresh set loaded with exactly the accepted items, and the batch run on it *)
  Definition fresh (acc : list ghdr) : state obs :=
    fst (run sem fx NewState (map (fun g => Load (Items [Good g])) acc)).
  Definition batch (acc : list ghdr) : obs := snd (Process sem fx (fresh acc)).

  Record astate := { a_acc : list ghdr; a_snap : option (list ghdr) }.
  Definition a_init : astate := {| a_acc := []; a_snap := None |}.

  Definition spec_step (a : astate) (o : op) : astate * observation obs :=
    match o with
    | Load t =>
        match spec_load (a_acc a) t with
        | Some gs => ({| a_acc := a_acc a ++ gs; a_snap := a_snap a |}, OLoad true)
        | None => (a, OLoad false)
        end
    | Proc => ({| a_acc := a_acc a; a_snap := Some (a_acc a) |}, OProc (batch (a_acc a)))
    | QNs ns => (a, ONs (spec_ns (a_acc a) ns))
    | QTree => (a, OTree (option_map batch (a_snap a)))
    end.

  Fixpoint spec_run (a : astate) (ops : list op) : astate * list (observation obs) :=
    match ops with
    | [] => (a, [])
    | o :: r =>
        let '(a1, x) := spec_step a o in
        let '(a2, xs) := spec_run a1 r in
        (a2, x :: xs)
    end.

End Spec.

Arguments fresh {obs}. Arguments batch {obs}. Arguments spec_step {obs}. Arguments spec_run {obs}.
