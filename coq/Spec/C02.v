(* Reference semantics for C02: the RFC 7950 section 6 reading of a text, written directly over the
   list of runes.  There is no cursor state (no line / column / tab-column counters, no look-ahead
   buffer, no push-back): a position is just the suffix of the text that is still to be read, and the
   one column the RFC needs (that of an opening double quote) is recomputed from the text of its line.

   The reader returns  Accept forest | Reject | Ambiguous.  Ambiguous is returned on the constructs the
   property's quantifier excludes (DESIGN.md section 5, C02):
     (1) a comment opener (two slashes, or slash star) inside an unquoted token (at an index > 0);
     (2) in the leading blanks of a continuation line of a double-quoted string (once the blanks before
         its line break, which are stripped anyway, are set aside), a tab that starts at or before the
         column of the opening quote and ends beyond it;
     (3) inside a double-quoted string, an escape that produces a blank (backslash t; in a pattern
         argument also backslash followed by a space or tab), then zero or more literal blanks, then a
         literal line break;
     (4) inside a double-quoted string, a CR immediately followed by a literal LF;
     (D48) in a pattern argument, a backslash immediately followed by a literal line break.
   and when the recursion fuel (length of the text + 1, one unit per statement) runs out, which does
   not happen. *)
From Coq Require Import List NArith ZArith Bool.
Import ListNotations.
From GY Require Import Model.Lex Model.Parse Spec.C16.
Local Open Scope Z_scope.

Inductive node := Node (kw : str) (has_arg : bool) (arg : str) (subs : list node).
Inductive verdict := Accept (f : list node) | Reject | Ambiguous.

(* ------------------------------------------------------------------ characters *)
Definition blank (c : rune) : bool := ((c =? cSP) || (c =? cTAB) || (c =? cCR) || (c =? cLF))%N.
Definition punct (c : rune) : bool := ((c =? cSEMI) || (c =? cLB) || (c =? cRB))%N.
Definition quote (c : rune) : bool := ((c =? cDQ) || (c =? cSQ))%N.
(* what ends an unquoted token *)
Definition ends_unquoted (c : rune) : bool := blank c || quote c || punct c.

(* ------------------------------------------------------------------ blanks and comments *)
(* the text after the blanks and comments [s] starts with; None: a block comment is never closed.
   A block comment closes at the first star-slash after its two-character opener. *)
Inductive smode := InGap | InLineComment | InBlockComment.
Fixpoint skip (m : smode) (s : str) : option str :=
  match s with
  | [] => match m with InBlockComment => None | _ => Some [] end
  | c :: r =>
    match m with
    | InGap =>
        if blank c then skip InGap r
        else if (c =? cSLASH)%N then
          match r with
          | d :: r' => if (d =? cSLASH)%N then skip InLineComment r'
                       else if (d =? cSTAR)%N then skip InBlockComment r'
                       else Some s
          | [] => Some s
          end
        else Some s
    | InLineComment => if (c =? cLF)%N then skip InGap r else skip InLineComment r
    | InBlockComment =>
        if (c =? cSTAR)%N then
          match r with
          | d :: r' => if (d =? cSLASH)%N then skip InGap r' else skip InBlockComment r
          | [] => None
          end
        else skip InBlockComment r
    end
  end.

(* ------------------------------------------------------------------ the three kinds of string *)
(* unquoted: the maximal run up to a blank, a quote, or ; { } ; returns (run, rest) *)
Fixpoint unquoted (s : str) : str * str :=
  match s with
  | [] => ([], [])
  | c :: r => if ends_unquoted c then ([], s) else let (u, s') := unquoted r in (c :: u, s')
  end.

(* does a comment opener occur somewhere in [u] *)
Fixpoint opener_in (u : str) : bool :=
  match u with
  | c :: ((d :: _) as r) => ((c =? cSLASH)%N && ((d =? cSLASH)%N || (d =? cSTAR)%N)) || opener_in r
  | _ => false
  end.

(* single-quoted, after the opening quote: verbatim up to the next single quote *)
Fixpoint squoted (s : str) : option (str * str) :=
  match s with
  | [] => None
  | c :: r => if (c =? cSQ)%N then Some ([], r)
              else match squoted r with Some (u, s') => Some (c :: u, s') | None => None end
  end.

(* double-quoted, after the opening quote: the body as a list of source items up to the closing quote:
   a character standing for itself, or a backslash with the character it escapes *)
Inductive item := Lit (c : rune) | Esc (c : rune).

Fixpoint dq_items (s : str) : option (list item * str) :=
  match s with
  | [] => None
  | c :: r =>
    if (c =? cDQ)%N then Some ([], r)
    else if (c =? cBSL)%N then
      match r with
      | [] => None
      | d :: r' => match dq_items r' with Some (its, s') => Some (Esc d :: its, s') | None => None end
      end
    else match dq_items r with Some (its, s') => Some (Lit c :: its, s') | None => None end
  end.

Definition is_break (i : item) : bool := match i with Lit c => (c =? cLF)%N | Esc _ => false end.
Definition is_lit_blank (i : item) : bool := match i with Lit c => ((c =? cSP) || (c =? cTAB))%N | Esc _ => false end.

(* the source lines of the body: split at the literal line breaks (never empty) *)
Fixpoint lines (its : list item) : list (list item) :=
  match its with
  | [] => [[]]
  | i :: r => if is_break i then [] :: lines r
              else match lines r with l :: ls => (i :: l) :: ls | [] => [[i]] end
  end.

(* trailing blanks before a line break are stripped *)
Fixpoint drop_blanks (l : list item) : list item :=
  match l with i :: r => if is_lit_blank i then drop_blanks r else l | [] => [] end.
Definition strip_trailing (l : list item) : list item := rev (drop_blanks (rev l)).

(* leading blanks of a continuation line are dropped while they stand at a tab-expanded column (0-based,
   tabs to multiples of 8) not beyond that of the opening quote [q].  None: a tab straddles (2) *)
Fixpoint drop_leading (q col : Z) (l : list item) : option (list item) :=
  match l with
  | Lit c :: r =>
      if (c =? cSP)%N then if col <=? q then drop_leading q (col + 1) r else Some l
      else if (c =? cTAB)%N then
        if col <=? q then if tab_stop col <=? q + 1 then drop_leading q (tab_stop col) r else None
        else Some l
      else Some l
  | _ => Some l
  end.

(* substitution of one item; None: an escape that is not defined *)
Definition subst_item (pat : bool) (i : item) : option str :=
  match i with
  | Lit c => Some [c]
  | Esc c => if (c =? c_n)%N then Some [cLF]
             else if (c =? c_t)%N then Some [cTAB]
             else if (c =? cDQ)%N then Some [cDQ]
             else if (c =? cBSL)%N then Some [cBSL]
             else if pat then Some [cBSL; c] else None
  end.
Fixpoint subst_line (pat : bool) (l : list item) : option str :=
  match l with
  | [] => Some []
  | i :: r => match subst_item pat i, subst_line pat r with
              | Some a, Some b => Some (a ++ b)
              | _, _ => None
              end
  end.

(* the excluded constructs *)
Definition raw_item (i : item) : str := match i with Lit c => [c] | Esc c => [cBSL; c] end.
Fixpoint has_crlf (s : str) : bool :=
  match s with
  | c :: ((d :: _) as r) => ((c =? cCR)%N && (d =? cLF)%N) || has_crlf r
  | _ => false
  end.
Definition esc_blank (i : item) : bool :=
  match i with Esc c => ((c =? c_t) || (c =? cSP) || (c =? cTAB))%N | Lit _ => false end.
Definition esc_break (i : item) : bool := match i with Esc c => (c =? cLF)%N | Lit _ => false end.
(* (3): a line that is followed by a line break ends, once its trailing blanks are stripped, in an
   escape that produces a blank *)
Definition ends_in_esc_blank (l : list item) : bool :=
  match rev (strip_trailing l) with i :: _ => esc_blank i | [] => false end.

Inductive dres := DOk (text : str) (rest : str) | DReject | DAmbiguous.

(* all lines but the last lose their trailing blanks; all lines but the first their leading ones *)
Fixpoint layout (q : Z) (first : bool) (ls : list (list item)) : option (list (list item)) :=
  match ls with
  | [] => Some []
  | l :: rest =>
    let l1 := match rest with [] => l | _ => strip_trailing l end in
    match (if first then Some l1 else drop_leading q 0 l1), layout q false rest with
    | Some l2, Some r => Some (l2 :: r)
    | _, _ => None
    end
  end.
Fixpoint no_esc_blank_before_break (ls : list (list item)) : bool :=
  match ls with
  | l :: ((_ :: _) as rest) => negb (ends_in_esc_blank l) && no_esc_blank_before_break rest
  | _ => true
  end.
Fixpoint join_lines (pat : bool) (ls : list (list item)) : option str :=
  match ls with
  | [] => Some []
  | [l] => subst_line pat l
  | l :: rest => match subst_line pat l, join_lines pat rest with
                 | Some a, Some b => Some (a ++ cLF :: b)
                 | _, _ => None
                 end
  end.

(* [s] is the text after the opening quote, [q] the 0-based tab-expanded column of that quote *)
Definition dquoted (pat : bool) (q : Z) (s : str) : dres :=
  match dq_items s with
  | None => DReject                                            (* never closed *)
  | Some (its, rest) =>
    if has_crlf (concat (map raw_item its)) then DAmbiguous                      (* (4) *)
    else if pat && existsb esc_break its then DAmbiguous                         (* D48 *)
    else if negb (no_esc_blank_before_break (lines its)) then DAmbiguous         (* (3) *)
    else match layout q true (lines its) with
         | None => DAmbiguous                                                    (* (2) *)
         | Some ls => match join_lines pat ls with
                      | None => DReject                                          (* undefined escape *)
                      | Some t => DOk t rest
                      end
         end
  end.

(* ------------------------------------------------------------------ tokens *)
Inductive tok := KUnq (s : str) | KStr (s : str) | KPunct (c : rune) | KEnd.
Inductive tres := TOk (t : tok) (rest : str) | TReject | TAmbiguous.

(* the column of the first rune of the suffix [s] of [text]: tab-expanded width of what precedes it on
   its line (a line break resets, a tab goes to the next multiple of 8, anything else is one column) *)
Fixpoint col_from (col : Z) (s : str) : Z :=
  match s with
  | [] => col
  | c :: r => col_from (if (c =? cLF)%N then 0 else if (c =? cTAB)%N then tab_stop col else col + 1) r
  end.
Definition column_of (text s : str) : Z := col_from 0 (firstn (length text - length s) text).

(* the token [s] starts with, after blanks and comments *)
Definition read_token (text : str) (pat : bool) (s : str) : tres :=
  match skip InGap s with
  | None => TReject
  | Some s =>
    match s with
    | [] => TOk KEnd []
    | c :: r =>
      if punct c then TOk (KPunct c) r
      else if (c =? cSQ)%N then
        match squoted r with Some (u, s') => TOk (KStr u) s' | None => TReject end
      else if (c =? cDQ)%N then
        match dquoted pat (column_of text s) r with
        | DOk u s' => TOk (KStr u) s'
        | DReject => TReject
        | DAmbiguous => TAmbiguous
        end
      else let (u, s') := unquoted s in
           if opener_in (tl u) then TAmbiguous (* (1) *) else TOk (KUnq u) s'
    end
  end.

(* ------------------------------------------------------------------ arguments and statements *)
Inductive ares := AOk (has : bool) (arg : str) (rest : str) | AReject | AAmbiguous.

(* after a quoted piece: ( + quoted )*.  A + that is not followed by a quoted string is an error *)
Fixpoint pieces (fuel : nat) (text : str) (pat : bool) (acc : str) (s : str) : ares :=
  match fuel with
  | O => AAmbiguous
  | S f =>
    match read_token text pat s with
    | TOk (KUnq u) s1 =>
        if str_eqb u s_plus then
          match read_token text pat s1 with
          | TOk (KStr v) s2 => pieces f text pat (acc ++ v) s2
          | TOk _ _ => AReject
          | TReject => AReject
          | TAmbiguous => AAmbiguous
          end
        else AOk true acc s
    | TOk _ _ => AOk true acc s
    | TReject => AReject
    | TAmbiguous => AAmbiguous
    end
  end.

(* the optional argument: an unquoted token, or quoted pieces joined by + *)
Definition argument (text : str) (pat : bool) (s : str) : ares :=
  match read_token text pat s with
  | TOk (KUnq u) s1 => AOk true u s1
  | TOk (KStr u) s1 => pieces (S (length s1)) text pat u s1
  | TOk _ _ => AOk false [] s
  | TReject => AReject
  | TAmbiguous => AAmbiguous
  end.

(* statements up to a closing brace (closed = true) or the end of the text (closed = false) *)
Inductive pres := POk (f : list node) (closed : bool) (rest : str) | PReject | PAmbiguous.
Definition pcons (n : node) (r : pres) : pres :=
  match r with POk f c s => POk (n :: f) c s | x => x end.

Fixpoint stmts (fuel : nat) (text : str) (s : str) : pres :=
  match fuel with
  | O => PAmbiguous
  | S f =>
    match read_token text false s with
    | TReject => PReject
    | TAmbiguous => PAmbiguous
    | TOk KEnd _ => POk [] false []
    | TOk (KPunct c) s1 => if (c =? cRB)%N then POk [] true s1 else PReject
    | TOk (KStr _) _ => PReject                               (* a keyword is an unquoted token *)
    | TOk (KUnq kw) s1 =>
      match argument text (str_eqb kw s_pattern) s1 with
      | AReject => PReject
      | AAmbiguous => PAmbiguous
      | AOk has arg s2 =>
        match read_token text false s2 with
        | TOk (KPunct c) s3 =>
            if (c =? cSEMI)%N then pcons (Node kw has arg []) (stmts f text s3)
            else if (c =? cLB)%N then
              match stmts f text s3 with
              | POk subs true s4 => pcons (Node kw has arg subs) (stmts f text s4)
              | POk _ false _ => PReject                      (* the block is never closed *)
              | r => r
              end
            else PReject
        | TOk _ _ => PReject
        | TReject => PReject
        | TAmbiguous => PAmbiguous
        end
      end
    end
  end.

Definition spec_parse (text : str) : verdict :=
  match stmts (S (length text)) text text with
  | POk f false _ => Accept f
  | POk _ true _ => Reject                                    (* a closing brace that closes nothing *)
  | PReject => Reject
  | PAmbiguous => Ambiguous
  end.

(* what the comparison looks at in the parser's result: keywords, argument presence, argument strings,
   nesting and order *)
Fixpoint erase (s : stmt) : node :=
  match s with Stmt kw has arg _ _ _ subs => Node kw has arg (map erase subs) end.
