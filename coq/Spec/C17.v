(* C17 — Schema path lookup finds exactly the node the path names.

   Reference vocabulary for the theorems about Schema.Find (Entry.Find of entry.go), independent of the
   per-step loop of the model:
     step_name, abs_path, rel_path   how a position is SPELLED as a schema path: absolute with one prefix on
                                     every step ("/p:a/p:b/p:input/p:x"), relative as k times ".." followed by
                                     the downward names; rpc/action input and output are spelled "input" and
                                     "output";
     good_name, good_prefix          what a child name / a prefix may not contain for the spelling to be
                                     unambiguous (no "/", no ":", not "", ".", "..");
     path_ok                         the conditions along ONE path under which the lookup can follow it:
                                     child steps are taken at nodes that are not rpc/action nodes (Find looks
                                     only at input/output there) and carry good names;
     wf_entry / wf_forest            the same for whole trees (every child key is a good name, an rpc/action
                                     node has no directory children), with a boolean checker wf_forestb that
                                     the correspondence check evaluates on every model forest;
     names_module                    "context module ctx names module mn by prefix pfx";
     start_root, plain_path          the unprefixed absolute spelling "/a/b" and the tree it is looked up in;
     no_child                        "this step names no child of the node reached";
     label                           the attributes of a node itself (everything but its subtrees), for the
                                     frame statement of the lazy input/output creation. *)
From Coq Require Import List NArith Bool Arith.
From GY Require Import Model.Schema.
Import ListNotations.
Local Open Scope N_scope.

(* ------------------------------------------------------------------ spelling of positions *)
Definition step_name (s : step) : str :=
  match s with SChild n => n | SIn => s_input | SOut => s_output end.

Definition good_name (n : str) : Prop :=
  n <> [] /\ ~ In cSLASH n /\ ~ In cCOLON n /\ n <> s_dot /\ n <> s_dotdot.

Definition good_prefix (p : str) : Prop := p <> [] /\ ~ In cSLASH p /\ ~ In cCOLON p.

(* "/part/part/..." *)
Definition join_abs (parts : list str) : str := concat (map (fun p => cSLASH :: p) parts).
(* "part/part/...", "." for the empty list *)
Definition join_rel (parts : list str) : str :=
  match parts with [] => s_dot | p :: ps => p ++ join_abs ps end.

Definition abs_part (pfx : str) (s : step) : str := pfx ++ cCOLON :: step_name s.
Definition abs_path (pfx : str) (steps : list step) : str := join_abs (map (abs_part pfx) steps).

(* from a node [up] steps below the common ancestor to the node [down] below it *)
Definition rel_parts (up down : list step) : list str :=
  repeat s_dotdot (length up) ++ map step_name down.
Definition rel_path (up down : list step) : str := join_rel (rel_parts up down).

(* ------------------------------------------------------------------ conditions along one path *)
Fixpoint path_ok (e : entry) (steps : list step) : Prop :=
  match steps with
  | [] => True
  | SChild n :: r =>
    e_rpc e = None /\ good_name n /\
    match e_dir e with
    | Some d => match lookup n d with Some c => path_ok c r | None => True end
    | None => True
    end
  | SIn :: r => match e_rpc e with Some (Some i, _) => path_ok i r | _ => True end
  | SOut :: r => match e_rpc e with Some (_, Some o) => path_ok o r | _ => True end
  end.

Definition path_ok_pos (F : forest) (p : pos) : Prop :=
  match lookup (fst p) F with Some root => path_ok root (snd p) | None => True end.

(* ------------------------------------------------------------------ whole trees *)
Definition node_ok (x : entry) : Prop :=
  (forall d n c, e_dir x = Some d -> lookup n d = Some c -> good_name n) /\
  (e_rpc x <> None -> forall d, e_dir x = Some d -> d = []).

Definition wf_entry (e : entry) : Prop := forall steps x, locate e steps = Some x -> node_ok x.
Definition wf_forest (F : forest) : Prop := forall mn root, lookup mn F = Some root -> wf_entry root.

Definition is_nil {A} (l : list A) : bool := match l with [] => true | _ => false end.

Definition good_nameb (n : str) : bool :=
  negb (is_nil n) && negb (existsb (N.eqb cSLASH) n) && negb (existsb (N.eqb cCOLON) n)
  && negb (str_eqb n s_dot) && negb (str_eqb n s_dotdot).

Definition node_okb (x : entry) : bool :=
  match e_dir x with
  | Some d => forallb (fun kv => good_nameb (fst kv)) d &&
              match e_rpc x with Some _ => is_nil d | None => true end
  | None => true
  end.

(* false when the fuel does not reach the leaves *)
Fixpoint wf_entryb (fuel : nat) (e : entry) : bool :=
  match fuel with
  | O => false
  | S f =>
    node_okb e &&
    match e_dir e with Some d => forallb (fun kv => wf_entryb f (snd kv)) d | None => true end &&
    match e_rpc e with
    | Some (i, o) => match i with Some x => wf_entryb f x | None => true end &&
                     match o with Some x => wf_entryb f x | None => true end
    | None => true
    end
  end.

Definition wf_forestb (fuel : nat) (F : forest) : bool := forallb (fun kv => wf_entryb fuel (snd kv)) F.

(* ------------------------------------------------------------------ naming a module by prefix *)
Definition names_module (SC : schema) (ctx : module) (pfx mn : str) : Prop :=
  exists md m, FindModuleByPrefix SC ctx pfx = Some md /\ owner SC md = Some m /\ m_name m = mn.

(* first import statement with that prefix *)
Fixpoint import_of (pfx : str) (is : list (str * str)) : option str :=
  match is with
  | [] => None
  | (p, mn) :: r => if str_eqb pfx p then Some mn else import_of pfx r
  end.

(* the tree an absolute path WITHOUT prefix on its first step is looked up in: the tree of the start position; for a
   start position filed under a submodule's name, the tree of the module it belongs to *)
Definition start_root (SC : schema) (start : pos) : str :=
  match find_module SC (fst start) with
  | Some sm => match owner SC sm with Some o => m_name o | None => fst start end
  | None => fst start
  end.

(* "/n1/n2/...": no prefixes *)
Definition plain_path (steps : list step) : str := join_abs (map step_name steps).

(* ------------------------------------------------------------------ a step that names no child *)
Definition dir_lookup (e : entry) (n : str) : option entry :=
  match e_dir e with Some d => lookup n d | None => None end.

(* [nm]: the step with its prefix taken off.  At an rpc/action node only input and output exist (both can be
   created on demand); elsewhere "." names the node itself and everything else must be a key of Dir *)
Definition no_child (e : entry) (nm : str) : Prop :=
  match e_rpc e with
  | Some _ => nm <> s_input /\ nm <> s_output
  | None => nm <> s_dot /\ dir_lookup e nm = None
  end.

(* ------------------------------------------------------------------ the node itself, without subtrees *)
Definition label (e : entry) :=
  (e_name e, e_kind e, e_cfg e, e_mand e, e_dflt e, e_units e, e_ty e, e_key e, e_la e, e_ns e).

(* position q lies at or below position p *)
Definition below (p q : pos) : Prop := fst p = fst q /\ exists r, snd q = snd p ++ r.
