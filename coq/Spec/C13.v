(* C13 — reference semantics of (a) the module registry and (b) the file chooser.
   Part (c) of the property (include = inline) is not specified here. *)
From Coq Require Import List NArith Bool.
Import ListNotations.
From GY Require Import Model.Registry Model.File.

(* ===================================================================================== *)
(* (a) registry.  The input is the sequence of headers handed to Parse, in load order.   *)

(* the revision of a module: the greatest argument of its revision statements, "" if none *)
Definition cur (h : header) : str := Current (h_revs h).

Definition same_kn (k : kind) (n : str) (h : header) : bool :=
  kind_eqb (h_kind h) k && str_eqb (h_name h) n.
Definition is_knr (k : kind) (n r : str) (h : header) : bool :=
  same_kn k n h && str_eqb (cur h) r.
(* same kind, name and revision *)
Definition same_key (a b : header) : bool := is_knr (h_kind a) (h_name a) (cur a) b.

(* the candidate with the greatest revision (the earliest loaded one among equals) *)
Fixpoint latest (c : list header) : option header :=
  match c with
  | [] => None
  | h :: t =>
      match latest t with
      | None => Some h
      | Some b => if str_ltb (cur h) (cur b) then Some b else Some h
      end
  end.

(* bare name / import without revision-date *)
Definition spec_latest (hs : list header) (k : kind) (n : str) : option header :=
  latest (filter (same_kn k n) hs).
(* import / include with revision-date r: the (first) loaded header of exactly that revision *)
Definition spec_exact (hs : list header) (k : kind) (n r : str) : option header :=
  List.find (is_knr k n r) hs.

(* what a lookup denotes; when the requested revision is not loaded the code falls back to
   the bare name (and then to the file system, which is not part of this specification) *)
Definition spec_find (hs : list header) (k : kind) (n : str) (rev : option str) : option header :=
  match rev with
  | None => spec_latest hs k n
  | Some r =>
      match (if is_empty r then None else spec_exact hs k n r) with
      | Some h => Some h
      | None => spec_latest hs k n
      end
  end.

(* a header is accepted unless the same (kind, name, revision) was loaded before *)
Definition spec_ok (prev : list header) (h : header) : bool := negb (existsb (same_key h) prev).

Fixpoint map_prefix {B} (f : list header -> header -> B) (prev rest : list header) : list B :=
  match rest with
  | [] => []
  | h :: t => f prev h :: map_prefix f (prev ++ [h]) t
  end.
Definition spec_verdicts (hs : list header) : list bool := map_prefix spec_ok [] hs.

(* module names are YANG identifiers: no '@' *)
Definition at_free (s : str) : bool := forallb (fun c => negb (N.eqb c AT)) s.
Definition names_ok (hs : list header) : bool := forallb (fun h => at_free (h_name h)) hs.

Definition hkey (h : header) : kind * str * str := (h_kind h, h_name h, cur h).
Definition distinct_keys (hs : list header) : Prop := NoDup (map hkey hs).

(* ===================================================================================== *)
(* (b) file chooser                                                                      *)

Definition files (es : list entry) : list str :=
  flat_map (fun e => match e with File n => [n] | Dir _ _ => [] end) es.

(* fn = name ++ "@" ++ d ++ ".yang" with d of the shape YYYY-MM-DD: Some d *)
Definition date_of (name fn : str) : option str :=
  if has_prefix fn name then
    match skipn (length name) fn with
    | c :: rest =>
        let d := firstn 10 rest in
        if N.eqb c AT && date_shaped d && str_eqb (skipn 10 rest) DOT_YANG then Some d else None
    | [] => None
    end
  else None.

Definition dates (name : str) (es : list entry) : list str :=
  flat_map (fun fn => match date_of name fn with Some d => [d] | None => [] end) (files es).

(* the file of module [name] a directory offers: name.yang, else the latest date *)
Definition spec_best (name : str) (es : list entry) : option str :=
  if existsb (str_eqb (name ++ DOT_YANG)) (files es) then Some (name ++ DOT_YANG)
  else
    match dates name es with
    | [] => None
    | d :: ds => Some (name ++ AT :: max_str d ds ++ DOT_YANG)
    end.

(* the calendar reading of YYYY-MM-DD: the number YYYYMMDD *)
Definition digits_val (acc : N) (ds : str) : N := fold_left (fun acc c => (acc * 10 + (c - 48))%N) ds acc.
Definition date_num (d : str) : N :=
  match d with
  | [y1; y2; y3; y4; _; m1; m2; _; d1; d2] => digits_val 0 [y1; y2; y3; y4; m1; m2; d1; d2]
  | _ => 0%N
  end.

(* a file that belongs to module [name] *)
Definition candidate (name fn : str) : Prop :=
  fn = name ++ DOT_YANG \/ exists d, date_shaped d = true /\ fn = name ++ AT :: d ++ DOT_YANG.

(* the directories a search-path element stands for, with their position below it:
   the directory itself; for "dir/..." dir and then all its subdirectories, depth first in
   directory order ("dir and all direct or indirect subdirectories of dir are searched") *)
Fixpoint expand (d : entry) : list (list str * list entry) :=
  match d with
  | File _ => []
  | Dir _ es =>
      ([], es) :: flat_map (fun c => match c with
                                     | Dir n _ => map (fun pe => (n :: fst pe, snd pe)) (expand c)
                                     | File _ => []
                                     end) es
  end.
Definition dirs_of (pe : pathent) : list (list str * list entry) :=
  match pe with
  | (Some (Dir n es), true) => expand (Dir n es)
  | (Some (Dir _ es), false) => [([], es)]
  | _ => []
  end.

Fixpoint first_offer (name : str) (ds : list (list str * list entry)) : option (list str) :=
  match ds with
  | [] => None
  | (p, es) :: rest =>
      match spec_best name es with
      | Some f => Some (p ++ [f])
      | None => first_offer name rest
      end
  end.

(* the first location (current directory, then the path in order) one of whose directories
   offers a file; that directory's offer *)
Fixpoint spec_search (name : str) (i : nat) (locs : list pathent) : option found :=
  match locs with
  | [] => None
  | pe :: rest =>
      match first_offer name (dirs_of pe) with
      | Some p => Some (Found i p)
      | None => spec_search name (S i) rest
      end
  end.
Definition spec_findFile (cwd : entry) (path : list pathent) (name : str) : option found :=
  spec_search name 0 ((Some cwd, false) :: path).

(* some directory below (and including) d offers a file *)
Fixpoint any_offer (name : str) (d : entry) : bool :=
  match d with
  | File _ => false
  | Dir _ es =>
      (match spec_best name es with Some _ => true | None => false end)
      || existsb (any_offer name) es
  end.

(* sig=findfile.dots-subdir-first: a directory that offers a file has a subdirectory (at any
   depth) that offers one too *)
Fixpoint nested_offers (name : str) (d : entry) : bool :=
  match d with
  | File _ => false
  | Dir _ es =>
      ((match spec_best name es with Some _ => true | None => false end)
       && existsb (any_offer name) es)
      || existsb (nested_offers name) es
  end.
Definition dots_nested (name : str) (path : list pathent) : bool :=
  existsb (fun pe => match pe with
                     | (Some d, true) => nested_offers name d
                     | _ => false
                     end) path.

(* the same over one tree (mirrors File.findFile_fs) *)
Definition spec_findFile_fs (root : entry) (cwd : list str) (path : list (list str * bool)) (name : str)
  : option found :=
  let root := readDirAll root in
  match resolve root cwd with
  | Some c => spec_findFile c (map (fun '(p, dots) => (resolve root p, dots)) path) name
  | None => None
  end.
Definition dots_nested_fs (root : entry) (path : list (list str * bool)) (name : str) : bool :=
  let root := readDirAll root in
  dots_nested name (map (fun '(p, dots) => (resolve root p, dots)) path).

(* ===================================================================================== *)
(* (a') texts with several modules: Parse is all or nothing.  A text is accepted iff each of
   its headers is new with respect to the accepted texts before it and to the headers before
   it in the same text; an accepted text contributes all its headers, a rejected one none. *)
Fixpoint text_ok_from (prev seen : list header) (hs : list header) : bool :=
  match hs with
  | [] => true
  | h :: t => spec_ok (prev ++ seen) h && text_ok_from prev (seen ++ [h]) t
  end.
Definition text_ok (prev hs : list header) : bool := text_ok_from prev [] hs.

Fixpoint spec_texts (prev : list header) (texts : list (list header)) : list bool :=
  match texts with
  | [] => []
  | hs :: rest =>
      let ok := text_ok prev hs in
      ok :: spec_texts (if ok then prev ++ hs else prev) rest
  end.
(* the headers of the accepted texts, in load order *)
Fixpoint accepted_headers (prev : list header) (texts : list (list header)) : list header :=
  match texts with
  | [] => prev
  | hs :: rest => accepted_headers (if text_ok prev hs then prev ++ hs else prev) rest
  end.

(* ===================================================================================== *)
(* (b') what findInDir does on a "dir/..." element, for EVERY tree (this is a description of the
   code, not of the property: it is where the known finding findfile.dots-subdir-first lives).
   The entries of a directory are visited in name order; the first one that is either the exact
   file name.yang or a subdirectory below which some directory offers a file decides: the exact
   file is opened, or the search continues inside that subdirectory.  Only when no entry decides
   is the directory's own latest dated file opened. *)
Definition dated_best (name : str) (es : list entry) : option str :=
  match dates name es with
  | [] => None
  | d :: ds => Some (name ++ AT :: max_str d ds ++ DOT_YANG)
  end.

Section Choose.
  Variable rec : entry -> option (list str).
  Variable name : str.
  Variable fallback : option (list str).
  Fixpoint choose_in (l : list entry) : option (list str) :=
    match l with
    | [] => fallback
    | File fn :: r => if str_eqb fn (name ++ DOT_YANG) then Some [fn] else choose_in r
    | (Dir dn _ as c) :: r =>
        if any_offer name c then option_map (cons dn) (rec c) else choose_in r
    end.
End Choose.

Fixpoint chosen (name : str) (d : entry) : option (list str) :=
  match d with
  | File _ => None
  | Dir _ es => choose_in (chosen name) name (option_map (fun f => [f]) (dated_best name es)) es
  end.

(* findFile for every search path, "dir/..." elements included *)
Definition chosen_of (name : str) (pe : pathent) : option (list str) :=
  match pe with
  | (Some (Dir n es), true) => chosen name (Dir n es)
  | (Some (Dir _ es), false) => option_map (fun f => [f]) (spec_best name es)
  | _ => None
  end.
Fixpoint exact_search (name : str) (i : nat) (locs : list pathent) : option found :=
  match locs with
  | [] => None
  | pe :: rest =>
      match chosen_of name pe with
      | Some p => Some (Found i p)
      | None => exact_search name (S i) rest
      end
  end.
Definition exact_findFile (cwd : entry) (path : list pathent) (name : str) : option found :=
  exact_search name 0 ((Some cwd, false) :: path).
