(* Reference reading for C16, third sentence, builder part, stated on the TEXT:
   "Every file:line:column that appears in an error from building a module is the start of a statement of
    that file, namely the unknown substatement itself, [or] the statement that lacks a mandatory substatement".

   [points_at text x pos]: pos is a printed line:col, and it is the true position (Spec/C16.v [linecol]: 1-based
   line, 1-based column in runes) of the first rune of the keyword of statement x, which really stands there.
   [text_site]: which statement of the text that is, by error kind -- Spec/C03.v's [site] read on the statements
   the parser returned ([stmt] of Model/Parse.v) instead of on the builder's numbered trees. *)
From Coq Require Import Ascii String List NArith ZArith Bool.
Import ListNotations.
From GY Require Import Model.Lex Model.Parse Model.FrontEnd Spec.C16.
From GY Require Model.Ast.
Local Open Scope string_scope.

(* the keyword as the builder sees it (bytes) *)
Definition akw (s : stmt) : string := enc (p_kw s).
Definition sub_kws (s : stmt) : list string := map akw (p_subs s).

Definition points_at (text : str) (x : stmt) (pos : fpos) : Prop :=
  p_kw x <> [] /\
  text_at (terminated text) (p_off x) (p_kw x) /\
  exists l c, pos = At l c /\ (l, c) = linecol text (p_off x).

(* t is s, or a substatement the builder files under a field of its struct, recursively: the statements
   the builder visits (it does not look inside extension statements) *)
Inductive tfiled (S : Ast.schema) : stmt -> stmt -> Prop :=
| TFiledHere : forall s, tfiled S s s
| TFiledSub : forall s ty sd x f t,
    Ast.struct_of S (akw s) = Some (ty, Some sd) -> In x (p_subs s) ->
    Ast.classify sd (akw x) = Ast.KField f -> tfiled S x t -> tfiled S s t.

Definition text_site (S : Ast.schema) (text : str) (ss : list stmt) (k : Ast.ekind) (pos : fpos) : Prop :=
  match k with
  | Ast.EUnknownStmt =>          (* the statement whose keyword is in no table *)
      exists top t, In top ss /\ tfiled S top t /\ Ast.struct_of S (akw t) = None /\ points_at text t pos
  | Ast.EUnknownField =>         (* the unknown substatement itself *)
      exists top t ty sd x, In top ss /\ tfiled S top t /\ Ast.struct_of S (akw t) = Some (ty, Some sd) /\
        In x (p_subs t) /\ Ast.classify sd (akw x) = Ast.KUnknown /\ points_at text x pos
  | Ast.ENoExt =>                (* the extension substatement of a statement that keeps none *)
      exists top t ty sd x, In top ss /\ tfiled S top t /\ Ast.struct_of S (akw t) = Some (ty, Some sd) /\
        In x (p_subs t) /\ Ast.classify sd (akw x) = Ast.KExt /\ Ast.field_of sd "Ext" = None /\
        points_at text x pos
  | Ast.EAlreadySet => pos = NoPos      (* errors.New: the message has no position *)
  | Ast.EMissing =>              (* the statement that lacks the mandatory substatement *)
      exists top t ty sd f, In top ss /\ tfiled S top t /\ Ast.struct_of S (akw t) = Some (ty, Some sd) /\
        In f (Ast.s_fields sd) /\ Ast.f_required f = true /\ ~ In (Ast.f_key f) (sub_kws t) /\
        points_at text t pos
  | Ast.EMissingKind =>          (* the module / submodule that lacks what its keyword makes mandatory *)
      exists top t ty sd f, In top ss /\ tfiled S top t /\ Ast.struct_of S (akw t) = Some (ty, Some sd) /\
        In f (Ast.s_fields sd) /\ In (akw t) (Ast.f_reqkinds f) /\ ~ In (Ast.f_key f) (sub_kws t) /\
        points_at text t pos
  | Ast.EOtherKind =>            (* pinned known behaviour (KNOWN_FINDINGS builder.kind-field-reported-at-parent):
                                    the PARENT of the substatement that only the other keyword allows *)
      exists top t ty sd f n, In top ss /\ tfiled S top t /\ Ast.struct_of S (akw t) = Some (ty, Some sd) /\
        In f (Ast.s_fields sd) /\ In n (Ast.f_reqkinds f) /\ n <> akw t /\ In (Ast.f_key f) (sub_kws t) /\
        points_at text t pos
  | Ast.ENotModule => pos = NoPos       (* checkAdd: the message has no position *)
  end.
