(* C07 — Augments are applied exactly once, order-independently, or reported: the reference system.

   The abstract augment system of DESIGN.md §5 C07.  A state is a *flat view* of a forest — a map from
   positions (module name, steps from the module's root) to node labels — together with the multiset of
   pending augments (the model's own [aug] records).  The flat view forgets the order of children in a
   child map (Go's Dir is a map) and treats the input/output of an rpc or action as always present
   (absent = empty: Entry.Find creates them on demand, so looking a path up is a pure function of the view).

   A *step* applies one pending augment whose path resolves ([afind], the pure reading of Entry.Find from
   the declaring module) to a node with a child map: it grafts the augment's children, the top of each
   stamped with the owner namespace; a child whose name is already present is not grafted and makes the
   step (and the run) dirty.  A *run* is a sequence of steps; it is *maximal* when no pending augment is
   applicable.  [cstep] is the same step read off the model's augment_module (Model/Schema.v). *)
From Coq Require Import List NArith Bool Permutation.
From GY Require Import Model.Schema.
Import ListNotations.
Local Open Scope N_scope.

(* ------------------------------------------------------------------ labels and the flat view *)
Record label := { l_name : str; l_kind : ekind; l_cfg : tri; l_mand : tri; l_dflt : list str; l_units : str;
                  l_ty : option str; l_key : str; l_la : option (N * N * (bool * bool)); l_ns : option str;
                  l_hasdir : bool;      (* has a child map (possibly empty) *)
                  l_isrpc : bool }.     (* is an rpc or action: its only children are input and output *)

Definition is_some {A} (o : option A) : bool := match o with Some _ => true | None => false end.

Definition lab (e : entry) : label :=
  {| l_name := e_name e; l_kind := e_kind e; l_cfg := e_cfg e; l_mand := e_mand e; l_dflt := e_dflt e;
     l_units := e_units e; l_ty := e_ty e; l_key := e_key e; l_la := e_la e; l_ns := e_ns e;
     l_hasdir := is_some (e_dir e); l_isrpc := is_some (e_rpc e) |}.

(* locate, with the input/output of an rpc read as present-and-empty when absent *)
Definition io_or_empty (input : bool) (o : option entry) : entry :=
  match o with Some x => x | None => empty_io input end.

Fixpoint vlocate (e : entry) (steps : list step) : option entry :=
  match steps with
  | [] => Some e
  | SChild n :: r =>
    match e_dir e with
    | Some d => match lookup n d with Some c => vlocate c r | None => None end
    | None => None
    end
  | SIn :: r => match e_rpc e with Some (i, _) => vlocate (io_or_empty true i) r | None => None end
  | SOut :: r => match e_rpc e with Some (_, o) => vlocate (io_or_empty false o) r | None => None end
  end.

Definition flat := pos -> option label.

Definition flat_of (F : forest) : flat :=
  fun p => match lookup (fst p) F with
           | Some root => option_map lab (vlocate root (snd p))
           | None => None
           end.

(* two views are the same when they agree at every position *)
Definition feq (f g : flat) : Prop := forall p, f p = g p.
(* forest equivalence: same nodes with the same labels at the same paths; the order of children in a
   child map and the presence of an empty input/output are not observable *)
Definition forest_eqv (F G : forest) : Prop := feq (flat_of F) (flat_of G).

(* every node's parent is a node *)
Definition prefix_closed (fl : flat) : Prop :=
  forall mn steps s, fl (mn, steps ++ [s]) <> None -> fl (mn, steps) <> None.

(* ------------------------------------------------------------------ Find on the view *)
Fixpoint afind_steps (fl : flat) (p : option pos) (parts : list str) : option pos :=
  match parts with
  | [] => p
  | part :: rest =>
    match p with
    | None => None
    | Some (mn, steps) =>
      if str_eqb part s_dot then afind_steps fl p rest
      else if str_eqb part s_dotdot then
        match rev steps with
        | [] => None
        | _ :: up => afind_steps fl (Some (mn, rev up)) rest
        end
      else
        match fl (mn, steps) with
        | None => None
        | Some l =>
          let name := snd (getPrefix part) in
          if l_isrpc l then
            if str_eqb name s_input then afind_steps fl (Some (mn, steps ++ [SIn])) rest
            else if str_eqb name s_output then afind_steps fl (Some (mn, steps ++ [SOut])) rest
            else None
          else if str_eqb name s_dot then afind_steps fl p rest
          else if match name with [] => true | _ => false end || str_eqb name s_dotdot then None
          else if l_hasdir l then
            match fl (mn, steps ++ [SChild name]) with
            | Some _ => afind_steps fl (Some (mn, steps ++ [SChild name])) rest
            | None => None
            end
          else None
        end
    end
  end.

Definition afind (SC : schema) (fl : flat) (ctx : module) (start : pos) (name : str) : option pos :=
  match name with
  | [] => None
  | _ =>
    match split_on cSLASH [] name with
    | [] :: first :: rest =>
      let prefix := fst (getPrefix first) in
      match prefix with
      | [] =>
        (* a name without prefix is a name of the current module: for a submodule, its owner *)
        let root := match find_module SC (fst start) with
                    | Some sm => match owner SC sm with Some o => m_name o | None => fst start end
                    | None => fst start
                    end in
        afind_steps fl (Some (root, [])) (first :: rest)
      | _ =>
        match FindModuleByPrefix SC ctx prefix with
        | None => None
        | Some md =>
          match owner SC md with
          | None => None
          | Some m => afind_steps fl (Some (m_name m, [])) (first :: rest)
          end
        end
      end
    | [] :: [] => Some (fst start, [])
    | parts => afind_steps fl (Some start) parts
    end
  end.

(* ------------------------------------------------------------------ grafting on the view *)
Definition step_eqb (a b : step) : bool :=
  match a, b with
  | SChild x, SChild y => str_eqb x y
  | SIn, SIn => true
  | SOut, SOut => true
  | _, _ => false
  end.

(* strip pre l = Some r  iff  l = pre ++ r *)
Fixpoint strip (pre l : list step) : option (list step) :=
  match pre, l with
  | [], _ => Some l
  | a :: pre', b :: l' => if step_eqb a b then strip pre' l' else None
  | _ :: _, [] => None
  end.

Definition stamp (ns : str) (c : entry) : entry := set_ns c (Some ns).

(* the nodes a graft of [kids] under position [p] creates: below every kid whose name is free *)
Definition grafted (fl : flat) (p : pos) (ns : str) (kids : list (str * entry)) (q : pos) : option label :=
  if str_eqb (fst q) (fst p) then
    match strip (snd p) (snd q) with
    | Some (SChild k :: rest) =>
      match fl (fst p, snd p ++ [SChild k]) with
      | Some _ => None
      | None => match lookup k kids with
                | Some c => option_map lab (vlocate (stamp ns c) rest)
                | None => None
                end
      end
    | _ => None
    end
  else None.

(* existing nodes are never changed *)
Definition agraft (fl : flat) (p : pos) (ns : str) (kids : list (str * entry)) : flat :=
  fun q => match fl q with Some l => Some l | None => grafted fl p ns kids q end.

(* a kid's name is already present under the target, or occurs twice among the kids *)
Definition aconflict (fl : flat) (p : pos) (kids : list (str * entry)) : bool :=
  snd (fold_left (fun (st : list str * bool) kv =>
                    if is_some (fl (fst p, snd p ++ [SChild (fst kv)])) || mem (fst kv) (fst st)
                    then (fst st, true) else (fst kv :: fst st, snd st))
                 kids ([], false)).

(* one step of the abstract system: None = not applicable; Some (view after, dirty) *)
Definition astep (SC : schema) (fl : flat) (a : aug) : option (flat * bool) :=
  match afind SC fl (a_mod a) (m_name (a_mod a), []) (a_path a) with
  | Some p =>
    match fl p with
    | Some l =>
      if l_hasdir l
      then Some (agraft fl p (owner_ns SC (a_mod a)) (a_dir a), aconflict fl p (a_dir a) || a_err a)
      else None
    | None => None
    end
  | None => None
  end.

(* ------------------------------------------------------------------ runs *)
Section Runs.
Context {St : Type}.
Variable eqv : St -> St -> Prop.
Variable st : St -> aug -> option (St * bool).

(* run s P d s' P' d': from state s with pending multiset P and dirty flag d, some sequence of steps
   leads to s' (up to eqv) with P' pending and flag d'; every step consumes one pending augment *)
Inductive run : St -> list aug -> bool -> St -> list aug -> bool -> Prop :=
| run_nil : forall s s' P P' d, eqv s s' -> Permutation P P' -> run s P d s' P' d
| run_step : forall s P d a t c t' Q s' P' d',
    st s a = Some (t, c) -> eqv t t' -> Permutation P (a :: Q) ->
    run t' Q (d || c) s' P' d' -> run s P d s' P' d'.

Definition maximal (s : St) (P : list aug) : Prop := forall a, In a P -> st s a = None.

(* the number of steps of a run *)
Inductive run_n : nat -> St -> list aug -> bool -> St -> list aug -> bool -> Prop :=
| runn_nil : forall s s' P P' d, eqv s s' -> Permutation P P' -> run_n O s P d s' P' d
| runn_step : forall n s P d a t c t' Q s' P' d',
    st s a = Some (t, c) -> eqv t t' -> Permutation P (a :: Q) ->
    run_n n t' Q (d || c) s' P' d' -> run_n (S n) s P d s' P' d'.
End Runs.

(* ------------------------------------------------------------------ the model's step *)
(* what augment_module does with one pending augment: the forest afterwards (Find may have created an
   rpc's input/output on the way even when the augment is not applicable) and, when the augment was
   applied, whether it met a name conflict or carried an error of its own *)
Definition cstep (SC : schema) (F : forest) (a : aug) : forest * option bool :=
  let '(target, F1) := Find SC F (a_mod a) (m_name (a_mod a), []) (a_path a) in
  match target with
  | Some p =>
    match locate_pos F1 p with
    | Some te =>
      match e_dir te with
      | Some d =>
        (update_pos F1 p (fun te =>
           match e_dir te with
           | Some d => set_dir te (Some (fst (merge_dir (d, false) (Some (owner_ns SC (a_mod a))) (a_dir a))))
           | None => te
           end),
         Some (snd (merge_dir (d, false) None (a_dir a)) || a_err a))
      | None => (F1, None)
      end
    | None => (F1, None)
    end
  | None => (F1, None)
  end.

(* all pending augments of a pendings table *)
Definition all_pending (P : pendings) : list aug := concat (map snd P).

(* the abstract system instantiated on views *)
Definition vrun (SC : schema) := @run flat feq (astep SC).
Definition vmaximal (SC : schema) := @maximal flat (astep SC).

(* ------------------------------------------------------------------ namespace on a tree *)
(* no node of the tree carries a namespace stamp *)
Definition ns_free (e : entry) : Prop := forall steps c, vlocate e steps = Some c -> e_ns c = None.

(* ------------------------------------------------------------------ the stages of Process *)
(* Process (Model/Schema.v) cut at the augment stage; [Process_stages] (Proofs/AugmentProofs.v) proves by
   computation that this is what Process does, so a change of the model's Process breaks that proof *)
Section Stages.
Variable SC : schema.
Variable ignoreCirc : bool.
Variable ignoreNotSupported : bool.

Definition forest0 : forest :=
  map (fun x : module * built => (m_name (fst x), fst (snd x)))
      (filter (fun x : module * built => negb (is_sub (fst x)))
              (map (fun m => (m, module_entry SC ignoreCirc m)) SC)).
Definition pend0 : pendings := map (fun m => (m_name m, module_augs SC m)) SC.
Definition n_aug : nat := fold_right (fun m n => length (m_augments m) + n)%nat O SC.

(* FixChoice on every module tree (the fuel is derived from the height of the highest tree; it does not depend
   on the schema) *)
Definition fix_all (F : forest) : forest :=
  map (fun kv => (fst kv,
                  fix_choice (2 * S (S (fold_right Nat.max O (map (fun kv => height (snd kv)) F)))) (snd kv))) F.

(* one round: the retry loop over the modules still at work, visited in the order of [mods], to a
   fixpoint; then FixChoice.  Rounds repeat as long as they apply something: an augment path may lead
   through a case that FixChoice inserts. *)
Fixpoint rounds (fuel : nat) (round : nat) (F : forest) (err : bool) (P : pendings) (mods : list str)
  : forest * bool * pendings * list str :=
  match fuel with
  | O => (F, err, P, mods)
  | S f =>
    let '(Fa, erra, Pa, modsa, applied) := augment_loop SC (S n_aug) F err P mods O in
    let Fb := fix_all Fa in
    match modsa with
    | [] => (Fb, erra, Pa, modsa)
    | _ => match round, applied with
           | S _, O => (Fb, erra, Pa, modsa)
           | _, _ => rounds f (S round) Fb erra Pa modsa
           end
    end
  end.

Definition augment_stage (order : list str) : forest * bool * pendings * list str :=
  rounds (S (S n_aug)) O forest0 false pend0 order.

(* the last pass: the augments still pending are tried once more and the ones that cannot be applied
   are reported *)
Definition final_pass (st : forest * bool * pendings) (mods1 : list str) : forest * bool * pendings :=
  fold_left (fun st mn =>
               let '(F, err, P) := st in
               let pend := match lookup mn P with Some l => l | None => [] end in
               let '(F', err', _, un) := augment_module SC F err pend true in
               (F', err', update mn un P)) mods1 st.

Definition deviation_stage (order : list str) (st : forest * bool) : forest * bool :=
  fold_left (fun st mn =>
               match find_module SC mn with
               | Some m => apply_deviations SC ignoreNotSupported (fst st) (snd st) m (m_deviations m)
               | None => st
               end) order st.

Definition process_tail (order : list str) (F2 : forest) (err1 : bool) (P1 : pendings) (mods1 : list str) : result :=
  let '(F3, err3, _) := final_pass (F2, err1, P1) mods1 in
  let '(F4, err4) := deviation_stage order (F3, err3) in
  if err4 then RErr else ROk F4.

Definition sources_ok : bool :=
  forallb (fun m => fst (includes_ok SC (S (length SC)) [] m)) (modules_only SC) &&
  negb (existsb (fun x : module * built => snd (snd x)) (map (fun m => (m, module_entry SC ignoreCirc m)) SC)).

Definition Process_staged (order : list str) : result :=
  if sources_ok then
    let '(F2, err1, P1, mods1) := augment_stage order in process_tail order F2 err1 P1 mods1
  else RErr.
End Stages.

(* ------------------------------------------------------------------ Namespace read off the view *)
(* Entry.Namespace: the nearest namespace stamp on the way up, the module's root excluded *)
Fixpoint vns_walk (fl : flat) (mn : str) (pre rest : list step) (best : option str) : option str :=
  match rest with
  | [] => best
  | s :: r =>
    match fl (mn, pre ++ [s]) with
    | Some l => vns_walk fl mn (pre ++ [s]) r (match l_ns l with Some n => Some n | None => best end)
    | None => best
    end
  end.
Definition vns (fl : flat) (p : pos) : option str := vns_walk fl (fst p) [] (snd p) None.
