(* C09 — Type names bind lexically and derived types inherit the whole chain.

   Reference semantics, stated without the lookup loops and without the resolver's recursion:

     binds S st name key td   the typedef a type name written in scope st denotes:
                              - unprefixed or own-prefixed: the typedef of that name declared by the innermost
                                enclosing scope that declares one; when no enclosing scope (the module's top level
                                included) declares it, a top-level typedef of a member of the WHOLE MODULE
                                (in_whole: the module or submodule itself, the module it belongs to, and everything
                                reachable from these through include statements);
                              - foreign prefix: a top-level typedef of a member of the whole module of exactly the
                                module imported under that prefix -- never a nested typedef, never another module;
                              - a built-in name binds no typedef (base_kind is consulted first, with the name as
                                written, so a typedef cannot shadow a built-in name; "pfx:string" is not built in).
     chain S st t tds k       the derivation chain of a reference: the typedefs met by following binds, nearest
                              first, down to the built-in kind k.
     chain_type k t tds mss   the type a reference with that chain denotes, attribute by attribute: kind = the
                              built-in kind, name = the nearest typedef's, units/default = the nearest typedef that
                              states one, fraction-digits / range / length / path / enum / bit set = the nearest type
                              statement that states one, patterns = the chain's patterns from the base outward
                              without repetitions, union members = the chain's member types from the base outward
                              without Equal repetitions (mss: the resolved members of every link, nearest first).

   Small look-ups that are not what the property is about are shared with the model (FindModule: the loaded module an
   import / include statement names -- its pinned revision, else the latest --, C13; assoc_first: the first import statement with a prefix; getPrefix: split at the first colon). *)
From Coq Require Import Ascii String List Bool Arith NArith.
From GY Require Import Base.Outcome Model.Types.
Import ListNotations.
Local Open Scope string_scope.
Local Open Scope list_scope.

(* ------------------------------------------------------------------ binding *)

Definition is_prefix (p q : path) : Prop := exists r, q = p ++ r.

(* the typedef a scope declares under a name (of several, the dictionary keeps the last) *)
Definition declares (sc : scope) (name : string) (td : typedef) : Prop :=
  exists l1 l2, sc_typedefs sc = l1 ++ td :: l2 /\ td_name td = name /\ Forall (fun x => td_name x <> name) l2.

Definition declares_none (sc : scope) (name : string) : Prop :=
  Forall (fun x => td_name x <> name) (sc_typedefs sc).

Inductive in_whole (S : schema) (root : nat) : nat -> Prop :=
| W_self : in_whole S root root
| W_owner : forall o, In o (owner S root) -> in_whole S root o
| W_incl : forall a b, in_whole S root a -> In b (includes S a) -> in_whole S root b.

Inductive binds_local (S : schema) (st : site) (name : string) : tdkey -> typedef -> Prop :=
| BL_scope : forall M p sc td,
    nth_error S (fst st) = Some M ->
    is_prefix p (snd st) -> scope_at (m_top M) p = Some sc -> declares sc name td ->
    (forall q sc', is_prefix p q -> is_prefix q (snd st) -> q <> p ->
                   scope_at (m_top M) q = Some sc' -> declares_none sc' name) ->
    binds_local S st name (fst st, p, name) td
| BL_module : forall M m' M' td,
    nth_error S (fst st) = Some M ->
    (forall q sc', is_prefix q (snd st) -> scope_at (m_top M) q = Some sc' -> declares_none sc' name) ->
    in_whole S (fst st) m' -> nth_error S m' = Some M' -> declares (m_top M') name td ->
    binds_local S st name (m', [], name) td.

(* the module imported by module m under prefix pfx *)
Definition imported (S : schema) (m : nat) (pfx : string) (root : nat) : Prop :=
  exists M imp, nth_error S m = Some M /\ assoc_first pfx (m_imports M) = Some imp /\ FindModule S false imp = Some root.

Inductive binds (S : schema) (st : site) (tname : string) : tdkey -> typedef -> Prop :=
| B_local : forall pfx name key td,
    base_kind tname = None -> getPrefix tname = (pfx, name) ->
    pfx = "" \/ pfx = prefix_of S (fst st) ->
    binds_local S st name key td ->
    binds S st tname key td
| B_foreign : forall pfx name root m' M' td,
    base_kind tname = None -> getPrefix tname = (pfx, name) ->
    pfx <> "" -> pfx <> prefix_of S (fst st) ->
    imported S (fst st) pfx root ->
    in_whole S root m' -> nth_error S m' = Some M' -> declares (m_top M') name td ->
    binds S st tname (m', [], name) td.

(* no two members of one whole module declare the same top-level name (RFC 7950 6.2.1); under it binds is a
   function (TypesProofs.binds_functional) *)
Definition unique_top (S : schema) : Prop :=
  forall root a b Ma Mb name tda tdb,
    in_whole S root a -> in_whole S root b ->
    nth_error S a = Some Ma -> nth_error S b = Some Mb ->
    declares (m_top Ma) name tda -> declares (m_top Mb) name tdb -> a = b.

(* ------------------------------------------------------------------ chains *)

Inductive chain (S : schema) : site -> tref -> list (tdkey * typedef) -> kind -> Prop :=
| ChBase : forall st t k, base_kind (t_name t) = Some k -> chain S st t [] k
| ChStep : forall st t key td rest k,
    binds S st (t_name t) key td ->
    chain S (site_of key) (td_type td) rest k ->
    chain S st t ((key, td) :: rest) k.

(* the type statements of a chain with the scopes they sit in, nearest first *)
Definition links (st : site) (t : tref) (tds : list (tdkey * typedef)) : list (site * tref) :=
  (st, t) :: map (fun kt => (site_of (fst kt), td_type (snd kt))) tds.

(* ------------------------------------------------------------------ the denoted type *)

Fixpoint first_some {A} (l : list (option A)) : option A :=
  match l with [] => None | Some x :: _ => Some x | None :: r => first_some r end.

Fixpoint first_nonempty {A} (l : list (list A)) : option (list A) :=
  match l with [] => None | [] :: r => first_nonempty r | x :: _ => Some x end.

Definition or_empty (o : option string) : string := match o with Some s => s | None => "" end.
Definition or_zero (o : option N) : N := match o with Some n => n | None => 0%N end.
Definition is_some {A} (o : option A) : bool := match o with Some _ => true | None => false end.

(* keep the first of every class of elements related by eqb, given the elements already seen *)
Fixpoint dedup_from {A} (eqb : A -> A -> bool) (seen : list A) (l : list A) : list A :=
  match l with
  | [] => []
  | x :: r => if existsb (eqb x) seen then dedup_from eqb seen r
              else x :: dedup_from eqb (seen ++ [x]) r
  end.
Definition dedup {A} (eqb : A -> A -> bool) (l : list A) : list A := dedup_from eqb [] l.

Definition chain_type (k : kind) (t : tref) (tds : list typedef) (mss : list (list yangtype)) : yangtype :=
  let refs := t :: map td_type tds in
  YT (match tds with [] => kind_name k | td :: _ => td_name td end)
     k
     (or_empty (first_some (map td_units tds)))
     (or_empty (first_some (map td_default tds)))
     (is_some (first_some (map td_default tds)))
     (or_zero (first_some (map t_fd refs)))
     (first_some (map t_range refs))
     (first_some (map t_length refs))
     (dedup String.eqb (concat (rev (map t_patterns refs))))
     (first_nonempty (map t_enums refs))
     (first_nonempty (map t_bits refs))
     (or_empty (first_some (map t_path refs)))
     (if kind_eqb k Yidentityref then t_idbase (last refs t) else None)
     (dedup yt_equal (concat (rev mss))).

(* what every type statement of a chain has to satisfy locally (Type.resolve reports an error otherwise):
   fraction-digits exactly at the built-in decimal64 reference and within 1..18, an identityref base at the built-in
   identityref reference, no repeated enum / bit names *)
Definition link_ok (k : kind) (is_base : bool) (t : tref) : Prop :=
  (if is_base && kind_eqb k Ydecimal64
   then exists i, t_fd t = Some i /\ (1 <= i <= 18)%N
   else t_fd t = None) /\
  (is_base = true -> k = Yidentityref -> t_idbase t <> None) /\
  nodup_names (t_enums t) = true /\ nodup_names (t_bits t) = true.

(* the type statements of a chain, nearest first: the last one names the built-in type *)
Fixpoint links_ok (k : kind) (l : list tref) : Prop :=
  match l with
  | [] => True
  | [t] => link_ok k true t
  | t :: r => link_ok k false t /\ links_ok k r
  end.

(* ------------------------------------------------------------------ the path the resolver follows
   One step is the model's lookup (tied to binds by lookup_sound / lookup_none / lookup_exact); lchain is chain
   read along these steps, reaches/cyclic say that following them from a reference meets a typedef, resp. that a
   typedef is based on itself, directly or through other typedefs. *)
Inductive lchain (S : schema) : site -> tref -> list (tdkey * typedef) -> kind -> Prop :=
| LChBase : forall st t k, lookup_type S st (t_name t) = LBuiltin k -> lchain S st t [] k
| LChStep : forall st t key td rest k,
    lookup_type S st (t_name t) = LFound key td ->
    lchain S (site_of key) (td_type td) rest k ->
    lchain S st t ((key, td) :: rest) k.

Inductive reaches (S : schema) : site -> tref -> tdkey -> typedef -> Prop :=
| R_one : forall st t key td, lookup_type S st (t_name t) = LFound key td -> reaches S st t key td
| R_more : forall st t k1 td1 key td,
    lookup_type S st (t_name t) = LFound k1 td1 ->
    reaches S (site_of k1) (td_type td1) key td -> reaches S st t key td.

Definition cyclic (S : schema) (key : tdkey) (td : typedef) : Prop := reaches S (site_of key) (td_type td) key td.

(* the same with the declarative binding *)
Inductive breaches (S : schema) : site -> tref -> tdkey -> typedef -> Prop :=
| BR_one : forall st t key td, binds S st (t_name t) key td -> breaches S st t key td
| BR_more : forall st t k1 td1 key td,
    binds S st (t_name t) k1 td1 ->
    breaches S (site_of k1) (td_type td1) key td -> breaches S st t key td.

(* every member type of every link of a chain has the type P assigns *)
Definition members_ok (P : site -> tref -> yangtype -> Prop) (lks : list (site * tref)) (mss : list (list yangtype))
  : Prop :=
  Forall2 (fun l ms => Forall2 (fun u yu => P (fst l) u yu) (t_members (snd l)) ms) lks mss.

(* ------------------------------------------------------------------ resolvable references
   A reference denotes a type of base kind k when its name is built in, or is bound to a typedef whose own type
   statement (in the typedef's scope) is resolvable, when its type statement passes the local checks, and when
   every union member type it lists is resolvable in the same scope.  Derivations are finite, so a typedef that is
   based on itself -- directly, through other typedefs or through union members -- is not resolvable. *)
Inductive resolvable (S : schema) : site -> tref -> kind -> Prop :=
| RS_base : forall st t k,
    lookup_type S st (t_name t) = LBuiltin k -> link_ok k true t ->
    (forall u, In u (t_members t) -> exists k', resolvable S st u k') ->
    resolvable S st t k
| RS_step : forall st t key td k,
    lookup_type S st (t_name t) = LFound key td ->
    resolvable S (site_of key) (td_type td) k -> link_ok k false t ->
    (forall u, In u (t_members t) -> exists k', resolvable S st u k') ->
    resolvable S st t k.
