(* Reference semantics for C15: numbers as exact rationals, literals as digit structures. *)
From Coq Require Import List NArith ZArith QArith Bool.
Import ListNotations.
From GY Require Import Base.Outcome Model.Number.
Local Open Scope Z_scope.

(* the stated domain: 64-bit magnitude, 0..18 fraction digits *)
Definition dom (n : Number) : Prop :=
  0 <= Value n < two64 /\ 0 <= FractionDigits n <= 18.

(* decimal64 values: signed 64-bit mantissa, 1..18 fraction digits *)
Definition dom_dec (n : Number) : Prop :=
  1 <= FractionDigits n <= 18 /\
  0 <= Value n /\ (if Negative n then Value n <= two63 else Value n < two63).

Definition sval (n : Number) : Z := if Negative n then - Value n else Value n.

(* the rational a Number denotes *)
Definition val (n : Number) : Q := Qmake (sval n) (Z.to_pos (10 ^ FractionDigits n)).

(* ---- literals  [sign] digits [. digits] ---- *)
Record lit := { l_sign : option bool;        (* None, Some true = '-', Some false = '+' *)
                l_int : list Z;              (* digits of the integer part *)
                l_frac : option (list Z) }.  (* digits after the point, if there is one *)

Definition is_dig (d : Z) : Prop := 0 <= d <= 9.
Definition sign_chars (s : option bool) : str :=
  match s with None => [] | Some true => [cminus] | Some false => [cplus] end.
Definition dchars (ds : list Z) : str := map digit_char ds.
Definition render (l : lit) : str :=
  sign_chars (l_sign l) ++ dchars (l_int l) ++
  match l_frac l with None => [] | Some f => cdot :: dchars f end.

Definition dval (ds : list Z) : Z := fold_left (fun a d => a * 10 + d) ds 0.

Definition no_leading_zero (ds : list Z) : Prop :=
  match ds with [] => False | [_] => True | d :: _ => d <> 0 end.

Definition lit_ok (l : lit) : Prop :=
  Forall is_dig (l_int l) /\ no_leading_zero (l_int l) /\
  match l_frac l with None => True | Some f => Forall is_dig f /\ f <> [] end.

Definition lit_neg (l : lit) : bool := match l_sign l with Some true => true | _ => false end.
Definition frac_digits (l : lit) : list Z := match l_frac l with None => [] | Some f => f end.

(* the rational a literal denotes *)
Definition lit_val (l : lit) : Q :=
  let m := dval (l_int l ++ frac_digits l) in
  Qmake (if lit_neg l then - m else m) (Z.to_pos (10 ^ Z.of_nat (length (frac_digits l)))).

(* its mantissa at precision fd (defined when it has at most fd fraction digits) *)
Definition lit_mant (l : lit) (fd : Z) : Z :=
  dval (l_int l ++ frac_digits l) * 10 ^ (fd - Z.of_nat (length (frac_digits l))).
