(* C05 — Same sources and options give the same result, whatever the load order.
   Reference notions the theorems of Properties/C05.v are stated with (definitions only).

   1. sort.Sort is ANY permutation of the input in which no later element is Less than an earlier one;
      errorSort is that followed by the removal of repeated neighbours.
   2. "Strict weak order" / "total" on a class; the theorems take the class of ALL texts.
      [positioned] = file:line:col:text with line and col canonical decimal numerals within int range (what %d
      prints) and a text Atoi rejects: every error goyang reports for a statement of a named file.  ([uniform k] is
      the auxiliary notion positioned is defined with.)
   3. The key (file, line, col, text) a positioned error is ordered by, numbers compared as numbers.
   4. Order-independence of folds: the equivalences used for `range` over a Go map in the resolver model.
   5. Modules asked for by NAME and found through the search path (Model/File.v): which file a name denotes. *)
From Coq Require Import List NArith ZArith Bool Permutation Sorted.
From GY Require Import Model.ErrorSort.
From GY Require Model.Schema.
From GY Require Base.Outcome Model.Registry Model.File.
Import ListNotations.
Local Open Scope N_scope.

(* ------------------------------------------------------------------ sort.Sort, errorSort *)
Definition sorted_wrt {A} (lt : A -> A -> bool) (l : list A) : Prop :=
  StronglySorted (fun a b => lt b a = false) l.

Definition is_sort_of {A} (lt : A -> A -> bool) (l p : list A) : Prop :=
  Permutation l p /\ sorted_wrt lt p.

(* every result errorSort can return when sort.Sort is any correct sort *)
Definition errorSort_any (l out : list bstr) : Prop :=
  exists p, is_sort_of Less l p /\ out = dedup p.
(* the same before the repair of Less (for the _refuted theorems) *)
Definition errorSort_any_old (l out : list bstr) : Prop :=
  exists p, is_sort_of Less_old l p /\ out = dedup p.

(* ------------------------------------------------------------------ orders on a class *)
Record strict_weak_order_on {A} (P : A -> Prop) (lt : A -> A -> bool) : Prop := {
  swo_irrefl : forall a, P a -> lt a a = false;
  swo_trans : forall a b c, P a -> P b -> P c -> lt a b = true -> lt b c = true -> lt a c = true;
  swo_incomp_trans : forall a b c, P a -> P b -> P c ->
      lt a b = false -> lt b a = false -> lt b c = false -> lt c b = false ->
      lt a c = false /\ lt c a = false }.

(* elements Less cannot tell apart are the same text *)
Definition total_on {A} (P : A -> Prop) (lt : A -> A -> bool) : Prop :=
  forall a b, P a -> P b -> lt a b = false -> lt b a = false -> a = b.

(* ------------------------------------------------------------------ classes of error texts *)
(* what fmt's %d prints for a non-negative int: digits, no sign, no superfluous leading zero, in range *)
Definition canon_numb (f : bstr) : bool :=
  forallb is_digit f
  && match f with [] => false | [_] => true | c :: _ => negb (c =? 48) end
  && match digits_val 0 f with Some v => (v <=? maxInt)%Z | None => false end.

Definition field_okb (numeric : bool) (f : bstr) : bool :=
  if numeric then canon_numb f else match atoi f with None => true | Some _ => false end.

(* k: per position 1, 2, 3 whether the field is numeric; a field beyond k is not allowed *)
Fixpoint fields_okb (k : list bool) (fs : list bstr) : bool :=
  match fs with
  | [] => true
  | f :: fs' => match k with
                | [] => false
                | b :: k' => field_okb b f && fields_okb k' fs'
                end
  end.

Definition uniformb (k : list bool) (s : bstr) : bool := fields_okb k (tl (splitN errorSplitCount s)).
Definition uniform (k : list bool) (s : bstr) : Prop := uniformb k s = true.

Definition k_positioned : list bool := [true; true; false].
Definition positionedb (s : bstr) : bool :=
  uniformb k_positioned s && Nat.eqb (length (splitN errorSplitCount s)) 4.
Definition positioned (s : bstr) : Prop := positionedb s = true.

(* ------------------------------------------------------------------ the key of a positioned error *)
Record poskey := { k_file : bstr; k_line : Z; k_col : Z; k_text : bstr }.

Definition pos_key (s : bstr) : option poskey :=
  match splitN errorSplitCount s with
  | [f; l; c; t] => match atoi l, atoi c with
                    | Some x, Some y => Some {| k_file := f; k_line := x; k_col := y; k_text := t |}
                    | _, _ => None
                    end
  | _ => None
  end.

Definition key_lt (a b : poskey) : Prop :=
  str_cmp (k_file a) (k_file b) = Lt \/
  (k_file a = k_file b /\
   ((k_line a < k_line b)%Z \/
    (k_line a = k_line b /\
     ((k_col a < k_col b)%Z \/
      (k_col a = k_col b /\ str_cmp (k_text a) (k_text b) = Lt))))).

(* (file, line, col) only: what the property text names *)
Definition key_le3 (a b : poskey) : Prop :=
  str_cmp (k_file a) (k_file b) = Lt \/
  (k_file a = k_file b /\
   ((k_line a < k_line b)%Z \/ (k_line a = k_line b /\ (k_col a <= k_col b)%Z))).

Definition pos_lt (a b : bstr) : Prop :=
  match pos_key a, pos_key b with Some ka, Some kb => key_lt ka kb | _, _ => False end.
Definition pos_le3 (a b : bstr) : Prop :=
  match pos_key a, pos_key b with Some ka, Some kb => key_le3 ka kb | _, _ => False end.

(* same set of error texts *)
Definition same_set (l l' : list bstr) : Prop := forall x, In x l <-> In x l'.

(* ------------------------------------------------------------------ folds over Go maps *)
(* two elements of the list commute under the step function, up to R *)
Definition commute_on {A B} (R : A -> A -> Prop) (f : A -> B -> A) (l : list B) : Prop :=
  forall b c, In b l -> In c l -> b = c \/ forall a, R (f (f a b) c) (f (f a c) b).

(* a Dir (a Go map) built in two iteration orders: same bindings, same error flag *)
Definition dir_equiv (a b : list (Schema.str * Schema.entry) * bool) : Prop :=
  Permutation (fst a) (fst b) /\ snd a = snd b.

Definition lookup_equiv {A} (F F' : list (Schema.str * A)) : Prop :=
  forall k, Schema.lookup k F = Schema.lookup k F'.

Definition distinct_names (SC : Schema.schema) : Prop := NoDup (map Schema.m_name SC).

(* the forest and the pending-augment table Process starts from (its F0 and P0, verbatim) *)
Definition F0_of (SC : Schema.schema) (ic : bool) : Schema.forest :=
  map (fun x => (Schema.m_name (fst x), fst (snd x)))
      (filter (fun x => negb (Schema.is_sub (fst x))) (map (fun m => (m, Schema.module_entry SC ic m)) SC)).
Definition P0_of (SC : Schema.schema) : Schema.pendings :=
  map (fun m => (Schema.m_name m, Schema.module_augs SC m)) SC.

(* ------------------------------------------------------------------ modules found through the search path *)
(* ms.Path as the harness sets it up: directories below one root, given by their components; (dir, true) is the
   entry "dir/..." (the whole tree below dir is walked) *)
Definition spath := list (list Registry.str * bool).

(* Modules.findFile(name) for a name without '/', in a process whose current directory holds no file at all.  The
   search path is read, never written: findFile calls addDir only for a file it can open as named, i.e. in the
   current directory (location 0 of File.found). *)
Definition lookup_fs (root : File.entry) (path : spath) (name : Registry.str) : Outcome.outcome File.found :=
  File.findFile (File.Dir [] [])
                (map (fun pd => (File.resolve (File.readDirAll root) (fst pd), snd pd)) path) name.

(* a sequence of requests (Read by name, or the on-demand Read of an import/include) and their answers *)
Definition lookups (root : File.entry) (path : spath) (names : list Registry.str)
  : list (Registry.str * Outcome.outcome File.found) :=
  map (fun n => (n, lookup_fs root path n)) names.
