(* Reference semantics for C16: the true position of an offset in a text.
   Lines and columns are 1-based, columns counted in runes. *)
From Coq Require Import List NArith ZArith Bool.
Import ListNotations.
From GY Require Import Model.Lex Model.Parse.
Local Open Scope Z_scope.

Fixpoint count_lf (s : str) : Z :=
  match s with [] => 0 | c :: r => (if (c =? cLF)%N then 1 else 0) + count_lf r end.

(* the runes after the last line break of a reversed prefix (still reversed) *)
Fixpoint cur_line_rev (b : str) : str :=
  match b with [] => [] | c :: r => if (c =? cLF)%N then [] else c :: cur_line_rev r end.

(* position of the rune at index [off]: (1 + line breaks before it, 1 + runes since the last one) *)
Definition linecol (text : str) (off : nat) : Z * Z :=
  let pre := rev (firstn off text) in
  (1 + count_lf pre, 1 + Z.of_nat (length (cur_line_rev pre))).

(* tab-expanded width of a (reversed) line prefix, tabs to multiples of 8 *)
Fixpoint tabw_rev (b : str) : Z :=
  match b with
  | [] => 0
  | c :: r => if (c =? cTAB)%N then tab_stop (tabw_rev r) else tabw_rev r + 1
  end.

(* what Parse lexes: the input forced to end in a line break *)
Definition terminated (input : str) : str :=
  match rev input with
  | [] => input
  | c :: _ => if (c =? cLF)%N then input else input ++ [cLF]
  end.

(* the runes of [text] from index [off] on start with [s] *)
Definition text_at (text : str) (off : nat) (s : str) : Prop := firstn (length s) (skipn off text) = s.

(* a token carries the true position of its ghost offset; for unquoted and punctuation tokens the
   ghost offset really is where the token's text stands in the input (and that text is not empty) *)
Definition tok_ok (text : str) (t : token) : Prop :=
  (t_line t, t_col t) = linecol text (t_off t) /\
  match t_code t with
  | TUnquoted | TChar _ => text_at text (t_off t) (t_text t) /\ t_text t <> []
  | _ => True
  end.

(* an error about a particular place of the text (every kind but "too many errors", "unexpected EOF",
   "missing N closing braces") prints a position, and it is the true position of that place *)
Definition err_ok (text : str) (e : perr) : Prop :=
  match e_kind e with
  | ETooMany | EUnexpectedEOF | EMissingBraces => True
  | _ => exists off, e_subject e = Some off /\ e_pos e = Some (linecol text off)
  end.

(* a statement (other than the parser's error-recovery placeholder, keyword "") reports the true
   position of the first rune of its keyword, and the keyword is what stands there *)
Fixpoint stmt_ok (text : str) (s : stmt) : Prop :=
  match s with
  | Stmt kw _ _ ln cl off subs =>
      (kw <> [] -> (ln, cl) = linecol text off /\ text_at text off kw) /\
      (fix all (l : list stmt) : Prop := match l with [] => True | x :: r => stmt_ok text x /\ all r end) subs
  end.

(* no statement of the forest is the placeholder *)
Fixpoint stmt_real (s : stmt) : Prop :=
  match s with
  | Stmt kw _ _ _ _ _ subs =>
      kw <> [] /\
      (fix all (l : list stmt) : Prop := match l with [] => True | x :: r => stmt_real x /\ all r end) subs
  end.
