(* C19 — from the generated access table (Gen/Locks.v) to thread programs.  Definitions only: this file must
   compile whatever the table contains; the obligations about the table are in Proofs/C19Proofs.v.

   Scenario (i)  readers: one processed module set, every read-API path of the property runs in two threads
                 at once (so each path also meets itself, e.g. two first-time namespace lookups).
   Scenario (ii) pipelines: two threads load and process their own module sets.  All locations except
                 package-level variables are per instance; each thread may run ANY function of the package that
                 is reachable from an exported function (not only reachable from init).
   Scenario (iii) guarded maps: every access, anywhere in the package, to the three fully guarded maps
                 (namespace cache, entry cache, typedef dictionary), each as a thread of its own.

   The claim is path sensitive, the table is not.  Two devices bridge that, both visible here:
   - cuts: of ToEntry only the part before the miss path starts (first call of startEntry / setEntryCache) is in
     the claim ("entry lookup from the cache" = cache hit); of Modules.FindModule only the part before the call of
     Read (in a processed set every import is loaded, the lookup in ms.Modules succeeds).  If such a call
     disappears the whole body counts, and [roots_ok] fails.
   - the write allow-list: the set of ALL writes in the functions reachable on the read paths must be exactly
     [write_allow]; entries tagged OutOfClaim are left out of the reader programs with the reason next to them.

   Assumption recorded for the mutex names: within one module set there is one SHARED Modules, typeDictionary and
   identityDictionary object (created by NewModules), so "Type.field" names one mutex / one location per set.
   Modules.Parse additionally creates a private typeDictionary per statement; see [guarded_exempt]. *)
From Coq Require Import String List Bool Arith.
Import ListNotations.
From GY Require Import Model.Conc.
Local Open Scope string_scope.

Definition lookup (tb : list func) (n : string) : option func :=
  find (fun f => String.eqb (f_name f) n) tb.

Fixpoint held_eqb (a b : held) : bool :=
  match a, b with
  | [], [] => true
  | x :: a', y :: b' => hold_eqb x y && held_eqb a' b'
  | _, _ => false
  end.

Definition rw_eqb (a b : rw) : bool := match a, b with R, R | W, W => true | _, _ => false end.

(* ------------------------------------------------------------------ path-sensitive cuts *)
(* (function, callees): only the part of the function's body before its first call of one of the callees *)
Definition cuts : list (string * list string) :=
  [ (* the cache-hit prefix: everything up to the point where the miss path starts (startEntry since the
       self-reference fix, setEntryCache before it); the hit branch `if e := getEntryCache(n); e != nil` is inside *)
    ("ToEntry", ["Modules.startEntry"; "Modules.setEntryCache"]);
    (* module already loaded *)
    ("Modules.FindModule", ["Modules.Read"]) ].

Fixpoint take_before (stops : list string) (b : list item) : list item :=
  match b with
  | [] => []
  | ICall c h :: r => if existsb (String.eqb c) stops then [] else ICall c h :: take_before stops r
  | i :: r => i :: take_before stops r
  end.

Definition cut_body (cs : list (string * list string)) (fn : string) (b : list item) : list item :=
  match find (fun c => String.eqb (fst c) fn) cs with
  | Some c => take_before (snd c) b
  | None => b
  end.

(* ------------------------------------------------------------------ footprint of a set of roots *)
(* an access with the function it stands in; held = locks of the callers (inherited) ++ own *)
Definition facc := (string * loc * rw * held)%type.

Definition seen_mem (k : string * held) (s : list (string * held)) : bool :=
  existsb (fun x => String.eqb (fst x) (fst k) && held_eqb (snd x) (snd k)) s.

Fixpoint body_accs (fn : string) (inh : held) (b : list item) : list facc :=
  match b with
  | [] => []
  | IAcc l k h :: r => (fn, l, k, (inh ++ h)%list) :: body_accs fn inh r
  | ICall _ _ :: r => body_accs fn inh r
  end.
Fixpoint body_calls (inh : held) (b : list item) : list (string * held) :=
  match b with
  | [] => []
  | ICall c h :: r => (c, (inh ++ h)%list) :: body_calls inh r
  | IAcc _ _ _ :: r => body_calls inh r
  end.

(* worklist reachability; None = a callee is missing from the table or the fuel ran out (fail closed) *)
Fixpoint expand (fuel : nat) (tb : list func) (cs : list (string * list string))
         (work seen : list (string * held)) : option (list facc) :=
  match fuel with
  | 0 => None
  | S fuel' =>
    match work with
    | [] => Some []
    | (fn, inh) :: w =>
      if seen_mem (fn, inh) seen then expand fuel' tb cs w seen
      else match lookup tb fn with
           | None => None
           | Some f =>
             let b := cut_body cs fn (f_body f) in
             match expand fuel' tb cs (body_calls inh b ++ w)%list ((fn, inh) :: seen) with
             | None => None
             | Some r => Some (body_accs fn inh b ++ r)%list
             end
           end
    end
  end.

Definition fuel_for (tb : list func) : nat := 40 * List.length tb + 1000.

Definition footprint (tb : list func) (roots : list string) : option (list facc) :=
  expand (fuel_for tb) tb cuts (map (fun r => (r, [])) roots) [].

(* ------------------------------------------------------------------ programs from accesses *)
Definition acq_of (h : hold) : ev := match snd h with MX => Acq (fst h) | MR => RAcq (fst h) end.
Definition rel_of (h : hold) : ev := match snd h with MX => Rel (fst h) | MR => RRel (fst h) end.

(* one lock region per access (finer than the code, which keeps a lock over several accesses: more
   interleavings, so race freedom of these programs is the stronger statement) *)
Definition prog_of_acc (l : loc) (k : rw) (h : held) : prog :=
  (map acq_of h ++ [match k with R => Rd l | W => Wr l end] ++ map rel_of (rev h))%list.

Definition prog_of_faccs (pre : string) (a : list facc) : prog :=
  flat_map (fun x => match x with (_, l, k, h) =>
     prog_of_acc (pre ++ l) k (map (fun y => (pre ++ fst y, snd y)) h) end) a.

(* ------------------------------------------------------------------ scenario (i): readers *)
Definition read_paths : list (string * list string) :=
  [ ("ToEntry (cache hit)",            ["ToEntry"]);
    ("Entry.Find (existing nodes)",    ["Entry.Find"]);
    ("Entry.Namespace",                ["Entry.Namespace"]);
    ("Entry.InstantiatingModule",      ["Entry.InstantiatingModule"]);
    ("Modules.FindModuleByNamespace",  ["Modules.FindModuleByNamespace"]);
    ("Entry.ReadOnly",                 ["Entry.ReadOnly"]);
    ("Entry.DefaultValues",            ["Entry.DefaultValues"; "Entry.SingleDefaultValue"]);
    ("Entry.GetErrors",                ["Entry.GetErrors"]);
    ("Entry.Print",                    ["Entry.Print"]) ].

Inductive why := Locked | OutOfClaim.

(* every write site that may exist in a function reachable on a read path: (function, location, held, why).
   The translator also records, as a write of "escape:T.f", every return statement that hands the slice or map
   stored in field T.f to the caller instead of a copy: a reader that sorts or overwrites its own result would
   write the shared processed set.  No read accessor may do that, so no such entry is allowed here. *)
Definition write_allow : list (string * loc * held * why) :=
  [ (* memo of the namespace lookup, stored under nsMu *)
    ("Modules.FindModuleByNamespace", "Modules.byNS", [("Modules.nsMu", MX)], Locked);
    (* Find on ".../input" or ".../output" of an rpc that has no such statement creates the node lazily:
       the path does not name an existing node -- outside "path lookup of existing nodes" *)
    ("Entry.Find", "RPCEntry.Input", [], OutOfClaim);
    ("Entry.Find", "RPCEntry.Output", [], OutOfClaim);
    (* addError is reached only from Find when the prefix of an absolute path is unknown: not an existing node *)
    ("Entry.addError", "Entry.Errors", [], OutOfClaim) ].

Definition allow_eqb (a : string * loc * held * why) (x : facc) : bool :=
  match a, x with (fn, l, h, _), (fn', l', k, h') =>
    String.eqb fn fn' && String.eqb l l' && held_eqb h h' && rw_eqb k W end.

Definition is_write_facc (x : facc) : bool := match x with (_, _, k, _) => rw_eqb k W end.

Definition out_of_claim (x : facc) : bool :=
  existsb (fun a => match a with (_, _, _, OutOfClaim) => allow_eqb a x | _ => false end) write_allow.

Definition path_footprints (tb : list func) : list (option (list facc)) :=
  map (fun p => footprint tb (snd p)) read_paths.

Definition all_some {A} (l : list (option A)) : bool :=
  forallb (fun o => match o with Some _ => true | None => false end) l.
Definition somes {A} (l : list (option (list A))) : list (list A) :=
  map (fun o => match o with Some x => x | None => [] end) l.

(* the write sites found on the read paths *)
Definition reader_writes (tb : list func) : list facc :=
  filter is_write_facc (concat (somes (path_footprints tb))).

(* allow-list obligation: found = allowed, as sets; "Locked" entries really hold a mutex exclusively *)
Definition allow_ok (tb : list func) : bool :=
  all_some (path_footprints tb) &&
  forallb (fun x => existsb (fun a => allow_eqb a x) write_allow) (reader_writes tb) &&
  forallb (fun a => existsb (allow_eqb a) (reader_writes tb)) write_allow &&
  forallb (fun a => match a with (_, _, h, Locked) => existsb (fun y => is_mx (snd y)) h | _ => true end) write_allow.

(* the roots exist (a renamed API function must not silently empty a program) *)
Definition roots_ok (tb : list func) : bool :=
  forallb (fun p => forallb (fun r => match lookup tb r with Some _ => true | None => false end) (snd p)) read_paths &&
  forallb (fun c => match lookup tb (fst c) with
                    | Some f => existsb (fun i => match i with ICall g _ => existsb (String.eqb g) (snd c) | _ => false end) (f_body f)
                    | None => false end) cuts.

Definition reader_programs (tb : list func) : list prog :=
  let ps := map (fun fp => prog_of_faccs "" (filter (fun x => negb (out_of_claim x)) fp))
                (somes (path_footprints tb)) in
  (ps ++ ps)%list.

(* ------------------------------------------------------------------ scenario (ii): pipelines *)
Definition is_pkg_loc (l : loc) : bool := String.prefix "pkg." l.

Definition flat_accs (tb : list func) : list facc :=
  flat_map (fun f => if f_init_only f then [] else body_accs (f_name f) [] (f_body f)) tb.

(* instance locations and mutexes get the thread's prefix, package-level variables stay shared *)
Definition pipeline_prog (pre : string) (tb : list func) : prog :=
  flat_map (fun x => match x with (_, l, k, h) =>
     prog_of_acc (if is_pkg_loc l then l else pre ++ l) k (map (fun y => (pre ++ fst y, snd y)) h) end)
   (flat_accs tb).

Definition pipeline_programs (tb : list func) : list prog :=
  [pipeline_prog "1:" tb; pipeline_prog "2:" tb].

(* package-level variables written outside init (must be none) *)
Definition pkg_writes_outside_init (tb : list func) : list facc :=
  filter (fun x => match x with (_, l, k, _) => is_pkg_loc l && rw_eqb k W end) (flat_accs tb).

(* package-level OBJECTS handed out by pointer.  The translator records `return v` / `return &v` for a
   package-level v of pointer type as a write of "handout:pkg.v": the process-wide object ends up in the data of
   a module set, and a write through that data (x.F.G = ..) would be seen by every other set of the process.
   Allowed are exactly the identity sentinels below: they are compared by pointer and never written (a write to
   them through a per-set structure is not visible to the translator; the stress harness compares full dumps of
   independent sets with fresh-process baselines for that). *)
Definition handout_allow : list (string * loc) :=
  [ ("findNode", "handout:pkg.isRPCNode");              (* marker "path points into an rpc", holds one fixed error; the body of
                                                          FindNode since the repair of D81 (64dc302) *)
    ("parser.nextStatement", "handout:pkg.ignoreMe") ]. (* parser's error-recovery token, dropped by the caller *)

(* The same obligation covers ADOPTED ARGUMENTS: "adopt:T.f" records that a function stores a slice or map
   parameter into field T.f without copying it (e.g. a setter that takes over the caller's list): two module
   sets configured from one list would then share a backing array.  No such entry is allowed. *)
Definition is_handout (x : facc) : bool :=
  match x with (_, l, _, _) => String.prefix "handout:" l || String.prefix "adopt:" l end.

Definition all_accs_of (tb : list func) : list facc :=
  flat_map (fun f => body_accs (f_name f) [] (f_body f)) tb.

Definition handouts (tb : list func) : list facc := filter is_handout (all_accs_of tb).

Definition handout_ok (tb : list func) : bool :=
  forallb (fun x => match x with (fn, l, _, _) =>
     existsb (fun a => String.eqb (fst a) fn && String.eqb (snd a) l) handout_allow end) (handouts tb) &&
  forallb (fun a => existsb (fun x => match x with (fn, l, _, _) =>
     String.eqb (fst a) fn && String.eqb (snd a) l end) (handouts tb)) handout_allow.

(* ------------------------------------------------------------------ scenario (iii): guarded maps *)
Definition guarded_locs : list loc := ["Modules.byNS"; "Modules.entryCache"; "typeDictionary.dict"].

Definition all_accs (tb : list func) : list facc :=
  flat_map (fun f => body_accs (f_name f) [] (f_body f)) tb.

(* accesses to a guarded map that legitimately hold no mutex: (function, location, R/W).
   typeDictionary.merge(o) ranges over o.dict, where o is the dictionary that Modules.Parse creates for ONE
   statement (newTypeDictionary()), fills through buildASTWithTypeDict and merges into ms.typeDict before it
   returns: o is never stored anywhere, no other goroutine can reach it.  (The writes of merge go through
   d.add and hold d.mu.)  The table names locations Type.field, so it cannot tell o from d: exempted here. *)
Definition guarded_exempt : list (string * loc * rw) :=
  [ ("typeDictionary.merge", "typeDictionary.dict", R) ].

Definition is_exempt (x : facc) : bool :=
  match x with (fn, l, k, h) =>
    match h with
    | [] => existsb (fun a => match a with (fn', l', k') => String.eqb fn fn' && String.eqb l l' && rw_eqb k k' end) guarded_exempt
    | _ => false
    end
  end.

Definition guarded_accs (tb : list func) : list facc :=
  filter (fun x => match x with (_, l, _, _) => existsb (String.eqb l) guarded_locs end) (all_accs tb).

Definition guarded_programs (tb : list func) : list prog :=
  map (fun x => prog_of_faccs "" [x]) (filter (fun x => negb (is_exempt x)) (guarded_accs tb)).

(* every exemption is used (a stale entry must be removed) *)
Definition exempt_ok (tb : list func) : bool :=
  forallb (fun a => existsb (fun x => is_exempt x && match a, x with (fn, l, k), (fn', l', k', _) =>
     String.eqb fn fn' && String.eqb l l' && rw_eqb k k' end) (guarded_accs tb)) guarded_exempt.

(* each guarded map is actually written and read somewhere (non-vacuity of (iii)) *)
Definition guarded_present (tb : list func) : bool :=
  forallb (fun g => existsb (fun x => match x with (_, l, k, _) => String.eqb l g && rw_eqb k W end) (all_accs tb) &&
                    existsb (fun x => match x with (_, l, k, _) => String.eqb l g && rw_eqb k R end) (all_accs tb))
          guarded_locs.

(* ------------------------------------------------------------------ the instance obligation *)
Definition programs_of (tb : list func) : list (list prog) :=
  [reader_programs tb; pipeline_programs tb; guarded_programs tb].

Definition table_ok (tb : list func) : bool :=
  roots_ok tb && allow_ok tb && guarded_present tb && exempt_ok tb && handout_ok tb &&
  match pkg_writes_outside_init tb with [] => true | _ => false end &&
  forallb lockset_ok (programs_of tb).
