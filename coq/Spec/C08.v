(* C08 — Deviations change exactly what they name, in written order, or are reported.

   Reference semantics of the deviate statements of RFC 7950 section 7.20.3, for the properties the claim
   lists (config, default, mandatory, min-elements, max-elements; for add and replace also units and
   type), written from the RFC and the property text, not from ApplyDeviate:

     a deviate statement NAMES a set of properties ([named_props]); it is applied by editing exactly
     those properties of the target, one after the other ([spec_edit]); every edit touches one field;
     the first edit that is not applicable makes the whole statement inapplicable ([None] = "must be
     reported as an error").

   What is applicable follows the property text where it is more lenient than the RFC (the RFC also
   forbids `add` of a property that exists and `replace` of one that does not; the text lists only
   "adding a default where one exists" as an add conflict, so only that one is demanded here):

     add      config, mandatory, units, type: the property gets the given value
              default: a leaf-list accumulates defaults; any other node must not have one yet
              min/max-elements: only lists and leaf-lists have element bounds
     replace  as add, the default replaces whatever defaults there are
     delete   config, mandatory: the property is removed (unset)
              default: must be present with the same value
              min/max-elements: only lists and leaf-lists; the statement must be present in the
              target (as written in the sources or put there by an earlier deviate) with the same
              value; the bound returns to its default (0 / unbounded)
              units, type: outside the claim ([in_scope])
     not-supported   the target is removed from its parent's children; a target that is not such a
              child (a module root, the input/output of an rpc) or that is already removed cannot be
              removed.  With the option IgnoreDeviateNotSupported the statement does nothing.
     any other argument, `max-elements 0`, a type that does not resolve: not a valid deviate statement.

   Whether a min/max-elements STATEMENT is present is part of the node's list attributes (two flags
   next to the two values: written in the sources, or put there by an earlier deviate).

   Statements of one deviation apply in written order ([spec_apply_all]); deviations of a module apply
   in written order to the forest ([spec_module]); "removed" and "attributes replaced" on forests are
   the two definitions [remove_target] and [replace_attrs].

   Where RFC and property text leave room:
     * deviates that follow a not-supported in the same deviation (the RFC grammar excludes the mix, the
       text is silent) keep being checked against the node that was removed, so that an inapplicable
       one is still reported; a second not-supported finds nothing to remove and must be reported;
     * `deviate delete { default v; }` on a leaf-list removes that value (RFC).  The library refuses
       this with an error instead, which "or are reported" permits: [refused] marks the case and the
       agreement theorem excludes it by hypothesis; *)
From Coq Require Import List NArith Bool.
From GY Require Import Model.Schema.
Import ListNotations.
Local Open Scope N_scope.

(* ------------------------------------------------------------------ the named properties *)
Inductive dkind := DKAdd | DKReplace | DKDelete | DKNotSupported.

Definition kind_of (s : str) : option dkind :=
  if str_eqb s s_add then Some DKAdd
  else if str_eqb s s_replace then Some DKReplace
  else if str_eqb s s_delete then Some DKDelete
  else if str_eqb s s_notsupported then Some DKNotSupported
  else None.

Inductive prop :=
| PConfig (v : tri) | PDefault (d : str) | PMandatory (v : tri)
| PMin (n : N) | PMax (n : N) | PUnits (u : str) | PType (t : str).

Definition named_props (dv : deviate) : list prop :=
  (match dv_cfg dv with TSUnset => [] | v => [PConfig v] end) ++
  (match dv_default dv with Some d => [PDefault d] | None => [] end) ++
  (match dv_mand dv with TSUnset => [] | v => [PMandatory v] end) ++
  (match dv_min dv with Some n => [PMin n] | None => [] end) ++
  (match dv_max dv with Some n => [PMax n] | None => [] end) ++
  (match dv_units dv with Some u => [PUnits u] | None => [] end) ++
  (match dv_type dv with Some t => [PType t] | None => [] end).

(* ------------------------------------------------------------------ the reference state of a target *)
Record tstate := { ts_node : entry;
                   ts_removed : bool }.    (* declared not-supported: no longer in its parent *)

Definition init_state (e : entry) : tstate := {| ts_node := e; ts_removed := false |}.

Definition with_node (st : tstate) (e : entry) : tstate := {| ts_node := e; ts_removed := ts_removed st |}.

(* lists and leaf-lists are the nodes that have element bounds *)
Definition bounded (e : entry) : bool := isList e || isLeafList e.
Definition min_of (e : entry) : N := match e_la e with Some (mn, _, _) => mn | None => 0 end.
Definition max_of (e : entry) : N := match e_la e with Some (_, mx, _) => mx | None => MaxUint64 end.
(* a min-elements / max-elements statement is present *)
Definition min_written (e : entry) : bool := match e_la e with Some (_, _, (h, _)) => h | None => false end.
Definition max_written (e : entry) : bool := match e_la e with Some (_, _, (_, h)) => h | None => false end.
(* the bound gets a value and the statement is there ([w] = true) or gone ([w] = false) *)
Definition with_min (e : entry) (n : N) (w : bool) : entry :=
  match e_la e with Some (_, mx, (_, hx)) => set_la e (Some (n, mx, (w, hx))) | None => e end.
Definition with_max (e : entry) (n : N) (w : bool) : entry :=
  match e_la e with Some (mn, _, (hm, _)) => set_la e (Some (mn, n, (hm, w))) | None => e end.

Fixpoint remove_value (d : str) (l : list str) : list str :=
  match l with
  | [] => []
  | x :: r => if str_eqb d x then r else x :: remove_value d r
  end.

Section Spec.
Variable resolvable : str -> bool.      (* the type names that resolve *)

(* one property edited by add (replace = false) or replace (replace = true) *)
Definition spec_set (replace : bool) (st : tstate) (p : prop) : option tstate :=
  let e := ts_node st in
  match p with
  | PConfig v => Some (with_node st (set_cfg e v))
  | PMandatory v => Some (with_node st (set_mand e v))
  | PDefault d =>
      if replace then Some (with_node st (set_dflt e [d]))
      else if isLeafList e then Some (with_node st (set_dflt e (e_dflt e ++ [d])))
      else match e_dflt e with
           | [] => Some (with_node st (set_dflt e [d]))
           | _ :: _ => None                                   (* adding a default where one exists *)
           end
  | PMin n =>
      if bounded e then Some (with_node st (with_min e n true))
      else None                                               (* element bound on a non-list *)
  | PMax n =>
      if bounded e then Some (with_node st (with_max e n true))
      else None
  | PUnits u => Some (with_node st (set_units e u))
  | PType t => Some (with_node st (set_ty e (Some t)))        (* resolvable: see props_valid *)
  end.

Definition spec_unset (st : tstate) (p : prop) : option tstate :=
  let e := ts_node st in
  match p with
  | PConfig _ => Some (with_node st (set_cfg e TSUnset))
  | PMandatory _ => Some (with_node st (set_mand e TSUnset))
  | PDefault d =>
      if isLeafList e
      then if existsb (str_eqb d) (e_dflt e)
           then Some (with_node st (set_dflt e (remove_value d (e_dflt e))))
           else None                                          (* not among the defaults *)
      else match e_dflt e with                                (* any other node has one default statement at most *)
           | x :: _ => if str_eqb d x then Some (with_node st (set_dflt e [])) else None   (* different *)
           | [] => None                                       (* absent *)
           end
  | PMin n =>
      if bounded e && min_written e && (min_of e =? n)
      then Some (with_node st (with_min e 0 false))
      else None                                               (* absent or different *)
  | PMax n =>
      if bounded e && max_written e && (max_of e =? n)
      then Some (with_node st (with_max e MaxUint64 false))
      else None
  | PUnits _ | PType _ => Some st                             (* outside the claim, see in_scope *)
  end.

Definition spec_edit (k : dkind) (st : tstate) (p : prop) : option tstate :=
  match k with
  | DKAdd => spec_set false st p
  | DKReplace => spec_set true st p
  | DKDelete => spec_unset st p
  | DKNotSupported => Some st
  end.

Fixpoint spec_edits (k : dkind) (st : tstate) (ps : list prop) : option tstate :=
  match ps with
  | [] => Some st
  | p :: r => match spec_edit k st p with Some st' => spec_edits k st' r | None => None end
  end.

(* the statement can be read at all: `max-elements` is a positive number or unbounded (RFC 7950 7.7.6),
   and a type that is named must resolve ("unresolvable replacement type"); both whatever the kind, as
   the statement has to be read before it is applied *)
Definition props_valid (ps : list prop) : bool :=
  forallb (fun p => match p with PMax n => negb (n =? 0) | PType t => resolvable t | _ => true end) ps.

(* [ignore]: IgnoreDeviateNotSupported.  [removable]: the target is a child of a parent node *)
Definition spec_deviate (ignore removable : bool) (st : tstate) (dv : deviate) : option tstate :=
  match kind_of (dv_kind dv) with
  | None => None                                              (* unknown deviate kind *)
  | Some k =>
    if negb (props_valid (named_props dv)) then None
    else match k with
         | DKNotSupported =>
             if ignore then Some st
             else if removable && negb (ts_removed st)
             then Some {| ts_node := ts_node st; ts_removed := true |}
             else None
         | _ => spec_edits k st (named_props dv)
         end
  end.

(* the deviate statements of one deviation, in the order written *)
Fixpoint spec_apply_all (ignore removable : bool) (st : tstate) (dvs : list deviate) : option tstate :=
  match dvs with
  | [] => Some st
  | dv :: r => match spec_deviate ignore removable st dv with
               | Some st' => spec_apply_all ignore removable st' r
               | None => None
               end
  end.

End Spec.

(* the claim covers delete only for config, default, mandatory and the element bounds *)
Definition in_scope (dv : deviate) : bool :=
  match kind_of (dv_kind dv) with
  | Some DKDelete => match dv_units dv, dv_type dv with None, None => true | _, _ => false end
  | _ => true
  end.

(* the library declines to delete a default of a leaf-list and reports an error instead *)
Definition refused (st : tstate) (dv : deviate) : bool :=
  match kind_of (dv_kind dv), dv_default dv with
  | Some DKDelete, Some _ => isLeafList (ts_node st)
  | _, _ => false
  end.

(* what the agreement between library and reference is claimed for: every statement in scope and none that
   the library refuses, along the reference run *)
Definition step_claimed (st : tstate) (dv : deviate) : bool :=
  in_scope dv && negb (refused st dv).

Fixpoint claimed (resolvable : str -> bool) (ignore removable : bool) (st : tstate) (dvs : list deviate) : bool :=
  match dvs with
  | [] => true
  | dv :: r =>
    step_claimed st dv &&
    match spec_deviate resolvable ignore removable st dv with
    | Some st' => claimed resolvable ignore removable st' r
    | None => true
    end
  end.

(* ------------------------------------------------------------------ forests *)
(* where a target sits *)
Definition removable (p : pos) : bool :=
  match rev (snd p) with SChild _ :: _ => true | _ => false end.

Definition parent_of (p : pos) : pos := (fst p, removelast (snd p)).

(* not-supported: the target is taken out of the children of its parent *)
Definition remove_target (F : forest) (p : pos) : forest :=
  match rev (snd p) with
  | SChild n :: _ =>
      update_pos F (parent_of p)
                 (fun pe => match e_dir pe with Some d => set_dir pe (Some (remove n d)) | None => pe end)
  | _ => F
  end.

(* add / replace / delete: the node at the target gets the new attributes and keeps its subtree *)
Definition replace_attrs (F : forest) (p : pos) (new : entry) : forest :=
  update_pos F p (fun old => set_rpc (set_dir new (e_dir old)) (e_rpc old)).

(* the same modules without their deviation statements *)
Definition strip (m : module) : module :=
  {| m_name := m_name m; m_prefix := m_prefix m; m_ns := m_ns m; m_belongs := m_belongs m;
     m_imports := m_imports m; m_includes := m_includes m; m_body := m_body m; m_augments := m_augments m;
     m_deviations := [] |}.
Definition strip_devs (SC : schema) : schema := map strip SC.

Section SpecModule.
Variable SC : schema.
Variable ignore : bool.

(* one deviation: the target is looked up (Find is the subject of C17 and taken as given), the deviate
   statements are applied in order, the outcome is put back *)
Definition spec_deviation (F : forest) (m : module) (d : str * list deviate) : option forest :=
  match Find SC F m (m_name m, []) (fst d) with
  | (None, _) => None                                         (* missing target *)
  | (Some p, F1) =>
    match locate_pos F1 p with
    | None => None
    | Some cur =>
      match spec_apply_all is_builtin ignore (removable p) (init_state cur) (snd d) with
      | None => None
      | Some st => Some (if ts_removed st then remove_target F1 p else replace_attrs F1 p (ts_node st))
      end
    end
  end.

(* the deviations of a module, in the order written *)
Fixpoint spec_module (F : forest) (m : module) (devs : list (str * list deviate)) : option forest :=
  match devs with
  | [] => Some F
  | d :: rest =>
    match spec_deviation F m d with
    | Some F' => spec_module F' m rest
    | None => None
    end
  end.

(* the whole deviation pass: the deviation statements of all modules in the order in which they are visited,
   each with the module it is written in *)
Fixpoint spec_pass (F : forest) (js : list (module * (str * list deviate))) : option forest :=
  match js with
  | [] => Some F
  | j :: rest =>
    match spec_deviation F (fst j) (snd j) with
    | Some F' => spec_pass F' rest
    | None => None
    end
  end.

End SpecModule.
