(* Reference semantics for C10: a range / length restriction denotes a set of integers
   (for decimal64: a set of mantissas at the type's fraction-digits). *)
From Coq Require Import List NArith ZArith Bool.
Import ListNotations.
From GY Require Import Base.Outcome Model.Number Model.Range Spec.C15.
Local Open Scope Z_scope.

(* the stated domain: every bound has a 64-bit magnitude and the common precision fd
   (0 for the integer types and for lengths, 1..18 for decimal64) *)
Definition okN (fd : Z) (n : Number) : Prop := dom n /\ FractionDigits n = fd.
Definition okR (fd : Z) (p : YRange) : Prop := okN fd (rMin p) /\ okN fd (rMax p).
Definition okRs (fd : Z) (r : YangRange) : Prop := Forall (okR fd) r.

(* bounds of a part, as mantissas *)
Definition lo (p : YRange) : Z := sval (rMin p).
Definition hi (p : YRange) : Z := sval (rMax p).

Definition inpart (p : YRange) (z : Z) : Prop := lo p <= z <= hi p.

(* the set a list of parts denotes: the union of its parts *)
Definition den (r : YangRange) (z : Z) : Prop := exists p, In p r /\ inpart p z.

(* a part whose bounds are in order *)
Definition valid (p : YRange) : Prop := lo p <= hi p.

(* sorted, disjoint and coalesced: every part is valid and consecutive parts are separated
   by at least one integer that belongs to neither *)
Fixpoint WF (r : YangRange) : Prop :=
  match r with
  | [] => True
  | p :: t => valid p /\ match t with [] => True | q :: _ => hi p + 1 < lo q end /\ WF t
  end.

Definition subset (A B : Z -> Prop) : Prop := forall z, A z -> B z.
Definition seteq (A B : Z -> Prop) : Prop := forall z, A z <-> B z.

(* the order sort.Sort is asked to establish: lexicographic on (min, max) *)
Definition lexle (p q : YRange) : Prop := lo p < lo q \/ (lo p = lo q /\ hi p <= hi q).
Fixpoint sorted_lex (r : YangRange) : Prop :=
  match r with
  | p :: (q :: _) as t => lexle p q /\ sorted_lex t
  | _ => True
  end.

(* least and greatest element of a non-empty WF range list: what `min` / `max` denote *)
Definition least (r : YangRange) (z : Z) : Prop := den r z /\ forall w, den r w -> z <= w.
Definition greatest (r : YangRange) (z : Z) : Prop := den r z /\ forall w, den r w -> w <= z.
