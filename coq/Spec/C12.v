(* C12 — Config inheritance and namespace attribution follow the instantiated tree.

   Reference semantics by PATH (root -> node), independent of the accumulating walks of the model:
     path_entries      the entries on the path from the root of a tree to a position, root first;
     ro_text           the property's wording: read-only iff some entry on the path is an rpc/action output or the
                       LAST explicit config on the path says false (what Entry.ReadOnly() computes since fix c376f44);
     ro_up_pinned      what Entry.ReadOnly() of the pinned entry.go computed walking UP the Parent chain: at each
                       level an Output kind answered "read-only" before Config was looked at, an explicit Config
                       answered, unset went on to the parent -- so an explicit `config true` strictly below an output
                       answered "read-write" (D58); no_true_below_output / ntbo is the input class on which the two agree;
     ns_up             the nearest namespace stamp walking up, the root excluded (Entry.Namespace());
     unstamped         a tree none of whose nodes carries a stamp (what ToEntry builds from module, submodule and
                       grouping text);
     graft             what one applicable augment does to its target (Entry.merge with the augmenting module's
                       namespace);
     inst_spec         InstantiatingModule: the one module whose namespace it is, nothing if none or several. *)
From Coq Require Import List NArith Bool Arith.
From GY Require Import Model.Schema.
Import ListNotations.
Local Open Scope N_scope.

Fixpoint path_entries (e : entry) (steps : list step) : list entry :=
  e :: match steps with
       | [] => []
       | SChild n :: r =>
         match e_dir e with
         | Some d => match lookup n d with Some c => path_entries c r | None => [] end
         | None => []
         end
       | SIn :: r => match e_rpc e with Some (Some i, _) => path_entries i r | _ => [] end
       | SOut :: r => match e_rpc e with Some (_, Some o) => path_entries o r | _ => [] end
       end.

(* ------------------------------------------------------------------ read-only *)
Definition is_output (e : entry) : bool := match e_kind e with KOutput => true | _ => false end.

(* [up]: the node first, the root last; [dflt]: the answer above the root *)
Fixpoint ro_up_pinned (dflt : bool) (up : list entry) : bool :=
  match up with
  | [] => dflt
  | e :: r => if is_output e then true
              else match e_cfg e with TSUnset => ro_up_pinned dflt r | TSTrue => false | TSFalse => true end
  end.

(* the last explicit config statement on the path, root first *)
Definition last_cfg (es : list entry) : tri :=
  fold_left (fun acc e => match e_cfg e with TSUnset => acc | c => c end) es TSUnset.

Definition ro_text (es : list entry) : bool :=
  existsb is_output es || match last_cfg es with TSFalse => true | _ => false end.

Definition no_true_below_output (es : list entry) : Prop :=
  forall l1 o l2 x, es = l1 ++ o :: l2 -> is_output o = true -> In x l2 -> e_cfg x <> TSTrue.

(* boolean form of no_true_below_output *)
Definition cfg_true (e : entry) : bool := match e_cfg e with TSTrue => true | _ => false end.
Fixpoint ntbo (below_out : bool) (es : list entry) : bool :=
  match es with
  | [] => true
  | e :: r => negb (below_out && cfg_true e) && ntbo (below_out || is_output e) r
  end.

(* ------------------------------------------------------------------ namespace *)
(* [up]: the node first; the first stamp met *)
Fixpoint ns_up (up : list entry) : option str :=
  match up with
  | [] => None
  | e :: r => match e_ns e with Some n => Some n | None => ns_up r end
  end.

Definition tree_ns (SC : schema) (mn : str) : str :=
  match find_module SC mn with Some m => owner_ns SC m | None => [] end.

Definition ns_spec (SC : schema) (root : entry) (mn : str) (steps : list step) : str :=
  match ns_up (rev (tl (path_entries root steps))) with
  | Some n => n
  | None => tree_ns SC mn
  end.

Definition unstamped (e : entry) : Prop := forall steps x, locate e steps = Some x -> e_ns x = None.

(* Entry.merge(nil, namespace, augment) on the target at position p *)
Definition graft (F : forest) (p : pos) (ns : str) (adir : list (str * entry)) : forest :=
  update_pos F p (fun te => match e_dir te with
                            | Some d => set_dir te (Some (fst (merge_dir (d, false) (Some ns) adir)))
                            | None => te
                            end).

(* ------------------------------------------------------------------ instantiating module *)
Definition has_ns (ns : str) (m : module) : bool := str_eqb (m_ns m) ns.

(* [mods]: the modules (not submodules) of the set *)
Definition inst_spec (mods : list module) (ns : str) (r : option str) : Prop :=
  match r with
  | Some n => exists l1 m l2, mods = l1 ++ m :: l2 /\ m_ns m = ns /\ m_name m = n /\
                              (forall x, In x l1 \/ In x l2 -> m_ns x <> ns)
  | None => (forall x, In x mods -> m_ns x <> ns) \/
            (exists l1 m1 l2 m2 l3, mods = l1 ++ m1 :: l2 ++ m2 :: l3 /\ m_ns m1 = ns /\ m_ns m2 = ns)
  end.
