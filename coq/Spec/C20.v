(* Reference semantics for C20: character-level indentation and tagged rendering. *)
From Coq Require Import List NArith ZArith Bool.
Import ListNotations.
From GY Require Import Model.Indent.

(* The one-shot rendering, read character by character: the prefix is emitted before the
   first character of every line (a line starts at the beginning of the text and after
   every LF); nothing is emitted after a final LF. *)
Fixpoint ind_sm (prefix : list byte) (at_start : bool) (b : list byte) : list byte :=
  match b with
  | [] => []
  | c :: b' => (if at_start then prefix else []) ++ c :: ind_sm prefix (N.eqb c LF) b'
  end.

Definition spec_indent (prefix b : list byte) : list byte := ind_sm prefix true b.

(* The same rendering with every byte tagged: true = one of the caller's bytes,
   false = a prefix byte. *)
Definition tag (t : bool) (l : list byte) : list (bool * byte) := map (pair t) l.

Fixpoint tind_sm (prefix : list byte) (at_start : bool) (b : list byte) : list (bool * byte) :=
  match b with
  | [] => []
  | c :: b' => (if at_start then tag false prefix else []) ++ (true, c) :: tind_sm prefix (N.eqb c LF) b'
  end.

(* number of caller bytes among the first n rendered bytes (n any Go int) *)
Definition caller_count (n : Z) (t : list (bool * byte)) : Z :=
  Z.of_nat (length (filter fst (firstn (Z.to_nat n) t))).

(* whether the text written so far leaves the writer in the middle of a line *)
Definition mid_line (acc : list byte) : bool :=
  match acc with [] => false | _ => negb (last_is_lf acc) end.
