(* C11 -- reference semantics: the derivation graph of the identities of a schema.

   Vertices are the identities of all loaded modules and of the submodules reachable from them through
   include statements, named "owner:identity".  There is an edge i -> b for every base statement of i,
   the prefix of its argument read in the (sub)module that declares i: no prefix or that module's own
   prefix denote the module i belongs to, any other prefix the module named by the first import
   statement carrying it.  [derived b i]: i reaches b through one or more edges.

   The graph is stated over a lookup function [g] from keys to declarations (the identity dictionary
   read as a function); [declared] says which lookup function a schema determines, and [consistent] that
   it determines one (no two identity statements compete for a key). *)
From Coq Require Import Ascii String List Bool Relations Sorting.Sorted Permutation.
From GY Require Import Model.Identity.
Import ListNotations.
Local Open Scope string_scope.
Local Open Scope list_scope.

(* an iteration order of a Go map: any permutation of the keys *)
Definition is_oracle (o : list string -> list string) : Prop := forall l, Permutation l (o l).

Definition lookup := key -> option entry.

Section Spec.
Variable sc : schema.

(* ------------------------------------------------------------------ which identities there are *)

(* an entry of ms.Modules *)
Definition loaded (md : module) : Prop := m_sub md = false /\ find_mod sc false (m_name md) = Some md.

(* md itself, or a submodule reached from it through include statements that name a loaded submodule *)
Inductive part_of (md : module) : module -> Prop :=
| part_self : part_of md md
| part_incl m n s : part_of md m -> In n (m_includes m) -> find_mod sc true n = Some s -> part_of md s.

(* (sub)module m is read by identity resolution *)
Definition visible (m : module) : Prop := exists md, loaded md /\ part_of md m.

(* identity statement i of m is filed under key k *)
Definition declared (k : key) (e : entry) : Prop :=
  visible (fst e) /\ In (snd e) (m_idents (fst e)) /\
  k = mk_key (owner_name sc (fst e)) (i_name (snd e)).

Definition consistent : Prop := forall k e1 e2, declared k e1 -> declared k e2 -> e1 = e2.

(* every include / import statement the resolver follows names something loaded *)
Definition links_ok : Prop :=
  forall m, visible m ->
    (forall n, In n (m_includes m) -> find_mod sc true n <> None) /\
    (forall p n, In (p, n) (m_imports m) -> find_mod sc false n <> None).

(* ------------------------------------------------------------------ the graph *)
Variable g : lookup.

Definition defined (k : key) : Prop := g k <> None.

Fixpoint no_colon (s : string) : Prop :=
  match s with
  | EmptyString => True
  | String c r => c <> ":"%char /\ no_colon r
  end.

(* prefix and name of a base argument (split at the first colon) *)
Inductive splits : string -> string -> string -> Prop :=
| split_plain s : no_colon s -> splits s "" s
| split_at p n : no_colon p -> splits (p ++ ":" ++ n)%string p n.

Inductive first_import : list (string * string) -> string -> string -> Prop :=
| fi_here p n r : first_import ((p, n) :: r) p n
| fi_later p' n' r p n : p' <> p -> first_import r p n -> first_import ((p', n') :: r) p n.

(* the name of the module prefix pfx denotes inside (sub)module md *)
Inductive target_module (md : module) (pfx : string) : string -> Prop :=
| tm_local : pfx = "" \/ pfx = m_prefix md -> target_module md pfx (owner_name sc md)
| tm_import n ext : pfx <> "" -> pfx <> m_prefix md ->
    first_import (m_imports md) pfx n -> find_mod sc false n = Some ext ->
    target_module md pfx (m_name ext).

(* base argument s, written inside md, names identity b *)
Definition resolves (md : module) (s : string) (b : key) : Prop :=
  exists pfx nm mn, splits s pfx nm /\ target_module md pfx mn /\ b = mk_key mn nm /\ defined b.

Definition edge (i b : key) : Prop :=
  exists md id s, g i = Some (md, id) /\ In s (i_bases id) /\ resolves md s b.

(* i is derived from b *)
Definition derived (b i : key) : Prop := clos_trans key (fun x y => edge y x) b i.

Definition all_resolve : Prop :=
  forall i md id s, g i = Some (md, id) -> In s (i_bases id) -> exists b, resolves md s b.

Definition acyclic : Prop := forall i, ~ derived i i.

(* ------------------------------------------------------------------ the order of a Values list *)

Definition name_of (k : key) : string := match g k with Some (_, id) => i_name id | None => "" end.

Definition str_lt (a b : string) : Prop := String.compare a b = Lt.     (* bytewise lexicographic *)

(* by identity name, then by module-qualified name *)
Definition key_lt (a b : key) : Prop :=
  str_lt (name_of a) (name_of b) \/ (name_of a = name_of b /\ str_lt a b).

(* strictly increasing: sorted and without repetition *)
Definition sorted_keys (l : list key) : Prop := StronglySorted key_lt l.

End Spec.
