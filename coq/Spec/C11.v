(* C11 -- reference semantics: the derivation graph of the identities of a schema.

   Vertices are the identity statements (declarations) of all loaded module revisions and of the submodules
   reachable from them through include statements, named "<full name of the declaring (sub)module>:<name>".
   Every declaration is filed in the identity dictionary under "<full name of the owning module
   revision>:<name>" -- a submodule included by two revisions of its module is filed under both.  There is an
   edge x -> b for every base statement of x and every key x is filed under, its argument read in the
   (sub)module that declares x as part of the revision of that key: no prefix or that module's own prefix
   search that revision, then the revisions the declaring (sub)module is filed under, any other prefix the module revision that the first import statement carrying it is bound to (the revision
   named by its revision-date when that is loaded, the latest otherwise).  [derived b x]: x reaches b
   through one or more edges.

   The graph is stated over the dictionary read as a function [g], the owners table read as a function
   [ow] and the declarations by name [dl]; [filed], [owner_of] say which dictionary and owners a schema
   determines. *)
From Coq Require Import Ascii String List Bool Relations Sorting.Sorted Permutation.
From GY Require Import Model.Identity.
Import ListNotations.
Local Open Scope string_scope.
Local Open Scope list_scope.

(* an iteration order of a Go map: any permutation of the keys *)
Definition is_oracle (o : list string -> list string) : Prop := forall l, Permutation l (o l).

Definition lookup := key -> option entry.

Section Spec.
Variable sc : schema.

(* ------------------------------------------------------------------ which identities there are *)

(* a value of ms.Modules (sub = false) / ms.SubModules (sub = true) *)
Definition loaded (sub : bool) (md : module) : Prop := exists k, reg_get sc sub k = Some md.

(* md itself, or a submodule reached from it through include statements bound to a loaded submodule *)
Inductive part_of (md : module) : module -> Prop :=
| part_self : part_of md md
| part_incl m n d s : part_of md m -> In (n, d) (m_includes m) -> find_module sc true n d = Some s ->
                      part_of md s.

(* (sub)module m is read by identity resolution *)
Definition visible (m : module) : Prop := exists md, loaded false md /\ part_of md m.

(* identity statement i of m is filed under key k: for every module revision md whose whole module m is part
   of, under md -- or, when m is a submodule of a module of another name, under the latest revision of that *)
Definition filed (k : key) (e : entry) : Prop :=
  exists md, loaded false md /\ part_of md (fst e) /\ In (snd e) (m_idents (fst e)) /\
             k = identity_key (owner_for sc md (fst e)) (i_name (snd e)).

Definition consistent : Prop := forall k e1 e2, filed k e1 -> filed k e2 -> e1 = e2.

(* key k is a key of module revision o *)
Definition key_owner_of (k : key) (o : module) : Prop :=
  exists md m i, loaded false md /\ part_of md m /\ In i (m_idents m) /\
                 o = owner_for sc md m /\ k = identity_key o (i_name i).

(* the module revisions the identities of m are filed under *)
Definition owner_of (m w : module) : Prop :=
  exists md, loaded false md /\ part_of md m /\ w = owner_for sc md m.

(* every include / import statement the resolver follows is bound to something loaded *)
Definition links_ok : Prop :=
  forall m, visible m ->
    (forall n d, In (n, d) (m_includes m) -> find_module sc true n d <> None) /\
    (forall p n d, In (p, n, d) (m_imports m) -> find_module sc false n d <> None).

(* ------------------------------------------------------------------ the graph *)
Variable g : lookup.                       (* the dictionary: key -> declaration *)
Variable ow : module -> list module.       (* the owners table, in the order identities.find searches it *)
Variable dl : lookup.                      (* declaration id -> declaration *)
Variable ko : key -> option module.        (* the module revision a dictionary entry is filed under *)

(* x names a declaration that is filed in the dictionary *)
Definition declares (x : key) (e : entry) : Prop := did_of e = x /\ exists k, g k = Some e.

Fixpoint no_colon (s : string) : Prop :=
  match s with
  | EmptyString => True
  | String c r => c <> ":"%char /\ no_colon r
  end.

(* prefix and name of a base argument (split at the first colon) *)
Inductive splits : string -> string -> string -> Prop :=
| split_plain s : no_colon s -> splits s "" s
| split_at p n : no_colon p -> splits (p ++ ":" ++ n)%string p n.

(* the first import statement with prefix p names module n with revision-date d *)
Inductive first_import : list (string * string * string) -> string -> string -> string -> Prop :=
| fi_here p n d r : first_import ((p, n, d) :: r) p n d
| fi_later p' n' d' r p n d : p' <> p -> first_import r p n d -> first_import ((p', n', d') :: r) p n d.

(* the module revisions searched for a name with prefix pfx written inside (sub)module md, the statement read
   as part of module revision o (None: on its own, as the type statement of an identityref is): a local name
   is searched in o first *)
Inductive search_list (o : option module) (md : module) (pfx : string) : list module -> Prop :=
| sl_local : pfx = "" \/ pfx = m_prefix md ->
    search_list o md pfx (match o with Some x => x :: ow md | None => ow md end)
| sl_import n d ext : pfx <> "" -> pfx <> m_prefix md ->
    first_import (m_imports md) pfx n d -> find_module sc false n d = Some ext ->
    search_list o md pfx (ow ext).

(* the first of them that files the name *)
Inductive found (nm : string) : list module -> entry -> Prop :=
| found_here o r e : g (identity_key o nm) = Some e -> found nm (o :: r) e
| found_later o r e : g (identity_key o nm) = None -> found nm r e -> found nm (o :: r) e.

(* base argument s, written inside md and read as part of o, names declaration e *)
Definition resolves (o : option module) (md : module) (s : string) (e : entry) : Prop :=
  exists pfx nm l, splits s pfx nm /\ search_list o md pfx l /\ found nm l e.

(* one edge per dictionary entry and base statement: a declaration filed under several revisions has its
   bases resolved within each of them *)
Definition edge (x b : key) : Prop :=
  exists k ex s eb, g k = Some ex /\ did_of ex = x /\ In s (i_bases (snd ex)) /\
                    resolves (ko k) (fst ex) s eb /\ b = did_of eb.

(* x is derived from b *)
Definition derived (b x : key) : Prop := clos_trans key (fun u v => edge v u) b x.

Definition all_resolve : Prop :=
  forall k e s, g k = Some e -> In s (i_bases (snd e)) -> exists eb, resolves (ko k) (fst e) s eb.

Definition acyclic : Prop := forall x, ~ derived x x.

(* ------------------------------------------------------------------ the order of a Values list *)

Definition str_lt (a b : string) : Prop := String.compare a b = Lt.     (* bytewise lexicographic *)

(* identity name, module-qualified name, full name of the declaring (sub)module *)
Definition sort_key_of (x : key) : list string :=
  match dl x with
  | Some (m, i) => [i_name i; mk_key (owner_name sc m) (i_name i); full_name m]
  | None => []
  end.

Fixpoint lex_lt (a b : list string) : Prop :=
  match a, b with
  | [], [] => False
  | [], _ :: _ => True
  | _ :: _, [] => False
  | x :: a', y :: b' => str_lt x y \/ (x = y /\ lex_lt a' b')
  end.

Definition key_lt (a b : key) : Prop := lex_lt (sort_key_of a) (sort_key_of b).

(* strictly increasing: sorted and without repetition *)
Definition sorted_keys (l : list key) : Prop := StronglySorted key_lt l.

End Spec.
