(* Reference semantics for C14: RFC 7950 section 9.6.4.2 (enum value) and 9.7.4.2 (bit position).
   Independent of the model: no lookup tables, no "last" counter; the members already assigned are
   the list [done] and everything is read off that list.  Explicit values are integers here (the
   literal -> integer step is C15's subject). *)
From Coq Require Import List NArith ZArith Bool.
Import ListNotations.
From GY Require Import Model.Number.   (* only for [str] = list of bytes *)
Local Open Scope Z_scope.

Definition lo (bits : bool) : Z := if bits then 0 else - 2 ^ 31.
Definition hi (bits : bool) : Z := if bits then 2 ^ 32 - 1 else 2 ^ 31 - 1.
Definition in_range (bits : bool) (v : Z) : bool := (lo bits <=? v) && (v <=? hi bits).

Definition name_eq_dec : forall a b : str, {a = b} + {a <> b} := list_eq_dec N.eq_dec.
Definition name_used (name : str) (done : list (str * Z)) : bool :=
  if in_dec name_eq_dec name (map fst done) then true else false.
Definition value_used (v : Z) (done : list (str * Z)) : bool :=
  if in_dec Z.eq_dec v (map snd done) then true else false.

(* the highest of a list of integers; None for the empty list *)
Definition highest (vs : list Z) : option Z :=
  match vs with [] => None | x :: r => Some (fold_left Z.max r x) end.

(* "If the current highest value is equal to the maximum, a value MUST be specified":
   the automatic value is 0 for the first member, else highest + 1, and does not exist when
   that would exceed the maximum *)
Definition auto_value (bits : bool) (done : list (str * Z)) : option Z :=
  match highest (map snd done) with
  | None => Some 0
  | Some m => if m <? hi bits then Some (m + 1) else None
  end.

(* a member (name, v) may be added after [done]: new name, (enum) new value, value in range *)
Definition admissible (bits : bool) (done : list (str * Z)) (name : str) (v : Z) : bool :=
  negb (name_used name done) && (bits || negb (value_used v done)) && in_range bits v.

Fixpoint assign_from (bits : bool) (done : list (str * Z)) (ms : list (str * option Z))
  : option (list (str * Z)) :=
  match ms with
  | [] => Some done
  | (name, ov) :: rest =>
      match (match ov with Some v => Some v | None => auto_value bits done end) with
      | None => None
      | Some v => if admissible bits done name v
                  then assign_from bits (done ++ [(name, v)]) rest else None
      end
  end.

(* members in statement order, each with its explicit value or none; result: the assignment in
   statement order, or None when the type is invalid *)
Definition assign (bits : bool) (ms : list (str * option Z)) : option (list (str * Z)) :=
  assign_from bits [] ms.
