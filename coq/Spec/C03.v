(* C03 — The AST mirrors the statement tree one-to-one or the build fails.

   Reference semantics, independent of the builder's loop:
     schema_wf  the conditions under which initTypes completes without panicking and under which the
                table is unambiguous (boolean, evaluated on the generated table);
     mirror     what a built node must look like, stated by GROUPING the substatements by keyword
                (filter), not by replaying the loop;
     rejects    which statement trees must be refused (unknown keyword in context, second occurrence of
                a single-valued substatement, missing required / required-for-this-kind substatement,
                substatement required for the other kind present, extension where the struct keeps
                none, unknown top keyword), closed under "a filed substatement is refused". *)
From Coq Require Import Ascii String List Bool Arith.
From GY Require Import Base.Outcome Model.Ast.
Import ListNotations.
Local Open Scope string_scope.

(* ------------------------------------------------------------------ well-formed tables *)

Definition key_kind_ok (f : field) : bool :=
  match f_kind f with
  | FName => String.eqb (f_key f) "Name"
  | FStatement => String.eqb (f_key f) "Statement"
  | FParent => String.eqb (f_key f) "Parent"
  | FExt => String.eqb (f_key f) "Ext"
  | FSingle _ | FMulti _ => negb (special_kw (f_key f)) && negb (String.eqb (f_key f) "Ext")
  | FBad => false
  end.

(* the keyword of a child field names, in the global keyword map, the struct the field holds
   (otherwise: initTypes' "redeclared type" panic, or reflect's Set/Append panic in build) *)
Definition field_target_ok (S : schema) (f : field) : bool :=
  match f_kind f with
  | FSingle ty | FMulti ty =>
      match lookup (alias S (f_key f)) (sc_names S) with
      | Some t => String.eqb t ty
      | None => false
      end
  | _ => true
  end.

Definition field_wf (S : schema) (f : field) : bool :=
  key_kind_ok f && field_target_ok S f && forallb is_top_kind (f_reqkinds f).

Fixpoint nodupb (l : list string) : bool :=
  match l with
  | [] => true
  | x :: r => negb (mem x r) && nodupb r
  end.

(* Kind() is either always module/submodule or never *)
Definition kinds_wf (ks : list string) : bool :=
  forallb is_top_kind ks || negb (existsb is_top_kind ks).

Definition struct_wf (S : schema) (sd : sdef) : bool :=
  forallb (field_wf S) (s_fields sd)
  && nodupb (map f_key (s_fields sd))
  && kinds_wf (s_kinds sd)
  && implb (forallb is_top_kind (s_kinds sd)) (String.eqb (s_name sd) "Module" || match s_kinds sd with [] => true | _ => false end).

Definition has_field (sd : sdef) (k : string) (kd : fkind -> bool) : bool :=
  match field_of sd k with Some f => kd (f_kind f) | None => false end.

(* a struct some keyword builds: a Node with Name, Statement, Parent (and a Kind method) *)
Definition node_struct_wf (S : schema) (ty : string) : bool :=
  match find_struct S ty with
  | None => false
  | Some sd =>
      s_isnode sd
      && has_field sd "Name" (fun k => match k with FName => true | _ => false end)
      && has_field sd "Statement" (fun k => match k with FStatement => true | _ => false end)
      && has_field sd "Parent" (fun k => match k with FParent => true | _ => false end)
      && match s_kinds sd with [] => false | _ => true end
  end.

Definition schema_wf (S : schema) : bool :=
  forallb (struct_wf S) (sc_structs S)
  && forallb (fun p => node_struct_wf S (snd p)) (sc_names S)
  && nodupb (map s_name (sc_structs S))
  && nodupb (map fst (sc_names S))
  && nodupb (map fst (sc_aliases S)).

(* ------------------------------------------------------------------ mirror *)

Definition kws (l : list stmt) : list string := map kw_of l.

(* the substatements with keyword k, in source order *)
Definition kids (k : string) (l : list stmt) : list stmt :=
  filter (fun ss => String.eqb (kw_of ss) k) l.

(* the substatements the struct keeps as extensions: keyword not a field of the struct, one colon *)
Definition is_ext_in (sd : sdef) (ss : stmt) : bool :=
  match classify sd (kw_of ss) with KExt => true | _ => false end.

Definition total (fs : list (string * list node)) : nat :=
  fold_right (fun p n => length (snd p) + n) 0 fs.

Inductive mirror (S : schema) : stmt -> option pref -> node -> Prop :=
| Mirror : forall kw ha a i subs p ty sd fs ex,
    (* the struct the keyword names *)
    struct_of S kw = Some (ty, Some sd) ->
    (* one slot per child field of the struct, declaration order *)
    map fst fs = child_keys sd ->
    (* under each field: exactly the substatements with that keyword, in source order, each mirrored,
       with this node as parent *)
    (forall k, In k (child_keys sd) ->
       Forall2 (fun ss c => mirror S ss (Some (ty, i)) c) (kids k subs) (get k fs)) ->
    (* single-valued fields hold at most one *)
    (forall f t, In f (s_fields sd) -> f_kind f = FSingle t -> length (get (f_key f) fs) <= 1) ->
    (* the extension list: exactly the prefixed non-field substatements, in source order *)
    ex = map id_of (filter (is_ext_in sd) subs) ->
    (* every substatement is in one of the two, and nothing else is: exactly once *)
    Forall (fun ss => In (kw_of ss) (child_keys sd) \/ is_ext_in sd ss = true) subs ->
    length subs = total fs + length ex ->
    (* name = argument, back-reference = this statement, parent link = enclosing node *)
    mirror S (Stmt kw ha a i subs) p (Node ty a (Some i) (option_map snd p) fs ex).

(* ------------------------------------------------------------------ rejection *)

Inductive bad_here (sd : sdef) (kw : string) (subs : list stmt) : Prop :=
| BadUnknown : forall ss,            (* keyword unknown in this context, not prefixed *)
    In ss subs -> classify sd (kw_of ss) = KUnknown -> bad_here sd kw subs
| BadNoExt : forall ss,              (* prefixed keyword, struct without Ext field *)
    In ss subs -> classify sd (kw_of ss) = KExt -> field_of sd "Ext" = None -> bad_here sd kw subs
| BadTwice : forall f t,             (* second occurrence of a single-valued substatement *)
    classify sd (f_key f) = KField f -> f_kind f = FSingle t ->
    2 <= length (kids (f_key f) subs) -> bad_here sd kw subs
| BadMissing : forall f,             (* mandatory substatement absent *)
    In f (s_fields sd) -> f_required f = true -> ~ In (f_key f) (kws subs) -> bad_here sd kw subs
| BadMissingKind : forall f,         (* mandatory for this keyword (module / submodule) absent *)
    In f (s_fields sd) -> In kw (f_reqkinds f) -> ~ In (f_key f) (kws subs) -> bad_here sd kw subs
| BadOtherKind : forall f n,         (* mandatory for the other keyword, present here *)
    In f (s_fields sd) -> In n (f_reqkinds f) -> n <> kw -> In (f_key f) (kws subs) -> bad_here sd kw subs.

Inductive rejects (S : schema) : stmt -> Prop :=
| RejUnknown : forall kw ha a i subs,
    struct_of S kw = None -> rejects S (Stmt kw ha a i subs)
| RejHere : forall kw ha a i subs ty sd,
    struct_of S kw = Some (ty, Some sd) -> bad_here sd kw subs -> rejects S (Stmt kw ha a i subs)
| RejChild : forall kw ha a i subs ty sd ss f,
    struct_of S kw = Some (ty, Some sd) ->
    In ss subs -> classify sd (kw_of ss) = KField f -> rejects S ss ->
    rejects S (Stmt kw ha a i subs).

(* the parent handed to build is a node struct of the table (always so inside build; None at top level) *)
Definition good_parent (S : schema) (p : option pref) : Prop :=
  match p with
  | None => True
  | Some (pty, _) => exists psd, find_struct S pty = Some psd /\ s_isnode psd = true
  end.

(* the three-way verdict about one run of build *)
Definition outcome_spec (S : schema) (s : stmt) (p : option pref) (r : outcome node) : Prop :=
  match r with
  | Ok n => mirror S s p n /\ ~ rejects S s
  | Err => rejects S s
  | Panic => False
  | Unmodelled => False
  end.

(* ------------------------------------------------------------------ top level *)

(* keywords whose struct passes Modules.add's test *)
Definition top_struct (S : schema) (ty : string) : bool :=
  match find_struct S ty with
  | Some sd => match s_kinds sd with [] => false | ks => forallb is_top_kind ks end
  | None => false
  end.

Definition top_keywords (S : schema) : list string :=
  filter (fun k => match struct_of S k with Some (ty, _) => top_struct S ty | None => false end)
         (map fst (sc_aliases S) ++ map fst (sc_names S)).

(* ------------------------------------------------------------------ which error is reported, and where
   (serves C16's sentence on errors from building a module).  Declarative reading of Go's evaluation
   order: depth-first, substatements in source order, then the three required checks.  [reports S s e]:
   the first thing wrong with s, in that order, is e = (kind, position). *)

Definition berr := (ekind * option nat)%type.

(* a substatement the loop gets past *)
Definition sub_ok (S : schema) (sd : sdef) (x : stmt) : Prop :=
  match classify sd (kw_of x) with
  | KField _ => ~ rejects S x
  | KExt => field_of sd "Ext" <> None
  | KUnknown => False
  end.

(* a run of substatements the loop gets past *)
Definition prefix_ok (S : schema) (sd : sdef) (l : list stmt) : Prop :=
  Forall (sub_ok S sd) l /\
  forall f t, In f (s_fields sd) -> f_kind f = FSingle t -> length (kids (f_key f) l) <= 1.

Definition missing1 (sd : sdef) (subs : list stmt) : Prop :=
  exists f, In f (s_fields sd) /\ f_required f = true /\ ~ In (f_key f) (kws subs).
Definition missing2 (sd : sdef) (kw : string) (subs : list stmt) : Prop :=
  exists f, In f (s_fields sd) /\ In kw (f_reqkinds f) /\ ~ In (f_key f) (kws subs).
Definition otherkind (sd : sdef) (kw : string) (subs : list stmt) : Prop :=
  exists f n, In f (s_fields sd) /\ In n (f_reqkinds f) /\ n <> kw /\ In (f_key f) (kws subs).

Inductive reports (S : schema) : stmt -> berr -> Prop :=
| RepUnknownStmt : forall kw ha a i subs,
    struct_of S kw = None ->
    reports S (Stmt kw ha a i subs) (EUnknownStmt, Some i)                  (* at the statement *)
| RepUnknownField : forall kw ha a i subs ty sd l1 x l2,
    struct_of S kw = Some (ty, Some sd) -> subs = (l1 ++ x :: l2)%list -> prefix_ok S sd l1 ->
    classify sd (kw_of x) = KUnknown ->
    reports S (Stmt kw ha a i subs) (EUnknownField, Some (id_of x))         (* at the unknown substatement *)
| RepNoExt : forall kw ha a i subs ty sd l1 x l2,
    struct_of S kw = Some (ty, Some sd) -> subs = (l1 ++ x :: l2)%list -> prefix_ok S sd l1 ->
    classify sd (kw_of x) = KExt -> field_of sd "Ext" = None ->
    reports S (Stmt kw ha a i subs) (ENoExt, Some (id_of x))                (* at the extension statement *)
| RepAlreadySet : forall kw ha a i subs ty sd l1 x l2 f t,
    struct_of S kw = Some (ty, Some sd) -> subs = (l1 ++ x :: l2)%list -> prefix_ok S sd l1 ->
    classify sd (kw_of x) = KField f -> f_kind f = FSingle t -> In (kw_of x) (kws l1) ->
    reports S (Stmt kw ha a i subs) (EAlreadySet, None)                     (* errors.New: no position *)
| RepChild : forall kw ha a i subs ty sd l1 x l2 f e,
    struct_of S kw = Some (ty, Some sd) -> subs = (l1 ++ x :: l2)%list -> prefix_ok S sd l1 ->
    classify sd (kw_of x) = KField f ->
    (forall t, f_kind f = FSingle t -> ~ In (kw_of x) (kws l1)) ->
    reports S x e ->
    reports S (Stmt kw ha a i subs) e                                       (* the substatement's own error *)
| RepMissing : forall kw ha a i subs ty sd,
    struct_of S kw = Some (ty, Some sd) -> prefix_ok S sd subs ->
    missing1 sd subs ->
    reports S (Stmt kw ha a i subs) (EMissing, Some i)                      (* at the statement that lacks it *)
| RepMissingKind : forall kw ha a i subs ty sd,
    struct_of S kw = Some (ty, Some sd) -> prefix_ok S sd subs ->
    ~ missing1 sd subs -> missing2 sd kw subs ->
    reports S (Stmt kw ha a i subs) (EMissingKind, Some i)                  (* at the statement that lacks it *)
| RepOtherKind : forall kw ha a i subs ty sd,
    struct_of S kw = Some (ty, Some sd) -> prefix_ok S sd subs ->
    ~ missing1 sd subs -> ~ missing2 sd kw subs -> otherkind sd kw subs ->
    reports S (Stmt kw ha a i subs) (EOtherKind, Some i).                   (* at the PARENT (known finding) *)

(* statement ids of a tree, pre-order *)
Fixpoint ids (s : stmt) : list nat :=
  match s with Stmt _ _ _ i subs => i :: flat_map ids subs end.

(* t is s or a substatement filed under a field, recursively: the statements build visits *)
Inductive filed (S : schema) : stmt -> stmt -> Prop :=
| FiledHere : forall s, filed S s s
| FiledSub : forall kw ha a i subs ty sd x f t,
    struct_of S kw = Some (ty, Some sd) -> In x subs -> classify sd (kw_of x) = KField f ->
    filed S x t -> filed S (Stmt kw ha a i subs) t.

(* what a reported (kind, position) points at *)
Definition site (S : schema) (s : stmt) (k : ekind) (pos : option nat) : Prop :=
  match k with
  | EUnknownStmt => exists t, filed S s t /\ pos = Some (id_of t) /\ struct_of S (kw_of t) = None
  | EUnknownField =>          (* the unknown substatement itself *)
      exists t ty sd x, filed S s t /\ struct_of S (kw_of t) = Some (ty, Some sd) /\ In x (subs_of t) /\
        classify sd (kw_of x) = KUnknown /\ pos = Some (id_of x)
  | ENoExt =>
      exists t ty sd x, filed S s t /\ struct_of S (kw_of t) = Some (ty, Some sd) /\ In x (subs_of t) /\
        classify sd (kw_of x) = KExt /\ field_of sd "Ext" = None /\ pos = Some (id_of x)
  | EAlreadySet => pos = None
  | EMissing =>               (* the statement that lacks the mandatory substatement *)
      exists t ty sd, filed S s t /\ struct_of S (kw_of t) = Some (ty, Some sd) /\
        missing1 sd (subs_of t) /\ pos = Some (id_of t)
  | EMissingKind =>
      exists t ty sd, filed S s t /\ struct_of S (kw_of t) = Some (ty, Some sd) /\
        missing2 sd (kw_of t) (subs_of t) /\ pos = Some (id_of t)
  | EOtherKind =>             (* pinned: the parent, not the offending substatement *)
      exists t ty sd, filed S s t /\ struct_of S (kw_of t) = Some (ty, Some sd) /\
        otherkind sd (kw_of t) (subs_of t) /\ pos = Some (id_of t)
  | ENotModule => False
  end.
