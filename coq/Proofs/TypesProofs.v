(* Lemmas about Model/Types.v for C09 (Spec/C09.v). *)
From Coq Require Import Ascii String List Bool Arith NArith ZArith Lia.
From GY Require Import Base.Outcome Model.Number Model.Range Model.Types Spec.C15 Spec.C10 Spec.C09 Proofs.RangeProofs.
Import ListNotations.
Local Open Scope string_scope.
Local Open Scope list_scope.

(* ------------------------------------------------------------------ equality tests *)

Lemma path_eqb_spec : forall a b, path_eqb a b = true <-> a = b.
Proof.
  unfold path_eqb. induction a as [|x a IH]; destruct b as [|y b]; split; intro H; try discriminate; auto.
  - apply andb_true_iff in H. destruct H as [H1 H2]. apply Nat.eqb_eq in H1. apply IH in H2. congruence.
  - inversion H; subst. apply andb_true_iff. split; [apply Nat.eqb_refl | apply IH; reflexivity].
Qed.

Lemma key_eqb_spec : forall a b, key_eqb a b = true <-> a = b.
Proof.
  intros [[m p] n] [[m' p'] n']. unfold key_eqb. cbn [fst snd]. split; intro H.
  - apply andb_true_iff in H. destruct H as [H H3]. apply andb_true_iff in H. destruct H as [H1 H2].
    apply Nat.eqb_eq in H1. apply path_eqb_spec in H2. apply String.eqb_eq in H3. congruence.
  - inversion H; subst. rewrite Nat.eqb_refl, String.eqb_refl.
    replace (path_eqb p' p') with true by (symmetry; apply path_eqb_spec; reflexivity). reflexivity.
Qed.

Lemma key_mem_spec : forall k l, key_mem k l = true <-> In k l.
Proof.
  intros k l. unfold key_mem. rewrite existsb_exists. split.
  - intros [x [Hin He]]. apply key_eqb_spec in He. subst. exact Hin.
  - intro Hin. exists k. split; [exact Hin | apply key_eqb_spec; reflexivity].
Qed.

Lemma nat_mem_spec : forall x l, nat_mem x l = true <-> In x l.
Proof.
  intros x l. unfold nat_mem. rewrite existsb_exists. split.
  - intros [y [Hin He]]. apply Nat.eqb_eq in He. subst. exact Hin.
  - intro Hin. exists x. split; [exact Hin | apply Nat.eqb_refl].
Qed.

Lemma nat_mem_false : forall x l, nat_mem x l = false <-> ~ In x l.
Proof.
  intros x l. rewrite <- nat_mem_spec. destruct (nat_mem x l); split; intro H.
  - discriminate.
  - exfalso. apply H. reflexivity.
  - intro H'. discriminate.
  - reflexivity.
Qed.

(* ------------------------------------------------------------------ d.find in one scope *)

Lemma find_td_none : forall l name, find_td l name = None <-> Forall (fun x => td_name x <> name) l.
Proof.
  induction l as [|a l IH]; intros name; cbn [find_td].
  - split; auto.
  - destruct (find_td l name) as [x|] eqn:E.
    + split; [discriminate|]. intro H. inversion H as [|? ? H2 H3]; subst. apply IH in H3. congruence.
    + destruct (String.eqb (td_name a) name) eqn:En.
      * split; [discriminate|]. intro H. inversion H as [|? ? H2 H3]; subst. apply String.eqb_eq in En. contradiction.
      * split; [|reflexivity]. intros _. constructor; [|apply IH; exact E].
        intro Hn. apply String.eqb_eq in Hn. congruence.
Qed.

Lemma find_td_app_hit : forall l1 td l2 name,
  td_name td = name -> Forall (fun x => td_name x <> name) l2 -> find_td (l1 ++ td :: l2) name = Some td.
Proof.
  induction l1 as [|b l1 IH]; intros td l2 name Hn Hf; cbn [app find_td].
  - apply find_td_none in Hf. rewrite Hf. apply String.eqb_eq in Hn. rewrite Hn. reflexivity.
  - rewrite (IH td l2 name Hn Hf). reflexivity.
Qed.

Lemma find_td_some : forall l name td,
  find_td l name = Some td <->
  exists l1 l2, l = l1 ++ td :: l2 /\ td_name td = name /\ Forall (fun x => td_name x <> name) l2.
Proof.
  intros l name td. split.
  - revert name td. induction l as [|a l IH]; intros name td; cbn [find_td]; [discriminate|].
    destruct (find_td l name) as [x|] eqn:E.
    + intro H. inversion H; subst x. destruct (IH name td E) as [l1 [l2 [H1 [H2 H3]]]].
      exists (a :: l1), l2. rewrite H1. auto.
    + destruct (String.eqb (td_name a) name) eqn:En; [|discriminate].
      intro H. inversion H; subst a. exists [], l. split; [reflexivity|]. split.
      * apply String.eqb_eq. exact En.
      * apply find_td_none. exact E.
  - intros [l1 [l2 [H1 [H2 H3]]]]. rewrite H1. apply find_td_app_hit; assumption.
Qed.

Lemma find_td_in : forall l name td, find_td l name = Some td -> In td l /\ td_name td = name.
Proof.
  intros l name td H. apply find_td_some in H. destruct H as [l1 [l2 [H1 [H2 _]]]]. subst l.
  split; [apply in_or_app; right; left; reflexivity | exact H2].
Qed.

Lemma declares_find : forall sc name td, declares sc name td <-> find_td (sc_typedefs sc) name = Some td.
Proof. intros. unfold declares. symmetry. apply find_td_some. Qed.

Lemma declares_none_find : forall sc name, declares_none sc name <-> find_td (sc_typedefs sc) name = None.
Proof. intros. unfold declares_none. symmetry. apply find_td_none. Qed.

Lemma declares_fun : forall sc name td td', declares sc name td -> declares sc name td' -> td = td'.
Proof. intros sc name td td' H H'. apply declares_find in H, H'. congruence. Qed.

(* ------------------------------------------------------------------ the ancestor walk *)

Lemma is_prefix_refl : forall p, is_prefix p p.
Proof. intro p. exists []. symmetry. apply app_nil_r. Qed.

Lemma is_prefix_snoc : forall q l a, is_prefix q (l ++ [a]) <-> q = l ++ [a] \/ is_prefix q l.
Proof.
  intros q l a. split.
  - intros [r Hr]. destruct (rev r) as [|x r'] eqn:E.
    + apply (f_equal (@rev nat)) in E. rewrite rev_involutive in E. cbn in E. subst r. rewrite app_nil_r in Hr. auto.
    + apply (f_equal (@rev nat)) in E. rewrite rev_involutive in E. cbn in E. subst r.
      rewrite app_assoc in Hr. apply app_inj_tail in Hr. destruct Hr as [Hr _]. right. exists (rev r'). exact Hr.
  - intros [H | [r Hr]].
    + subst. apply is_prefix_refl.
    + exists (r ++ [a]). subst l. rewrite app_assoc. reflexivity.
Qed.

Lemma is_prefix_nil : forall q, is_prefix q [] <-> q = [].
Proof.
  intro q. split.
  - intros [r Hr]. symmetry in Hr. apply app_eq_nil in Hr. tauto.
  - intro H. subst. apply is_prefix_refl.
Qed.

Lemma is_prefix_length : forall p q, is_prefix p q -> length p <= length q.
Proof. intros p q [r Hr]. subst. rewrite app_length. lia. Qed.

Lemma is_prefix_antisym : forall p q, is_prefix p q -> is_prefix q p -> p = q.
Proof.
  intros p q [r Hr] [r' Hr']. subst q. rewrite <- app_assoc in Hr'.
  rewrite <- (app_nil_r p) in Hr' at 1. apply app_inv_head in Hr'. symmetry in Hr'. apply app_eq_nil in Hr'.
  destruct Hr' as [H _]. subst. symmetry. apply app_nil_r.
Qed.

(* two prefixes of one path are comparable *)
Lemma is_prefix_total : forall p q l, is_prefix p l -> is_prefix q l -> is_prefix p q \/ is_prefix q p.
Proof.
  induction p as [|a p IH]; intros q l Hp Hq.
  - left. exists q. reflexivity.
  - destruct q as [|b q].
    + right. exists (a :: p). reflexivity.
    + destruct Hp as [r Hr], Hq as [r' Hr']. subst l. cbn in Hr'. inversion Hr'; subst b.
      destruct (IH q (p ++ r)) as [[x Hx] | [x Hx]].
      * exists r. reflexivity.
      * exists r'. exact H1.
      * left. exists x. cbn. congruence.
      * right. exists x. cbn. congruence.
Qed.

Lemma find_up_spec : forall top rp name,
  match find_up top rp name with
  | Some (q, td) =>
      is_prefix q (rev rp) /\ dict_find top q name = Some td /\
      (forall q', is_prefix q q' -> is_prefix q' (rev rp) -> q' <> q -> dict_find top q' name = None)
  | None => forall q, is_prefix q (rev rp) -> dict_find top q name = None
  end.
Proof.
  intros top rp name. induction rp as [|a r IH]; cbn [find_up].
  - cbn [rev]. destruct (dict_find top [] name) as [td|] eqn:E.
    + split; [apply is_prefix_refl|]. split; [exact E|].
      intros q' _ H2 Hn. apply is_prefix_nil in H2. contradiction.
    + intros q Hq. apply is_prefix_nil in Hq. subst. exact E.
  - destruct (dict_find top (rev (a :: r)) name) as [td|] eqn:E.
    + split; [apply is_prefix_refl|]. split; [exact E|].
      intros q' H1 H2 Hn. exfalso. apply Hn. apply is_prefix_antisym; assumption.
    + cbn [rev] in *. destruct (find_up top r name) as [[q td]|].
      * destruct IH as [I1 [I2 I3]]. split; [apply is_prefix_snoc; right; exact I1|]. split; [exact I2|].
        intros q' H1 H2 Hn. apply is_prefix_snoc in H2. destruct H2 as [H2 | H2].
        -- subst q'. exact E.
        -- apply I3; assumption.
      * intros q Hq. apply is_prefix_snoc in Hq. destruct Hq as [Hq | Hq].
        -- subst q. exact E.
        -- apply IH. exact Hq.
Qed.

(* ------------------------------------------------------------------ wholeModule *)

Definition whole_inv (S : schema) (done queue : list nat) : Prop :=
  forall a b, In a done -> In b (includes S a) -> In b done \/ In b queue.

Lemma includes_out_of_range : forall S m, length S <= m -> includes S m = [].
Proof. intros S m H. unfold includes. apply nth_error_None in H. rewrite H. reflexivity. Qed.

Lemma pending_add_gen : forall S done m l,
  ~ In m done -> NoDup l ->
  list_sum (map (fun x => if nat_mem x (done ++ [m]) then 0 else length (includes S x)) l)
  + (if in_dec Nat.eq_dec m l then length (includes S m) else 0)
  = list_sum (map (fun x => if nat_mem x done then 0 else length (includes S x)) l).
Proof.
  intros S done m l Hm. induction l as [|x l IH]; intro Hnd.
  - reflexivity.
  - inversion Hnd as [|? ? Hx Hnd']; subst. specialize (IH Hnd'). unfold list_sum in *. cbn [map fold_right].
    destruct (Nat.eq_dec x m) as [He | He].
    + subst x. destruct (in_dec Nat.eq_dec m (m :: l)) as [_ | Hc]; [|exfalso; apply Hc; left; reflexivity].
      revert IH. destruct (in_dec Nat.eq_dec m l) as [Hc | _]; [contradiction|]. intro IH.
      replace (nat_mem m (done ++ [m])) with true
        by (symmetry; apply nat_mem_spec; apply in_or_app; right; left; reflexivity).
      replace (nat_mem m done) with false by (symmetry; apply nat_mem_false; exact Hm).
      lia.
    + assert (Hsame : nat_mem x (done ++ [m]) = nat_mem x done).
      { destruct (nat_mem x done) eqn:E.
        - apply nat_mem_spec. apply nat_mem_spec in E. apply in_or_app. left. exact E.
        - apply nat_mem_false. apply nat_mem_false in E. intro H. apply in_app_or in H.
          destruct H as [H | [H | []]]; [contradiction | congruence]. }
      rewrite Hsame. revert IH.
      destruct (in_dec Nat.eq_dec m (x :: l)) as [Hi | Hi]; destruct (in_dec Nat.eq_dec m l) as [Hj | Hj]; intro IH.
      * lia.
      * exfalso. destruct Hi as [Hi | Hi]; [congruence | contradiction].
      * exfalso. apply Hi. right. exact Hj.
      * lia.
Qed.

Lemma pending_add : forall S done m,
  ~ In m done -> pending_includes S (done ++ [m]) + length (includes S m) = pending_includes S done.
Proof.
  intros S done m Hm. unfold pending_includes.
  pose proof (pending_add_gen S done m (seq 0 (length S)) Hm (seq_NoDup _ _)) as H.
  destruct (in_dec Nat.eq_dec m (seq 0 (length S))) as [Hi | Hi].
  - exact H.
  - assert (Hz : length (includes S m) = 0).
    { rewrite includes_out_of_range; [reflexivity|]. rewrite in_seq in Hi. lia. }
    rewrite Hz. lia.
Qed.

Lemma filter_length_le : forall {A} (f : A -> bool) l, length (filter f l) <= length l.
Proof. intros A f l. induction l as [|x l IH]; cbn; [lia|]. destruct (f x); cbn; lia. Qed.

(* with enough fuel the loop returns a list that contains its arguments and is closed under include *)
Lemma whole_loop_complete : forall S fuel done queue,
  length queue + pending_includes S done < fuel ->
  whole_inv S done queue ->
  let R := whole_loop S fuel done queue in
  incl done R /\ incl queue R /\ (forall a b, In a R -> In b (includes S a) -> In b R).
Proof.
  intros S fuel. induction fuel as [|f IH]; intros done queue Hf Hinv; [lia|].
  cbn [whole_loop]. destruct queue as [|m q].
  - cbn zeta. split; [apply incl_refl|]. split; [intros x []|].
    intros a b Ha Hb. destruct (Hinv a b Ha Hb) as [H | []]. exact H.
  - destruct (nat_mem m done) eqn:Em.
    + apply nat_mem_spec in Em.
      destruct (IH done q) as [I1 [I2 I3]].
      * cbn [length] in Hf. lia.
      * intros a b Ha Hb. destruct (Hinv a b Ha Hb) as [H | [H | H]]; auto. subst. auto.
      * cbn zeta. split; [exact I1|]. split; [|exact I3].
        intros x [Hx | Hx]; [subst; apply I1; exact Em | apply I2; exact Hx].
    + apply nat_mem_false in Em.
      set (q' := q ++ filter (fun x => negb (nat_mem x (done ++ [m]))) (includes S m)).
      destruct (IH (done ++ [m]) q') as [I1 [I2 I3]].
      * unfold q'. rewrite app_length. pose proof (filter_length_le (fun x => negb (nat_mem x (done ++ [m]))) (includes S m)).
        pose proof (pending_add S done m Em). cbn [length] in Hf. lia.
      * intros a b Ha Hb. apply in_app_or in Ha. destruct Ha as [Ha | [Ha | []]].
        -- destruct (Hinv a b Ha Hb) as [H | [H | H]].
           ++ left. apply in_or_app. left. exact H.
           ++ subst. left. apply in_or_app. right. left. reflexivity.
           ++ right. unfold q'. apply in_or_app. left. exact H.
        -- subst a. destruct (nat_mem b (done ++ [m])) eqn:Eb.
           ++ left. apply nat_mem_spec. exact Eb.
           ++ right. unfold q'. apply in_or_app. right. apply filter_In. split; [exact Hb|]. rewrite Eb. reflexivity.
      * cbn zeta. split; [intros x Hx; apply I1; apply in_or_app; left; exact Hx|]. split; [|exact I3].
        intros x [Hx | Hx].
        -- subst. apply I1. apply in_or_app. right. left. reflexivity.
        -- apply I2. unfold q'. apply in_or_app. left. exact Hx.
Qed.

Lemma whole_loop_sound : forall S root fuel done queue,
  (forall x, In x done -> in_whole S root x) -> (forall x, In x queue -> in_whole S root x) ->
  forall x, In x (whole_loop S fuel done queue) -> in_whole S root x.
Proof.
  intros S root fuel. induction fuel as [|f IH]; intros done queue Hd Hq x; cbn [whole_loop]; [apply Hd|].
  destruct queue as [|m q]; [apply Hd|].
  destruct (nat_mem m done).
  - apply IH; [exact Hd|]. intros y Hy. apply Hq. right. exact Hy.
  - apply IH.
    + intros y Hy. apply in_app_or in Hy. destruct Hy as [Hy | [Hy | []]]; [apply Hd; exact Hy|].
      subst. apply Hq. left. reflexivity.
    + intros y Hy. apply in_app_or in Hy. destruct Hy as [Hy | Hy].
      * apply Hq. right. exact Hy.
      * apply filter_In in Hy. destruct Hy as [Hy _]. apply W_incl with (a := m); [|exact Hy].
        apply Hq. left. reflexivity.
Qed.

Lemma owner_length : forall S m, length (owner S m) <= 1.
Proof.
  intros S m. unfold owner. destruct (nth_error S m) as [M|]; [|cbn; lia].
  destruct (m_sub M); [|cbn; lia]. destruct (find_mod S false (m_belongs M)); cbn; lia.
Qed.

(* wholeModule computes exactly the whole module of its argument *)
Theorem wholeModule_spec : forall S root x, In x (wholeModule S root) <-> in_whole S root x.
Proof.
  intros S root x. unfold wholeModule. split.
  - apply whole_loop_sound.
    + intros y [].
    + intros y [Hy | Hy]; [subst; apply W_self | apply W_owner; exact Hy].
  - intro H.
    destruct (whole_loop_complete S (whole_fuel S) [] (root :: owner S root)) as [_ [I2 I3]].
    + unfold whole_fuel. cbn [length]. pose proof (owner_length S root). lia.
    + intros a b [].
    + induction H as [| o Ho | a b Ha IHa Hb].
      * apply I2. left. reflexivity.
      * apply I2. right. exact Ho.
      * apply (I3 a b); assumption.
Qed.

(* ------------------------------------------------------------------ find_whole *)

Lemma find_whole_some : forall S mods name key td,
  find_whole S mods name = Some (key, td) ->
  exists m M, In m mods /\ key = (m, [], name) /\ nth_error S m = Some M /\ declares (m_top M) name td.
Proof.
  intros S mods name key td. induction mods as [|m r IH]; cbn [find_whole]; [discriminate|].
  unfold top_find. destruct (nth_error S m) as [M|] eqn:EM.
  - destruct (find_td (sc_typedefs (m_top M)) name) as [d|] eqn:E.
    + intro H. inversion H; subst. exists m, M. split; [left; reflexivity|]. split; [reflexivity|].
      split; [exact EM|]. apply declares_find. exact E.
    + intro H. destruct (IH H) as [m' [M' [H1 H2]]]. exists m', M'. split; [right; exact H1 | exact H2].
  - intro H. destruct (IH H) as [m' [M' [H1 H2]]]. exists m', M'. split; [right; exact H1 | exact H2].
Qed.

Lemma find_whole_none : forall S mods name,
  find_whole S mods name = None ->
  forall m M td, In m mods -> nth_error S m = Some M -> ~ declares (m_top M) name td.
Proof.
  intros S mods name. induction mods as [|a r IH]; cbn [find_whole]; [intros _ m M td []|].
  unfold top_find. destruct (nth_error S a) as [Ma|] eqn:EM.
  - destruct (find_td (sc_typedefs (m_top Ma)) name) as [d|] eqn:E; [discriminate|].
    intros H m M td [Hm | Hm] HM Hd.
    + subst m. rewrite EM in HM. inversion HM; subst. apply declares_find in Hd. congruence.
    + exact (IH H m M td Hm HM Hd).
  - intros H m M td [Hm | Hm] HM Hd.
    + subst m. congruence.
    + exact (IH H m M td Hm HM Hd).
Qed.

(* ------------------------------------------------------------------ T1: lexical binding *)

Lemma dict_find_declares : forall top q name td,
  dict_find top q name = Some td <-> exists sc, scope_at top q = Some sc /\ declares sc name td.
Proof.
  intros. unfold dict_find. destruct (scope_at top q) as [sc|].
  - rewrite <- declares_find. split; [intro H; exists sc; auto | intros [sc' [H1 H2]]; inversion H1; subst; exact H2].
  - split; [discriminate | intros [sc' [H1 _]]; discriminate].
Qed.

Lemma dict_find_none : forall top q name sc,
  dict_find top q name = None -> scope_at top q = Some sc -> declares_none sc name.
Proof.
  intros top q name sc H Hs. unfold dict_find in H. rewrite Hs in H. apply declares_none_find. exact H.
Qed.

Lemma find_local_sound : forall S st name key td,
  find_local S st name = Some (key, td) -> binds_local S st name key td.
Proof.
  intros S [mi p] name key td. unfold find_local. cbn [fst snd].
  destruct (nth_error S mi) as [M|] eqn:EM; [|discriminate].
  pose proof (find_up_spec (m_top M) (rev p) name) as Hup. rewrite rev_involutive in Hup.
  destruct (find_up (m_top M) (rev p) name) as [[q d]|].
  - intro H. inversion H; subst. destruct Hup as [U1 [U2 U3]].
    apply dict_find_declares in U2. destruct U2 as [sc [Hs Hd]].
    apply (BL_scope S (mi, p) name M q sc td); cbn [fst snd]; auto.
    intros q' sc' H1 H2 Hn Hs'. apply (dict_find_none (m_top M) q' name sc'); [apply U3; assumption | exact Hs'].
  - intro H. apply find_whole_some in H. destruct H as [m' [M' [Hin [Hk [HM' Hd]]]]]. subst key.
    apply (BL_module S (mi, p) name M m' M' td); cbn [fst snd]; auto.
    + intros q sc' Hq Hs'. apply (dict_find_none (m_top M) q name sc'); [apply Hup; exact Hq | exact Hs'].
    + apply wholeModule_spec. exact Hin.
Qed.

Lemma find_local_none : forall S st name,
  find_local S st name = None -> forall key td, ~ binds_local S st name key td.
Proof.
  intros S [mi p] name. unfold find_local. cbn [fst snd]. intros H key td Hb.
  inversion Hb as [M q sc d HM Hq Hs Hd Hnone | M m' M' d HM Hnone Hw HM' Hd]; subst; cbn [fst snd] in *;
    rewrite HM in H.
  - pose proof (find_up_spec (m_top M) (rev p) name) as Hup. rewrite rev_involutive in Hup.
    destruct (find_up (m_top M) (rev p) name) as [[q' d']|]; [discriminate|].
    specialize (Hup q Hq). assert (Hsome : dict_find (m_top M) q name = Some td).
    { apply dict_find_declares. exists sc. auto. }
    congruence.
  - destruct (find_up (m_top M) (rev p) name) as [[q' d']|]; [discriminate|].
    apply wholeModule_spec in Hw. exact (find_whole_none S _ name H m' M' td Hw HM' Hd).
Qed.

Lemma findExternal_sound : forall S m pfx name key td,
  findExternal S m pfx name = Some (key, td) -> pfx <> "" -> pfx <> prefix_of S m ->
  exists root m' M', imported S m pfx root /\ in_whole S root m' /\ nth_error S m' = Some M' /\
                     declares (m_top M') name td /\ key = (m', [], name).
Proof.
  intros S m pfx name key td. unfold findExternal, FindModuleByPrefix, prefix_of.
  destruct (nth_error S m) as [M|] eqn:EM; [|discriminate].
  intros H Hne Hown.
  assert (E1 : String.eqb pfx "" = false) by (apply String.eqb_neq; exact Hne).
  assert (E2 : String.eqb pfx (m_prefix M) = false) by (apply String.eqb_neq; exact Hown).
  rewrite E1, E2 in H. cbn [orb] in H.
  destruct (assoc_first pfx (m_imports M)) as [n|] eqn:Ea; [|discriminate].
  destruct (FindModule S false n) as [root|] eqn:Er; [|discriminate].
  apply find_whole_some in H. destruct H as [m' [M' [Hin [Hk [HM' Hd]]]]].
  exists root, m', M'. split; [exists M, n; auto|]. split; [apply wholeModule_spec; exact Hin|]. auto.
Qed.

Lemma findExternal_none : forall S m pfx name,
  findExternal S m pfx name = None -> pfx <> "" -> pfx <> prefix_of S m ->
  forall root m' M' td, imported S m pfx root -> in_whole S root m' -> nth_error S m' = Some M' ->
                        ~ declares (m_top M') name td.
Proof.
  intros S m pfx name. unfold findExternal, FindModuleByPrefix, prefix_of.
  intros H Hne Hown root m' M' td [M [n [HM [Ha Hr]]]] Hw HM' Hd. rewrite HM in *.
  assert (E1 : String.eqb pfx "" = false) by (apply String.eqb_neq; exact Hne).
  assert (E2 : String.eqb pfx (m_prefix M) = false) by (apply String.eqb_neq; exact Hown).
  rewrite E1, E2 in H. cbn [orb] in H. rewrite Ha, Hr in H.
  apply wholeModule_spec in Hw. exact (find_whole_none S _ name H m' M' td Hw HM' Hd).
Qed.

Lemma lookup_cases : forall S st tname,
  match base_kind tname with
  | Some k => lookup_type S st tname = LBuiltin k
  | None =>
      let pfx := fst (getPrefix tname) in
      let name := snd (getPrefix tname) in
      if String.eqb pfx "" || String.eqb (prefix_of S (fst st)) pfx
      then lookup_type S st tname =
           match find_local S st name with Some (key, td) => LFound key td | None => LNone end
      else lookup_type S st tname =
           match findExternal S (fst st) pfx name with Some (key, td) => LFound key td | None => LNone end
  end.
Proof.
  intros S st tname. unfold lookup_type. destruct (base_kind tname); [reflexivity|].
  destruct (getPrefix tname) as [pfx name]. cbn [fst snd].
  destruct (String.eqb pfx "" || String.eqb (prefix_of S (fst st)) pfx); reflexivity.
Qed.

Lemma local_cond : forall pfx own,
  String.eqb pfx "" || String.eqb own pfx = true <-> pfx = "" \/ pfx = own.
Proof.
  intros. rewrite orb_true_iff, !String.eqb_eq. split; intros [H | H]; auto.
Qed.

(* the typedef the lookup returns is one the reference binds *)
Theorem lookup_sound : forall S st tname key td,
  lookup_type S st tname = LFound key td -> binds S st tname key td.
Proof.
  intros S st tname key td H. pose proof (lookup_cases S st tname) as Hc.
  destruct (base_kind tname) as [k|] eqn:Eb; [congruence|]. cbn zeta in Hc.
  destruct (getPrefix tname) as [pfx name] eqn:Eg. cbn [fst snd] in Hc.
  destruct (String.eqb pfx "" || String.eqb (prefix_of S (fst st)) pfx) eqn:Ec.
  - apply local_cond in Ec. rewrite Hc in H.
    destruct (find_local S st name) as [[k' d']|] eqn:El; [|discriminate]. inversion H; subst.
    eapply B_local; eauto. apply find_local_sound. exact El.
  - rewrite Hc in H. destruct (findExternal S (fst st) pfx name) as [[k' d']|] eqn:Ee; [|discriminate].
    inversion H; subst.
    assert (Hn : ~ (pfx = "" \/ pfx = prefix_of S (fst st))).
    { intro Hx. apply local_cond in Hx. congruence. }
    destruct (findExternal_sound S (fst st) pfx name key td Ee) as [root [m' [M' [H1 [H2 [H3 [H4 H5]]]]]]].
    + intro Hx. apply Hn. left. exact Hx.
    + intro Hx. apply Hn. right. exact Hx.
    + subst key. eapply B_foreign; eauto.
Qed.

Theorem lookup_builtin : forall S st tname k,
  lookup_type S st tname = LBuiltin k <-> base_kind tname = Some k.
Proof.
  intros S st tname k. pose proof (lookup_cases S st tname) as Hc.
  destruct (base_kind tname) as [k'|] eqn:Eb.
  - rewrite Hc. split; intro H; inversion H; reflexivity.
  - split; [|discriminate]. intro H. cbn zeta in Hc.
    destruct (String.eqb (fst (getPrefix tname)) "" || String.eqb (prefix_of S (fst st)) (fst (getPrefix tname)));
      rewrite Hc in H.
    + destruct (find_local S st (snd (getPrefix tname))) as [[? ?]|]; discriminate.
    + destruct (findExternal S (fst st) (fst (getPrefix tname)) (snd (getPrefix tname))) as [[? ?]|]; discriminate.
Qed.

(* the lookup fails exactly when the name is not built in and binds nothing *)
Theorem lookup_none : forall S st tname,
  lookup_type S st tname = LNone <-> base_kind tname = None /\ forall key td, ~ binds S st tname key td.
Proof.
  intros S st tname. pose proof (lookup_cases S st tname) as Hc. split.
  - intro H. destruct (base_kind tname) as [k|] eqn:Eb; [congruence|]. split; [reflexivity|].
    cbn zeta in Hc. destruct (getPrefix tname) as [pfx name] eqn:Eg. cbn [fst snd] in Hc.
    intros key td Hb.
    destruct (String.eqb pfx "" || String.eqb (prefix_of S (fst st)) pfx) eqn:Ec; rewrite Hc in H.
    + destruct (find_local S st name) as [[k' d']|] eqn:El; [discriminate|].
      inversion Hb as [pfx' name' key' td' _ Hg' Hor Hl | pfx' name' root m' M' td' _ Hg' Hne Hown Him Hw HM Hd].
      * rewrite Eg in Hg'. injection Hg' as Hp' Hn'. subst pfx' name'. exact (find_local_none S st name El key td Hl).
      * rewrite Eg in Hg'. injection Hg' as Hp' Hn'. subst pfx' name'. apply local_cond in Ec. destruct Ec; contradiction.
    + destruct (findExternal S (fst st) pfx name) as [[k' d']|] eqn:Ee; [discriminate|].
      assert (Hn : ~ (pfx = "" \/ pfx = prefix_of S (fst st))).
      { intro Hx. apply local_cond in Hx. congruence. }
      inversion Hb as [pfx' name' key' td' _ Hg' Hor Hl | pfx' name' root m' M' td' _ Hg' Hne Hown Him Hw HM Hd].
      * rewrite Eg in Hg'. injection Hg' as Hp' Hn'. subst pfx' name'. contradiction.
      * rewrite Eg in Hg'. injection Hg' as Hp' Hn'. subst pfx' name'.
        exact (findExternal_none S (fst st) pfx name Ee Hne Hown root m' M' td Him Hw HM Hd).
  - intros [Eb Hnone]. rewrite Eb in Hc. cbn zeta in Hc.
    destruct (lookup_type S st tname) as [k | key td |] eqn:El; [| |reflexivity].
    + apply lookup_builtin in El. congruence.
    + exfalso. apply (Hnone key td). apply lookup_sound. exact El.
Qed.

Theorem lookup_complete : forall S st tname key td,
  binds S st tname key td -> exists key' td', lookup_type S st tname = LFound key' td'.
Proof.
  intros S st tname key td Hb. destruct (lookup_type S st tname) as [k | key' td' |] eqn:El.
  - apply lookup_builtin in El. inversion Hb; congruence.
  - eauto.
  - apply lookup_none in El. destruct El as [_ Hn]. exfalso. exact (Hn key td Hb).
Qed.

(* under unique top-level names binds is a function *)
Lemma binds_local_fun : forall S st name key td key' td',
  unique_top S -> binds_local S st name key td -> binds_local S st name key' td' -> key = key' /\ td = td'.
Proof.
  intros S st name key td key' td' Hu H H'.
  inversion H as [M p sc d HM Hp Hs Hd Hnone | M m1 M1 d HM Hnone Hw HM1 Hd]; subst;
  inversion H' as [M' p' sc' d' HM' Hp' Hs' Hd' Hnone' | M' m2 M2 d' HM' Hnone' Hw' HM2 Hd']; subst;
  rewrite HM in HM'; inversion HM'; subst M'.
  - assert (p = p').
    { destruct (is_prefix_total p p' (snd st) Hp Hp') as [Hpp | Hpp].
      - destruct (list_eq_dec Nat.eq_dec p' p) as [e | ne]; [auto|].
        exfalso. pose proof (Hnone p' sc' Hpp Hp' ne Hs') as Hx. apply declares_none_find in Hx.
        apply declares_find in Hd'. congruence.
      - destruct (list_eq_dec Nat.eq_dec p p') as [e | ne]; [auto|].
        exfalso. pose proof (Hnone' p sc Hpp Hp ne Hs) as Hx. apply declares_none_find in Hx.
        apply declares_find in Hd. congruence. }
    subst p'. rewrite Hs in Hs'. inversion Hs'; subst sc'. split; [reflexivity | eapply declares_fun; eauto].
  - exfalso. pose proof (Hnone' p sc Hp Hs) as Hx. apply declares_none_find in Hx. apply declares_find in Hd. congruence.
  - exfalso. pose proof (Hnone p' sc' Hp' Hs') as Hx. apply declares_none_find in Hx. apply declares_find in Hd'.
    congruence.
  - assert (m1 = m2) by (eapply (Hu (fst st) m1 m2); eauto). subst m2.
    rewrite HM1 in HM2. inversion HM2; subst M2. split; [reflexivity | eapply declares_fun; eauto].
Qed.

Theorem binds_functional : forall S st tname key td key' td',
  unique_top S -> binds S st tname key td -> binds S st tname key' td' -> key = key' /\ td = td'.
Proof.
  intros S st tname key td key' td' Hu H H'.
  inversion H as [pfx name k d Hb Hg Hor Hl | pfx name root m1 M1 d Hb Hg Hne Hown Him Hw HM Hd]; subst;
  inversion H' as [pfx' name' k' d' Hb' Hg' Hor' Hl' | pfx' name' root' m2 M2 d' Hb' Hg' Hne' Hown' Him' Hw' HM' Hd'];
    subst; rewrite Hg in Hg'; inversion Hg'; subst pfx' name'.
  - eapply binds_local_fun; eauto.
  - exfalso. destruct Hor; contradiction.
  - exfalso. destruct Hor'; contradiction.
  - assert (root = root').
    { destruct Him as [M [n [A1 [A2 A3]]]], Him' as [M' [n' [B1 [B2 B3]]]]. congruence. }
    subst root'. assert (m1 = m2) by (eapply (Hu root m1 m2); eauto). subst m2.
    rewrite HM in HM'. inversion HM'; subst M2. split; [reflexivity | eapply declares_fun; eauto].
Qed.

Theorem lookup_exact : forall S st tname key td,
  unique_top S -> (lookup_type S st tname = LFound key td <-> binds S st tname key td).
Proof.
  intros S st tname key td Hu. split; [apply lookup_sound|].
  intro Hb. destruct (lookup_complete S st tname key td Hb) as [key' [td' Hl]].
  pose proof (lookup_sound S st tname key' td' Hl) as Hb'.
  destruct (binds_functional S st tname key td key' td' Hu Hb Hb'). subst. exact Hl.
Qed.

(* ------------------------------------------------------------------ outcomes *)

Definition clean {A} (o : outcome A) : Prop := o <> Panic /\ o <> Unmodelled.

Lemma clean_bind : forall {A B} (a : outcome A) (f : A -> outcome B),
  clean a -> (forall v, clean (f v)) -> clean (obind a f).
Proof.
  intros A B a f [H1 H2] Hf. destruct a; cbn [obind]; [apply Hf | split; discriminate | congruence | congruence].
Qed.

Lemma clean_ok : forall {A} (v : A), clean (Ok v).
Proof. intros. split; discriminate. Qed.
Lemma clean_err : forall {A}, clean (@Err A).
Proof. intros. split; discriminate. Qed.

Lemma bind_ok : forall {A B} (a : outcome A) (f : A -> outcome B) y,
  obind a f = Ok y -> exists v, a = Ok v /\ f v = Ok y.
Proof. intros A B a f y H. destruct a; cbn [obind] in H; try discriminate. eauto. Qed.

(* ------------------------------------------------------------------ the shape of resolve_ty *)

Definition resolve_members (S : schema) (rec_td : list tdkey -> tdkey -> typedef -> outcome yangtype)
  (marks : list tdkey) (st : site) : list tref -> outcome (list yangtype) :=
  fix go (l : list tref) : outcome (list yangtype) :=
    match l with
    | [] => Ok []
    | u :: r => yu <- resolve_ty S rec_td marks st u ;; ys <- go r ;; Ok (yu :: ys)
    end.

Lemma resolve_ty_eq : forall S rec_td marks st t,
  resolve_ty S rec_td marks st t =
  match lookup_type S st (t_name t) with
  | LNone => Err
  | LBuiltin k =>
      y <- use_local t true (base_type k) ;;
      ms <- resolve_members S rec_td marks st (t_members t) ;;
      Ok (set_union y (add_members (y_union y) ms))
  | LFound key td =>
      b <- rec_td marks key td ;;
      y <- use_local t false b ;;
      ms <- resolve_members S rec_td marks st (t_members t) ;;
      Ok (set_union y (add_members (y_union y) ms))
  end.
Proof. intros. destruct t. reflexivity. Qed.

Lemma resolve_members_cons : forall S rec_td marks st u r,
  resolve_members S rec_td marks st (u :: r) =
  (yu <- resolve_ty S rec_td marks st u ;; ys <- resolve_members S rec_td marks st r ;; Ok (yu :: ys)).
Proof. reflexivity. Qed.

Fixpoint tref_ind' (P : tref -> Prop)
  (H : forall n fd r l ps es bs pa ib ms, Forall P ms -> P (TRef n fd r l ps es bs pa ib ms)) (t : tref) : P t :=
  match t with
  | TRef n fd r l ps es bs pa ib ms =>
      H n fd r l ps es bs pa ib ms
        ((fix go (l : list tref) : Forall P l :=
            match l with
            | [] => Forall_nil P
            | u :: r => Forall_cons u (tref_ind' P H u) (go r)
            end) ms)
  end.

Lemma resolve_members_ok : forall S rec_td marks st l ms,
  resolve_members S rec_td marks st l = Ok ms ->
  Forall2 (fun u yu => resolve_ty S rec_td marks st u = Ok yu) l ms.
Proof.
  intros S rec_td marks st. induction l as [|u r IH]; intros ms H.
  - cbn in H. inversion H. constructor.
  - rewrite resolve_members_cons in H. apply bind_ok in H. destruct H as [yu [H1 H]].
    apply bind_ok in H. destruct H as [ys [H2 H]]. inversion H; subst. constructor; [exact H1 | apply IH; exact H2].
Qed.

Lemma resolve_members_of_forall2 : forall S rec_td marks st l ms,
  Forall2 (fun u yu => resolve_ty S rec_td marks st u = Ok yu) l ms ->
  resolve_members S rec_td marks st l = Ok ms.
Proof.
  intros S rec_td marks st l ms H. induction H as [|u yu r ys H1 H2 IH].
  - reflexivity.
  - rewrite resolve_members_cons, H1. cbn [obind]. rewrite IH. reflexivity.
Qed.

(* ------------------------------------------------------------------ T4: no panic; T3: the fuel suffices *)

Ltac clean_tac :=
  repeat (cbv zeta;
          match goal with
          | |- clean (obind _ _) => apply clean_bind; [|intro]
          | |- clean (Ok _) => apply clean_ok
          | |- clean Err => apply clean_err
          | |- clean (match ?x with _ => _ end) => destruct x
          end).

Lemma use_local_clean : forall t bi b, clean (use_local t bi b).
Proof. intros. unfold use_local. clean_tac. Qed.

Lemma resolve_ty_clean : forall S rec_td marks,
  (forall key td, In key (all_keys S) -> clean (rec_td marks key td)) ->
  (forall st tn key td, lookup_type S st tn = LFound key td -> In key (all_keys S)) ->
  forall t st, clean (resolve_ty S rec_td marks st t).
Proof.
  intros S rec_td marks Hrec Hvalid. induction t as [n fd r l ps es bs pa ib ms IH] using tref_ind'. intro st.
  assert (Hms : clean (resolve_members S rec_td marks st ms)).
  { induction IH as [|u rest Hu _ IHr].
    - apply clean_ok.
    - rewrite resolve_members_cons. apply clean_bind; [apply Hu|]. intro. apply clean_bind; [exact IHr|]. intro.
      apply clean_ok. }
  rewrite resolve_ty_eq. cbn [t_name t_members].
  destruct (lookup_type S st n) as [k | key td |] eqn:El.
  - apply clean_bind; [apply use_local_clean|]. intro. apply clean_bind; [exact Hms|]. intro. apply clean_ok.
  - apply clean_bind; [apply Hrec; eapply Hvalid; exact El|]. intro.
    apply clean_bind; [apply use_local_clean|]. intro. apply clean_bind; [exact Hms|]. intro. apply clean_ok.
  - apply clean_err.
Qed.

(* enumeration of scopes: every scope reached by a path is listed *)
Definition kids_scopes (p : path) : nat -> list scope -> list (path * scope) :=
  fix go (i : nat) (l : list scope) : list (path * scope) :=
    match l with
    | [] => []
    | c :: r => all_scopes (p ++ [i]) c ++ go (Datatypes.S i) r
    end.

Lemma all_scopes_eq : forall p sc,
  all_scopes p sc = (p, sc) :: kids_scopes p 0 (sc_kids sc).
Proof. intros p sc. destruct sc. reflexivity. Qed.

Lemma kids_scopes_in : forall p l i j c x,
  nth_error l i = Some c -> In x (all_scopes (p ++ [j + i]) c) -> In x (kids_scopes p j l).
Proof.
  intros p. induction l as [|a l IH]; intros i j c x Hn Hx.
  - destruct i; discriminate.
  - destruct i as [|i]; cbn [nth_error] in Hn.
    + inversion Hn; subst. cbn [kids_scopes]. apply in_or_app. left. rewrite Nat.add_0_r in Hx. exact Hx.
    + cbn [kids_scopes]. apply in_or_app. right. apply (IH i (Datatypes.S j) c x Hn).
      replace (Datatypes.S j + i) with (j + Datatypes.S i) by lia. exact Hx.
Qed.

Lemma scope_at_listed : forall q sc0 p sc,
  scope_at sc0 q = Some sc -> In (p ++ q, sc) (all_scopes p sc0).
Proof.
  induction q as [|i r IH]; intros sc0 p sc H.
  - cbn in H. inversion H; subst. rewrite app_nil_r. rewrite all_scopes_eq. left. reflexivity.
  - cbn [scope_at] in H. destruct (nth_error (sc_kids sc0) i) as [c|] eqn:En; [|discriminate].
    rewrite all_scopes_eq. right. apply (kids_scopes_in p (sc_kids sc0) i 0 c _ En).
    cbn [plus]. replace (p ++ i :: r) with ((p ++ [i]) ++ r) by (rewrite <- app_assoc; reflexivity).
    apply IH. exact H.
Qed.

Lemma index_from_in : forall {A} (l : list A) i j x, nth_error l i = Some x -> In (j + i, x) (index_from j l).
Proof.
  intros A. induction l as [|a l IH]; intros i j x H.
  - destruct i; discriminate.
  - destruct i as [|i]; cbn [nth_error] in H.
    + inversion H; subst. rewrite Nat.add_0_r. left. reflexivity.
    + right. replace (j + Datatypes.S i) with (Datatypes.S j + i) by lia. apply IH. exact H.
Qed.

Lemma key_listed : forall S mi M q sc name td,
  nth_error S mi = Some M -> scope_at (m_top M) q = Some sc -> find_td (sc_typedefs sc) name = Some td ->
  In (mi, q, name) (all_keys S).
Proof.
  intros S mi M q sc name td HM Hs Hf. unfold all_keys. apply in_flat_map.
  exists ((mi, q), sc). split.
  - unfold schema_scopes. apply in_flat_map. exists (mi, M). split.
    + apply (index_from_in S mi 0 M HM).
    + cbn [fst snd]. apply in_map_iff. exists (q, sc). split; [reflexivity|].
      apply (scope_at_listed q (m_top M) [] sc Hs).
  - cbn [fst snd]. apply find_td_in in Hf. destruct Hf as [Hin Hn]. apply in_map_iff. exists td.
    split; [rewrite Hn; reflexivity | exact Hin].
Qed.

Lemma find_whole_valid : forall S mods name key td,
  find_whole S mods name = Some (key, td) -> In key (all_keys S).
Proof.
  intros S mods name key td. induction mods as [|m r IH]; cbn [find_whole]; [discriminate|].
  unfold top_find. destruct (nth_error S m) as [M|] eqn:EM; [|exact IH].
  destruct (find_td (sc_typedefs (m_top M)) name) as [d|] eqn:E; [|exact IH].
  intro H. inversion H; subst. eapply key_listed; [exact EM | reflexivity | exact E].
Qed.

Lemma lookup_valid : forall S st tn key td, lookup_type S st tn = LFound key td -> In key (all_keys S).
Proof.
  intros S st tn key td H. pose proof (lookup_cases S st tn) as Hc.
  destruct (base_kind tn); [congruence|]. cbn zeta in Hc.
  destruct (String.eqb (fst (getPrefix tn)) "" || String.eqb (prefix_of S (fst st)) (fst (getPrefix tn)));
    rewrite Hc in H; clear Hc.
  - destruct (find_local S st (snd (getPrefix tn))) as [[k d]|] eqn:El; [|discriminate]. inversion H; subst.
    unfold find_local in El. destruct (nth_error S (fst st)) as [M|] eqn:EM; [|discriminate].
    pose proof (find_up_spec (m_top M) (rev (snd st)) (snd (getPrefix tn))) as Hup.
    destruct (find_up (m_top M) (rev (snd st)) (snd (getPrefix tn))) as [[q d]|].
    + inversion El; subst. destruct Hup as [_ [U2 _]]. unfold dict_find in U2.
      destruct (scope_at (m_top M) q) as [sc|] eqn:Es; [|discriminate].
      eapply key_listed; eauto.
    + eapply find_whole_valid. exact El.
  - destruct (findExternal S (fst st) (fst (getPrefix tn)) (snd (getPrefix tn))) as [[k d]|] eqn:Ee; [|discriminate].
    inversion H; subst. unfold findExternal in Ee.
    destruct (FindModuleByPrefix S (fst st) (fst (getPrefix tn))); [|discriminate].
    eapply find_whole_valid. exact Ee.
Qed.

Lemma resolve_td_clean : forall S f marks,
  NoDup marks -> incl marks (all_keys S) -> count_typedefs S < f + length marks ->
  forall key td, In key (all_keys S) -> clean (resolve_td S f marks key td).
Proof.
  intros S. induction f as [|f IH]; intros marks Hnd Hincl Hlt key td Hkey.
  - exfalso. pose proof (NoDup_incl_length Hnd Hincl) as Hle. unfold count_typedefs in Hlt. lia.
  - cbn [resolve_td]. destruct (key_mem key marks) eqn:Em; [apply clean_err|].
    assert (Hnin : ~ In key marks).
    { intro Hin. apply key_mem_spec in Hin. congruence. }
    apply clean_bind; [|intro; apply clean_ok].
    apply resolve_ty_clean; [|apply lookup_valid].
    intros key' td' Hk'. apply IH.
    + constructor; assumption.
    + intros x [Hx | Hx]; [subst; exact Hkey | apply Hincl; exact Hx].
    + cbn [length]. lia.
    + exact Hk'.
Qed.

(* T3/T4: with number-of-typedefs + 1 fuel the resolver neither runs out of fuel nor panics *)
Theorem resolve_total : forall S fuel st t,
  count_typedefs S < fuel -> clean (resolve_type S fuel st t).
Proof.
  intros S fuel st t Hf. unfold resolve_type. apply resolve_ty_clean; [|apply lookup_valid].
  intros key td Hk. apply resolve_td_clean; [constructor | intros x [] | cbn [length]; lia | exact Hk].
Qed.

(* no Panic for any fuel *)
Lemma resolve_ty_no_panic : forall S rec_td marks,
  (forall key td, rec_td marks key td <> Panic) -> forall t st, resolve_ty S rec_td marks st t <> Panic.
Proof.
  intros S rec_td marks Hrec. induction t as [n fd r l ps es bs pa ib ms IH] using tref_ind'. intro st.
  assert (Hms : resolve_members S rec_td marks st ms <> Panic).
  { induction IH as [|u rest Hu _ IHr].
    - discriminate.
    - rewrite resolve_members_cons. specialize (Hu st). destruct (resolve_ty S rec_td marks st u); cbn [obind]; try congruence.
      destruct (resolve_members S rec_td marks st rest); cbn [obind]; congruence. }
  rewrite resolve_ty_eq. cbn [t_name t_members].
  pose proof (use_local_clean (TRef n fd r l ps es bs pa ib ms)) as Hul.
  destruct (lookup_type S st n) as [k | key td |]; [| |discriminate].
  - destruct (Hul true (base_type k)) as [Hp _]. destruct (use_local _ true _); cbn [obind]; try congruence.
    destruct (resolve_members S rec_td marks st ms); cbn [obind]; congruence.
  - specialize (Hrec key td). destruct (rec_td marks key td) as [b| | |]; cbn [obind]; try congruence.
    destruct (Hul false b) as [Hp _]. destruct (use_local _ false b); cbn [obind]; try congruence.
    destruct (resolve_members S rec_td marks st ms); cbn [obind]; congruence.
Qed.

Lemma resolve_td_no_panic : forall S f marks key td, resolve_td S f marks key td <> Panic.
Proof.
  intros S. induction f as [|f IH]; intros marks key td; cbn [resolve_td]; [discriminate|].
  destruct (key_mem key marks); [discriminate|].
  pose proof (resolve_ty_no_panic S (resolve_td S f) (key :: marks) (fun k d => IH (key :: marks) k d)
                (td_type td) (site_of key)) as H.
  destruct (resolve_ty S (resolve_td S f) (key :: marks) (site_of key) (td_type td)); cbn [obind]; congruence.
Qed.

Theorem resolve_no_panic : forall S fuel st t, resolve_type S fuel st t <> Panic.
Proof.
  intros. unfold resolve_type. apply resolve_ty_no_panic. intros. apply resolve_td_no_panic.
Qed.

(* ------------------------------------------------------------------ monotonicity: marks and fuel *)

Lemma resolve_ty_mono : forall S rec1 rec2 m1 m2,
  (forall key td y, rec1 m1 key td = Ok y -> rec2 m2 key td = Ok y) ->
  forall t st y, resolve_ty S rec1 m1 st t = Ok y -> resolve_ty S rec2 m2 st t = Ok y.
Proof.
  intros S rec1 rec2 m1 m2 Hrec. induction t as [n fd r l ps es bs pa ib ms IH] using tref_ind'. intros st y.
  assert (Hms : forall ys, resolve_members S rec1 m1 st ms = Ok ys -> resolve_members S rec2 m2 st ms = Ok ys).
  { induction IH as [|u rest Hu _ IHr]; intros ys H.
    - exact H.
    - rewrite resolve_members_cons in *. apply bind_ok in H. destruct H as [yu [H1 H]].
      apply bind_ok in H. destruct H as [ys' [H2 H]]. rewrite (Hu st yu H1). cbn [obind].
      rewrite (IHr ys' H2). exact H. }
  rewrite !resolve_ty_eq. cbn [t_name t_members].
  destruct (lookup_type S st n) as [k | key td |]; [| |discriminate].
  - intro H. apply bind_ok in H. destruct H as [y1 [H1 H]]. apply bind_ok in H. destruct H as [ys [H2 H]].
    rewrite H1. cbn [obind]. rewrite (Hms ys H2). exact H.
  - intro H. apply bind_ok in H. destruct H as [b [H0 H]]. apply bind_ok in H. destruct H as [y1 [H1 H]].
    apply bind_ok in H. destruct H as [ys [H2 H]].
    rewrite (Hrec key td b H0). cbn [obind]. rewrite H1. cbn [obind]. rewrite (Hms ys H2). exact H.
Qed.

Lemma resolve_td_mono : forall S f1 f2 m1 m2,
  f1 <= f2 -> (forall k, key_mem k m2 = true -> key_mem k m1 = true) ->
  forall key td y, resolve_td S f1 m1 key td = Ok y -> resolve_td S f2 m2 key td = Ok y.
Proof.
  intros S. induction f1 as [|f1 IH]; intros f2 m1 m2 Hle Hsub key td y H; [discriminate|].
  destruct f2 as [|f2]; [lia|]. cbn [resolve_td] in *.
  destruct (key_mem key m1) eqn:E1; [discriminate|].
  destruct (key_mem key m2) eqn:E2; [rewrite (Hsub key E2) in E1; discriminate|].
  apply bind_ok in H. destruct H as [y0 [H0 H]].
  rewrite (resolve_ty_mono S (resolve_td S f1) (resolve_td S f2) (key :: m1) (key :: m2)) with (y := y0).
  - exact H.
  - intros k d y' Hy'. apply (IH f2 (key :: m1) (key :: m2)); [lia| |exact Hy'].
    intros k' Hk'. unfold key_mem in *. cbn [existsb] in *. apply orb_true_iff in Hk'. apply orb_true_iff.
    destruct Hk' as [Hk' | Hk']; [left; exact Hk' | right; apply Hsub; exact Hk'].
  - exact H0.
Qed.

(* a success does not depend on the resolving marks, and survives more fuel *)
Theorem resolve_marks_irrelevant : forall S f F marks st t y,
  f <= F -> resolve_ty S (resolve_td S f) marks st t = Ok y -> resolve_type S F st t = Ok y.
Proof.
  intros S f F marks st t y Hle H. unfold resolve_type.
  apply (resolve_ty_mono S (resolve_td S f) (resolve_td S F) marks []); [|exact H].
  intros key td y' Hy'. apply (resolve_td_mono S f F marks []); [exact Hle | intros k Hk; discriminate | exact Hy'].
Qed.

(* ------------------------------------------------------------------ T2: what a successful resolution returns *)

(* use_local without its error checks *)
Definition pure_fd (t : tref) (bi : bool) (y : yangtype) : yangtype :=
  let y := match t_fd t with Some i => set_fd y i | None => y end in
  if kind_eqb (y_kind y) Yidentityref && bi then set_idbase y (t_idbase t) else y.

Definition use_pure (t : tref) (bi : bool) (b : yangtype) : yangtype :=
  let y := match t_path t with Some p => set_path b p | None => b end in
  let y := pure_fd t bi y in
  let y := match t_range t with Some r => set_range y (Some r) | None => y end in
  let y := match t_length t with Some r => set_length y (Some r) | None => y end in
  let y := match t_enums t with [] => y | l => set_enum y (Some l) end in
  let y := match t_bits t with [] => y | l => set_bit y (Some l) end in
  set_patterns y (add_patterns (y_patterns y) (t_patterns t)).

(* the phases of use_local *)
Definition phase_fd (t : tref) (builtin : bool) (y : yangtype) : outcome yangtype :=
  let isDecimal64 := kind_eqb (y_kind y) Ydecimal64 && (String.eqb (t_name t) "decimal64" || negb (N.eqb (y_fd y) 0)) in
  if isDecimal64 && negb (N.eqb (y_fd y) 0) then
    match t_fd t with Some _ => Err | None => Ok y end
  else if isDecimal64 then
    match t_fd t with
    | Some i => if N.leb 1 i && N.leb i 18 then Ok (set_fd y i) else Err
    | None => Err
    end
  else match t_fd t with
       | Some _ => Err
       | None =>
           if kind_eqb (y_kind y) Yidentityref && builtin then
             match t_idbase t with Some i => Ok (set_idbase y (Some i)) | None => Err end
           else Ok y
       end.
Definition phase_enum (t : tref) (y : yangtype) : outcome yangtype :=
  match t_enums t with
  | [] => Ok y
  | l => if nodup_names l then Ok (set_enum y (Some l)) else Err
  end.
Definition phase_bit (t : tref) (y : yangtype) : outcome yangtype :=
  match t_bits t with
  | [] => Ok y
  | l => if nodup_names l then Ok (set_bit y (Some l)) else Err
  end.

Lemma use_local_eq : forall t bi b,
  use_local t bi b =
  (y <- phase_fd t bi (match t_path t with Some p => set_path b p | None => b end) ;;
   y <- phase_enum t (match t_length t with Some r => set_length (match t_range t with Some r => set_range y (Some r) | None => y end) (Some r)
                      | None => (match t_range t with Some r => set_range y (Some r) | None => y end) end) ;;
   y <- phase_bit t y ;;
   Ok (set_patterns y (add_patterns (y_patterns y) (t_patterns t)))).
Proof. reflexivity. Qed.

Lemma kind_dec_not_idref : forall k, kind_eqb k Ydecimal64 = true -> kind_eqb k Yidentityref = false.
Proof. destruct k; cbn; intro H; try reflexivity; discriminate H. Qed.

Lemma phase_fd_pure : forall t bi y y', phase_fd t bi y = Ok y' -> y' = pure_fd t bi y.
Proof.
  intros t bi y y'. unfold phase_fd, pure_fd. cbv zeta.
  pose proof (kind_dec_not_idref (y_kind y)) as Hex.
  destruct (kind_eqb (y_kind y) Ydecimal64) eqn:Ed.
  - rewrite (Hex eq_refl). cbn [andb].
    destruct (String.eqb (t_name t) "decimal64"); destruct (N.eqb (y_fd y) 0); cbn [andb orb negb];
      destruct (t_fd t) as [i|]; cbn [y_kind set_fd];
      try rewrite (Hex eq_refl); cbn [andb]; try (intro H; discriminate H);
      try (destruct (N.leb 1 i && N.leb i 18)); intro H; try discriminate H; inversion H; reflexivity.
  - cbn [andb]. destruct (t_fd t) as [i|]; [intro H; discriminate H|].
    destruct (kind_eqb (y_kind y) Yidentityref && bi); [|intro H; inversion H; reflexivity].
    destruct (t_idbase t); intro H; [inversion H; reflexivity | discriminate H].
Qed.

Lemma phase_enum_pure : forall t y y',
  phase_enum t y = Ok y' -> y' = match t_enums t with [] => y | l => set_enum y (Some l) end.
Proof.
  intros t y y'. unfold phase_enum. destruct (t_enums t) as [|e es]; [intro H; inversion H; reflexivity|].
  destruct (nodup_names (e :: es)); intro H; [inversion H; reflexivity | discriminate H].
Qed.

Lemma phase_bit_pure : forall t y y',
  phase_bit t y = Ok y' -> y' = match t_bits t with [] => y | l => set_bit y (Some l) end.
Proof.
  intros t y y'. unfold phase_bit. destruct (t_bits t) as [|e es]; [intro H; inversion H; reflexivity|].
  destruct (nodup_names (e :: es)); intro H; [inversion H; reflexivity | discriminate H].
Qed.

Lemma use_local_pure : forall t bi b y, use_local t bi b = Ok y -> y = use_pure t bi b.
Proof.
  intros t bi b y H. rewrite use_local_eq in H.
  apply bind_ok in H. destruct H as [y1 [H1 H]]. apply phase_fd_pure in H1.
  apply bind_ok in H. destruct H as [y2 [H2 H]]. apply phase_enum_pure in H2.
  apply bind_ok in H. destruct H as [y3 [H3 H]]. apply phase_bit_pure in H3.
  inversion H. subst y3 y2 y1. unfold use_pure. cbv zeta.
  destruct (t_range t), (t_length t); reflexivity.
Qed.

(* fields of use_pure *)
Lemma use_pure_fields : forall t bi b,
  let y := use_pure t bi b in
  y_name y = y_name b /\ y_kind y = y_kind b /\ y_units y = y_units b /\ y_default y = y_default b /\
  y_hasdef y = y_hasdef b /\
  y_fd y = match t_fd t with Some i => i | None => y_fd b end /\
  y_range y = match t_range t with Some r => Some r | None => y_range b end /\
  y_length y = match t_length t with Some r => Some r | None => y_length b end /\
  y_patterns y = add_patterns (y_patterns b) (t_patterns t) /\
  y_enum y = match t_enums t with [] => y_enum b | l => Some l end /\
  y_bit y = match t_bits t with [] => y_bit b | l => Some l end /\
  y_path y = match t_path t with Some p => p | None => y_path b end /\
  y_idbase y = (if kind_eqb (y_kind b) Yidentityref && bi then t_idbase t else y_idbase b) /\
  y_union y = y_union b.
Proof.
  intros t bi b. unfold use_pure, pure_fd. cbv zeta.
  destruct (t_path t), (t_fd t); cbn [y_kind set_path set_fd];
    destruct (kind_eqb (y_kind b) Yidentityref && bi);
    destruct (t_range t), (t_length t), (t_enums t), (t_bits t); cbn; repeat split; reflexivity.
Qed.

(* accumulation = keeping first occurrences *)
Lemma dedup_from_app : forall {A} (eqb : A -> A -> bool) X s P,
  dedup_from eqb s (X ++ P) = dedup_from eqb s X ++ dedup_from eqb (s ++ dedup_from eqb s X) P.
Proof.
  intros A eqb. induction X as [|x X IH]; intros s P; cbn [app dedup_from].
  - rewrite app_nil_r. reflexivity.
  - destruct (existsb (eqb x) s).
    + apply IH.
    + rewrite IH. cbn [app]. rewrite <- app_assoc. reflexivity.
Qed.

Lemma add_patterns_dedup : forall new have, add_patterns have new = have ++ dedup_from String.eqb have new.
Proof.
  induction new as [|p r IH]; intro have; cbn [add_patterns dedup_from].
  - rewrite app_nil_r. reflexivity.
  - unfold str_mem. destruct (existsb (String.eqb p) have).
    + apply IH.
    + rewrite IH. rewrite <- app_assoc. reflexivity.
Qed.

Lemma add_members_dedup : forall new have, add_members have new = have ++ dedup_from yt_equal have new.
Proof.
  induction new as [|p r IH]; intro have; cbn [add_members dedup_from].
  - rewrite app_nil_r. reflexivity.
  - destruct (existsb (yt_equal p) have).
    + apply IH.
    + rewrite IH. rewrite <- app_assoc. reflexivity.
Qed.

Lemma add_patterns_step : forall X P, add_patterns (dedup String.eqb X) P = dedup String.eqb (X ++ P).
Proof. intros. unfold dedup. rewrite add_patterns_dedup, dedup_from_app. reflexivity. Qed.

Lemma add_members_step : forall X P, add_members (dedup yt_equal X) P = dedup yt_equal (X ++ P).
Proof. intros. unfold dedup. rewrite add_members_dedup, dedup_from_app. reflexivity. Qed.

Lemma concat_rev_cons : forall {A} (x : list A) l, concat (rev (x :: l)) = concat (rev l) ++ x.
Proof. intros. cbn [rev]. rewrite concat_app. cbn [concat]. rewrite app_nil_r. reflexivity. Qed.

Lemma last_cons_ne : forall {A} (a b : A) l d d', last (a :: b :: l) d = last (b :: l) d'.
Proof.
  intros A a b l. revert b. induction l as [|c l IH]; intros b d d'.
  - reflexivity.
  - change (last (a :: b :: c :: l) d) with (last (b :: c :: l) d).
    change (last (b :: c :: l) d) with (last (c :: l) d). change (last (b :: c :: l) d') with (last (c :: l) d').
    destruct l as [|e l]; [reflexivity|]. apply (IH c d d').
Qed.

Lemma kind_eqb_refl : forall k, kind_eqb k k = true.
Proof. intro k. unfold kind_eqb. apply String.eqb_refl. Qed.

(* one step of the chain: the reference to the built-in type *)
Lemma step_builtin : forall k t ms,
  set_union (use_pure t true (base_type k)) (add_members (y_union (use_pure t true (base_type k))) ms)
  = chain_type k t [] [ms].
Proof.
  intros k t ms. pose proof (use_pure_fields t true (base_type k)) as F. cbv zeta in F.
  destruct F as [F1 [F2 [F3 [F4 [F5 [F6 [F7 [F8 [F9 [F10 [F11 [F12 [F13 F14]]]]]]]]]]]]].
  unfold set_union, chain_type. cbn [map first_some rev app concat last].
  rewrite F1, F2, F3, F4, F5, F6, F7, F8, F9, F10, F11, F12, F13, F14.
  cbn [base_type y_name y_kind y_units y_default y_hasdef y_fd y_range y_length y_patterns y_enum y_bit y_path
       y_idbase y_union or_empty is_some first_nonempty].
  rewrite andb_true_r, !app_nil_r.
  f_equal;
    try solve [ reflexivity
              | destruct (t_fd t); reflexivity
              | destruct (t_range t); reflexivity
              | destruct (t_length t); reflexivity
              | rewrite add_patterns_dedup; reflexivity
              | destruct (t_enums t); reflexivity
              | destruct (t_bits t); reflexivity
              | destruct (t_path t); reflexivity
              | destruct (kind_eqb k Yidentityref); reflexivity
              | rewrite add_members_dedup; reflexivity ].
Qed.

(* one step of the chain: a reference to typedef td whose own type has the chain tds *)
Lemma step_derived : forall k t td tds mss ms,
  let b := overlay td (chain_type k (td_type td) tds mss) in
  set_union (use_pure t false b) (add_members (y_union (use_pure t false b)) ms)
  = chain_type k t (td :: tds) (ms :: mss).
Proof.
  intros k t td tds mss ms b. pose proof (use_pure_fields t false b) as F. cbv zeta in F.
  destruct F as [F1 [F2 [F3 [F4 [F5 [F6 [F7 [F8 [F9 [F10 [F11 [F12 [F13 F14]]]]]]]]]]]]].
  unfold set_union. rewrite F1, F2, F3, F4, F5, F6, F7, F8, F9, F10, F11, F12, F13, F14. clear F1 F2 F3 F4 F5 F6 F7 F8 F9 F10 F11 F12 F13 F14.
  rewrite andb_false_r.
  assert (Hb : b = overlay td (chain_type k (td_type td) tds mss)) by reflexivity. clearbody b. subst b.
  unfold overlay, chain_type.
  cbn [map first_some first_nonempty].
  destruct (td_units td) as [u|]; destruct (td_default td) as [d|];
    cbn [chain_type set_name set_units set_default y_name y_kind y_units y_default y_hasdef y_fd y_range y_length
         y_patterns y_enum y_bit y_path y_idbase y_union or_empty is_some first_some map];
    (f_equal;
     try solve [ reflexivity
               | destruct (t_fd t); reflexivity
               | destruct (t_range t); reflexivity
               | destruct (t_length t); reflexivity
               | rewrite add_patterns_step;
                 change (t_patterns t :: t_patterns (td_type td) :: map t_patterns (map td_type tds))
                   with (map t_patterns (t :: td_type td :: map td_type tds));
                 rewrite <- concat_rev_cons; reflexivity
               | destruct (t_enums t); reflexivity
               | destruct (t_bits t); reflexivity
               | destruct (t_path t); reflexivity
               | destruct (kind_eqb k Yidentityref); [|reflexivity]; f_equal; symmetry; apply last_cons_ne
               | rewrite add_members_step; rewrite <- concat_rev_cons; reflexivity ]).
Qed.

Lemma links_cons : forall st t key td tds,
  links st t ((key, td) :: tds) = (st, t) :: links (site_of key) (td_type td) tds.
Proof. reflexivity. Qed.

(* what Typedef.resolve returns: the overlay of the typedef on the type its own type statement denotes *)
Definition td_good (S : schema) (P : site -> tref -> yangtype -> Prop) (key : tdkey) (td : typedef) (b : yangtype)
  : Prop :=
  exists tds k mss,
    lchain S (site_of key) (td_type td) tds k /\
    members_ok P (links (site_of key) (td_type td) tds) mss /\
    b = overlay td (chain_type k (td_type td) (map snd tds) mss).

Lemma ty_chain_step : forall S rec_td marks (P : site -> tref -> yangtype -> Prop),
  (forall key td b, rec_td marks key td = Ok b -> td_good S P key td b) ->
  (forall st u yu, resolve_ty S rec_td marks st u = Ok yu -> P st u yu) ->
  forall st t y, resolve_ty S rec_td marks st t = Ok y ->
  exists tds k mss,
    lchain S st t tds k /\ members_ok P (links st t tds) mss /\ y = chain_type k t (map snd tds) mss.
Proof.
  intros S rec_td marks P Hrec HP st t y H. rewrite resolve_ty_eq in H.
  destruct (lookup_type S st (t_name t)) as [k | key td |] eqn:El; [| |discriminate].
  - apply bind_ok in H. destruct H as [y1 [H1 H]]. apply bind_ok in H. destruct H as [ms [H2 H]].
    inversion H; subst y. apply use_local_pure in H1. subst y1.
    exists [], k, [ms]. split; [apply LChBase; exact El|]. split.
    + unfold members_ok, links. cbn [map]. constructor; [|constructor]. cbn [fst snd].
      apply resolve_members_ok in H2. clear -H2 HP. induction H2; constructor; auto.
    + apply step_builtin.
  - apply bind_ok in H. destruct H as [b [H0 H]]. apply bind_ok in H. destruct H as [y1 [H1 H]].
    apply bind_ok in H. destruct H as [ms [H2 H]]. inversion H; subst y. apply use_local_pure in H1. subst y1.
    destruct (Hrec key td b H0) as [tds [k [mss [C1 [C2 C3]]]]].
    exists ((key, td) :: tds), k, (ms :: mss). split; [eapply LChStep; eauto|]. split.
    + rewrite links_cons. constructor; [|exact C2]. cbn [fst snd].
      apply resolve_members_ok in H2. clear -H2 HP. induction H2; constructor; auto.
    + subst b. cbn [map snd]. apply step_derived.
Qed.

Lemma td_chain : forall S F f marks key td b,
  f <= F -> resolve_td S f marks key td = Ok b ->
  td_good S (fun st u yu => resolve_type S F st u = Ok yu) key td b.
Proof.
  intros S F. induction f as [|f IH]; intros marks key td b Hle H; [discriminate|].
  cbn [resolve_td] in H. destruct (key_mem key marks); [discriminate|].
  apply bind_ok in H. destruct H as [y0 [H0 H]]. inversion H; subst b.
  destruct (ty_chain_step S (resolve_td S f) (key :: marks) (fun st u yu => resolve_type S F st u = Ok yu))
    with (st := site_of key) (t := td_type td) (y := y0) as [tds [k [mss [C1 [C2 C3]]]]].
  - intros k d b Hb. apply (IH (key :: marks)); [lia | exact Hb].
  - intros st u yu Hu. apply (resolve_marks_irrelevant S f F (key :: marks)); [lia | exact Hu].
  - exact H0.
  - exists tds, k, mss. subst y0. auto.
Qed.

(* T2 along the resolver's own steps *)
Theorem resolve_lchain : forall S fuel st t y,
  resolve_type S fuel st t = Ok y ->
  exists tds k mss,
    lchain S st t tds k /\
    members_ok (fun st u yu => resolve_type S fuel st u = Ok yu) (links st t tds) mss /\
    y = chain_type k t (map snd tds) mss.
Proof.
  intros S fuel st t y H. unfold resolve_type in H.
  apply (ty_chain_step S (resolve_td S fuel) [] (fun st u yu => resolve_type S fuel st u = Ok yu)); [| |exact H].
  - intros key td b Hb. apply (td_chain S fuel fuel [] key td b); [lia | exact Hb].
  - intros st' u yu Hu. exact Hu.
Qed.

Lemma lchain_chain : forall S st t tds k, lchain S st t tds k -> chain S st t tds k.
Proof.
  intros S st t tds k H. induction H as [st t k Hl | st t key td rest k Hl _ IH].
  - apply ChBase. apply (lookup_builtin S st). exact Hl.
  - eapply ChStep; [apply lookup_sound; exact Hl | exact IH].
Qed.

(* T2: a resolved type is the chain type of a chain of bound typedefs *)
Theorem resolve_chain : forall S fuel st t y,
  resolve_type S fuel st t = Ok y ->
  exists tds k mss,
    chain S st t tds k /\
    members_ok (fun st u yu => resolve_type S fuel st u = Ok yu) (links st t tds) mss /\
    y = chain_type k t (map snd tds) mss.
Proof.
  intros S fuel st t y H. destruct (resolve_lchain S fuel st t y H) as [tds [k [mss [C1 [C2 C3]]]]].
  exists tds, k, mss. split; [apply lchain_chain; exact C1 | auto].
Qed.

(* ------------------------------------------------------------------ T3: errors *)

Theorem resolve_unbound : forall S rec_td marks st t,
  lookup_type S st (t_name t) = LNone -> resolve_ty S rec_td marks st t = Err.
Proof. intros S rec_td marks st t H. rewrite resolve_ty_eq, H. reflexivity. Qed.

Theorem resolve_unbound_spec : forall S fuel st t,
  base_kind (t_name t) = None -> (forall key td, ~ binds S st (t_name t) key td) ->
  resolve_type S fuel st t = Err.
Proof.
  intros S fuel st t Hb Hn. apply resolve_unbound. apply lookup_none. split; assumption.
Qed.

Lemma outcome_cases : forall {A} (o : outcome A), clean o -> (exists y, o = Ok y) \/ o = Err.
Proof. intros A o [H1 H2]. destruct o; [left; eauto | right; reflexivity | congruence | congruence]. Qed.

(* no finite chain to a built-in type: an error *)
Theorem resolve_no_chain : forall S fuel st t,
  count_typedefs S < fuel -> (forall tds k, ~ lchain S st t tds k) -> resolve_type S fuel st t = Err.
Proof.
  intros S fuel st t Hf Hn. destruct (outcome_cases _ (resolve_total S fuel st t Hf)) as [[y Hy] | He]; [|exact He].
  exfalso. destruct (resolve_lchain S fuel st t y Hy) as [tds [k [mss [C1 _]]]]. exact (Hn tds k C1).
Qed.

Lemma lchain_fun : forall S st t tds k, lchain S st t tds k -> forall tds' k', lchain S st t tds' k' -> tds = tds' /\ k = k'.
Proof.
  intros S st t tds k H. induction H as [st t k Hl | st t key td rest k Hl _ IH]; intros tds' k' H';
    inversion H' as [? ? ? Hl' | ? ? key' td' rest' ? Hl' Hr']; subst; rewrite Hl in Hl'; try discriminate.
  - inversion Hl'. auto.
  - inversion Hl'; subst key' td'. destruct (IH rest' k' Hr'). subst. auto.
Qed.

Lemma reaches_shorter : forall S st t key td, reaches S st t key td ->
  forall tds k, lchain S st t tds k ->
  exists tds', lchain S (site_of key) (td_type td) tds' k /\ length tds' < length tds.
Proof.
  intros S st t key td H. induction H as [st t key td Hl | st t k1 td1 key td Hl _ IH]; intros tds k Hc;
    inversion Hc as [? ? ? Hl' | ? ? key' td' rest' ? Hl' Hr']; subst; rewrite Hl in Hl'; try discriminate;
    inversion Hl'; subst key' td'.
  - exists rest'. split; [exact Hr' | cbn [length]; lia].
  - destruct (IH rest' k Hr') as [tds' [H1 H2]]. exists tds'. split; [exact H1 | cbn [length]; lia].
Qed.

Lemma cyclic_no_chain : forall S key td, cyclic S key td -> forall tds k, ~ lchain S (site_of key) (td_type td) tds k.
Proof.
  intros S key td Hc tds. remember (length tds) as n eqn:En. revert tds En.
  induction n as [n IH] using lt_wf_ind. intros tds En k Hl.
  destruct (reaches_shorter S _ _ key td Hc tds k Hl) as [tds' [H1 H2]].
  apply (IH (length tds')) with (tds := tds') (k := k); [lia | reflexivity | exact H1].
Qed.

(* a reference whose chain meets a typedef that is based on itself is an error *)
Theorem resolve_cyclic : forall S fuel st t key td,
  count_typedefs S < fuel -> reaches S st t key td -> cyclic S key td -> resolve_type S fuel st t = Err.
Proof.
  intros S fuel st t key td Hf Hr Hc. apply resolve_no_chain; [exact Hf|].
  intros tds k Hl. destruct (reaches_shorter S st t key td Hr tds k Hl) as [tds' [H1 _]].
  exact (cyclic_no_chain S key td Hc tds' k H1).
Qed.

(* a typedef based on itself does not resolve *)
Theorem resolve_td_cyclic : forall S fuel key td,
  count_typedefs S < fuel -> In key (all_keys S) -> cyclic S key td -> resolve_td S fuel [] key td = Err.
Proof.
  intros S fuel key td Hf Hk Hc.
  assert (Hcl : clean (resolve_td S fuel [] key td)).
  { apply resolve_td_clean; [constructor | intros x [] | cbn [length]; lia | exact Hk]. }
  destruct (outcome_cases _ Hcl) as [[b Hb] | He]; [|exact He].
  exfalso. destruct (td_chain S fuel fuel [] key td b (le_n _) Hb) as [tds [k [mss [C1 _]]]].
  exact (cyclic_no_chain S key td Hc tds k C1).
Qed.

(* the same in terms of the declarative binding, for schemas with unique top-level names *)
Lemma breaches_reaches : forall S st t key td, unique_top S -> breaches S st t key td -> reaches S st t key td.
Proof.
  intros S st t key td Hu H. induction H as [st t key td Hb | st t k1 td1 key td Hb _ IH].
  - apply R_one. apply lookup_exact; assumption.
  - eapply R_more; [apply lookup_exact; eassumption | exact IH].
Qed.

Theorem resolve_cyclic_spec : forall S fuel st t key td,
  unique_top S -> count_typedefs S < fuel ->
  breaches S st t key td -> breaches S (site_of key) (td_type td) key td ->
  resolve_type S fuel st t = Err.
Proof.
  intros S fuel st t key td Hu Hf Hr Hc.
  apply (resolve_cyclic S fuel st t key td Hf); [|unfold cyclic]; apply breaches_reaches; assumption.
Qed.

(* an erroneous member type makes the union (and everything based on it) erroneous *)
Theorem resolve_member_err : forall S fuel st t u,
  In u (t_members t) -> resolve_type S fuel st u = Err -> forall y, resolve_type S fuel st t <> Ok y.
Proof.
  intros S fuel st t u Hin He y Hy. destruct (resolve_lchain S fuel st t y Hy) as [tds [k [mss [_ [C2 _]]]]].
  unfold members_ok, links in C2. inversion C2 as [|? ms ? ? Hm _]; subst. cbn [fst snd] in Hm.
  clear -Hin He Hm. induction Hm as [|u' yu r ys H1 _ IH]; [destruct Hin|].
  destruct Hin as [Hin | Hin]; [subst; congruence | exact (IH Hin)].
Qed.

(* ------------------------------------------------------------------ Process *)

Theorem process_total : forall S name o,
  In (name, o) (snd (process S)) -> o <> Panic /\ o <> Unmodelled.
Proof.
  intros S name o H. unfold process, leaf_results in H. cbn [snd] in H.
  apply in_flat_map in H. destruct H as [ss [_ H]]. apply in_map_iff in H. destruct H as [lf [He _]].
  inversion He; subst. apply resolve_total. unfold resolve_fuel. lia.
Qed.

Theorem typedef_results_total : forall S key o,
  In (key, o) (typedef_results S) -> o <> Panic /\ o <> Unmodelled.
Proof.
  intros S key o H. unfold typedef_results in H.
  apply in_flat_map in H. destruct H as [[st sc] [Hs H]]. apply in_map_iff in H. destruct H as [td [He Hin]].
  cbn [fst snd] in He, Hin. injection He as Hk Ho. subst key o.
  destruct (find_td (sc_typedefs sc) (td_name td)) as [d|] eqn:Ef; [|split; discriminate].
  change (clean (resolve_td S (resolve_fuel S) [] (st, td_name td) d)).
  apply resolve_td_clean; [constructor | intros x [] | unfold resolve_fuel; cbn [length]; lia |].
  unfold all_keys. apply in_flat_map. exists (st, sc). split; [exact Hs|]. cbn [fst snd].
  apply in_map_iff. exists td. auto.
Qed.

(* ------------------------------------------------------------------ converse of T2 for chains without union members *)

(* the dictionary slot a key names *)
Definition entry (S : schema) (key : tdkey) : option typedef :=
  match nth_error S (fst (fst key)) with
  | Some M => dict_find (m_top M) (snd (fst key)) (snd key)
  | None => None
  end.

Lemma find_whole_entry : forall S mods name key td,
  find_whole S mods name = Some (key, td) -> entry S key = Some td.
Proof.
  intros S mods name key td. induction mods as [|m r IH]; cbn [find_whole]; [discriminate|].
  unfold top_find. destruct (nth_error S m) as [M|] eqn:EM; [|exact IH].
  destruct (find_td (sc_typedefs (m_top M)) name) as [d|] eqn:E; [|exact IH].
  intro H. inversion H; subst. unfold entry. cbn [fst snd]. rewrite EM. unfold dict_find. cbn [scope_at]. exact E.
Qed.

Lemma lookup_entry : forall S st tn key td, lookup_type S st tn = LFound key td -> entry S key = Some td.
Proof.
  intros S st tn key td H. pose proof (lookup_cases S st tn) as Hc.
  destruct (base_kind tn); [congruence|]. cbn zeta in Hc.
  destruct (String.eqb (fst (getPrefix tn)) "" || String.eqb (prefix_of S (fst st)) (fst (getPrefix tn)));
    rewrite Hc in H; clear Hc.
  - destruct (find_local S st (snd (getPrefix tn))) as [[k d]|] eqn:El; [|discriminate]. inversion H; subst.
    unfold find_local in El. destruct (nth_error S (fst st)) as [M|] eqn:EM; [|discriminate].
    pose proof (find_up_spec (m_top M) (rev (snd st)) (snd (getPrefix tn))) as Hup.
    destruct (find_up (m_top M) (rev (snd st)) (snd (getPrefix tn))) as [[q d]|].
    + inversion El; subst. destruct Hup as [_ [U2 _]]. unfold entry. cbn [fst snd]. rewrite EM. exact U2.
    + eapply find_whole_entry. exact El.
  - destruct (findExternal S (fst st) (fst (getPrefix tn)) (snd (getPrefix tn))) as [[k d]|] eqn:Ee; [|discriminate].
    inversion H; subst. unfold findExternal in Ee.
    destruct (FindModuleByPrefix S (fst st) (fst (getPrefix tn))); [|discriminate].
    eapply find_whole_entry. exact Ee.
Qed.

Lemma lchain_in_reaches : forall S st t tds k, lchain S st t tds k ->
  forall key td, In (key, td) tds -> reaches S st t key td.
Proof.
  intros S st t tds k H. induction H as [st t k Hl | st t key0 td0 rest k Hl _ IH]; intros key td Hin; [destruct Hin|].
  destruct Hin as [Hin | Hin].
  - inversion Hin; subst. apply R_one. exact Hl.
  - eapply R_more; [exact Hl | apply IH; exact Hin].
Qed.

Lemma reaches_entry : forall S st t key td, reaches S st t key td -> entry S key = Some td.
Proof.
  intros S st t key td H. induction H as [st t key td Hl | st t k1 td1 key td _ _ IH]; [|exact IH].
  eapply lookup_entry. exact Hl.
Qed.

(* a chain to a built-in type never meets a typedef twice *)
Lemma lchain_nodup : forall S st t tds k, lchain S st t tds k -> NoDup (map fst tds).
Proof.
  intros S st t tds k H. induction H as [st t k Hl | st t key td rest k Hl Hr IH]; [constructor|].
  cbn [map fst]. constructor; [|exact IH].
  intro Hin. apply in_map_iff in Hin. destruct Hin as [[key' td'] [He Hin]]. cbn [fst] in He. subst key'.
  pose proof (lchain_in_reaches S _ _ rest k Hr key td' Hin) as Hre.
  assert (td' = td).
  { pose proof (reaches_entry S _ _ key td' Hre) as E1. pose proof (lookup_entry S st (t_name t) key td Hl) as E2.
    congruence. }
  subst td'. exact (cyclic_no_chain S key td Hre rest k Hr).
Qed.

Lemma base_kind_name : forall n k, base_kind n = Some k -> n = kind_name k.
Proof.
  intros n k H. unfold base_kind in H. apply find_some in H. destruct H as [_ H]. apply String.eqb_eq in H. auto.
Qed.

Lemma kind_eqb_eq : forall a b, kind_eqb a b = true -> a = b.
Proof. intros a b H. unfold kind_eqb in H. apply String.eqb_eq in H. destruct a, b; try reflexivity; discriminate H. Qed.

(* the local checks pass on a link that satisfies link_ok *)
Lemma use_local_base_ok : forall k t,
  base_kind (t_name t) = Some k -> link_ok k true t ->
  exists y, use_local t true (base_type k) = Ok y /\ y_kind y = k /\
            (kind_eqb k Ydecimal64 = true -> y_fd y <> 0%N).
Proof.
  intros k t Hb [Hfd [Hid [He Hbi]]]. apply base_kind_name in Hb.
  rewrite use_local_eq. cbn [andb] in Hfd.
  set (b := match t_path t with Some p => set_path (base_type k) p | None => base_type k end).
  assert (Hbk : y_kind b = k) by (unfold b; destruct (t_path t); reflexivity).
  assert (Hbf : y_fd b = 0%N) by (unfold b; destruct (t_path t); reflexivity).
  assert (H1 : exists y1, phase_fd t true b = Ok y1 /\ y_kind y1 = k /\ (kind_eqb k Ydecimal64 = true -> y_fd y1 <> 0%N)).
  { unfold phase_fd. cbv zeta. rewrite Hbk, Hbf. cbn [N.eqb negb orb andb]. rewrite !andb_false_r. cbn [andb orb].
    destruct (kind_eqb k Ydecimal64) eqn:Ed.
    - apply kind_eqb_eq in Ed. subst k. rewrite Hb. cbn [kind_name]. rewrite String.eqb_refl. cbn [andb orb].
      destruct Hfd as [i [Hi [L1 L2]]]. rewrite Hi.
      replace (N.leb 1 i) with true by (symmetry; apply N.leb_le; exact L1).
      replace (N.leb i 18) with true by (symmetry; apply N.leb_le; exact L2). cbn [andb].
      eexists. split; [reflexivity|]. split; [exact Hbk|]. intros _. cbn [set_fd y_fd]. lia.
    - cbn [andb]. rewrite Hfd. rewrite andb_true_r.
      destruct (kind_eqb k Yidentityref) eqn:Ei.
      + apply kind_eqb_eq in Ei. destruct (t_idbase t) as [ib|] eqn:Eib; [|exfalso; apply (Hid eq_refl Ei); reflexivity].
        eexists. split; [reflexivity|]. split; [exact Hbk | discriminate].
      + eexists. split; [reflexivity|]. split; [exact Hbk | discriminate]. }
  destruct H1 as [y1 [E1 [K1 F1]]]. rewrite E1. cbn [obind].
  set (y2 := match t_length t with
             | Some r => set_length (match t_range t with Some r0 => set_range y1 (Some r0) | None => y1 end) (Some r)
             | None => match t_range t with Some r0 => set_range y1 (Some r0) | None => y1 end end).
  assert (K2 : y_kind y2 = y_kind y1 /\ y_fd y2 = y_fd y1) by (unfold y2; destruct (t_length t), (t_range t); auto).
  unfold phase_enum, phase_bit. destruct (t_enums t) as [|e es]; [|rewrite He]; cbn [obind];
    (destruct (t_bits t) as [|b0 bs]; [|rewrite Hbi]); cbn [obind];
    (eexists; split; [reflexivity|]);
    cbn [set_patterns set_bit set_enum y_kind y_fd]; destruct K2 as [K2 K3]; rewrite K2, K3; auto.
Qed.

Lemma use_local_derived_ok : forall k t b,
  link_ok k false t -> y_kind b = k -> (kind_eqb k Ydecimal64 = true -> y_fd b <> 0%N) ->
  exists y, use_local t false b = Ok y /\ y_kind y = k /\ y_fd y = y_fd b.
Proof.
  intros k t b [Hfd [_ [He Hbi]]] Hk Hf. cbn [andb] in Hfd.
  rewrite use_local_eq.
  set (b1 := match t_path t with Some p => set_path b p | None => b end).
  assert (Hbk : y_kind b1 = k) by (unfold b1; destruct (t_path t); exact Hk).
  assert (Hbf : y_fd b1 = y_fd b) by (unfold b1; destruct (t_path t); reflexivity).
  assert (H1 : phase_fd t false b1 = Ok b1).
  { unfold phase_fd. cbv zeta. rewrite Hbk, Hbf, Hfd, !andb_false_r.
    destruct (kind_eqb k Ydecimal64) eqn:Ed.
    - specialize (Hf eq_refl). apply N.eqb_neq in Hf. rewrite Hf. cbn [negb orb andb]. rewrite orb_true_r.
      reflexivity.
    - reflexivity. }
  rewrite H1. cbn [obind].
  set (y2 := match t_length t with
             | Some r => set_length (match t_range t with Some r0 => set_range b1 (Some r0) | None => b1 end) (Some r)
             | None => match t_range t with Some r0 => set_range b1 (Some r0) | None => b1 end end).
  assert (K2 : y_kind y2 = y_kind b1 /\ y_fd y2 = y_fd b1) by (unfold y2; destruct (t_length t), (t_range t); auto).
  unfold phase_enum, phase_bit. destruct (t_enums t) as [|e es]; [|rewrite He]; cbn [obind];
    (destruct (t_bits t) as [|b0 bs]; [|rewrite Hbi]); cbn [obind];
    (eexists; split; [reflexivity|]);
    cbn [set_patterns set_bit set_enum y_kind y_fd]; destruct K2 as [K2 K3]; rewrite K2, K3; auto.
Qed.

Lemma complete_gen : forall S st t tds k, lchain S st t tds k ->
  forall f marks,
    NoDup (map fst tds) -> (forall key, In key (map fst tds) -> ~ In key marks) -> length tds <= f ->
    Forall (fun l => t_members (snd l) = []) (links st t tds) ->
    links_ok k (map snd (links st t tds)) ->
    exists y, resolve_ty S (resolve_td S f) marks st t = Ok y /\ y_kind y = k /\
              (kind_eqb k Ydecimal64 = true -> y_fd y <> 0%N).
Proof.
  intros S st t tds k H. induction H as [st t k Hl | st t key td rest k Hl Hr IH];
    intros f marks Hnd Hdis Hlen Hmem Hok; rewrite resolve_ty_eq, Hl.
  - unfold links in Hmem, Hok. cbn [map snd links_ok] in Hok. inversion Hmem as [|? ? Hm _]; subst. cbn [snd] in Hm.
    apply lookup_builtin in Hl.
    destruct (use_local_base_ok k t Hl Hok) as [y [E [K F]]]. rewrite E, Hm. cbn [obind resolve_members].
    eexists. split; [reflexivity|]. cbn [set_union y_kind y_fd]. auto.
  - rewrite links_cons in Hmem, Hok. inversion Hmem as [|? ? Hm Hmr]; subst. cbn [snd] in Hm.
    assert (Hok' : link_ok k false t /\ links_ok k (map snd (links (site_of key) (td_type td) rest))).
    { cbn [map snd] in Hok. unfold links in *. cbn [map snd] in *. exact Hok. }
    destruct Hok' as [Hok1 Hok2].
    cbn [map fst] in Hnd, Hdis. inversion Hnd as [|? ? Hnin Hnd']; subst.
    destruct f as [|f]; [cbn [length] in Hlen; lia|].
    cbn [resolve_td].
    assert (Em : key_mem key marks = false).
    { destruct (key_mem key marks) eqn:E; [|reflexivity]. apply key_mem_spec in E.
      exfalso. apply (Hdis key); [left; reflexivity | exact E]. }
    rewrite Em.
    destruct (IH f (key :: marks)) as [y0 [E0 [K0 F0]]].
    + exact Hnd'.
    + intros k' Hk' [Hc | Hc]; [subst; contradiction | apply (Hdis k'); [right; exact Hk' | exact Hc]].
    + cbn [length] in Hlen. lia.
    + exact Hmr.
    + exact Hok2.
    + rewrite E0. cbn [obind].
      assert (Kb : y_kind (overlay td y0) = k /\ y_fd (overlay td y0) = y_fd y0).
      { unfold overlay. destruct (td_units td), (td_default td); cbn; auto. }
      destruct Kb as [Kb Fb].
      destruct (use_local_derived_ok k t (overlay td y0) Hok1 Kb) as [y [E [K F]]].
      { rewrite Fb. exact F0. }
      rewrite E, Hm. cbn [obind resolve_members].
      eexists. split; [reflexivity|]. cbn [set_union y_kind y_fd]. split; [exact K|]. rewrite F, Fb. exact F0.
Qed.

Lemma lchain_keys_valid : forall S st t tds k, lchain S st t tds k -> incl (map fst tds) (all_keys S).
Proof.
  intros S st t tds k H. induction H as [st t k Hl | st t key td rest k Hl _ IH]; [intros x []|].
  intros x [Hx | Hx]; [subst; eapply lookup_valid; exact Hl | apply IH; exact Hx].
Qed.

(* converse of T2, PARTIAL: a reference whose chain reaches a built-in type, whose type statements pass the local
   checks (link_ok) and list no union member types, resolves.  Missing: chains whose links list member types (the
   members would have to be shown to resolve under the marks of the enclosing chain). *)
Theorem resolve_complete_partial : forall S fuel st t tds k,
  count_typedefs S < fuel ->
  lchain S st t tds k ->
  Forall (fun l => t_members (snd l) = []) (links st t tds) ->
  links_ok k (map snd (links st t tds)) ->
  exists y, resolve_type S fuel st t = Ok y.
Proof.
  intros S fuel st t tds k Hf Hc Hm Hok.
  pose proof (lchain_nodup S st t tds k Hc) as Hnd.
  pose proof (NoDup_incl_length Hnd (lchain_keys_valid S st t tds k Hc)) as Hlen. rewrite map_length in Hlen.
  destruct (complete_gen S st t tds k Hc fuel [] Hnd) as [y [E _]]; auto.
  - unfold count_typedefs in Hf. lia.
  - exists y. exact E.
Qed.

(* ------------------------------------------------------------------ more fuel does not change a verdict *)

Lemma bind_stable2 : forall {A B} (A1 A2 : outcome A) (F1 F2 : A -> outcome B) r,
  (forall a, A1 = a -> a <> Unmodelled -> A2 = a) ->
  (forall v r', F1 v = r' -> r' <> Unmodelled -> F2 v = r') ->
  obind A1 F1 = r -> r <> Unmodelled -> obind A2 F2 = r.
Proof.
  intros A B A1 A2 F1 F2 r HA HF H Hr. destruct A1 as [v| | |] eqn:E.
  - rewrite (HA (Ok v) eq_refl) by discriminate. cbn [obind] in *. apply HF; assumption.
  - rewrite (HA Err eq_refl) by discriminate. exact H.
  - rewrite (HA Panic eq_refl) by discriminate. exact H.
  - cbn [obind] in H. congruence.
Qed.

Lemma resolve_ty_stable : forall S rec1 rec2 marks,
  (forall key td r, rec1 marks key td = r -> r <> Unmodelled -> rec2 marks key td = r) ->
  forall t st r, resolve_ty S rec1 marks st t = r -> r <> Unmodelled -> resolve_ty S rec2 marks st t = r.
Proof.
  intros S rec1 rec2 marks Hrec. induction t as [n fd rg l ps es bs pa ib ms IH] using tref_ind'. intros st r.
  assert (Hms : forall r', resolve_members S rec1 marks st ms = r' -> r' <> Unmodelled ->
                           resolve_members S rec2 marks st ms = r').
  { induction IH as [|u rest Hu _ IHr]; intros r' H Hr'.
    - exact H.
    - rewrite resolve_members_cons in *. revert H Hr'. apply bind_stable2.
      + intros a Ha Hna. apply Hu; assumption.
      + intros v r'' H Hr''. revert H Hr''. apply bind_stable2; [exact IHr | intros; assumption]. }
  rewrite !resolve_ty_eq. cbn [t_name t_members].
  destruct (lookup_type S st n) as [k | key td |]; [| |intros; assumption].
  - apply bind_stable2; [intros; assumption|]. intros v r' H Hr'. revert H Hr'.
    apply bind_stable2; [exact Hms | intros; assumption].
  - apply bind_stable2; [intros a Ha Hna; apply Hrec; assumption|]. intros b r' H Hr'. revert H Hr'.
    apply bind_stable2; [intros; assumption|]. intros v r'' H Hr''. revert H Hr''.
    apply bind_stable2; [exact Hms | intros; assumption].
Qed.

Lemma resolve_td_stable : forall S f1 f2 marks key td r,
  f1 <= f2 -> resolve_td S f1 marks key td = r -> r <> Unmodelled -> resolve_td S f2 marks key td = r.
Proof.
  intros S. induction f1 as [|f1 IH]; intros f2 marks key td r Hle H Hr; [cbn in H; congruence|].
  destruct f2 as [|f2]; [lia|]. cbn [resolve_td] in *. destruct (key_mem key marks); [exact H|].
  revert H Hr. apply bind_stable2; [|intros; assumption].
  intros a Ha Hna. apply (resolve_ty_stable S (resolve_td S f1) (resolve_td S f2)); [|exact Ha|exact Hna].
  intros k d r' Hr' Hn'. apply (IH f2); [lia | exact Hr' | exact Hn'].
Qed.

Theorem resolve_type_stable : forall S f1 f2 st t r,
  f1 <= f2 -> resolve_type S f1 st t = r -> r <> Unmodelled -> resolve_type S f2 st t = r.
Proof.
  intros S f1 f2 st t r Hle H Hr. unfold resolve_type in *.
  apply (resolve_ty_stable S (resolve_td S f1) (resolve_td S f2)); [|exact H|exact Hr].
  intros k d r' Hr' Hn'. apply (resolve_td_stable S f1 f2); assumption.
Qed.

(* ------------------------------------------------------------------ resolvable, with a height *)

Inductive rz (S : schema) : nat -> site -> tref -> kind -> Prop :=
| RZ_base : forall n st t k,
    lookup_type S st (t_name t) = LBuiltin k -> link_ok k true t ->
    (forall u, In u (t_members t) -> exists k', rz S n st u k') ->
    rz S (Datatypes.S n) st t k
| RZ_step : forall n st t key td k,
    lookup_type S st (t_name t) = LFound key td ->
    rz S n (site_of key) (td_type td) k -> link_ok k false t ->
    (forall u, In u (t_members t) -> exists k', rz S n st u k') ->
    rz S (Datatypes.S n) st t k.

Lemma rz_mono : forall S n st t k, rz S n st t k -> forall m, n <= m -> rz S m st t k.
Proof.
  intros S. induction n as [|n IH]; intros st t k H m Hle; [inversion H|].
  destruct m as [|m]; [lia|].
  inversion H as [? ? ? ? Hl Hok Hm | ? ? ? key td ? Hl Hsub Hok Hm]; subst.
  - apply RZ_base; auto. intros u Hu. destruct (Hm u Hu) as [k' Hk']. exists k'. apply (IH _ _ _ Hk'). lia.
  - eapply RZ_step; eauto. { apply (IH _ _ _ Hsub). lia. }
    intros u Hu. destruct (Hm u Hu) as [k' Hk']. exists k'. apply (IH _ _ _ Hk'). lia.
Qed.

Lemma members_bound : forall S (st : site) (l : list tref),
  (forall u, In u l -> exists k' n, rz S n st u k') -> exists N, forall u, In u l -> exists k', rz S N st u k'.
Proof.
  intros S st. induction l as [|a l IH]; intro H.
  - exists 0. intros u [].
  - destruct IH as [N HN]. { intros u Hu. apply H. right. exact Hu. }
    destruct (H a (or_introl eq_refl)) as [ka [na Ha]].
    exists (Nat.max N na). intros u [Hu | Hu].
    + subst. exists ka. apply (rz_mono _ _ _ _ _ Ha). lia.
    + destruct (HN u Hu) as [k' Hk']. exists k'. apply (rz_mono _ _ _ _ _ Hk'). lia.
Qed.

(* induction over a derivation of resolvable, member derivations included *)
Fixpoint resolvable_rz S st t k (d : resolvable S st t k) {struct d} : exists n, rz S n st t k :=
  match d with
  | RS_base _ st t k Hl Hok Hm =>
      match members_bound S st (t_members t)
              (fun u Hu => match Hm u Hu with
                           | ex_intro _ k' d' =>
                               match resolvable_rz S st u k' d' with
                               | ex_intro _ n r => ex_intro _ k' (ex_intro _ n r)
                               end
                           end) with
      | ex_intro _ N HN => ex_intro _ (Datatypes.S N) (RZ_base S N st t k Hl Hok HN)
      end
  | RS_step _ st t key td k Hl Hsub Hok Hm =>
      match resolvable_rz S _ _ _ Hsub with
      | ex_intro _ n0 r0 =>
          match members_bound S st (t_members t)
                  (fun u Hu => match Hm u Hu with
                               | ex_intro _ k' d' =>
                                   match resolvable_rz S st u k' d' with
                                   | ex_intro _ n r => ex_intro _ k' (ex_intro _ n r)
                                   end
                               end) with
          | ex_intro _ N HN =>
              ex_intro _ (Datatypes.S (Nat.max n0 N))
                (RZ_step S (Nat.max n0 N) st t key td k Hl
                   (rz_mono S n0 _ _ _ r0 _ (Nat.le_max_l n0 N)) Hok
                   (fun u Hu => match HN u Hu with
                                | ex_intro _ k' r => ex_intro _ k' (rz_mono S N _ _ _ r _ (Nat.le_max_r n0 N))
                                end))
          end
      end
  end.

Lemma rz_resolvable : forall S n st t k, rz S n st t k -> resolvable S st t k.
Proof.
  intros S. induction n as [|n IH]; intros st t k H; [inversion H|].
  inversion H as [? ? ? ? Hl Hok Hm | ? ? ? key td ? Hl Hsub Hok Hm]; subst.
  - apply RS_base; auto. intros u Hu. destruct (Hm u Hu) as [k' Hk']. exists k'. apply IH. exact Hk'.
  - eapply RS_step; eauto. intros u Hu. destruct (Hm u Hu) as [k' Hk']. exists k'. apply IH. exact Hk'.
Qed.

(* ------------------------------------------------------------------ the typedefs a resolution runs through *)

Inductive touches (S : schema) : site -> tref -> tdkey -> Prop :=
| T_here : forall st t key td, lookup_type S st (t_name t) = LFound key td -> touches S st t key
| T_chain : forall st t k1 td1 key,
    lookup_type S st (t_name t) = LFound k1 td1 -> touches S (site_of k1) (td_type td1) key -> touches S st t key
| T_member : forall st t u key, In u (t_members t) -> touches S st u key -> touches S st t key.

Lemma touches_descend : forall S st t key, touches S st t key ->
  forall n k, rz S n st t k ->
  exists td k' m, entry S key = Some td /\ m < n /\ rz S m (site_of key) (td_type td) k'.
Proof.
  intros S st t key H. induction H as [st t key td Hl | st t k1 td1 key Hl _ IH | st t u key Hin _ IH]; intros n k Hr.
  - inversion Hr as [? ? ? ? Hl' | m ? ? key' td' ? Hl' Hsub]; subst; rewrite Hl in Hl'; [discriminate|].
    inversion Hl'; subst key' td'. exists td, k, m. split; [eapply lookup_entry; exact Hl|]. split; [lia | exact Hsub].
  - inversion Hr as [? ? ? ? Hl' | m ? ? key' td' ? Hl' Hsub]; subst; rewrite Hl in Hl'; [discriminate|].
    inversion Hl'; subst key' td'. destruct (IH m k Hsub) as [td [k' [m' [E [Hlt Hr']]]]].
    exists td, k', m'. split; [exact E|]. split; [lia | exact Hr'].
  - assert (Hm : exists m k', n = Datatypes.S m /\ rz S m st u k').
    { inversion Hr as [m ? ? ? _ _ Hm | m ? ? ? ? ? _ _ _ Hm]; subst; destruct (Hm u Hin) as [k' Hk']; eauto. }
    destruct Hm as [m [k0 [En Hu]]]. subst n. destruct (IH m k0 Hu) as [td [k' [m' [E [Hlt Hr']]]]].
    exists td, k', m'. split; [exact E|]. split; [lia | exact Hr'].
Qed.

(* the resolution of a resolvable typedef's type never comes back to the typedef *)
Lemma rz_acyclic : forall S n key td k,
  entry S key = Some td -> rz S n (site_of key) (td_type td) k -> ~ touches S (site_of key) (td_type td) key.
Proof.
  intros S n. induction n as [n IH] using lt_wf_ind. intros key td k E Hr Ht.
  destruct (touches_descend S _ _ key Ht n k Hr) as [td' [k' [m [E' [Hlt Hr']]]]].
  assert (td' = td) by congruence. subst td'. exact (IH m Hlt key td k' E Hr' Ht).
Qed.

Lemma members_all_ok : forall S rec_td marks st l,
  (forall u, In u l -> exists yu, resolve_ty S rec_td marks st u = Ok yu) ->
  exists ms, resolve_members S rec_td marks st l = Ok ms.
Proof.
  intros S rec_td marks st. induction l as [|u r IH]; intro H.
  - exists []. reflexivity.
  - destruct (H u (or_introl eq_refl)) as [yu Hu]. destruct IH as [ms Hms]. { intros v Hv. apply H. right. exact Hv. }
    exists (yu :: ms). rewrite resolve_members_cons, Hu. cbn [obind]. rewrite Hms. reflexivity.
Qed.

Lemma resolve_td_succ : forall S f marks key td,
  resolve_td S (Datatypes.S f) marks key td =
  if key_mem key marks then Err
  else (y <- resolve_ty S (resolve_td S f) (key :: marks) (site_of key) (td_type td) ;; Ok (overlay td y)).
Proof. reflexivity. Qed.

Lemma complete_rz : forall S n st t k, rz S n st t k ->
  forall f marks, n <= f -> (forall key, touches S st t key -> ~ In key marks) ->
  exists y, resolve_ty S (resolve_td S f) marks st t = Ok y /\ y_kind y = k /\
            (kind_eqb k Ydecimal64 = true -> y_fd y <> 0%N).
Proof.
  intros S. induction n as [|n IH]; intros st t k H f marks Hle Hdis; [inversion H|].
  assert (Hmem : forall m0 (Hm : forall u, In u (t_members t) -> exists k', rz S n st u k'), m0 = t_members t ->
                 exists ms, resolve_members S (resolve_td S f) marks st m0 = Ok ms).
  { intros m0 Hm ->. apply members_all_ok. intros u Hu. destruct (Hm u Hu) as [k' Hk'].
    destruct (IH st u k' Hk' f marks) as [yu [E _]]; [lia| |eauto].
    intros key Hk. apply Hdis. eapply T_member; eauto. }
  rewrite resolve_ty_eq.
  inversion H as [? ? ? ? Hl Hok Hm | ? ? ? key td ? Hl Hsub Hok Hm]; subst; rewrite Hl.
  - destruct (use_local_base_ok k t (proj1 (lookup_builtin S st (t_name t) k) Hl) Hok) as [y1 [E [K F]]].
    destruct (Hmem _ Hm eq_refl) as [ms Ems]. rewrite E. cbn [obind]. rewrite Ems. cbn [obind].
    eexists. split; [reflexivity|]. cbn [set_union y_kind y_fd]. auto.
  - destruct f as [|f]; [lia|]. rewrite resolve_td_succ.
    assert (Em : key_mem key marks = false).
    { destruct (key_mem key marks) eqn:E; [|reflexivity]. apply key_mem_spec in E.
      exfalso. apply (Hdis key); [eapply T_here; exact Hl | exact E]. }
    rewrite Em.
    destruct (IH _ _ _ Hsub f (key :: marks)) as [y0 [E0 [K0 F0]]]; [lia| |].
    { intros k' Hk' [Hc | Hc].
      - subst k'. exact (rz_acyclic S n key td k (lookup_entry S st (t_name t) key td Hl) Hsub Hk').
      - apply (Hdis k'); [eapply T_chain; eauto | exact Hc]. }
    rewrite E0. cbn [obind].
    assert (Kb : y_kind (overlay td y0) = k /\ y_fd (overlay td y0) = y_fd y0).
    { unfold overlay. destruct (td_units td), (td_default td); cbn; auto. }
    destruct Kb as [Kb Fb].
    destruct (use_local_derived_ok k t (overlay td y0) Hok Kb) as [y1 [E [K F]]]. { rewrite Fb. exact F0. }
    assert (Hmem' : exists ms, resolve_members S (resolve_td S (Datatypes.S f)) marks st (t_members t) = Ok ms).
    { apply members_all_ok. intros u Hu. destruct (Hm u Hu) as [k' Hk'].
      destruct (IH st u k' Hk' (Datatypes.S f) marks) as [yu [Eu _]]; [lia| |eauto].
      intros key' Hk2. apply Hdis. eapply T_member; eauto. }
    destruct Hmem' as [ms Ems]. rewrite E. cbn [obind].
    rewrite Ems. cbn [obind].
    eexists. split; [reflexivity|]. cbn [set_union y_kind y_fd]. split; [exact K|]. rewrite F, Fb. exact F0.
Qed.

(* (1) the converse of T2, in full: a resolvable reference resolves, to a type of its base kind *)
Theorem resolve_complete : forall S fuel st t k,
  count_typedefs S < fuel -> resolvable S st t k ->
  exists y, resolve_type S fuel st t = Ok y /\ y_kind y = k.
Proof.
  intros S fuel st t k Hf Hr. destruct (resolvable_rz S st t k Hr) as [n Hn].
  destruct (complete_rz S n st t k Hn (Nat.max n fuel) []) as [y [E [K _]]]; [lia | intros key _ [] |].
  exists y. split; [|exact K].
  pose proof (resolve_total S fuel st t Hf) as [_ Hnu].
  pose proof (resolve_type_stable S fuel (Nat.max n fuel) st t _ (Nat.le_max_r n fuel) eq_refl Hnu) as Hs.
  unfold resolve_type in Hs at 1. rewrite E in Hs. symmetry. exact Hs.
Qed.

(* ------------------------------------------------------------------ a resolved reference is resolvable *)

Lemma phase_enum_nodup : forall t y y', phase_enum t y = Ok y' -> nodup_names (t_enums t) = true.
Proof.
  intros t y y'. unfold phase_enum. destruct (t_enums t) as [|e es]; [reflexivity|].
  destruct (nodup_names (e :: es)); [reflexivity | discriminate].
Qed.
Lemma phase_bit_nodup : forall t y y', phase_bit t y = Ok y' -> nodup_names (t_bits t) = true.
Proof.
  intros t y y'. unfold phase_bit. destruct (t_bits t) as [|e es]; [reflexivity|].
  destruct (nodup_names (e :: es)); [reflexivity | discriminate].
Qed.

Lemma use_local_ok_base : forall k t y,
  base_kind (t_name t) = Some k -> use_local t true (base_type k) = Ok y -> link_ok k true t.
Proof.
  intros k t y Hb H. apply base_kind_name in Hb. rewrite use_local_eq in H.
  apply bind_ok in H. destruct H as [y1 [H1 H]]. apply bind_ok in H. destruct H as [y2 [H2 H]].
  apply bind_ok in H. destruct H as [y3 [H3 _]].
  apply phase_enum_nodup in H2. apply phase_bit_nodup in H3.
  set (b := match t_path t with Some p => set_path (base_type k) p | None => base_type k end) in H1.
  assert (Hbk : y_kind b = k) by (unfold b; destruct (t_path t); reflexivity).
  assert (Hbf : y_fd b = 0%N) by (unfold b; destruct (t_path t); reflexivity).
  clearbody b.
  unfold phase_fd in H1. cbv zeta in H1. rewrite Hbk, Hbf in H1. cbn [N.eqb negb orb andb] in H1.
  rewrite !andb_false_r in H1. cbn [andb orb] in H1.
  unfold link_ok. cbn [andb]. split; [|split; [|split; assumption]].
  - destruct (kind_eqb k Ydecimal64) eqn:Ed.
    + apply kind_eqb_eq in Ed. subst k. rewrite Hb in H1. cbn [kind_name] in H1. rewrite String.eqb_refl in H1.
      cbn [andb orb] in H1. destruct (t_fd t) as [i|]; [|discriminate].
      destruct (N.leb 1 i) eqn:L1; destruct (N.leb i 18) eqn:L2; cbn [andb] in H1; try discriminate.
      exists i. split; [reflexivity|]. apply N.leb_le in L1, L2. lia.
    + cbn [andb] in H1. destruct (t_fd t); [discriminate | reflexivity].
  - intros _ Hk Hn. rewrite Hk in H1. cbn [kind_eqb kind_name String.eqb Ascii.eqb Bool.eqb andb] in H1.
    destruct (t_fd t); [discriminate|]. rewrite Hn in H1. discriminate.
Qed.

Lemma use_local_ok_derived : forall t b y,
  String.eqb (t_name t) "decimal64" = false -> use_local t false b = Ok y -> link_ok (y_kind b) false t.
Proof.
  intros t b y Hn H. rewrite use_local_eq in H.
  apply bind_ok in H. destruct H as [y1 [H1 H]]. apply bind_ok in H. destruct H as [y2 [H2 H]].
  apply bind_ok in H. destruct H as [y3 [H3 _]].
  apply phase_enum_nodup in H2. apply phase_bit_nodup in H3.
  unfold link_ok. cbn [andb]. split; [|split; [intro Hx; discriminate Hx | split; assumption]].
  unfold phase_fd in H1. cbv zeta in H1. rewrite Hn in H1. cbn [orb] in H1.
  destruct (t_fd t) as [i|]; [|reflexivity]. exfalso.
  destruct (kind_eqb _ Ydecimal64); destruct (N.eqb _ 0); cbn [andb negb] in H1; discriminate.
Qed.

Lemma lookup_found_not_builtin : forall S st tn key td,
  lookup_type S st tn = LFound key td -> base_kind tn = None.
Proof.
  intros S st tn key td H. destruct (base_kind tn) as [k|] eqn:E; [|reflexivity].
  apply (lookup_builtin S st) in E. congruence.
Qed.

Lemma not_builtin_not_decimal : forall tn, base_kind tn = None -> String.eqb tn "decimal64" = false.
Proof.
  intros tn H. destruct (String.eqb tn "decimal64") eqn:E; [|reflexivity].
  apply String.eqb_eq in E. subst. discriminate H.
Qed.

Lemma ok_resolvable_ty : forall S rec_td marks,
  (forall key td b, rec_td marks key td = Ok b -> resolvable S (site_of key) (td_type td) (y_kind b)) ->
  forall t st y, resolve_ty S rec_td marks st t = Ok y -> resolvable S st t (y_kind y).
Proof.
  intros S rec_td marks Hrec. induction t as [n fd rg l ps es bs pa ib ms IH] using tref_ind'. intros st y H.
  assert (Hms : forall ys, resolve_members S rec_td marks st ms = Ok ys ->
                           forall u, In u ms -> exists k', resolvable S st u k').
  { intros ys Hys u Hu. apply resolve_members_ok in Hys. rewrite Forall_forall in IH.
    clear -Hys Hu IH. induction Hys as [|v yv r ys' Hv _ IHr]; [destruct Hu|].
    destruct Hu as [Hu | Hu].
    - subst v. exists (y_kind yv). apply (IH u); [left; reflexivity | exact Hv].
    - apply IHr; [|exact Hu]. intros x Hx. apply IH. right. exact Hx. }
  rewrite resolve_ty_eq in H. cbn [t_name t_members] in H.
  destruct (lookup_type S st n) as [k | key td |] eqn:El; [| |discriminate].
  - apply bind_ok in H. destruct H as [y1 [H1 H]]. apply bind_ok in H. destruct H as [ys [H2 H]].
    inversion H; subst y. cbn [set_union y_kind].
    pose proof (use_local_pure _ _ _ _ H1) as Hp. subst y1.
    destruct (use_pure_fields (TRef n fd rg l ps es bs pa ib ms) true (base_type k)) as [_ [K _]]. rewrite K.
    cbn [base_type y_kind]. apply RS_base; cbn [t_name t_members].
    + exact El.
    + eapply use_local_ok_base; [|exact H1]. cbn [t_name]. apply (lookup_builtin S st). exact El.
    + exact (Hms ys H2).
  - apply bind_ok in H. destruct H as [b [H0 H]]. apply bind_ok in H. destruct H as [y1 [H1 H]].
    apply bind_ok in H. destruct H as [ys [H2 H]]. inversion H; subst y. cbn [set_union y_kind].
    pose proof (use_local_pure _ _ _ _ H1) as Hp. subst y1.
    destruct (use_pure_fields (TRef n fd rg l ps es bs pa ib ms) false b) as [_ [K _]]. rewrite K.
    eapply RS_step; cbn [t_name t_members].
    + exact El.
    + apply Hrec. exact H0.
    + eapply use_local_ok_derived; [|exact H1]. cbn [t_name].
      apply not_builtin_not_decimal. eapply lookup_found_not_builtin. exact El.
    + exact (Hms ys H2).
Qed.

Lemma ok_resolvable_td : forall S f marks key td b,
  resolve_td S f marks key td = Ok b -> resolvable S (site_of key) (td_type td) (y_kind b).
Proof.
  intros S. induction f as [|f IH]; intros marks key td b H; [discriminate|].
  rewrite resolve_td_succ in H. destruct (key_mem key marks); [discriminate|].
  apply bind_ok in H. destruct H as [y0 [H0 H]]. inversion H; subst b.
  assert (K : y_kind (overlay td y0) = y_kind y0).
  { unfold overlay. destruct (td_units td), (td_default td); reflexivity. }
  rewrite K. apply (ok_resolvable_ty S (resolve_td S f) (key :: marks)); [|exact H0].
  intros k d b' Hb'. apply (IH (key :: marks)). exact Hb'.
Qed.

Theorem resolve_ok_resolvable : forall S fuel st t y,
  resolve_type S fuel st t = Ok y -> resolvable S st t (y_kind y).
Proof.
  intros S fuel st t y H. unfold resolve_type in H.
  apply (ok_resolvable_ty S (resolve_td S fuel) []); [|exact H].
  intros key td b Hb. eapply ok_resolvable_td. exact Hb.
Qed.

(* (2) success and error, exactly *)
Theorem resolve_ok_iff : forall S fuel st t,
  count_typedefs S < fuel ->
  ((exists y, resolve_type S fuel st t = Ok y) <-> exists k, resolvable S st t k).
Proof.
  intros S fuel st t Hf. split.
  - intros [y Hy]. exists (y_kind y). eapply resolve_ok_resolvable. exact Hy.
  - intros [k Hk]. destruct (resolve_complete S fuel st t k Hf Hk) as [y [Hy _]]. eauto.
Qed.

Theorem resolve_error_iff : forall S fuel st t,
  count_typedefs S < fuel ->
  (resolve_type S fuel st t = Err <-> ~ exists k, resolvable S st t k).
Proof.
  intros S fuel st t Hf. split.
  - intros He Hr. apply (resolve_ok_iff S fuel st t Hf) in Hr. destruct Hr as [y Hy]. congruence.
  - intro Hn. destruct (outcome_cases _ (resolve_total S fuel st t Hf)) as [[y Hy] | He]; [|exact He].
    exfalso. apply Hn. exists (y_kind y). eapply resolve_ok_resolvable. exact Hy.
Qed.

(* resolvable, read along the whole chain *)
Theorem resolvable_chain : forall S st t k,
  resolvable S st t k <->
  exists tds, lchain S st t tds k /\ links_ok k (map snd (links st t tds)) /\
              forall l, In l (links st t tds) -> forall u, In u (t_members (snd l)) ->
                        exists k', resolvable S (fst l) u k'.
Proof.
  intros S st t k. split.
  - intro H. induction H as [st t k Hl Hok Hm | st t key td k Hl Hsub IH Hok Hm].
    + exists []. split; [apply LChBase; exact Hl|]. split; [exact Hok|].
      intros l [Hl' | []] u Hu. subst l. apply Hm. exact Hu.
    + destruct IH as [tds [C1 [C2 C3]]]. exists ((key, td) :: tds). split; [eapply LChStep; eauto|]. split.
      * rewrite links_cons. unfold links in *. cbn [map snd] in *. split; assumption.
      * rewrite links_cons. intros l [Hl' | Hl'] u Hu; [subst l; apply Hm; exact Hu | eapply C3; eauto].
  - intros [tds [C1 [C2 C3]]]. induction C1 as [st t k Hl | st t key td rest k Hl Hr IH].
    + apply RS_base; [exact Hl | exact C2 |]. intros u Hu. apply (C3 (st, t)); [left; reflexivity | exact Hu].
    + rewrite links_cons in C2, C3.
      assert (C2' : link_ok k false t /\ links_ok k (map snd (links (site_of key) (td_type td) rest))).
      { unfold links in *. cbn [map snd] in *. exact C2. }
      destruct C2' as [Ok1 Ok2]. eapply RS_step; [exact Hl | | exact Ok1 |].
      * apply IH; [exact Ok2|]. intros l Hl' u Hu. apply (C3 l); [right; exact Hl' | exact Hu].
      * intros u Hu. apply (C3 (st, t)); [left; reflexivity | exact Hu].
Qed.

(* ------------------------------------------------------------------ the causes of an error *)

Fixpoint walk (S : schema) (n : nat) (st : site) (t : tref) : option (list (tdkey * typedef) * kind) :=
  match n with
  | O => None
  | Datatypes.S n' =>
      match lookup_type S st (t_name t) with
      | LBuiltin k => Some ([], k)
      | LFound key td =>
          match walk S n' (site_of key) (td_type td) with
          | Some (tds, k) => Some ((key, td) :: tds, k)
          | None => None
          end
      | LNone => None
      end
  end.

Lemma walk_sound : forall S n st t tds k, walk S n st t = Some (tds, k) -> lchain S st t tds k.
Proof.
  intros S. induction n as [|n IH]; intros st t tds k H; [discriminate|]. cbn [walk] in H.
  destruct (lookup_type S st (t_name t)) as [k0 | key td |] eqn:El; [| |discriminate].
  - inversion H; subst. apply LChBase. exact El.
  - destruct (walk S n (site_of key) (td_type td)) as [[tds' k']|] eqn:Ew; [|discriminate].
    inversion H; subst. eapply LChStep; [exact El | apply IH; exact Ew].
Qed.

Lemma walk_complete : forall S st t tds k, lchain S st t tds k ->
  forall n, length tds < n -> walk S n st t = Some (tds, k).
Proof.
  intros S st t tds k H. induction H as [st t k Hl | st t key td rest k Hl _ IH]; intros n Hn;
    (destruct n as [|n]; [lia|]); cbn [walk]; rewrite Hl; [reflexivity|].
  rewrite (IH n); [reflexivity | cbn [length] in Hn; lia].
Qed.

Lemma lchain_length : forall S st t tds k, lchain S st t tds k -> length tds <= count_typedefs S.
Proof.
  intros S st t tds k H.
  pose proof (NoDup_incl_length (lchain_nodup S st t tds k H) (lchain_keys_valid S st t tds k H)) as Hl.
  rewrite map_length in Hl. exact Hl.
Qed.

Lemma lchain_dec : forall S st t,
  (exists tds k, lchain S st t tds k) \/ (forall tds k, ~ lchain S st t tds k).
Proof.
  intros S st t. destruct (walk S (Datatypes.S (count_typedefs S)) st t) as [[tds k]|] eqn:E.
  - left. exists tds, k. eapply walk_sound. exact E.
  - right. intros tds k H. pose proof (lchain_length S st t tds k H) as Hl.
    rewrite (walk_complete S st t tds k H) in E; [discriminate | lia].
Qed.

Lemma link_ok_dec : forall k b t, link_ok k b t \/ ~ link_ok k b t.
Proof.
  intros k b t. unfold link_ok.
  assert (D1 : (if b && kind_eqb k Ydecimal64 then exists i, t_fd t = Some i /\ (1 <= i <= 18)%N else t_fd t = None)
               \/ ~ (if b && kind_eqb k Ydecimal64 then exists i, t_fd t = Some i /\ (1 <= i <= 18)%N
                     else t_fd t = None)).
  { destruct (b && kind_eqb k Ydecimal64).
    - destruct (t_fd t) as [i|]; [|right; intros [i [H _]]; discriminate].
      destruct (N.leb 1 i) eqn:L1; [destruct (N.leb i 18) eqn:L2|].
      + left. exists i. apply N.leb_le in L1, L2. split; [reflexivity | lia].
      + right. intros [j [Hj [_ H2]]]. inversion Hj; subst. apply N.leb_gt in L2. lia.
      + right. intros [j [Hj [H1 _]]]. inversion Hj; subst. apply N.leb_gt in L1. lia.
    - destruct (t_fd t); [right; discriminate | left; reflexivity]. }
  assert (D2 : (b = true -> k = Yidentityref -> t_idbase t <> None)
               \/ ~ (b = true -> k = Yidentityref -> t_idbase t <> None)).
  { destruct b; [|left; discriminate]. destruct (kind_eqb k Yidentityref) eqn:Ek.
    - apply kind_eqb_eq in Ek. destruct (t_idbase t); [left; discriminate | right; intro H; apply (H eq_refl Ek); reflexivity].
    - left. intros _ Hk. subst k. rewrite kind_eqb_refl in Ek. discriminate. }
  destruct D1 as [D1 | D1]; [|right; tauto]. destruct D2 as [D2 | D2]; [|right; tauto].
  destruct (nodup_names (t_enums t)); [|right; intros [_ [_ [H _]]]; discriminate].
  destruct (nodup_names (t_bits t)); [|right; intros [_ [_ [_ H]]]; discriminate].
  left. auto.
Qed.

Lemma links_ok_dec : forall k l, links_ok k l \/ ~ links_ok k l.
Proof.
  intros k. induction l as [|t r IH]; [left; exact I|].
  destruct r as [|t' r'].
  - apply link_ok_dec.
  - change (links_ok k (t :: t' :: r')) with (link_ok k false t /\ links_ok k (t' :: r')).
    destruct (link_ok_dec k false t); destruct IH; tauto.
Qed.

Lemma find_err : forall S fuel (pairs : list (site * tref)),
  count_typedefs S < fuel ->
  (exists p, In p pairs /\ resolve_type S fuel (fst p) (snd p) = Err) \/
  (forall p, In p pairs -> exists y, resolve_type S fuel (fst p) (snd p) = Ok y).
Proof.
  intros S fuel pairs Hf. induction pairs as [|p r IH]; [right; intros p []|].
  destruct (outcome_cases _ (resolve_total S fuel (fst p) (snd p) Hf)) as [[y Hy] | He].
  - destruct IH as [[q [Hq He]] | Hall].
    + left. exists q. split; [right; exact Hq | exact He].
    + right. intros q [Hq | Hq]; [subst; eauto | apply Hall; exact Hq].
  - left. exists p. split; [left; reflexivity | exact He].
Qed.

(* (2) in the form of causes: no (finite) chain of bound typedefs down to a built-in type -- an unbound name somewhere
   on the way or a cycle --, or a type statement of the chain that fails the local checks, or an erroneous union
   member of a type statement of the chain *)
Theorem resolve_error_causes : forall S fuel st t,
  count_typedefs S < fuel ->
  (resolve_type S fuel st t = Err <->
   (forall tds k, ~ lchain S st t tds k) \/
   exists tds k, lchain S st t tds k /\
     (~ links_ok k (map snd (links st t tds)) \/
      exists l u, In l (links st t tds) /\ In u (t_members (snd l)) /\ resolve_type S fuel (fst l) u = Err)).
Proof.
  intros S fuel st t Hf. split.
  - intro He. destruct (lchain_dec S st t) as [[tds [k Hc]] | Hn]; [|left; exact Hn].
    right. exists tds, k. split; [exact Hc|].
    destruct (links_ok_dec k (map snd (links st t tds))) as [Hok | Hnok]; [|left; exact Hnok].
    right.
    set (pairs := flat_map (fun l : site * tref => map (fun u => (fst l, u)) (t_members (snd l))) (links st t tds)).
    destruct (find_err S fuel pairs Hf) as [[p [Hp Hpe]] | Hall].
    + unfold pairs in Hp. apply in_flat_map in Hp. destruct Hp as [l [Hl Hp]]. apply in_map_iff in Hp.
      destruct Hp as [u [Hu Hin]]. subst p. cbn [fst snd] in Hpe. exists l, u. auto.
    + exfalso.
      assert (Hr : resolvable S st t k).
      { apply resolvable_chain. exists tds. split; [exact Hc|]. split; [exact Hok|].
        intros l Hl u Hu. destruct (Hall (fst l, u)) as [y Hy].
        - unfold pairs. apply in_flat_map. exists l. split; [exact Hl|]. apply in_map_iff. exists u. auto.
        - exists (y_kind y). eapply resolve_ok_resolvable. exact Hy. }
      destruct (resolve_complete S fuel st t k Hf Hr) as [y [Hy _]]. congruence.
  - intros [Hn | [tds [k [Hc Hcause]]]]; [apply resolve_no_chain; assumption|].
    destruct (outcome_cases _ (resolve_total S fuel st t Hf)) as [[y Hy] | He]; [|exact He].
    exfalso. pose proof (resolve_ok_resolvable S fuel st t y Hy) as Hr.
    apply resolvable_chain in Hr. destruct Hr as [tds' [C1 [C2 C3]]].
    destruct (lchain_fun S st t tds k Hc tds' (y_kind y) C1) as [Et Ek]. subst tds'. rewrite <- Ek in *.
    destruct Hcause as [Hnok | [l [u [Hl [Hu He]]]]]; [exact (Hnok C2)|].
    destruct (C3 l Hl u Hu) as [k' Hk'].
    destruct (resolve_complete S fuel (fst l) u k' Hf Hk') as [yu [Hyu _]]. congruence.
Qed.

(* why there is no chain: following the lookups from the reference one meets a name that binds nothing, or a typedef
   that is based on itself *)
Theorem no_chain_causes_sound : forall S st t,
  (lookup_type S st (t_name t) = LNone \/
   (exists key td, reaches S st t key td /\ lookup_type S (site_of key) (t_name (td_type td)) = LNone) \/
   (exists key td, reaches S st t key td /\ cyclic S key td)) ->
  forall tds k, ~ lchain S st t tds k.
Proof.
  intros S st t [H | [[key [td [Hr Hn]]] | [key [td [Hr Hc]]]]] tds k Hl.
  - inversion Hl; congruence.
  - destruct (reaches_shorter S st t key td Hr tds k Hl) as [tds' [H1 _]]. inversion H1; congruence.
  - destruct (reaches_shorter S st t key td Hr tds k Hl) as [tds' [H1 _]].
    exact (cyclic_no_chain S key td Hc tds' k H1).
Qed.

(* and conversely: without a chain, following the lookups ends at an unbound name or runs into a cycle *)
Inductive wres :=
| WChain (tds : list (tdkey * typedef)) (k : kind)
| WStuck
| WLong (p : list (tdkey * typedef)).

Fixpoint walkc (S : schema) (n : nat) (st : site) (t : tref) : wres :=
  match n with
  | O => WLong []
  | Datatypes.S n' =>
      match lookup_type S st (t_name t) with
      | LBuiltin k => WChain [] k
      | LNone => WStuck
      | LFound key td =>
          match walkc S n' (site_of key) (td_type td) with
          | WChain tds k => WChain ((key, td) :: tds) k
          | WStuck => WStuck
          | WLong p => WLong ((key, td) :: p)
          end
      end
  end.

Inductive lpath (S : schema) : site -> tref -> list (tdkey * typedef) -> Prop :=
| LP_nil : forall st t, lpath S st t []
| LP_cons : forall st t key td rest,
    lookup_type S st (t_name t) = LFound key td -> lpath S (site_of key) (td_type td) rest ->
    lpath S st t ((key, td) :: rest).

Lemma walkc_chain : forall S n st t tds k, walkc S n st t = WChain tds k -> lchain S st t tds k.
Proof.
  intros S. induction n as [|n IH]; intros st t tds k H; [discriminate|]. cbn [walkc] in H.
  destruct (lookup_type S st (t_name t)) as [k0 | key td |] eqn:El; [| |discriminate].
  - inversion H; subst. apply LChBase. exact El.
  - destruct (walkc S n (site_of key) (td_type td)) as [tds' k' | | p] eqn:Ew; try discriminate.
    inversion H; subst. eapply LChStep; [exact El | apply IH; exact Ew].
Qed.

Lemma walkc_stuck : forall S n st t, walkc S n st t = WStuck ->
  lookup_type S st (t_name t) = LNone \/
  exists key td, reaches S st t key td /\ lookup_type S (site_of key) (t_name (td_type td)) = LNone.
Proof.
  intros S. induction n as [|n IH]; intros st t H; [discriminate|]. cbn [walkc] in H.
  destruct (lookup_type S st (t_name t)) as [k0 | key td |] eqn:El; [discriminate| |left; reflexivity].
  destruct (walkc S n (site_of key) (td_type td)) as [tds' k' | | p] eqn:Ew; try discriminate.
  right. destruct (IH _ _ Ew) as [Hn | [key' [td' [Hr Hn]]]].
  - exists key, td. split; [apply R_one; exact El | exact Hn].
  - exists key', td'. split; [eapply R_more; eauto | exact Hn].
Qed.

Lemma walkc_long : forall S n st t p, walkc S n st t = WLong p -> lpath S st t p /\ length p = n.
Proof.
  intros S. induction n as [|n IH]; intros st t p H.
  - inversion H. split; [constructor | reflexivity].
  - cbn [walkc] in H. destruct (lookup_type S st (t_name t)) as [k0 | key td |] eqn:El; try discriminate.
    destruct (walkc S n (site_of key) (td_type td)) as [tds' k' | | p'] eqn:Ew; try discriminate.
    inversion H; subst. destruct (IH _ _ _ Ew) as [I1 I2]. split; [constructor; assumption | cbn [length]; lia].
Qed.

Lemma lpath_split : forall S p1 st t key td p2,
  lpath S st t (p1 ++ (key, td) :: p2) -> reaches S st t key td /\ lpath S (site_of key) (td_type td) p2.
Proof.
  intros S. induction p1 as [|[k1 d1] p1 IH]; intros st t key td p2 H; cbn [app] in H;
    inversion H as [|? ? ? ? ? Hl Hr]; subst.
  - split; [apply R_one; exact Hl | exact Hr].
  - destruct (IH _ _ _ _ _ Hr) as [I1 I2]. split; [eapply R_more; eauto | exact I2].
Qed.

Lemma lpath_keys_valid : forall S st t p, lpath S st t p -> incl (map fst p) (all_keys S).
Proof.
  intros S st t p H. induction H as [|st t key td rest Hl _ IH]; [intros x []|].
  intros x [Hx | Hx]; [subst; eapply lookup_valid; exact Hl | apply IH; exact Hx].
Qed.

Definition tdkey_eq_dec : forall a b : tdkey, {a = b} + {a <> b}.
Proof. repeat decide equality. Defined.

Lemma dup_or_nodup : forall l : list tdkey,
  NoDup l \/ exists x l1 l2 l3, l = l1 ++ x :: l2 ++ x :: l3.
Proof.
  induction l as [|a r IH]; [left; constructor|].
  destruct (in_dec tdkey_eq_dec a r) as [Hin | Hnin].
  - right. apply in_split in Hin. destruct Hin as [r1 [r2 Hr]]. exists a, [], r1, r2. subst r. reflexivity.
  - destruct IH as [Hnd | [x [l1 [l2 [l3 Hl]]]]].
    + left. constructor; assumption.
    + right. exists x, (a :: l1), l2, l3. subst r. reflexivity.
Qed.

Lemma map_fst_split : forall (p : list (tdkey * typedef)) l1 x r,
  map fst p = l1 ++ x :: r -> exists p1 td p2, p = p1 ++ (x, td) :: p2 /\ map fst p1 = l1 /\ map fst p2 = r.
Proof.
  induction p as [|[k d] p IH]; intros l1 x r H.
  - destruct l1; discriminate.
  - destruct l1 as [|a l1]; cbn [map fst app] in H; inversion H; subst.
    + exists [], d, p. auto.
    + destruct (IH l1 x r H2) as [p1 [td [p2 [E1 [E2 E3]]]]]. exists ((a, d) :: p1), td, p2.
      subst p. cbn [map fst app]. rewrite E2. auto.
Qed.

Theorem no_chain_causes : forall S st t,
  (forall tds k, ~ lchain S st t tds k) <->
  (lookup_type S st (t_name t) = LNone \/
   (exists key td, reaches S st t key td /\ lookup_type S (site_of key) (t_name (td_type td)) = LNone) \/
   (exists key td, reaches S st t key td /\ cyclic S key td)).
Proof.
  intros S st t. split; [|apply no_chain_causes_sound].
  intro Hn. destruct (walkc S (Datatypes.S (count_typedefs S)) st t) as [tds k | | p] eqn:Ew.
  - exfalso. exact (Hn tds k (walkc_chain S _ st t tds k Ew)).
  - destruct (walkc_stuck S _ st t Ew) as [H | H]; [left; exact H | right; left; exact H].
  - right. right. destruct (walkc_long S _ st t p Ew) as [Hp Hlen].
    destruct (dup_or_nodup (map fst p)) as [Hnd | [x [l1 [l2 [l3 Hd]]]]].
    + exfalso. pose proof (NoDup_incl_length Hnd (lpath_keys_valid S st t p Hp)) as Hl.
      rewrite map_length in Hl. unfold count_typedefs in Hlen. lia.
    + destruct (map_fst_split p l1 x (l2 ++ x :: l3) Hd) as [p1 [td [p2 [E1 [_ E3]]]]].
      destruct (map_fst_split p2 l2 x l3 E3) as [q1 [td' [q2 [F1 _]]]].
      subst p. destruct (lpath_split S p1 st t x td p2 Hp) as [R1 P2]. subst p2.
      destruct (lpath_split S q1 _ _ x td' q2 P2) as [R2 _].
      assert (td' = td).
      { pose proof (reaches_entry S _ _ x td R1). pose proof (reaches_entry S _ _ x td' R2). congruence. }
      subst td'. exists x, td. split; [exact R1 | exact R2].
Qed.

(* ------------------------------------------------------------------ resolved ranges of integer types: C09 x C10 *)

Lemma chain_of_sound : forall S n st t tds k, chain_of S n st t = Some (tds, k) -> lchain S st t tds k.
Proof.
  intros S. induction n as [|n IH]; intros st t tds k H; [discriminate|]. cbn [chain_of] in H.
  destruct (lookup_type S st (t_name t)) as [k0 | key td |] eqn:El; [| |discriminate].
  - inversion H; subst. apply LChBase. exact El.
  - destruct (chain_of S n (site_of key) (td_type td)) as [[tds' k']|] eqn:Ew; [|discriminate].
    inversion H; subst. eapply LChStep; [exact El | apply IH; exact Ew].
Qed.

Lemma chain_of_complete : forall S st t tds k, lchain S st t tds k ->
  chain_of S (resolve_fuel S) st t = Some (tds, k).
Proof.
  intros S st t tds k H. pose proof (lchain_length S st t tds k H) as Hlen.
  assert (G : forall n, length tds < n -> chain_of S n st t = Some (tds, k)).
  { clear Hlen. induction H as [st t k Hl | st t key td rest k Hl _ IH]; intros n Hn;
      (destruct n as [|n]; [lia|]); cbn [chain_of]; rewrite Hl; [reflexivity|].
    rewrite (IH n); [reflexivity | cbn [length] in Hn; lia]. }
  apply G. unfold resolve_fuel. lia.
Qed.

Lemma base_range_ok : forall k, okRs 0 (base_range k) /\ WF (base_range k).
Proof.
  destruct k; unfold base_range, int_bounds; (split; [repeat constructor | cbn [WF]; auto]);
    unfold okR, okN, dom, rMin, rMax, valid, lo, hi, sval, FromInt, u64, two64; cbn; repeat split; try lia.
Qed.

Lemma base_range_nonempty : forall k b, int_bounds k = Some b -> base_range k <> [].
Proof. intros k [a b] H. unfold base_range. rewrite H. discriminate. Qed.

Lemma apply_ranges_derived : forall y0 texts y r,
  okRs 0 y0 -> WF y0 -> y0 <> [] ->
  derived 0 false y0 y -> apply_ranges y texts = Ok r -> derived 0 false y0 r.
Proof.
  intros y0. induction texts as [|s rest IH]; intros y r O W N D H.
  - cbn in H. inversion H; subst. exact D.
  - cbn [apply_ranges] in H. apply bind_ok in H. destruct H as [yr [H1 H]].
    apply (IH (if YangRange_Equal yr y then y else yr) r O W N); [|exact H].
    destruct (YangRange_Equal yr y); [exact D | eapply derived_step; eauto].
Qed.

Lemma apply_ranges_no_panic : forall y0 texts y,
  okRs 0 y0 -> WF y0 -> y0 <> [] -> derived 0 false y0 y -> apply_ranges y texts <> Panic.
Proof.
  intros y0. induction texts as [|s rest IH]; intros y O W N D; [discriminate|].
  cbn [apply_ranges].
  destruct (chain_narrows 0 false y0 y O W N (fun _ => eq_refl) D) as [Wy [Oy _]].
  pose proof (parseChildRanges_spec 0 false y (codes_of_str s) Oy Wy (fun _ => eq_refl)) as P.
  destruct (parseChildRanges y (codes_of_str s) false 0) as [yr| | |] eqn:E; cbn [obind]; try discriminate;
    [|contradiction].
  apply (IH _ O W N). destruct (YangRange_Equal yr y); [exact D | eapply derived_step; eauto].
Qed.

(* the resolved range of an integer type is what C10's parseChildRanges yields when it is applied, link by link from
   the base outward, to the range statements of the chain T2 speaks of; it is a well-formed non-empty presentation
   of a subset of the built-in range (and, step by step, of the parent's range: C10_parseChildRanges) *)
Theorem range_of_spec : forall S st t r,
  range_of S st t = Ok (Some r) ->
  exists tds k,
    lchain S st t tds k /\ int_bounds k <> None /\
    apply_ranges (base_range k) (chain_range_texts t (map snd tds)) = Ok r /\
    derived 0 false (base_range k) r /\
    WF r /\ r <> [] /\ subset (den r) (den (base_range k)).
Proof.
  intros S st t r H. unfold range_of in H.
  destruct (chain_of S (resolve_fuel S) st t) as [[tds k]|] eqn:Ec; [|discriminate].
  destruct (int_bounds k) as [b|] eqn:Eb; [|discriminate].
  apply bind_ok in H. destruct H as [r' [H1 H]]. inversion H; subst r'.
  destruct (base_range_ok k) as [O W]. pose proof (base_range_nonempty k b Eb) as N.
  pose proof (apply_ranges_derived (base_range k) _ (base_range k) r O W N (derived_base _ _ _) H1) as D.
  destruct (chain_narrows 0 false (base_range k) r O W N (fun _ => eq_refl) D) as [Wr [_ [Nr Sr]]].
  exists tds, k. split; [eapply chain_of_sound; exact Ec|]. split; [congruence|]. auto.
Qed.

Theorem range_of_no_panic : forall S st t, range_of S st t <> Panic.
Proof.
  intros S st t. unfold range_of.
  destruct (chain_of S (resolve_fuel S) st t) as [[tds k]|]; [|discriminate].
  destruct (int_bounds k) as [b|] eqn:Eb; [|discriminate].
  destruct (base_range_ok k) as [O W]. pose proof (base_range_nonempty k b Eb) as N.
  pose proof (apply_ranges_no_panic (base_range k) (chain_range_texts t (map snd tds)) (base_range k) O W N
                (derived_base _ _ _)) as P.
  destruct (apply_ranges (base_range k) (chain_range_texts t (map snd tds))); cbn [obind]; congruence.
Qed.

(* a reference that has a chain to an integer kind has a resolved range or a range error *)
Theorem range_of_defined : forall S st t tds k,
  lchain S st t tds k -> int_bounds k <> None ->
  range_of S st t = (r <- apply_ranges (base_range k) (chain_range_texts t (map snd tds)) ;; Ok (Some r)).
Proof.
  intros S st t tds k Hc Hk. unfold range_of. rewrite (chain_of_complete S st t tds k Hc).
  destruct (int_bounds k); [reflexivity | congruence].
Qed.

(* the opaque range text of the resolved type (T2: nearest range statement) is the last text applied here *)
Lemma filter_some_app : forall {A} (a b : list (option A)), filter_some (a ++ b) = filter_some a ++ filter_some b.
Proof. intros A a b. induction a as [|[x|] a IH]; cbn; [reflexivity | rewrite IH; reflexivity | exact IH]. Qed.

Lemma filter_some_rev : forall {A} (l : list (option A)), filter_some (rev l) = rev (filter_some l).
Proof.
  intros A. induction l as [|[x|] l IH]; cbn [rev filter_some]; [reflexivity | |];
    rewrite filter_some_app, IH; cbn [filter_some]; [reflexivity | rewrite app_nil_r; reflexivity].
Qed.

Lemma first_some_hd : forall {A} (l : list (option A)), first_some l = hd_error (filter_some l).
Proof. intros A. induction l as [|[x|] l IH]; cbn; [reflexivity | reflexivity | exact IH]. Qed.

Theorem range_text_is_last : forall k t tds mss,
  y_range (chain_type k t tds mss) = hd_error (rev (chain_range_texts t tds)).
Proof.
  intros. unfold chain_type, chain_range_texts. cbn [y_range].
  rewrite filter_some_rev, rev_involutive. apply first_some_hd.
Qed.
