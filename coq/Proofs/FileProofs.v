(* C13 (b): the file chooser model (Model/File.v) against its specification (Spec/C13.v). *)
From Coq Require Import List Arith NArith Bool Lia.
Import ListNotations.
From GY Require Import Base.Outcome Model.Registry Model.File Spec.C13 Proofs.RegistryProofs.

(* ------------------------------------------------------------------ strings *)

Lemma str_eqb_sym : forall a b, str_eqb a b = str_eqb b a.
Proof.
  intros a b. destruct (str_eqb a b) eqn:E.
  - apply str_eqb_eq in E. subst. symmetry. apply str_eqb_refl.
  - symmetry. apply str_eqb_neq. apply str_eqb_neq in E. congruence.
Qed.

Lemma has_prefix_true : forall p s, has_prefix s p = true <-> exists t, s = p ++ t.
Proof.
  induction p as [|c p IH]; intros s; simpl.
  - split; [intros _; exists s; reflexivity|reflexivity].
  - destruct s as [|d s].
    + split; [discriminate|]. intros [t E]. discriminate.
    + rewrite andb_true_iff, N.eqb_eq, IH. split.
      * intros [-> [t ->]]. exists t. reflexivity.
      * intros [t E]. inversion E; subst. split; [reflexivity|exists t; reflexivity].
Qed.

Lemma has_prefix_app : forall p t, has_prefix (p ++ t) p = true.
Proof. intros. apply has_prefix_true. exists t. reflexivity. Qed.

Lemma skipn_len_app : forall (A : Type) (a b : list A), skipn (length a) (a ++ b) = b.
Proof. induction a as [|x a IH]; intros b; simpl; [reflexivity|apply IH]. Qed.

Lemma firstn_len_app : forall (A : Type) (a b : list A), firstn (length a) (a ++ b) = a.
Proof. induction a as [|x a IH]; intros b; simpl; [reflexivity|]. rewrite IH. reflexivity. Qed.

Lemma trim_suffix_app : forall n suf, trim_suffix (n ++ suf) suf = n.
Proof.
  intros n suf. unfold trim_suffix, has_suffix. rewrite rev_app_distr, has_prefix_app.
  rewrite app_length. replace (length n + length suf - length suf) with (length n) by lia.
  apply firstn_len_app.
Qed.

Lemma str_ltb_app_r_len : forall a b s, length a = length b -> str_ltb (a ++ s) (b ++ s) = str_ltb a b.
Proof.
  induction a as [|x a IH]; intros [|y b] s L; simpl in *; try discriminate.
  - apply str_ltb_irrefl.
  - rewrite IH by lia. reflexivity.
Qed.

Lemma date_shaped_len : forall d, date_shaped d = true -> length d = 10.
Proof.
  intros d H. unfold date_shaped in H.
  destruct d as [|a [|b [|c [|e [|f [|g [|i [|j [|k [|l [|z t]]]]]]]]]]]; try discriminate; reflexivity.
Qed.

(* comparing two dates as strings is comparing them as calendar dates *)
Lemma digits_order : forall la lb acca accb,
  length la = length lb ->
  Forall (fun c => is_digit c = true) la -> Forall (fun c => is_digit c = true) lb ->
  N.ltb (digits_val acca la) (digits_val accb lb) =
  if N.ltb acca accb then true else if N.eqb acca accb then str_ltb la lb else false.
Proof.
  unfold digits_val.
  induction la as [|x la IH]; intros [|y lb] acca accb L Fa Fb; simpl in L; try discriminate.
  - simpl. destruct (N.ltb_spec acca accb), (N.eqb_spec acca accb); try reflexivity; lia.
  - inversion Fa as [|? ? Hx Fa']; inversion Fb as [|? ? Hy Fb']; subst.
    cbn [fold_left str_ltb]. rewrite IH by (auto; lia).
    unfold is_digit in Hx, Hy. apply andb_true_iff in Hx. apply andb_true_iff in Hy.
    destruct Hx as [X1 X2], Hy as [Y1 Y2].
    apply N.leb_le in X1. apply N.leb_le in X2. apply N.leb_le in Y1. apply N.leb_le in Y2.
    destruct (N.ltb_spec acca accb), (N.eqb_spec acca accb),
             (N.ltb_spec x y), (N.eqb_spec x y),
             (N.ltb_spec (acca * 10 + (x - 48)) (accb * 10 + (y - 48))),
             (N.eqb_spec (acca * 10 + (x - 48)) (accb * 10 + (y - 48))); try reflexivity; try lia.
Qed.

Lemma date_order : forall a b, date_shaped a = true -> date_shaped b = true ->
  str_ltb a b = N.ltb (date_num a) (date_num b).
Proof.
  intros a b Ha Hb. unfold date_shaped in Ha, Hb.
  destruct a as [|a1 [|a2 [|a3 [|a4 [|a5 [|a6 [|a7 [|a8 [|a9 [|a10 [|z t]]]]]]]]]]]; try discriminate.
  destruct b as [|b1 [|b2 [|b3 [|b4 [|b5 [|b6 [|b7 [|b8 [|b9 [|b10 [|z t]]]]]]]]]]]; try discriminate.
  repeat match goal with
         | H : _ && _ = true |- _ => apply andb_true_iff in H; destruct H
         end.
  repeat match goal with
         | H : N.eqb _ DASH = true |- _ => apply N.eqb_eq in H; subst
         end.
  unfold date_num. rewrite digits_order by (try reflexivity; repeat constructor; assumption).
  unfold DASH. cbn. reflexivity.
Qed.

(* ------------------------------------------------------------------ candidates *)

Lemma date_of_some : forall name fn d, date_of name fn = Some d ->
  date_shaped d = true /\ fn = name ++ AT :: d ++ DOT_YANG.
Proof.
  unfold date_of. intros name fn d H.
  destruct (has_prefix fn name) eqn:P; [|discriminate].
  apply has_prefix_true in P. destruct P as [t ->]. rewrite skipn_len_app in H.
  destruct t as [|c rest]; [discriminate|].
  destruct (N.eqb c AT && date_shaped (firstn 10 rest) && str_eqb (skipn 10 rest) DOT_YANG) eqn:C; [|discriminate].
  assert (Hd : firstn 10 rest = d) by congruence. subst d. clear H.
  apply andb_true_iff in C. destruct C as [C C3]. apply andb_true_iff in C. destruct C as [C1 C2].
  apply N.eqb_eq in C1. apply str_eqb_eq in C3. subst c. split; [exact C2|].
  rewrite <- C3, firstn_skipn. reflexivity.
Qed.

Lemma date_of_build : forall name d, date_shaped d = true ->
  date_of name (name ++ AT :: d ++ DOT_YANG) = Some d.
Proof.
  intros name d H. unfold date_of. rewrite has_prefix_app, skipn_len_app.
  pose proof (date_shaped_len d H) as L.
  replace 10 with (length d) by exact L. rewrite firstn_len_app, skipn_len_app.
  rewrite N.eqb_refl, H, str_eqb_refl. reflexivity.
Qed.

Lemma is_revision_date_of : forall mname fn,
  is_revision_of mname fn = match date_of mname fn with Some _ => true | None => false end.
Proof.
  intros mname fn. unfold is_revision_of, date_of, trim_prefix, date_suffix_match.
  destruct (has_prefix fn mname); [|reflexivity]. cbn [andb].
  destruct (skipn (length mname) fn) as [|c rest]; [reflexivity|].
  destruct (N.eqb c AT && date_shaped (firstn 10 rest) && str_eqb (skipn 10 rest) DOT_YANG); reflexivity.
Qed.

Definition revs_of (mname : str) (es : list entry) : list str :=
  filter (is_revision_of mname) (files es).

Lemma revs_dates : forall mname es,
  revs_of mname es = map (fun d => mname ++ AT :: d ++ DOT_YANG) (dates mname es).
Proof.
  intros mname es. unfold revs_of, dates. induction (files es) as [|fn l IH]; simpl; [reflexivity|].
  rewrite is_revision_date_of. destruct (date_of mname fn) as [d|] eqn:D; simpl.
  - apply date_of_some in D. destruct D as [_ ->]. rewrite IH. reflexivity.
  - exact IH.
Qed.

Lemma dates_shaped : forall mname es d, In d (dates mname es) -> date_shaped d = true.
Proof.
  intros mname es d. unfold dates. rewrite in_flat_map. intros (fn & _ & H).
  destruct (date_of mname fn) as [d'|] eqn:D; [|destruct H].
  destruct H as [<-|[]]. apply date_of_some in D. tauto.
Qed.

Lemma dates_in : forall mname es d, In d (dates mname es) <->
  date_shaped d = true /\ In (mname ++ AT :: d ++ DOT_YANG) (files es).
Proof.
  intros mname es d. unfold dates. rewrite in_flat_map. split.
  - intros (fn & Hf & H). destruct (date_of mname fn) as [d'|] eqn:D; [|destruct H].
    destruct H as [<-|[]]. apply date_of_some in D. destruct D as [A ->]. auto.
  - intros [A B]. exists (mname ++ AT :: d ++ DOT_YANG). split; [exact B|].
    rewrite date_of_build by exact A. left. reflexivity.
Qed.

Lemma max_str_in : forall rs r, max_str r rs = r \/ In (max_str r rs) rs.
Proof.
  unfold max_str. induction rs as [|x rs IH]; intros r; simpl; [left; reflexivity|].
  destruct (IH (if str_ltb r x then x else r)) as [E|E].
  - rewrite E. destruct (str_ltb r x); auto.
  - right. right. exact E.
Qed.

Lemma max_str_ge : forall rs r x, (x = r \/ In x rs) -> str_ltb (max_str r rs) x = false.
Proof. unfold max_str. intros rs r x H. apply Current_acc_ge. intuition. Qed.

Lemma max_str_map : forall (f : str -> str) rs r,
  (forall a b, (a = r \/ In a rs) -> (b = r \/ In b rs) -> str_ltb (f a) (f b) = str_ltb a b) ->
  max_str (f r) (map f rs) = f (max_str r rs).
Proof.
  unfold max_str. induction rs as [|x rs IH]; intros r H; simpl; [reflexivity|].
  rewrite (H r x) by (simpl; auto).
  destruct (str_ltb r x); apply IH; intros a b Ha Hb; apply H; simpl; intuition.
Qed.

Lemma spec_best_dated : forall mname es,
  match revs_of mname es with
  | [] => dates mname es = []
  | r :: rs => exists d ds, dates mname es = d :: ds /\
                 max_str r rs = mname ++ AT :: max_str d ds ++ DOT_YANG
  end.
Proof.
  intros mname es. rewrite revs_dates.
  pose proof (dates_shaped mname es) as Sh.
  destruct (dates mname es) as [|d ds]; simpl; [reflexivity|].
  exists d, ds. split; [reflexivity|].
  apply (max_str_map (fun d => mname ++ AT :: d ++ DOT_YANG)).
  intros a b Ha Hb. rewrite str_ltb_app_l. simpl. unfold AT. simpl.
  apply str_ltb_app_r_len.
  rewrite (date_shaped_len a), (date_shaped_len b); [reflexivity| |]; apply Sh; simpl; intuition.
Qed.

(* what [spec_best] offers is a file of the directory that belongs to the module, it is
   name.yang whenever that exists, and no dated file of the module has a later date *)
Lemma spec_best_sound : forall name es f, spec_best name es = Some f ->
  In f (files es) /\ candidate name f /\
  (In (name ++ DOT_YANG) (files es) -> f = name ++ DOT_YANG) /\
  (f <> name ++ DOT_YANG ->
   exists df, f = name ++ AT :: df ++ DOT_YANG /\ date_shaped df = true /\
     forall d, date_shaped d = true -> In (name ++ AT :: d ++ DOT_YANG) (files es) -> str_ltb df d = false).
Proof.
  intros name es f H. unfold spec_best in H.
  destruct (existsb (str_eqb (name ++ DOT_YANG)) (files es)) eqn:E.
  - inversion H; subst; clear H. apply existsb_exists in E. destruct E as (x & Hx & Ex).
    apply str_eqb_eq in Ex. subst x. repeat split; auto.
    + left. reflexivity.
    + intros C. contradiction.
  - destruct (dates name es) as [|d ds] eqn:D; [discriminate|]. inversion H; subst; clear H.
    assert (Hm : In (max_str d ds) (dates name es)).
    { rewrite D. destruct (max_str_in ds d) as [->|I]; [left; reflexivity|right; exact I]. }
    pose proof (proj1 (dates_in name es _) Hm) as [Sh Hin].
    repeat split; auto.
    + right. exists (max_str d ds). auto.
    + intros C. exfalso.
      assert (existsb (str_eqb (name ++ DOT_YANG)) (files es) = true).
      { apply existsb_exists. exists (name ++ DOT_YANG). split; [exact C|apply str_eqb_refl]. }
      congruence.
    + intros _. exists (max_str d ds). repeat split; auto.
      intros d' Sh' In'. apply max_str_ge.
      assert (I : In d' (dates name es)) by (apply dates_in; auto).
      rewrite D in I. destruct I as [<-|I]; auto.
Qed.

Lemma spec_best_none : forall name es, spec_best name es = None ->
  forall f, In f (files es) -> ~ candidate name f.
Proof.
  intros name es H f Hf C. unfold spec_best in H.
  destruct (existsb (str_eqb (name ++ DOT_YANG)) (files es)) eqn:E; [discriminate|].
  destruct (dates name es) as [|d ds] eqn:D; [|discriminate].
  destruct C as [->|(d & Sh & ->)].
  - pose proof (existsb_false_in _ _ _ _ E Hf) as X. rewrite str_eqb_refl in X. discriminate.
  - assert (I : In d (dates name es)) by (apply dates_in; auto). rewrite D in I. destruct I.
Qed.

(* ------------------------------------------------------------------ the loop *)

Section ScanChar.
  Variable rec : entry -> option (list str).
  Variables (mname : str) (recurse : bool).
  Let name := mname ++ DOT_YANG.

  Fixpoint first_hit (fis : list entry) : option (list str) :=
    match fis with
    | [] => None
    | File fn :: rest => if str_eqb fn name then Some [name] else first_hit rest
    | (Dir dn _ as d) :: rest =>
        if recurse then match rec d with Some p => Some (dn :: p) | None => first_hit rest end
        else first_hit rest
    end.

  Fixpoint first_sub (fis : list entry) : option (list str) :=
    match fis with
    | [] => None
    | File _ :: rest => first_sub rest
    | (Dir dn _ as d) :: rest =>
        match rec d with Some p => Some (dn :: p) | None => first_sub rest end
    end.

  Lemma scan_char : forall fis revisions,
    scan rec name mname recurse fis revisions =
    match first_hit fis with
    | Some p => Some p
    | None => match revisions ++ revs_of mname fis with
              | [] => None
              | r :: rs => Some [max_str r rs]
              end
    end.
  Proof.
    induction fis as [|e fis IH]; intros revisions; simpl.
    - unfold revs_of. simpl. rewrite app_nil_r. reflexivity.
    - destruct e as [fn|dn cs].
      + destruct (str_eqb fn name) eqn:E; [reflexivity|].
        unfold revs_of. simpl. destruct (is_revision_of mname fn) eqn:R.
        * rewrite IH. destruct (first_hit fis); [reflexivity|].
          unfold revs_of. rewrite <- app_assoc. reflexivity.
        * apply IH.
      + destruct recurse.
        * destruct (rec (Dir dn cs)); [reflexivity|]. apply IH.
        * apply IH.
  Qed.

  Lemma first_hit_none_exact : forall fis, first_hit fis = None ->
    existsb (str_eqb name) (files fis) = false.
  Proof.
    induction fis as [|e fis IH]; simpl; intros H; [reflexivity|].
    destruct e as [fn|dn cs]; simpl.
    - rewrite str_eqb_sym. destruct (str_eqb fn name); [discriminate|]. simpl. apply IH. exact H.
    - apply IH. destruct recurse; [|exact H]. destruct (rec (Dir dn cs)); [discriminate|exact H].
  Qed.

  (* the answer of the loop when no subdirectory answers *)
  Lemma scan_local : forall fis,
    (recurse = false \/ forall dn cs, In (Dir dn cs) fis -> rec (Dir dn cs) = None) ->
    scan rec name mname recurse fis [] = option_map (fun f => [f]) (spec_best mname fis).
  Proof.
    intros fis H. rewrite scan_char. simpl.
    assert (FH : first_hit fis = if existsb (str_eqb name) (files fis) then Some [name] else None).
    { induction fis as [|e fis IH]; simpl; [reflexivity|]. destruct e as [fn|dn cs]; simpl.
      - rewrite (str_eqb_sym name fn). destruct (str_eqb fn name); [reflexivity|]. simpl. apply IH.
        destruct H as [H|H]; [left; exact H|right; intros; apply H; right; assumption].
      - assert (T : first_hit fis = if existsb (str_eqb name) (files fis) then Some [name] else None).
        { apply IH. destruct H as [H|H]; [left; exact H|right; intros; apply H; right; assumption]. }
        destruct H as [Hr|H]; [rewrite Hr; exact T|]. destruct recurse; [|exact T].
        rewrite (H dn cs) by (left; reflexivity). exact T. }
    rewrite FH. unfold spec_best. fold name.
    destruct (existsb (str_eqb name) (files fis)); [reflexivity|].
    pose proof (spec_best_dated mname fis) as D.
    destruct (revs_of mname fis) as [|r rs].
    - rewrite D. reflexivity.
    - destruct D as (d & ds & -> & ->). reflexivity.
  Qed.

  (* the answer of the loop when the directory itself offers nothing *)
  Lemma scan_below : forall fis, recurse = true -> spec_best mname fis = None ->
    scan rec name mname recurse fis [] = first_sub fis.
  Proof.
    intros fis Hr H. rewrite scan_char. simpl.
    unfold spec_best in H. fold name in H.
    destruct (existsb (str_eqb name) (files fis)) eqn:E; [discriminate|].
    pose proof (spec_best_dated mname fis) as D.
    destruct (dates mname fis) as [|d ds] eqn:Dt; [|discriminate].
    destruct (revs_of mname fis) as [|r rs]; [|destruct D as (? & ? & ? & _); discriminate].
    clear D Dt H. induction fis as [|e fis IH]; simpl; [reflexivity|].
    destruct e as [fn|dn cs]; simpl in *.
    - rewrite (str_eqb_sym name fn) in E. destruct (str_eqb fn name); [discriminate|]. apply IH. exact E.
    - rewrite Hr. destruct (rec (Dir dn cs)); [reflexivity|]. apply IH. exact E.
  Qed.

  (* every answer of the loop is the directory's own offer or a subdirectory's answer *)
  Lemma scan_sound : forall fis p, scan rec name mname recurse fis [] = Some p ->
    (exists f, p = [f] /\ spec_best mname fis = Some f) \/
    (recurse = true /\ exists dn cs q, In (Dir dn cs) fis /\ rec (Dir dn cs) = Some q /\ p = dn :: q).
  Proof.
    intros fis p H. rewrite scan_char in H. simpl in H.
    destruct (first_hit fis) as [p'|] eqn:FH.
    - inversion H; subst p'; clear H.
      assert (G : (p = [name] /\ existsb (str_eqb name) (files fis) = true) \/
                  (recurse = true /\ exists dn cs q, In (Dir dn cs) fis /\ rec (Dir dn cs) = Some q /\ p = dn :: q)).
      { clear -FH. induction fis as [|e fis IH]; simpl in FH; [discriminate|].
        destruct e as [fn|dn cs]; simpl.
        - rewrite (str_eqb_sym name fn). destruct (str_eqb fn name).
          + inversion FH. left. auto.
          + destruct (IH FH) as [[A B]|(A & dn & cs & q & B & C & D)].
            * left. auto.
            * right. split; [exact A|]. exists dn, cs, q. auto.
        - destruct recurse eqn:R.
          + destruct (rec (Dir dn cs)) as [q|] eqn:Q.
            * inversion FH. right. split; [reflexivity|]. exists dn, cs, q. auto.
            * destruct (IH FH) as [[A B]|(A & dn' & cs' & q & B & C & D)].
              -- left. auto.
              -- right. split; [reflexivity|]. exists dn', cs', q. auto.
          + destruct (IH FH) as [[A B]|(A & _)]; [left; auto|discriminate]. }
      destruct G as [[-> G]|G]; [left|right; exact G].
      exists name. split; [reflexivity|]. unfold spec_best. fold name. rewrite G. reflexivity.
    - left. pose proof (first_hit_none_exact _ FH) as E.
      pose proof (spec_best_dated mname fis) as D.
      destruct (revs_of mname fis) as [|r rs]; [discriminate|].
      destruct D as (d & ds & Dt & Mx). inversion H; subst p; clear H.
      exists (max_str r rs). split; [reflexivity|].
      unfold spec_best. fold name. rewrite E, Dt, Mx. reflexivity.
  Qed.

  Lemma scan_none : forall fis, scan rec name mname recurse fis [] = None ->
    spec_best mname fis = None /\
    (recurse = true -> forall dn cs, In (Dir dn cs) fis -> rec (Dir dn cs) = None).
  Proof.
    intros fis H. rewrite scan_char in H. simpl in H.
    destruct (first_hit fis) eqn:FH; [discriminate|].
    pose proof (first_hit_none_exact _ FH) as E.
    pose proof (spec_best_dated mname fis) as D.
    destruct (revs_of mname fis) as [|r rs]; [|discriminate]. split.
    - unfold spec_best. fold name. rewrite E, D. reflexivity.
    - intros Hr dn cs Hin. clear -FH Hin Hr. induction fis as [|e fis IH]; [destruct Hin|].
      simpl in FH. destruct e as [fn|dn' cs'].
      + destruct (str_eqb fn name); [discriminate|]. destruct Hin as [Hin|Hin]; [discriminate|auto].
      + rewrite Hr in FH. destruct (rec (Dir dn' cs')) eqn:R; [discriminate|].
        destruct Hin as [Hin|Hin]; [inversion Hin; subst; exact R|auto].
  Qed.
End ScanChar.

(* ------------------------------------------------------------------ trees *)

Lemma entry_ind' : forall P : entry -> Prop,
  (forall n, P (File n)) ->
  (forall n cs, Forall P cs -> P (Dir n cs)) ->
  forall e, P e.
Proof.
  intros P HF HD. fix IH 1. intros [n|n cs].
  - apply HF.
  - apply HD. induction cs as [|c cs IHcs]; constructor; [apply IH|exact IHcs].
Qed.

Lemma findInDir_dir : forall mname recurse n es,
  findInDir (mname ++ DOT_YANG) recurse (Dir n es) =
  scan (findInDir (mname ++ DOT_YANG) recurse) (mname ++ DOT_YANG) mname recurse es [].
Proof. intros. simpl. rewrite trim_suffix_app. reflexivity. Qed.

(* T-b for one plain directory: name.yang if present, else the latest date, else nothing *)
Theorem findInDir_plain : forall mname n es,
  findInDir (mname ++ DOT_YANG) false (Dir n es) = option_map (fun f => [f]) (spec_best mname es).
Proof. intros. rewrite findInDir_dir. apply scan_local. left. reflexivity. Qed.

Lemma first_offer_app : forall name a b,
  first_offer name (a ++ b) =
  match first_offer name a with Some p => Some p | None => first_offer name b end.
Proof.
  induction a as [|[p es] a IH]; intros b; simpl; [reflexivity|].
  destruct (spec_best name es); [reflexivity|apply IH].
Qed.

Lemma first_offer_prefix : forall name dn l,
  first_offer name (map (fun pe => (dn :: fst pe, snd pe)) l) = option_map (cons dn) (first_offer name l).
Proof.
  induction l as [|[p es] l IH]; simpl; [reflexivity|].
  destruct (spec_best name es); [reflexivity|exact IH].
Qed.

Lemma first_offer_in : forall name ds p, first_offer name ds = Some p ->
  exists q es f, p = q ++ [f] /\ In (q, es) ds /\ spec_best name es = Some f.
Proof.
  induction ds as [|[q es] ds IH]; simpl; intros p H; [discriminate|].
  destruct (spec_best name es) as [f|] eqn:B.
  - inversion H. exists q, es, f. auto.
  - destruct (IH p H) as (q' & es' & f & A & I & C). exists q', es', f. auto.
Qed.

(* some directory of the expansion offers a file iff any_offer *)
Lemma first_offer_expand : forall name d,
  first_offer name (expand d) = None <-> any_offer name d = false.
Proof.
  intros name. induction d as [n|n cs IH] using entry_ind'; simpl; [tauto|].
  destruct (spec_best name cs) as [f|]; simpl; [split; discriminate|].
  induction cs as [|c cs IHcs]; simpl; [tauto|].
  inversion IH as [|? ? Hc Hcs]; subst. specialize (IHcs Hcs).
  rewrite first_offer_app, orb_false_iff, <- IHcs.
  destruct c as [fn|dn cs'].
  - simpl. tauto.
  - cbv iota. rewrite first_offer_prefix.
    destruct (first_offer name (expand (Dir dn cs'))) eqn:F; cbn [option_map].
    + split; [discriminate|]. intros [A _]. apply Hc in A. discriminate.
    + split; [intros G; split; [apply Hc; reflexivity|exact G]|tauto].
Qed.

(* findInDir answers nothing exactly when no directory below offers anything *)
Theorem findInDir_none : forall mname d,
  findInDir (mname ++ DOT_YANG) true d = None <-> any_offer mname d = false.
Proof.
  intros mname. induction d as [n|n cs IH] using entry_ind'; [simpl; tauto|].
  rewrite findInDir_dir. rewrite Forall_forall in IH. split.
  - intros H. apply scan_none in H. destruct H as [B S]. simpl. rewrite B. simpl.
    destruct (existsb (any_offer mname) cs) eqn:E; [|reflexivity].
    apply existsb_exists in E. destruct E as (c & Hc & Ac). destruct c as [fn|dn cs']; [discriminate|].
    specialize (S eq_refl dn cs' Hc). apply (IH _ Hc) in S. congruence.
  - intros H. simpl in H. apply orb_false_iff in H. destruct H as [B E].
    rewrite scan_local.
    + destruct (spec_best mname cs); [discriminate|reflexivity].
    + right. intros dn cs' Hin. apply (IH _ Hin). exact (existsb_false_in _ _ _ _ E Hin).
Qed.

(* whatever findInDir answers is the offer of a directory of the tree: a file of that
   directory that belongs to the module and is the best one there *)
Theorem findInDir_sound : forall mname d p,
  findInDir (mname ++ DOT_YANG) true d = Some p ->
  exists q es f, p = q ++ [f] /\ In (q, es) (expand d) /\ spec_best mname es = Some f.
Proof.
  intros mname. induction d as [n|n cs IH] using entry_ind'; intros p H; [discriminate|].
  rewrite findInDir_dir in H. apply scan_sound in H. rewrite Forall_forall in IH.
  destruct H as [(f & -> & B)|(_ & dn & cs' & q & Hin & R & ->)].
  - exists [], cs, f. simpl. auto.
  - destruct (IH _ Hin q R) as (q' & es & f & -> & I & B).
    exists (dn :: q'), es, f. split; [reflexivity|]. split; [|exact B].
    simpl. right. apply in_flat_map. exists (Dir dn cs'). split; [exact Hin|].
    apply in_map_iff. exists (q', es). auto.
Qed.

(* dir/... : when no directory that offers a file has a subdirectory that offers one too,
   the answer is the offer of the first directory in depth-first order *)
Theorem findInDir_dots_partial : forall mname d,
  nested_offers mname d = false ->
  findInDir (mname ++ DOT_YANG) true d = first_offer mname (expand d).
Proof.
  intros mname. induction d as [n|n cs IH] using entry_ind'; intros N; [reflexivity|].
  rewrite findInDir_dir. simpl in N. apply orb_false_iff in N. destruct N as [N1 N2].
  simpl. destruct (spec_best mname cs) as [f|] eqn:B.
  - simpl in N1. rewrite scan_local.
    + rewrite B. reflexivity.
    + right. intros dn cs' Hin. apply findInDir_none. exact (existsb_false_in _ _ _ _ N1 Hin).
  - rewrite scan_below by (reflexivity || exact B). clear B N1.
    induction cs as [|c cs IHcs]; [reflexivity|].
    inversion IH as [|? ? Hc Hcs]; subst. simpl in N2. apply orb_false_iff in N2. destruct N2 as [Nc Ncs].
    destruct c as [fn|dn cs'].
    + simpl. apply IHcs; assumption.
    + cbn [first_sub flat_map]. rewrite first_offer_app, first_offer_prefix, <- (Hc Nc).
      destruct (findInDir (mname ++ DOT_YANG) true (Dir dn cs')); cbn [option_map]; [reflexivity|].
      apply IHcs; assumption.
Qed.

(* ------------------------------------------------------------------ findFile *)

Lemma scanDir_spec : forall name pe,
  (match pe with (Some d, true) => nested_offers name d | _ => false end) = false ->
  scanDir (fst pe) (name ++ DOT_YANG) (snd pe) = first_offer name (dirs_of pe).
Proof.
  intros name [[d|] dots] G; cbn [scanDir fst snd dirs_of]; [|reflexivity].
  destruct d as [fn|n es]; [destruct dots; reflexivity|].
  destruct dots.
  - apply findInDir_dots_partial. exact G.
  - rewrite findInDir_plain. cbn [first_offer]. destruct (spec_best name es); reflexivity.
Qed.

Lemma search_path_spec : forall name path i,
  dots_nested name path = false ->
  search_path (name ++ DOT_YANG) i path = spec_search name i path.
Proof.
  induction path as [|[d dots] path IH]; intros i G; [reflexivity|].
  simpl in G. apply orb_false_iff in G. destruct G as [G1 G2].
  pose proof (scanDir_spec name (d, dots) G1) as S. cbn [fst snd] in S.
  cbn [search_path spec_search]. rewrite S.
  destruct (first_offer name (dirs_of (d, dots))); [reflexivity|apply IH; exact G2].
Qed.

Definition to_outcome (r : option found) : outcome found :=
  match r with Some f => Ok f | None => Err end.

(* T-b: for a module name, findFile opens what the specification says, provided no "dir/..."
   element has the nested shape (sig=findfile.dots-subdir-first) *)
Theorem findFile_partial : forall cwd path name,
  has_slash name = false -> has_suffix name DOT_YANG = false ->
  dots_nested name path = false ->
  findFile cwd path name = to_outcome (spec_findFile cwd path name).
Proof.
  intros cwd path name Hs Hy G. unfold findFile, spec_findFile. rewrite Hs, Hy.
  cbv beta iota zeta. cbn [spec_search]. rewrite (search_path_spec name path 1 G).
  destruct cwd as [fn|n es].
  - reflexivity.
  - rewrite findInDir_plain. cbn [dirs_of first_offer]. destruct (spec_best name es); reflexivity.
Qed.

Lemma plain_not_nested : forall name path,
  forallb (fun pe : pathent => negb (snd pe)) path = true -> dots_nested name path = false.
Proof.
  induction path as [|[d dots] path IH]; simpl; intros H; [reflexivity|].
  apply andb_true_iff in H. destruct H as [A B]. rewrite (IH B).
  destruct dots; [discriminate|]. destruct d; reflexivity.
Qed.

(* the full statement when the search path has no "dir/..." element *)
Theorem findFile_plain : forall cwd path name,
  has_slash name = false -> has_suffix name DOT_YANG = false ->
  forallb (fun pe : pathent => negb (snd pe)) path = true ->
  findFile cwd path name = to_outcome (spec_findFile cwd path name).
Proof. intros. apply findFile_partial; auto. apply plain_not_nested. assumption. Qed.

(* what holds for every search path, "dir/..." included: the file opened lies in the first
   location any of whose directories offers a file, it is the offer of the directory it lies
   in, hence a file of module [name] and never one of a differently named module *)
Lemma scanDir_sound : forall name pe p,
  scanDir (fst pe) (name ++ DOT_YANG) (snd pe) = Some p ->
  exists q es f, p = q ++ [f] /\ In (q, es) (dirs_of pe) /\ spec_best name es = Some f.
Proof.
  intros name [[d|] dots] p H; cbn [scanDir fst snd] in H; [|discriminate].
  destruct d as [fn|n es]; [discriminate|]. cbn [dirs_of]. destruct dots.
  - apply findInDir_sound in H. exact H.
  - rewrite findInDir_plain in H. destruct (spec_best name es) as [f|] eqn:B; [|discriminate].
    inversion H. exists [], es, f. simpl. auto.
Qed.

Lemma scanDir_none : forall name pe,
  scanDir (fst pe) (name ++ DOT_YANG) (snd pe) = None -> first_offer name (dirs_of pe) = None.
Proof.
  intros name [[d|] dots] H; cbn [scanDir fst snd dirs_of] in *; [|reflexivity].
  destruct d as [fn|n es]; [destruct dots; reflexivity|]. destruct dots.
  - apply first_offer_expand. apply findInDir_none. exact H.
  - rewrite findInDir_plain in H. cbn [first_offer]. destruct (spec_best name es); [discriminate|reflexivity].
Qed.

Lemma search_path_sound : forall name path i f,
  search_path (name ++ DOT_YANG) i path = Some f ->
  exists j pe q es fl, f_loc f = i + j /\ nth_error path j = Some pe /\
    f_rel f = q ++ [fl] /\ In (q, es) (dirs_of pe) /\ spec_best name es = Some fl /\
    forall j' pe', j' < j -> nth_error path j' = Some pe' -> first_offer name (dirs_of pe') = None.
Proof.
  induction path as [|[d dots] path IH]; intros i f H; [discriminate|].
  cbn [search_path] in H.
  pose proof (scanDir_sound name (d, dots)) as Sd. pose proof (scanDir_none name (d, dots)) as Nn.
  cbn [fst snd] in Sd, Nn.
  destruct (scanDir d (name ++ DOT_YANG) dots) as [p|] eqn:E.
  - inversion H; subst f; clear H. destruct (Sd p eq_refl) as (q & es & fl & A & B & C).
    exists 0, (d, dots), q, es, fl. cbn [f_loc f_rel nth_error].
    split; [lia|]. split; [reflexivity|]. split; [exact A|]. split; [exact B|]. split; [exact C|].
    intros j' pe' L. lia.
  - destruct (IH (Datatypes.S i) f H) as (j & pe & q & es & fl & A & B & C & D & E' & F).
    exists (Datatypes.S j), pe, q, es, fl. cbn [nth_error].
    split; [lia|]. split; [exact B|]. split; [exact C|]. split; [exact D|]. split; [exact E'|].
    intros j' pe' L Hn. destruct j' as [|j']; cbn [nth_error] in Hn.
    + inversion Hn; subst. apply Nn. reflexivity.
    + apply (F j' pe'); [lia|exact Hn].
Qed.

Theorem findFile_sound : forall cwd path name f,
  has_slash name = false -> has_suffix name DOT_YANG = false ->
  findFile cwd path name = Ok f ->
  exists pe q es fl,
    nth_error ((Some cwd, false) :: path) (f_loc f) = Some pe /\
    f_rel f = q ++ [fl] /\ In (q, es) (dirs_of pe) /\
    spec_best name es = Some fl /\ candidate name fl /\ In fl (files es) /\
    forall j pe', j < f_loc f -> nth_error ((Some cwd, false) :: path) j = Some pe' ->
                  first_offer name (dirs_of pe') = None.
Proof.
  intros cwd path name f Hs Hy H. unfold findFile in H. rewrite Hs, Hy in H.
  cbv beta iota zeta in H.
  pose proof (scanDir_sound name (Some cwd, false)) as S0.
  pose proof (scanDir_none name (Some cwd, false)) as N0. cbn [fst snd scanDir] in S0, N0.
  destruct (findInDir (name ++ DOT_YANG) false cwd) as [best|] eqn:E.
  - inversion H; subst f; clear H. destruct (S0 best eq_refl) as (q & es & fl & A & B & C).
    exists (Some cwd, false), q, es, fl. cbn [f_loc f_rel nth_error].
    destruct (spec_best_sound _ _ _ C) as (I1 & I2 & _).
    split; [reflexivity|]. split; [exact A|]. split; [exact B|]. split; [exact C|].
    split; [exact I2|]. split; [exact I1|]. intros j pe' L. lia.
  - destruct (search_path (name ++ DOT_YANG) 1 path) as [f'|] eqn:SP; [|discriminate].
    inversion H; subst f'; clear H.
    destruct (search_path_sound _ _ _ _ SP) as (j & pe & q & es & fl & A & B & C & D & E' & F).
    exists pe, q, es, fl. rewrite A. cbn [Nat.add nth_error].
    destruct (spec_best_sound _ _ _ E') as (I1 & I2 & _).
    split; [exact B|]. split; [exact C|]. split; [exact D|]. split; [exact E'|].
    split; [exact I2|]. split; [exact I1|].
    intros j' pe' L Hn. destruct j' as [|j']; cbn [nth_error] in Hn.
    + inversion Hn; subst. apply N0. reflexivity.
    + apply (F j' pe'); [lia|exact Hn].
Qed.

(* the same on one tree holding the current directory and the search path *)
Theorem findFile_fs_partial : forall root cwd path name,
  has_slash name = false -> has_suffix name DOT_YANG = false ->
  resolve (readDirAll root) cwd <> None ->
  dots_nested_fs root path name = false ->
  findFile_fs root cwd path name = to_outcome (spec_findFile_fs root cwd path name).
Proof.
  intros root cwd path name Hs Hy Hc G. unfold findFile_fs, spec_findFile_fs.
  destruct (resolve (readDirAll root) cwd) as [c|]; [|contradiction].
  apply findFile_partial; auto.
Qed.

(* ------------------------------------------------------------------ dir/... : the exact behaviour *)

Lemma chosen_dir : forall name n es,
  chosen name (Dir n es) = choose_in (chosen name) name (option_map (fun f => [f]) (dated_best name es)) es.
Proof. reflexivity. Qed.

(* C13 (b'): findInDir with recursion, for every tree *)
Theorem findInDir_recursive_exact : forall mname d,
  findInDir (mname ++ DOT_YANG) true d = chosen mname d.
Proof.
  intros mname. induction d as [n|n cs IH] using entry_ind'; [reflexivity|].
  rewrite findInDir_dir, chosen_dir, scan_char. cbn [app].
  set (fb := option_map (fun f => [f]) (dated_best mname cs)).
  assert (G : forall l, Forall (fun e => findInDir (mname ++ DOT_YANG) true e = chosen mname e) l ->
            choose_in (chosen mname) mname fb l =
            match first_hit (findInDir (mname ++ DOT_YANG) true) mname true l with
            | Some p => Some p
            | None => fb
            end).
  { induction l as [|e l IHl]; intros F; [reflexivity|]. inversion F as [|? ? He Hl]; subst.
    cbn [choose_in first_hit]. destruct e as [fn|dn cs'].
    - destruct (str_eqb fn (mname ++ DOT_YANG)) eqn:E; [|apply IHl; exact Hl].
      apply str_eqb_eq in E. subst fn. reflexivity.
    - destruct (any_offer mname (Dir dn cs')) eqn:A.
      + rewrite <- He. destruct (findInDir (mname ++ DOT_YANG) true (Dir dn cs')) eqn:R; [reflexivity|].
        apply findInDir_none in R. congruence.
      + rewrite (proj2 (findInDir_none mname (Dir dn cs')) A). apply IHl. exact Hl. }
  rewrite (G cs IH).
  destruct (first_hit (findInDir (mname ++ DOT_YANG) true) mname true cs); [reflexivity|].
  unfold fb, dated_best. pose proof (spec_best_dated mname cs) as D.
  destruct (revs_of mname cs) as [|r rs].
  - rewrite D. reflexivity.
  - destruct D as (d & ds & -> & ->). reflexivity.
Qed.

Lemma scanDir_exact : forall name pe,
  scanDir (fst pe) (name ++ DOT_YANG) (snd pe) = chosen_of name pe.
Proof.
  intros name [[d|] dots]; cbn [scanDir fst snd chosen_of]; [|reflexivity].
  destruct d as [fn|n es]; [destruct dots; reflexivity|]. destruct dots.
  - apply findInDir_recursive_exact.
  - apply findInDir_plain.
Qed.

Lemma search_path_exact : forall name path i,
  search_path (name ++ DOT_YANG) i path = exact_search name i path.
Proof.
  induction path as [|[d dots] path IH]; intros i; [reflexivity|].
  cbn [search_path exact_search]. pose proof (scanDir_exact name (d, dots)) as S. cbn [fst snd] in S. rewrite S.
  destruct (chosen_of name (d, dots)); [reflexivity|apply IH].
Qed.

(* findFile, for every current directory, search path and module name: no hypothesis on the trees *)
Theorem findFile_exact : forall cwd path name,
  has_slash name = false -> has_suffix name DOT_YANG = false ->
  findFile cwd path name = to_outcome (exact_findFile cwd path name).
Proof.
  intros cwd path name Hs Hy. unfold findFile, exact_findFile. rewrite Hs, Hy.
  cbv beta iota zeta. cbn [exact_search]. rewrite (search_path_exact name path 1).
  pose proof (scanDir_exact name (Some cwd, false)) as S. cbn [fst snd scanDir] in S. rewrite S.
  destruct (chosen_of name (Some cwd, false)); reflexivity.
Qed.

(* where [chosen] departs from the depth-first reading and where it does not *)
Theorem chosen_is_first_offer : forall name d, nested_offers name d = false ->
  chosen name d = first_offer name (expand d).
Proof. intros. rewrite <- findInDir_recursive_exact. apply findInDir_dots_partial. assumption. Qed.

(* ---- the current directory as an element of the search path, lookups by file name ---- *)
Lemma search_path_some : forall name path i d dots,
  In (d, dots) path -> scanDir d name dots <> None -> search_path name i path <> None.
Proof.
  induction path as [|[d0 dots0] rest IH]; intros i d dots Hin Hs; [destruct Hin|].
  cbn [search_path]. destruct (scanDir d0 name dots0) eqn:E; [discriminate|].
  destruct Hin as [Heq|Hin].
  - inversion Heq; subst. congruence.
  - eapply IH; eauto.
Qed.

Lemma has_suffix_app : forall n suf, has_suffix (n ++ suf) suf = true.
Proof.
  intros. unfold has_suffix. rewrite rev_app_distr. apply has_prefix_app.
Qed.

Theorem findFile_file_name_here : forall cwd path name,
  has_slash name = false -> has_suffix name DOT_YANG = false ->
  In (Some cwd, false) path ->
  findFile cwd path name <> Err -> findFile cwd path (name ++ DOT_YANG) <> Err.
Proof.
  intros cwd path name Hs Hn Hin H.
  assert (Hs' : has_slash (name ++ DOT_YANG) = false).
  { unfold has_slash in *. rewrite existsb_app, Hs. reflexivity. }
  unfold findFile in *. rewrite Hs in H. rewrite Hs'. rewrite Hn in H. rewrite has_suffix_app.
  destruct (has_file cwd (name ++ DOT_YANG)); [discriminate|].
  destruct (findInDir (name ++ DOT_YANG) false cwd) eqn:E.
  - destruct (search_path (name ++ DOT_YANG) 1 path) eqn:E2; [discriminate|].
    exfalso. eapply (search_path_some (name ++ DOT_YANG) path 1 (Some cwd) false); eauto.
    cbn [scanDir]. congruence.
  - exact H.
Qed.
