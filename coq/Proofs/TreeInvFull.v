(* C04: the choice clause for whole Process results, using C07's theorem that the reporting pass applies no augment
   once the rounds of {retry loop; FixChoice} have reached their fixpoint (Proofs/AugmentProofs.v). *)
From Coq Require Import List NArith Bool Permutation.
From GY Require Import Model.Schema Spec.C04 Proofs.SchemaLemmas Proofs.TreeInvProofs.
From GY Require Spec.C07 Proofs.AugmentProofs.
Import ListNotations.

(* side condition (h1) of Process_TreeInv_full holds whenever module names are distinct and every module is visited *)
Theorem reporting_pass_idle : forall SC ic order,
  NoDup (map m_name SC) -> (forall m, In m SC -> In (m_name m) order) -> final_applied SC ic order = 0.
Proof.
  intros SC ic order ND H. apply AugmentProofs.final_pass_applies_nothing; [exact ND|].
  apply AugmentProofs.covers_all. exact H.
Qed.

(* T1 with the choice clause, no residual hypothesis: FixChoice's fuel is derived from the structural height of the
   trees (Model/Schema.v [height]), so it reaches every node *)
Theorem Process_TreeInv_choice : forall SC ic ins order F,
  NoDup (map m_name SC) -> (forall m, In m SC -> In (m_name m) order) ->
  Process SC ic ins order = ROk F -> ForestInv true F.
Proof.
  intros SC ic ins order F ND H HP.
  apply (Process_TreeInv_full SC ic ins order F HP). apply reporting_pass_idle; assumption.
Qed.

Corollary Process_TreeInv_choice_perm : forall SC ic ins order F,
  NoDup (map m_name SC) -> Permutation (map m_name SC) order ->
  Process SC ic ins order = ROk F -> ForestInv true F.
Proof.
  intros SC ic ins order F ND HPm. apply Process_TreeInv_choice; [exact ND|].
  intros m Hm. eapply Permutation_in; [exact HPm | apply in_map; exact Hm].
Qed.
