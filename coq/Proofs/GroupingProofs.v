(* C06: uses expansion is a faithful splice (T1), FindGrouping scoping (T2), unknown and cyclic groupings are
   errors (T3), updates at one position leave every unrelated position alone (T4). *)
From Coq Require Import List NArith Bool Lia Arith.
From GY Require Import Model.Schema Spec.C06 Proofs.SchemaLemmas.
Import ListNotations.

(* ================================================================== T4: frame *)
Lemma step_eqb_eq : forall a b, step_eqb a b = true <-> a = b.
Proof.
  destruct a, b; cbn; split; intro H; try discriminate; try reflexivity; try congruence.
  - apply str_eqb_eq in H. congruence.
  - inversion H. apply str_eqb_refl.
Qed.

Lemma e_dir_set_rpc' : forall e r, e_dir (set_rpc e r) = e_dir e. Proof. destruct e; reflexivity. Qed.
Lemma e_rpc_set_dir' : forall e d, e_rpc (set_dir e d) = e_rpc e. Proof. destruct e; reflexivity. Qed.
Lemma e_dir_set_dir' : forall e d, e_dir (set_dir e d) = d. Proof. destruct e; reflexivity. Qed.
Lemma e_rpc_set_rpc' : forall e r, e_rpc (set_rpc e r) = r. Proof. destruct e; reflexivity. Qed.

(* whatever is done at position p, every position that is neither p, below p nor above p is left alone *)
Lemma locate_update_at_unrelated : forall f p q e,
  unrelated p q -> locate (update_at e p f) q = locate e q.
Proof.
  intros f. induction p as [|a p IH]; intros q e [U1 U2]; [discriminate U1|].
  destruct q as [|b q]; [discriminate U2|].
  cbn [is_prefix] in U1, U2.
  destruct (step_eqb a b) eqn:E.
  - apply step_eqb_eq in E. subst b.
    assert (E' : step_eqb a a = true) by (apply step_eqb_eq; reflexivity).
    rewrite E' in U2. cbn [andb] in U1, U2.
    assert (U : unrelated p q) by (split; assumption).
    destruct a as [n| |]; cbn [update_at locate].
    + destruct (e_dir e) as [d|] eqn:D; [|rewrite D; reflexivity].
      destruct (lookup n d) as [c|] eqn:L; [|rewrite D, L; reflexivity].
      rewrite e_dir_set_dir'. rewrite lookup_update_same by congruence. apply IH. assumption.
    + destruct (e_rpc e) as [[[i|] o]|] eqn:R; try (rewrite R; reflexivity).
      rewrite e_rpc_set_rpc'. apply IH. assumption.
    + destruct (e_rpc e) as [[i [o|]]|] eqn:R; try (rewrite R; reflexivity).
      rewrite e_rpc_set_rpc'. apply IH. assumption.
  - (* different first steps *)
    destruct a as [n| |]; cbn [update_at].
    + destruct (e_dir e) as [d|] eqn:D; [|reflexivity].
      destruct (lookup n d) as [c|] eqn:L; [|reflexivity].
      destruct b as [n'| |]; cbn [locate].
      * rewrite e_dir_set_dir', D. rewrite lookup_update_other; [reflexivity|].
        intro X. subst n'. cbn in E. rewrite str_eqb_refl in E. discriminate.
      * rewrite e_rpc_set_dir'. reflexivity.
      * rewrite e_rpc_set_dir'. reflexivity.
    + destruct (e_rpc e) as [[[i|] o]|] eqn:R; try reflexivity.
      destruct b as [n'| |]; cbn [locate].
      * rewrite e_dir_set_rpc'. reflexivity.
      * discriminate E.
      * rewrite e_rpc_set_rpc', R. reflexivity.
    + destruct (e_rpc e) as [[i [o|]]|] eqn:R; try reflexivity.
      destruct b as [n'| |]; cbn [locate].
      * rewrite e_dir_set_rpc'. reflexivity.
      * rewrite e_rpc_set_rpc', R. reflexivity.
      * discriminate E.
Qed.

(* the same in a forest: another module's tree, or an unrelated position of the same tree *)
Lemma locate_update_pos_frame : forall f F p q,
  fst p <> fst q \/ unrelated (snd p) (snd q) ->
  locate_pos (update_pos F p f) q = locate_pos F q.
Proof.
  intros f F [m ps] [m' qs] H. unfold locate_pos, update_pos. cbn [fst snd] in *.
  destruct (lookup m F) as [root|] eqn:L; [|reflexivity].
  destruct (str_eq_dec m m') as [->|NE].
  - destruct H as [H|H]; [contradiction|].
    rewrite lookup_update_same by congruence. rewrite L. apply locate_update_at_unrelated. assumption.
  - rewrite lookup_update_other by assumption. reflexivity.
Qed.

(* deleting child n of the node at [parent] (deviate not-supported) touches nothing outside parent/n *)
Lemma locate_remove_frame : forall n parent q e,
  unrelated (parent ++ [SChild n]) q ->
  locate (update_at e parent (fun pe => match e_dir pe with Some d => set_dir pe (Some (remove n d)) | None => pe end)) q
  = locate e q.
Proof.
  intros n. induction parent as [|a p IH]; intros q e [U1 U2].
  - cbn [app] in *. cbn [update_at].
    destruct q as [|b q]; [discriminate U2|]. cbn [is_prefix] in U1, U2.
    destruct (e_dir e) as [d|] eqn:D; [|reflexivity].
    destruct b as [n'| |]; cbn [locate].
    + rewrite e_dir_set_dir', D.
      destruct (str_eq_dec n n') as [->|NE].
      * cbn [step_eqb] in U1. rewrite str_eqb_refl in U1. cbn in U1. discriminate.
      * rewrite lookup_remove_other by assumption. reflexivity.
    + rewrite e_rpc_set_dir'. reflexivity.
    + rewrite e_rpc_set_dir'. reflexivity.
  - cbn [app] in *. destruct q as [|b q]; [discriminate U2|]. cbn [is_prefix] in U1, U2.
    destruct (step_eqb a b) eqn:E.
    + apply step_eqb_eq in E. subst b.
      assert (E' : step_eqb a a = true) by (apply step_eqb_eq; reflexivity).
      rewrite E' in U2. cbn [andb] in U1, U2.
      assert (U : unrelated (p ++ [SChild n]) q) by (split; assumption).
      destruct a as [n0| |]; cbn [update_at locate].
      * destruct (e_dir e) as [d|] eqn:D; [|rewrite D; reflexivity].
        destruct (lookup n0 d) as [c|] eqn:L; [|rewrite D, L; reflexivity].
        rewrite e_dir_set_dir'. rewrite lookup_update_same by congruence. apply IH. assumption.
      * destruct (e_rpc e) as [[[i|] o]|] eqn:R; try (rewrite R; reflexivity).
        rewrite e_rpc_set_rpc'. apply IH. assumption.
      * destruct (e_rpc e) as [[i [o|]]|] eqn:R; try (rewrite R; reflexivity).
        rewrite e_rpc_set_rpc'. apply IH. assumption.
    + destruct a as [n0| |]; cbn [update_at].
      * destruct (e_dir e) as [d|] eqn:D; [|reflexivity].
        destruct (lookup n0 d) as [c|] eqn:L; [|reflexivity].
        destruct b as [n'| |]; cbn [locate].
        -- rewrite e_dir_set_dir', D. rewrite lookup_update_other; [reflexivity|].
           intro X. subst n'. cbn in E. rewrite str_eqb_refl in E. discriminate.
        -- rewrite e_rpc_set_dir'. reflexivity.
        -- rewrite e_rpc_set_dir'. reflexivity.
      * destruct (e_rpc e) as [[[i|] o]|] eqn:R; try reflexivity.
        destruct b as [n'| |]; cbn [locate].
        -- rewrite e_dir_set_rpc'. reflexivity.
        -- discriminate E.
        -- rewrite e_rpc_set_rpc', R. reflexivity.
      * destruct (e_rpc e) as [[i [o|]]|] eqn:R; try reflexivity.
        destruct b as [n'| |]; cbn [locate].
        -- rewrite e_dir_set_rpc'. reflexivity.
        -- rewrite e_rpc_set_rpc', R. reflexivity.
        -- discriminate E.
Qed.

(* ================================================================== T2: scoping *)
Section Scoping.
Variable SC : schema.

(* the two walks of FindGrouping at module level, named *)
Fixpoint imports_walk (f : nat) (name : str) (is : list (str * str)) (seen : list str)
  : option found_grouping * list str :=
  match is with
  | [] => (None, seen)
  | (p, mn) :: r =>
    if has_prefix (p ++ [cCOLON]) name then
      match find_module SC mn with
      | Some im =>
        match find_grouping_mod f SC im true (trim_prefix (p ++ [cCOLON]) name) seen with
        | (Some g, seen') => (Some g, seen')
        | (None, seen') => imports_walk f name r seen'
        end
      | None => imports_walk f name r seen
      end
    else imports_walk f name r seen
  end.

Fixpoint includes_walk (f : nat) (name : str) (is : list str) (seen : list str)
  : option found_grouping * list str :=
  match is with
  | [] => (None, seen)
  | sn :: r =>
    if existsb (str_eqb sn) seen then includes_walk f name r seen
    else match find_module SC sn with
         | Some sm =>
           match find_grouping_mod f SC sm true name (sn :: seen) with
           | (Some g, seen') => (Some g, seen')
           | (None, seen') => includes_walk f name r seen'
           end
         | None => includes_walk f name r (sn :: seen)
         end
  end.

Lemma find_grouping_mod_S : forall f m trim name seen,
  find_grouping_mod (S f) SC m trim name seen =
  let name := if trim then trim_prefix (m_prefix m ++ [cCOLON]) name else name in
  match find_in name (groupings_of (m_body m)) with
  | Some (gid, b) => (Some (gid, b, {| g_mod := m; g_scopes := [m_body m] |}), seen)
  | None =>
    match imports_walk f name (m_imports m) seen with
    | (Some g, seen') => (Some g, seen')
    | (None, seen') => includes_walk f name (m_includes m) seen'
    end
  end.
Proof.
  intros. cbn [find_grouping_mod]. cbv zeta.
  destruct (find_in _ (groupings_of (m_body m))) as [[gid b]|]; [reflexivity|].
  set (nm := if trim then trim_prefix (m_prefix m ++ [cCOLON]) name else name).
  assert (I : forall is sn0,
    (fix go (is : list (str * str)) (seen : list str) : option found_grouping * list str :=
       match is with
       | [] => (None, seen)
       | (p, mn) :: r =>
         if has_prefix (p ++ [cCOLON]) nm then
           match find_module SC mn with
           | Some im =>
             match find_grouping_mod f SC im true (trim_prefix (p ++ [cCOLON]) nm) seen with
             | (Some g, seen') => (Some g, seen')
             | (None, seen') => go r seen'
             end
           | None => go r seen
           end
         else go r seen
       end) is sn0 = imports_walk f nm is sn0).
  { induction is as [|[p mn] r IH]; intros sn0; [reflexivity|]. cbn [imports_walk].
    destruct (has_prefix (p ++ [cCOLON]) nm); [|apply IH].
    destruct (find_module SC mn); [|apply IH].
    destruct (find_grouping_mod f SC m0 true _ sn0) as [[g|] s']; [reflexivity | apply IH]. }
  rewrite I. destruct (imports_walk f nm (m_imports m) seen) as [[g|] seen']; [reflexivity|].
  generalize seen'. induction (m_includes m) as [|sn r IH]; intros sn0; [reflexivity|]. cbn [includes_walk].
  destruct (existsb (str_eqb sn) sn0); [apply IH|].
  destruct (find_module SC sn); [|apply IH].
  destruct (find_grouping_mod f SC m0 true nm (sn :: sn0)) as [[g|] s']; [reflexivity | apply IH].
Qed.

(* the innermost enclosing definition wins *)
Lemma find_scopes_innermost : forall m sc o outer name gid b,
  find_in name (groupings_of sc) = Some (gid, b) ->
  find_grouping_scopes SC m (sc :: o :: outer) name = Some (gid, b, {| g_mod := m; g_scopes := sc :: o :: outer |}).
Proof. intros. cbn [find_grouping_scopes]. rewrite H. reflexivity. Qed.

(* a scope that does not define the name is skipped *)
Lemma find_scopes_skip : forall m sc o outer name,
  find_in name (groupings_of sc) = None ->
  find_grouping_scopes SC m (sc :: o :: outer) name = find_grouping_scopes SC m (o :: outer) name.
Proof. intros. cbn [find_grouping_scopes]. rewrite H. reflexivity. Qed.

(* the outermost scope is the module's own statement list: the module-level search *)
Lemma find_scopes_module : forall m top name,
  find_grouping_scopes SC m [top] name = fst (find_grouping_mod (S (length SC)) SC m false name []).
Proof. reflexivity. Qed.

(* ... which looks at the module's own groupings first *)
Lemma find_mod_own : forall f m name seen gid b,
  find_in name (groupings_of (m_body m)) = Some (gid, b) ->
  find_grouping_mod (S f) SC m false name seen = (Some (gid, b, {| g_mod := m; g_scopes := [m_body m] |}), seen).
Proof. intros. rewrite find_grouping_mod_S. cbv zeta. rewrite H. reflexivity. Qed.

(* ... then at the imports, and only at those whose prefix the reference carries *)
Lemma imports_walk_no_prefix : forall f name is seen,
  (forall p mn, In (p, mn) is -> has_prefix (p ++ [cCOLON]) name = false) ->
  imports_walk f name is seen = (None, seen).
Proof.
  induction is as [|[p mn] r IH]; intros seen H; [reflexivity|]. cbn [imports_walk].
  rewrite (H p mn (or_introl eq_refl)). apply IH. intros. apply (H p0 mn0). right. assumption.
Qed.

(* an unprefixed name that the module itself does not define is searched in its includes only *)
Lemma find_mod_includes : forall f m name seen,
  find_in name (groupings_of (m_body m)) = None ->
  (forall p mn, In (p, mn) (m_imports m) -> has_prefix (p ++ [cCOLON]) name = false) ->
  find_grouping_mod (S f) SC m false name seen = includes_walk f name (m_includes m) seen.
Proof.
  intros. rewrite find_grouping_mod_S. cbv zeta. rewrite H. rewrite imports_walk_no_prefix by assumption. reflexivity.
Qed.

(* a name carrying the prefix of exactly one import is searched in exactly that module (its own groupings, then,
   inside it, its imports and includes), under the name without the prefix *)
Lemma find_mod_import : forall f m name seen before p mn after im,
  find_in name (groupings_of (m_body m)) = None ->
  m_imports m = before ++ (p, mn) :: after ->
  (forall p' mn', In (p', mn') before -> has_prefix (p' ++ [cCOLON]) name = false) ->
  has_prefix (p ++ [cCOLON]) name = true ->
  find_module SC mn = Some im ->
  forall g seen', find_grouping_mod f SC im true (trim_prefix (p ++ [cCOLON]) name) seen = (Some g, seen') ->
  find_grouping_mod (S f) SC m false name seen = (Some g, seen').
Proof.
  intros f m name seen before p mn after im H0 HI HB HP HM g seen' HG.
  rewrite find_grouping_mod_S. cbv zeta. rewrite H0, HI.
  assert (W : imports_walk f name (before ++ (p, mn) :: after) seen = (Some g, seen')).
  { clear HI. induction before as [|[p' mn'] r IH]; cbn [app imports_walk].
    - rewrite HP, HM, HG. reflexivity.
    - rewrite (HB p' mn' (or_introl eq_refl)). apply IH. intros. apply (HB p'0 mn'0). right. assumption. }
  rewrite W. reflexivity.
Qed.

(* the module an import search lands in defines the grouping itself: the result is that module's definition,
   and its defining context is that module *)
Lemma find_mod_import_own : forall f im name seen gid b,
  find_in (trim_prefix (m_prefix im ++ [cCOLON]) name) (groupings_of (m_body im)) = Some (gid, b) ->
  find_grouping_mod (S f) SC im true name seen = (Some (gid, b, {| g_mod := im; g_scopes := [m_body im] |}), seen).
Proof. intros. rewrite find_grouping_mod_S. cbv zeta. rewrite H. reflexivity. Qed.

(* the own prefix is dropped before anything else: p:g and g denote the same grouping *)
Lemma trim_prefix_app : forall p s, trim_prefix p (p ++ s) = s.
Proof.
  intros. unfold trim_prefix.
  assert (H : has_prefix p (p ++ s) = true).
  { induction p as [|x p IH]; [reflexivity|]. cbn. rewrite N.eqb_refl. exact IH. }
  rewrite H. clear H. induction p as [|x p IH]; [reflexivity|]. cbn. exact IH.
Qed.

Lemma FindGrouping_own_prefix : forall c name,
  has_prefix (m_prefix (g_mod c) ++ [cCOLON]) name = false ->
  FindGrouping SC c ((m_prefix (g_mod c) ++ [cCOLON]) ++ name) = FindGrouping SC c name.
Proof.
  intros c name H. unfold FindGrouping. rewrite trim_prefix_app.
  unfold trim_prefix at 1. rewrite H. reflexivity.
Qed.

End Scoping.

(* ================================================================== T1: uses = splice *)
(* every statement of a body adds a list of entries and possibly raises the flag: Entry.add is a merge of one *)
Definition merge_items (acc : list (str * entry) * bool) (items : list (str * entry)) (flag : bool)
  : list (str * entry) * bool :=
  (fst (merge_dir acc None items), snd (merge_dir acc None items) || flag).

Definition mstep (a : list (str * entry) * bool) (kv : str * entry) : list (str * entry) * bool :=
  match lookup (fst kv) (fst a) with
  | Some _ => (fst a, true)
  | None => (fst a ++ [(fst kv, snd kv)], snd a)
  end.

Lemma merge_dir_fold : forall acc items, merge_dir acc None items = fold_left mstep items acc.
Proof.
  intros acc items. unfold merge_dir. revert acc. induction items as [|kv r IH]; intros acc; [reflexivity|].
  cbn [fold_left]. rewrite <- IH. f_equal. destruct acc as [d e]. unfold mstep. cbn [fst snd].
  destruct (lookup (fst kv) d); reflexivity.
Qed.

Lemma merge_dir_app : forall acc a b, merge_dir acc None (a ++ b) = merge_dir (merge_dir acc None a) None b.
Proof. intros. rewrite !merge_dir_fold. apply fold_left_app. Qed.

Lemma merge_dir_nil : forall acc, merge_dir acc None [] = acc.
Proof. reflexivity. Qed.

Lemma merge_dir_cons : forall acc kv r, merge_dir acc None (kv :: r) = merge_dir (mstep acc kv) None r.
Proof. intros. rewrite !merge_dir_fold. reflexivity. Qed.

Lemma merge_dir_flag : forall items d e f,
  merge_dir (d, e || f) None items = (fst (merge_dir (d, e) None items), snd (merge_dir (d, e) None items) || f).
Proof.
  induction items as [|kv r IH]; intros d e f; [reflexivity|].
  rewrite !merge_dir_cons. unfold mstep. cbn [fst snd].
  destruct (lookup (fst kv) d).
  - change (d, true) with (d, true || f) at 1. apply IH.
  - apply IH.
Qed.

Lemma merge_items_nil : forall acc flag, merge_items acc [] flag = (fst acc, snd acc || flag).
Proof. reflexivity. Qed.

Lemma add_child_merge : forall acc k v, add_child acc k v = merge_items acc [(k, fst v)] (snd v).
Proof.
  intros [d e] k v. unfold add_child, merge_items. rewrite merge_dir_cons, merge_dir_nil. unfold mstep. cbn [fst snd].
  destruct (lookup k d); reflexivity.
Qed.

Lemma lookup_mstep : forall a kv k,
  lookup k (fst (mstep a kv)) = match lookup k (fst a) with Some x => Some x | None => if str_eqb k (fst kv) then match lookup (fst kv) (fst a) with Some y => Some y | None => Some (snd kv) end else None end.
Proof.
  intros [d e] [k0 v0] k. unfold mstep. cbn [fst snd].
  destruct (lookup k0 d) eqn:L0; cbn [fst].
  - destruct (lookup k d) eqn:L; [reflexivity|]. destruct (str_eqb k k0) eqn:E; [|reflexivity].
    apply str_eqb_eq in E. subst. congruence.
  - rewrite lookup_app. destruct (lookup k d); [reflexivity|]. cbn [lookup]. destruct (str_eqb k k0); reflexivity.
Qed.

(* keys after a merge: those of the target and those merged *)
Lemma lookup_merge_none : forall items acc k,
  lookup k (fst (merge_dir acc None items)) = None <-> lookup k (fst acc) = None /\ lookup k items = None.
Proof.
  induction items as [|kv r IH]; intros acc k.
  - rewrite merge_dir_nil. cbn [lookup]. tauto.
  - rewrite merge_dir_cons, IH, lookup_mstep. destruct kv as [k0 v0]. cbn [lookup fst snd].
    destruct (lookup k (fst acc)) eqn:L; [split; intros [A B]; discriminate|].
    destruct (str_eqb k k0) eqn:E.
    + split; [intros [A B]|intros [A B]; discriminate]. destruct (lookup k0 (fst acc)); discriminate.
    + tauto.
Qed.

Lemma merge_items_cons : forall acc kv r flag, merge_items acc (kv :: r) flag = merge_items (mstep acc kv) r flag.
Proof. intros. unfold merge_items. rewrite merge_dir_cons. reflexivity. Qed.

(* the core: merging B into A and then more items = merging (B with the items merged into it) into A *)
Lemma merge_items_assoc : forall items acc dB eB flag,
  merge_items (merge_items acc dB eB) items flag =
  merge_items acc (fst (merge_items (dB, eB) items flag)) (snd (merge_items (dB, eB) items flag)).
Proof.
  induction items as [|[k v] r IH]; intros acc dB eB flag.
  - unfold merge_items. rewrite !merge_dir_nil. cbn [fst snd]. rewrite orb_assoc. reflexivity.
  - rewrite !merge_items_cons.
    assert (ST : mstep (merge_items acc dB eB) (k, v) =
                 merge_items acc (fst (mstep (dB, eB) (k, v))) (snd (mstep (dB, eB) (k, v)))).
    { unfold mstep at 2 3. cbn [fst snd]. destruct (lookup k dB) eqn:LB.
      - (* already in B: flag *)
        unfold mstep, merge_items. cbn [fst snd].
        assert (X : lookup k (fst (merge_dir acc None dB)) <> None).
        { intro X. apply lookup_merge_none in X. destruct X. congruence. }
        destruct (lookup k (fst (merge_dir acc None dB))); [|congruence].
        rewrite orb_true_r. reflexivity.
      - cbn [fst snd]. unfold merge_items at 2. rewrite merge_dir_app, merge_dir_cons, merge_dir_nil.
        unfold mstep, merge_items. cbn [fst snd].
        destruct (lookup k (fst (merge_dir acc None dB))) eqn:LA; cbn [fst snd].
        + reflexivity.
        + reflexivity. }
    rewrite ST. destruct (mstep (dB, eB) (k, v)) as [dB' eB']. cbn [fst snd]. apply IH.
Qed.

Section Splice.
Variable SC : schema.

(* what one statement contributes *)
Definition step_items (f : nat) (c' : gctx) (busy : list nat) (ch : dnode) : list (str * entry) * bool :=
  match ch with
  | DGrouping _ _ _ => ([], snd (to_entry SC f c' busy ch))
  | DUses g =>
    match FindGrouping SC c' g with
    | None => ([], true)
    | Some (gid, gb, gc) =>
      if existsb (Nat.eqb gid) busy then ([], true)
      else let r := to_entry SC f gc (gid :: busy) (DGrouping gid [] gb) in
           (match e_dir (fst r) with Some d => d | None => [] end, snd r)
    end
  | _ => let b := to_entry SC f c' busy ch in ([(e_name (fst b), fst b)], snd b)
  end.

Lemma body_step_items : forall f c' busy acc ch,
  body_step SC f c' busy acc ch = merge_items acc (fst (step_items f c' busy ch)) (snd (step_items f c' busy ch)).
Proof.
  intros f c' busy acc ch.
  assert (G : add_child acc (e_name (fst (to_entry SC f c' busy ch))) (to_entry SC f c' busy ch) =
              merge_items acc [(e_name (fst (to_entry SC f c' busy ch)), fst (to_entry SC f c' busy ch))]
                          (snd (to_entry SC f c' busy ch))) by apply add_child_merge.
  destruct ch; try exact G; unfold body_step, step_items.
  - destruct (FindGrouping SC c' gname) as [[[gid gb] gc]|]; [|rewrite merge_items_nil, orb_true_r; reflexivity].
    destruct (existsb (Nat.eqb gid) busy); [rewrite merge_items_nil, orb_true_r; reflexivity|].
    destruct (to_entry SC f gc (gid :: busy) (DGrouping gid [] gb)) as [ge gerr]. cbn [fst snd].
    unfold merge_items. destruct (merge_dir acc None _) as [d e]. reflexivity.
  - destruct (to_entry SC f c' busy (DGrouping gid name body)) as [x e]. cbn [fst snd]. rewrite merge_items_nil. reflexivity.
Qed.

Lemma fold_step_rel : forall f c' busy body acc dB eB,
  fold_left (body_step SC f c' busy) body (merge_items acc dB eB) =
  merge_items acc (fst (fold_left (body_step SC f c' busy) body (dB, eB)))
                  (snd (fold_left (body_step SC f c' busy) body (dB, eB))).
Proof.
  intros f c' busy. induction body as [|ch r IH]; intros acc dB eB; cbn [fold_left]; [reflexivity|].
  rewrite (body_step_items f c' busy (merge_items acc dB eB) ch), merge_items_assoc.
  rewrite (body_step_items f c' busy (dB, eB) ch).
  destruct (merge_items (dB, eB) _ _) as [dB' eB']. cbn [fst snd]. apply IH.
Qed.

Lemma merge_items_empty : forall acc, merge_items acc [] false = acc.
Proof. intros [d e]. rewrite merge_items_nil. cbn [fst snd]. rewrite orb_false_r. reflexivity. Qed.

(* building a body from [acc] = building it from scratch and merging the result into [acc] *)
Lemma fold_step_from : forall f c' busy body acc,
  fold_left (body_step SC f c' busy) body acc =
  merge_items acc (fst (fold_left (body_step SC f c' busy) body ([], false)))
                  (snd (fold_left (body_step SC f c' busy) body ([], false))).
Proof. intros. rewrite <- (merge_items_empty acc) at 1. apply fold_step_rel. Qed.

(* T1, the core: a uses statement is processed exactly as the statements of its grouping would be in its place,
   in the grouping's DEFINING context, duplicates detected identically (same child list, same order, same flag) *)
Theorem uses_is_splice : forall f c' busy acc g gid gb gc,
  FindGrouping SC c' g = Some (gid, gb, gc) -> existsb (Nat.eqb gid) busy = false ->
  body_step SC (S f) c' busy acc (DUses g) =
  fold_left (body_step SC f (inner_ctx gc gb) (gid :: busy)) gb acc.
Proof.
  intros f c' busy acc g gid gb gc HF HB.
  rewrite fold_step_from. rewrite body_step_items. unfold step_items. rewrite HF, HB.
  rewrite to_entry_S. fold (body_dir SC f gc (gid :: busy) gb).
  destruct (body_dir SC f gc (gid :: busy) gb) as [d e]. reflexivity.
Qed.

(* the flag is sticky *)
Lemma merge_dir_err_sticky : forall items d, snd (merge_dir (d, true) None items) = true.
Proof.
  induction items as [|kv r IH]; intros d; [reflexivity|]. rewrite merge_dir_cons. unfold mstep. cbn [fst snd].
  destruct (lookup (fst kv) d); apply IH.
Qed.

Lemma body_step_sticky : forall f c' busy acc ch, snd acc = true -> snd (body_step SC f c' busy acc ch) = true.
Proof.
  intros f c' busy [d e] ch H. cbn [snd] in H. subst e. rewrite body_step_items. unfold merge_items. cbn [snd].
  rewrite merge_dir_err_sticky. reflexivity.
Qed.

Lemma fold_step_sticky : forall f c' busy body acc, snd acc = true -> snd (fold_left (body_step SC f c' busy) body acc) = true.
Proof.
  intros f c' busy. induction body as [|ch r IH]; intros acc H; cbn [fold_left]; [assumption|].
  apply IH. apply body_step_sticky. assumption.
Qed.

Lemma body_step_flag : forall f c' busy acc ch, snd (step_items f c' busy ch) = true -> snd (body_step SC f c' busy acc ch) = true.
Proof. intros. rewrite body_step_items. unfold merge_items. cbn [snd]. rewrite H. apply orb_true_r. Qed.

(* ------------------------------------------------------------------ inline: unfolding *)
Lemma inline_node_S : forall f c busy n,
  inline_node SC (S f) c busy n =
  match n with
  | DLeaf _ _ _ _ _ _ | DLeafList _ _ _ _ _ _ | DAny _ _ _ _ => Some n
  | DUses _ => None
  | DContainer name cfg body => option_map (DContainer name cfg) (inline_body SC f c busy body)
  | DList name key cfg mn mx body => option_map (DList name key cfg mn mx) (inline_body SC f c busy body)
  | DChoice name cfg mand dflt body => option_map (DChoice name cfg mand dflt) (inline_body SC f c busy body)
  | DCase name body => option_map (DCase name) (inline_body SC f c busy body)
  | DGrouping gid name body => option_map (DGrouping gid name) (inline_body SC f c busy body)
  | DNotification name body => option_map (DNotification name) (inline_body SC f c busy body)
  | DRpc action name input output =>
    match (match input with None => Some None | Some body => option_map Some (inline_body SC f c busy body) end),
          (match output with None => Some None | Some body => option_map Some (inline_body SC f c busy body) end) with
    | Some i, Some o => Some (DRpc action name i o)
    | _, _ => None
    end
  end.
Proof. intros. destruct n; reflexivity. Qed.

Definition is_grouping (n : dnode) : bool := match n with DGrouping _ _ _ => true | _ => false end.
Definition is_uses (n : dnode) : bool := match n with DUses _ => true | _ => false end.

Lemma inline_shape : forall f c busy n n', inline_node SC f c busy n = Some n' ->
  is_uses n = false /\ is_uses n' = false /\ is_grouping n' = is_grouping n.
Proof.
  intros f c busy n n' H. destruct f as [|f]; [discriminate|]. rewrite inline_node_S in H.
  destruct n; try (inversion H; subst; repeat split; reflexivity);
  try (destruct (inline_body SC f c busy body); inversion H; subst; repeat split; reflexivity).
  destruct input as [bi|], output as [bo|];
  repeat match goal with H : context [inline_body SC f c busy ?b] |- _ => destruct (inline_body SC f c busy b) end;
  inversion H; subst; repeat split; reflexivity.
Qed.

Lemma inline_fold_none : forall rec c' busy body, fold_left (inline_step SC rec c' busy) body None = None.
Proof. intros. induction body as [|ch r IH]; [reflexivity|]. cbn [fold_left inline_step]. exact IH. Qed.

(* a statement that is neither uses nor grouping: add *)
Lemma body_step_plain : forall f c' busy acc ch, is_uses ch = false -> is_grouping ch = false ->
  body_step SC f c' busy acc ch = add_child acc (e_name (fst (to_entry SC f c' busy ch))) (to_entry SC f c' busy ch).
Proof. intros. destruct ch; try discriminate; reflexivity. Qed.

Lemma body_step_grouping : forall f c' busy acc ch, is_grouping ch = true ->
  body_step SC f c' busy acc ch = (fst acc, snd acc || snd (to_entry SC f c' busy ch)).
Proof.
  intros. destruct ch; try discriminate. unfold body_step.
  destruct (to_entry SC f c' busy (DGrouping gid name body)). reflexivity.
Qed.

End Splice.

(* ================================================================== T1: the reference expansion *)
Section Faithful.
Variable SC : schema.

(* to_entry of the statement kinds that hold a body, in terms of body_dir *)
Definition P1 (f : nat) : Prop :=
  forall c busy n n', inline_node SC f c busy n = Some n' ->
  forall f2 c2 busy2, f <= f2 -> to_entry SC f c busy n = to_entry SC f2 c2 busy2 n'.

Definition Q1 (f : nat) : Prop :=
  forall c' busy body out0 body',
  fold_left (inline_step SC (inline_node SC f) c' busy) body (Some out0) = Some body' ->
  exists rest', body' = out0 ++ rest' /\
    forall f2 ctx2 busy2 acc, f <= f2 ->
      fold_left (body_step SC f c' busy) body acc = fold_left (body_step SC f2 ctx2 busy2) rest' acc.

Lemma Q1_body_dir : forall f, Q1 f ->
  forall c busy body body', inline_body SC f c busy body = Some body' ->
  forall f2 c2 busy2, f <= f2 -> body_dir SC f c busy body = body_dir SC f2 c2 busy2 body'.
Proof.
  intros f HQ c busy body body' H f2 c2 busy2 Hf. unfold inline_body, inline_body_with in H.
  destruct (HQ _ _ _ _ _ H) as [rest' [E R]]. cbn [app] in E. subst rest'.
  unfold body_dir. apply R. assumption.
Qed.

Lemma P1_step : forall f, Q1 f -> P1 (S f).
Proof.
  intros f HQ c busy n n' H f2 c2 busy2 Hf. destruct f2 as [|f2]; [lia|]. assert (Hf' : f <= f2) by lia.
  rewrite inline_node_S in H. rewrite !to_entry_S.
  pose proof (Q1_body_dir f HQ c busy) as BD.
  destruct n; try (inversion H; subst; reflexivity);
  try (destruct (inline_body SC f c busy body) as [body'|] eqn:IB; [|discriminate]; inversion H; subst;
       rewrite (BD body body' IB f2 c2 busy2 Hf'); reflexivity).
  (* rpc *)
  assert (IO : forall k nm b b',
     match b with None => Some None | Some body => option_map Some (inline_body SC f c busy body) end = Some b' ->
     rpc_io SC f c busy k nm b = rpc_io SC f2 c2 busy2 k nm b').
  { intros k nm b b' E. unfold rpc_io. destruct b as [body|]; [|inversion E; reflexivity].
    destruct (inline_body SC f c busy body) as [body'|] eqn:IB; [|discriminate]. inversion E; subst.
    rewrite (BD body body' IB f2 c2 busy2 Hf'). reflexivity. }
  destruct (match input with None => Some None | Some body => _ end) as [i'|] eqn:EI; [|discriminate].
  destruct (match output with None => Some None | Some body => _ end) as [o'|] eqn:EO; [|discriminate].
  inversion H; subst.
  rewrite (IO KInput s_input input i' EI), (IO KOutput s_output output o' EO). reflexivity.
Qed.

Lemma Q1_step : forall f, P1 f -> (forall f0, f = S f0 -> Q1 f0) -> Q1 f.
Proof.
  intros f HP HQ c' busy. induction body as [|ch r IH]; intros out0 body' H.
  - cbn [fold_left] in H. inversion H; subst. exists []. rewrite app_nil_r. split; [reflexivity|]. reflexivity.
  - cbn [fold_left] in H.
    destruct (inline_step SC (inline_node SC f) c' busy (Some out0) ch) as [out1|] eqn:ST;
      [|rewrite inline_fold_none in H; discriminate].
    destruct (IH _ _ H) as [rest'' [E R]]. subst body'.
    unfold inline_step in ST.
    destruct (is_uses ch) eqn:U.
    + (* uses: the grouping's inlined statements *)
      destruct ch; try discriminate U.
      destruct (FindGrouping SC c' gname) as [[[gid gb] gc]|] eqn:FG; [|discriminate].
      destruct (existsb (Nat.eqb gid) busy) eqn:BZ; [discriminate|].
      destruct f as [|f0]; [cbn [inline_node] in ST; discriminate ST|].
      rewrite inline_node_S in ST.
      destruct (inline_body SC f0 gc (gid :: busy) gb) as [gb'|] eqn:IB; cbn [option_map] in ST; [|discriminate ST].
      inversion ST; subst out1.
      exists (gb' ++ rest''). split; [rewrite app_assoc; reflexivity|].
      intros f2 ctx2 busy2 acc Hf. cbn [fold_left]. rewrite fold_left_app.
      rewrite (uses_is_splice SC f0 c' busy acc gname gid gb gc FG BZ).
      unfold inline_body, inline_body_with in IB.
      destruct (HQ f0 eq_refl _ _ _ _ _ IB) as [rest0 [E0 R0]]. cbn [app] in E0. subst rest0.
      pose proof (R0 f2 ctx2 busy2 acc ltac:(lia)) as R0'. change (scope_ctx gc gb) with (inner_ctx gc gb) in R0'.
      rewrite R0'. apply R. assumption.
    + (* any other statement: itself, inlined *)
      assert (ST' : match inline_node SC f c' busy ch with Some ch' => Some (out0 ++ [ch']) | None => None end = Some out1)
        by (destruct ch; try discriminate U; exact ST).
      destruct (inline_node SC f c' busy ch) as [ch'|] eqn:IN; [|discriminate]. inversion ST'; subst out1.
      exists (ch' :: rest''). split; [rewrite <- app_assoc; reflexivity|].
      intros f2 ctx2 busy2 acc Hf. cbn [fold_left].
      destruct (inline_shape SC _ _ _ _ _ IN) as [_ [U' G']].
      pose proof (HP _ _ _ _ IN f2 ctx2 busy2 Hf) as TE.
      assert (STEP : body_step SC f c' busy acc ch = body_step SC f2 ctx2 busy2 acc ch').
      { destruct (is_grouping ch) eqn:G.
        - rewrite (body_step_grouping SC f c' busy acc ch G), (body_step_grouping SC f2 ctx2 busy2 acc ch') by congruence.
          rewrite TE. reflexivity.
        - rewrite (body_step_plain SC f c' busy acc ch U G), (body_step_plain SC f2 ctx2 busy2 acc ch' U') by congruence.
          rewrite TE. reflexivity. }
      rewrite STEP. apply R. assumption.
Qed.

Lemma P1_Q1 : forall f, P1 f /\ Q1 f.
Proof.
  induction f as [|f [IHP IHQ]].
  - assert (P0 : P1 0) by (intros c busy n n' H; discriminate H).
    split; [exact P0|]. apply Q1_step; [exact P0 | intros; discriminate].
  - assert (PS : P1 (S f)) by (apply P1_step; exact IHQ).
    split; [exact PS|]. apply Q1_step; [exact PS|]. intros f0 E. inversion E; subst. exact IHQ.
Qed.

(* T1: wherever inlining succeeds, building the entry tree of a statement equals building the entry tree of its
   inlined form -- same entry (names, kinds, types, defaults, constraints, nesting, child order) and same error
   flag -- in ANY context, with any busy set and any larger fuel: the inlined form no longer refers to a grouping *)
Theorem inline_faithful : forall f c busy n n',
  inline_node SC f c busy n = Some n' ->
  forall f2 c2 busy2, f <= f2 -> to_entry SC f c busy n = to_entry SC f2 c2 busy2 n'.
Proof. intros f. apply (proj1 (P1_Q1 f)). Qed.

Theorem inline_body_faithful : forall f c busy body body',
  inline_body SC f c busy body = Some body' ->
  forall f2 c2 busy2, f <= f2 -> body_dir SC f c busy body = body_dir SC f2 c2 busy2 body'.
Proof. intros f. apply Q1_body_dir. apply (proj2 (P1_Q1 f)). Qed.

(* ================================================================== T3: unknown or cyclic => error *)
Definition P3 (f : nat) : Prop :=
  forall c busy n, inline_node SC f c busy n = None -> snd (to_entry SC f c busy n) = true.
Definition Q3 (f : nat) : Prop :=
  forall c' busy body out0 acc,
  fold_left (inline_step SC (inline_node SC f) c' busy) body (Some out0) = None ->
  snd (fold_left (body_step SC f c' busy) body acc) = true.

Lemma Q3_body_dir : forall f, Q3 f -> forall c busy body,
  inline_body SC f c busy body = None -> snd (body_dir SC f c busy body) = true.
Proof. intros f HQ c busy body H. unfold body_dir. eapply HQ. exact H. Qed.

Lemma P3_step : forall f, Q3 f -> P3 (S f).
Proof.
  intros f HQ c busy n H. rewrite inline_node_S in H. rewrite to_entry_S.
  pose proof (Q3_body_dir f HQ c busy) as BD.
  destruct n; try discriminate H; try reflexivity;
  try (destruct (inline_body SC f c busy body) as [body'|] eqn:IB; [discriminate H|];
       specialize (BD body IB); destruct (body_dir SC f c busy body) as [d e]; cbn [snd] in *; subst e;
       try destruct (semCheckMax maxE); reflexivity).
  (* rpc *)
  assert (IO : forall k nm b,
     match b with None => Some None | Some body => option_map Some (inline_body SC f c busy body) end = None ->
     snd (rpc_io SC f c busy k nm b) = true).
  { intros k nm b E. unfold rpc_io. destruct b as [body|]; [|discriminate].
    destruct (inline_body SC f c busy body) as [body'|] eqn:IB; [discriminate|].
    specialize (BD body IB). destruct (body_dir SC f c busy body) as [d e]. exact BD. }
  destruct (match input with None => Some None | Some body => _ end) as [i'|] eqn:EI.
  - destruct (match output with None => Some None | Some body => _ end) as [o'|] eqn:EO; [discriminate|].
    pose proof (IO KOutput s_output output EO) as X.
    destruct (rpc_io SC f c busy KInput s_input input) as [i ei].
    destruct (rpc_io SC f c busy KOutput s_output output) as [o eo]. cbn [snd] in *. subst. apply orb_true_r.
  - pose proof (IO KInput s_input input EI) as X.
    destruct (rpc_io SC f c busy KInput s_input input) as [i ei].
    destruct (rpc_io SC f c busy KOutput s_output output) as [o eo]. cbn [snd] in *. subst. reflexivity.
Qed.

Lemma Q3_step : forall f, P3 f -> Q3 f.
Proof.
  intros f HP c' busy. induction body as [|ch r IH]; intros out0 acc H; [discriminate H|].
  cbn [fold_left] in *.
  destruct (inline_step SC (inline_node SC f) c' busy (Some out0) ch) as [out1|] eqn:ST; [apply (IH _ _ H)|].
  apply fold_step_sticky. apply body_step_flag.
  unfold inline_step in ST. unfold step_items.
  destruct (is_uses ch) eqn:U.
  - destruct ch; try discriminate U.
    destruct (FindGrouping SC c' gname) as [[[gid gb] gc]|]; [|reflexivity].
    destruct (existsb (Nat.eqb gid) busy); [reflexivity|]. cbn [snd].
    destruct (inline_node SC f gc (gid :: busy) (DGrouping gid [] gb)) as [n'|] eqn:IN; [|apply HP; exact IN].
    destruct (inline_shape SC _ _ _ _ _ IN) as [_ [_ G]]. destruct n'; try discriminate G. discriminate ST.
  - assert (ST' : match inline_node SC f c' busy ch with Some ch' => Some (out0 ++ [ch']) | None => None end = None)
      by (destruct ch; try discriminate U; exact ST).
    destruct (inline_node SC f c' busy ch) as [ch'|] eqn:IN; [discriminate|].
    pose proof (HP _ _ _ IN) as E. destruct ch; try discriminate U; exact E.
Qed.

Lemma P3_Q3 : forall f, P3 f /\ Q3 f.
Proof.
  induction f as [|f [IHP IHQ]].
  - assert (P0 : P3 0) by (intros c busy n H; reflexivity). split; [exact P0 | apply Q3_step; exact P0].
  - assert (PS : P3 (S f)) by (apply P3_step; exact IHQ). split; [exact PS | apply Q3_step; exact PS].
Qed.

(* T3: wherever the reference expansion fails -- an unknown grouping, a grouping reached again while it is being
   expanded (a cycle), or the fuel running out -- the entry is built with its error flag set *)
Theorem inline_none_is_error : forall f c busy n,
  inline_node SC f c busy n = None -> snd (to_entry SC f c busy n) = true.
Proof. intros f. apply (proj1 (P3_Q3 f)). Qed.

Theorem inline_body_none_is_error : forall f c busy body,
  inline_body SC f c busy body = None -> snd (body_dir SC f c busy body) = true.
Proof. intros f. apply Q3_body_dir. apply (proj2 (P3_Q3 f)). Qed.

End Faithful.

(* ------------------------------------------------------------------ module level *)
Section ModuleLevel.
Variable SC : schema.

(* T1 for the statement list of a module, a submodule or an augment: its tree (before includes and augments are
   merged in) is the tree of the inlined statements *)
Theorem inline_stmts_faithful : forall m scopes body body',
  inline_stmts SC m scopes body = Some body' ->
  forall c2 busy2, body_entry SC m scopes body = to_entry SC (entry_fuel SC) c2 busy2 (DGrouping O [] body').
Proof.
  intros m scopes body body' H c2 busy2. unfold inline_stmts in H. unfold body_entry.
  destruct (inline_node SC (entry_fuel SC) {| g_mod := m; g_scopes := scopes |} [] (DGrouping O [] body)) as [n'|] eqn:IN;
    [|discriminate].
  rewrite (inline_faithful SC _ _ _ _ _ IN (entry_fuel SC) c2 busy2 (Nat.le_refl _)).
  destruct (entry_fuel SC) as [|f]; [discriminate IN|]. rewrite inline_node_S in IN.
  destruct (inline_body SC f _ [] body) as [b'|]; [|discriminate]. cbn [option_map] in IN. inversion IN; subst n'.
  inversion H; subst. reflexivity.
Qed.

Lemma inline_stmts_none : forall m scopes body,
  inline_stmts SC m scopes body = None -> snd (body_entry SC m scopes body) = true.
Proof.
  intros m scopes body H. unfold inline_stmts in H. unfold body_entry.
  destruct (inline_node SC (entry_fuel SC) {| g_mod := m; g_scopes := scopes |} [] (DGrouping O [] body)) as [n'|] eqn:IN.
  - destruct (inline_shape SC _ _ _ _ _ IN) as [_ [_ G]]. destruct n'; try discriminate G. discriminate H.
  - apply inline_none_is_error. exact IN.
Qed.

Lemma merge_dir_err_sticky' : forall ns items d, snd (merge_dir (d, true) ns items) = true.
Proof.
  intros ns. unfold merge_dir. induction items as [|kv r IH]; intros d; [reflexivity|]. cbn [fold_left].
  destruct (lookup (fst kv) d); apply IH.
Qed.

(* an error in a module's own statements is an error of the module entry *)
Lemma module_dir_err_own : forall ic f merged m,
  snd (body_entry SC m [] (m_body m)) = true -> snd (fst (module_dir SC ic (S f) merged m)) = true.
Proof.
  intros ic f merged m H. cbn [module_dir].
  destruct (body_entry SC m [] (m_body m)) as [me err]. cbn [snd] in H. subst err.
  apply fold_left_inv with (I := fun st : (list (str * entry) * bool) * list str => snd (fst st) = true); [|reflexivity].
  intros [[d e] mg] sn E. cbn [fst snd] in E. subst e.
  destruct (find_module SC sn) as [sm|]; [|reflexivity].
  destruct (mem _ mg); [reflexivity|].
  destruct (_ && _).
  - destruct (mem _ mg); [reflexivity|].
    destruct (module_dir SC ic f _ sm) as [[sd serr] mg'].
    pose proof (merge_dir_err_sticky' None sd d) as M.
    destruct (merge_dir (d, true) None sd) as [d' e']. cbn [snd] in M. subst e'. reflexivity.
  - destruct ic; reflexivity.
Qed.

Lemma module_entry_err_own : forall ic m,
  snd (body_entry SC m [] (m_body m)) = true -> snd (module_entry SC ic m) = true.
Proof.
  intros ic m H. unfold module_entry.
  pose proof (module_dir_err_own ic (length SC) [] m H) as E.
  destruct (module_dir SC ic (S (length SC)) [] m) as [[d err] mg]. cbn [fst snd] in E. subst err. reflexivity.
Qed.

End ModuleLevel.

From GY Require Import Spec.C04 Proofs.TreeInvProofs.

(* ================================================================== T3 at the level of Process *)
Theorem inline_fail_process_error : forall SC ic ins order m,
  In m SC -> inline_stmts SC m [] (m_body m) = None -> Process SC ic ins order = RErr.
Proof.
  intros SC ic ins order m Hm H. apply Process_err_iff. right. left. exists m. split; [assumption|].
  apply module_entry_err_own. apply inline_stmts_none. assumption.
Qed.

(* ================================================================== namespace of the copies *)
(* no node built by ToEntry carries a namespace stamp (only Augment stamps): the copies a uses makes belong to the
   namespace of the tree they are in, i.e. of the module that uses the grouping *)
Inductive NoStamp : entry -> Prop :=
| NoStamp_node : forall e,
    e_ns e = None ->
    (forall d, e_dir e = Some d -> Forall (fun kv => NoStamp (snd kv)) d) ->
    (forall i o, e_rpc e = Some (i, o) -> (forall x, i = Some x -> NoStamp x) /\ (forall x, o = Some x -> NoStamp x)) ->
    NoStamp e.

Lemma ns_walk_nostamp : forall steps e best is_root, NoStamp e -> ns_walk e steps best is_root = best.
Proof.
  induction steps as [|st r IH]; intros e best is_root H; inversion H as [e' N D R]; subst; cbn [ns_walk]; rewrite N.
  - destruct is_root; reflexivity.
  - assert (B : (if is_root then best else best) = best) by (destruct is_root; reflexivity). rewrite B.
    destruct st.
    + destruct (e_dir e) as [d|] eqn:E; [|reflexivity]. destruct (lookup n d) as [c|] eqn:L; [|reflexivity].
      apply IH. specialize (D d eq_refl). rewrite Forall_forall in D. apply (D _ (lookup_in _ _ _ L)).
    + destruct (e_rpc e) as [[[i|] o]|] eqn:E; try reflexivity. apply IH. destruct (R _ _ eq_refl) as [A _]. apply A. reflexivity.
    + destruct (e_rpc e) as [[i [o|]]|] eqn:E; try reflexivity. apply IH. destruct (R _ _ eq_refl) as [_ A]. apply A. reflexivity.
Qed.

Lemma NoStamp_plain : forall n k c m df u t ky la, NoStamp (Entry n k c m df u t ky la None None None).
Proof. intros. constructor; cbn; [reflexivity | intros; discriminate | intros; discriminate]. Qed.

Lemma NoStamp_dir : forall n k c m df u t ky la d,
  Forall (fun kv => NoStamp (snd kv)) d -> NoStamp (Entry n k c m df u t ky la None (Some d) None).
Proof. intros. constructor; cbn; [reflexivity | intros d' E; inversion E; subst; assumption | intros; discriminate]. Qed.

Section NoStampToEntry.
Variable SC : schema.
Let okd (acc : list (str * entry) * bool) := Forall (fun kv => NoStamp (snd kv)) (fst acc).

Lemma merge_dir_nostamp : forall items acc, okd acc -> Forall (fun kv => NoStamp (snd kv)) items -> okd (merge_dir acc None items).
Proof.
  induction items as [|kv r IH]; intros acc H HI; [assumption|]. rewrite merge_dir_cons. inversion HI; subst.
  apply IH; [|assumption]. unfold okd, mstep in *. destruct (lookup (fst kv) (fst acc)); cbn [fst]; [assumption|].
  apply Forall_app. split; [assumption | constructor; [assumption | constructor]].
Qed.

Lemma body_step_nostamp : forall f,
  (forall c busy n, NoStamp (fst (to_entry SC f c busy n))) ->
  forall c' busy acc ch, okd acc -> okd (body_step SC f c' busy acc ch).
Proof.
  intros f IH c' busy acc ch H. rewrite body_step_items. unfold merge_items. unfold okd. cbn [fst].
  apply merge_dir_nostamp; [assumption|]. unfold step_items.
  destruct ch; try (cbn [fst]; constructor; [apply IH | constructor]); cbn [fst]; try constructor.
  destruct (FindGrouping SC c' gname) as [[[gid gb] gc]|]; [|constructor].
  destruct (existsb (Nat.eqb gid) busy); [constructor|]. cbn [fst].
  specialize (IH gc (gid :: busy) (DGrouping gid [] gb)). inversion IH as [e' N D R]; subst.
  destruct (e_dir (fst (to_entry SC f gc (gid :: busy) (DGrouping gid [] gb)))) as [d|] eqn:E; [|constructor].
  apply (D d eq_refl).
Qed.

Lemma body_dir_nostamp : forall f,
  (forall c busy n, NoStamp (fst (to_entry SC f c busy n))) ->
  forall c busy body, Forall (fun kv => NoStamp (snd kv)) (fst (body_dir SC f c busy body)).
Proof.
  intros f IH c busy body. unfold body_dir.
  apply fold_left_inv with (I := okd); [intros; apply body_step_nostamp; assumption | constructor].
Qed.

Theorem to_entry_nostamp : forall fuel c busy n, NoStamp (fst (to_entry SC fuel c busy n)).
Proof.
  induction fuel as [|f IH]; intros.
  - rewrite to_entry_0. apply NoStamp_dir. constructor.
  - rewrite to_entry_S. pose proof (body_dir_nostamp f IH c busy) as BD.
    destruct n;
    try (specialize (BD body); destruct (body_dir SC f c busy body) as [d e]; try destruct (semCheckMax maxE);
         cbn [fst] in *; unfold dir_entry; apply NoStamp_dir; assumption).
    + apply NoStamp_plain.
    + destruct (semCheckMax maxE). apply NoStamp_plain.
    + cbn [fst]. apply NoStamp_dir. constructor.
    + apply NoStamp_dir. constructor.
    + assert (IO : forall k nm b x, fst (rpc_io SC f c busy k nm b) = Some x -> NoStamp x).
      { intros k nm b x. unfold rpc_io. destruct b as [body|]; [|discriminate].
        specialize (BD body). destruct (body_dir SC f c busy body) as [d e]. cbn [fst] in *.
        intro E. inversion E; subst. unfold dir_entry. apply NoStamp_dir. assumption. }
      pose proof (IO KInput s_input input) as II. pose proof (IO KOutput s_output output) as OO.
      destruct (rpc_io SC f c busy KInput s_input input) as [i ei].
      destruct (rpc_io SC f c busy KOutput s_output output) as [o eo]. cbn [fst] in *.
      constructor; cbn [e_ns e_dir e_rpc].
      * reflexivity.
      * intros d E. inversion E; subst. constructor.
      * intros i' o' E.
        assert (E' : i' = i /\ o' = o).
        { destruct i, o; inversion E; auto. }
        destruct E'; subst. split; intros x Hx; subst; [apply II | apply OO]; reflexivity.
Qed.

End NoStampToEntry.

(* in a tree without stamps the namespace of every position is the one of the module whose tree it is *)
Theorem Namespace_unstamped : forall SC F p root,
  lookup (fst p) F = Some root -> NoStamp root ->
  Namespace SC F p = match find_module SC (fst p) with Some m => owner_ns SC m | None => [] end.
Proof.
  intros SC F p root L H. unfold Namespace. rewrite L. rewrite (ns_walk_nostamp _ _ _ _ H). reflexivity.
Qed.
